#!/bin/bash
# usage: sweep.sh <tier> <seed> [<seed>...]   runs every claimed check at each seed; prints non-HELD outcomes
tier=$1; shift
cd "$(dirname "$0")"
props=$(python3 -c "import json;print(' '.join(c['property_id'] for c in json.load(open('MANIFEST.json'))['checks']))")
for seed in "$@"; do
  for p in $props; do
    out=$(VERIF_SEED=$seed ./vcheck $p $tier 2>&1); rc=$?
    line=$(echo "$out" | grep -E '^(HELD|FAILED|INCONCLUSIVE)' | tail -1)
    echo "seed=$seed $p rc=$rc ${line:0:200}"
    if [ $rc -ne 0 ]; then echo "$out" | grep -A2 '^VIOLATION' | head -12; mkdir -p sweepfail; cp -r work/$p sweepfail/$p-seed$seed 2>/dev/null; fi
  done
done
