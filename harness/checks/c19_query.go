package checks

import (
	"bytes"
	"encoding/base64"
	"encoding/json"
	"fmt"
	"math"
	"math/big"
	"net/http"
	"net/http/httptest"
	"net/url"
	"reflect"
	"strings"
	"unicode/utf8"

	"github.com/creachadair/jrpc2/jhttp"

	"verif/harness/vt"
)

// ---------------------------------------------------------------------------
// Reference query-value typer, written from the ParseQuery doc comment:
//
//	"..."                          JSON string (RFC 8259 escapes) or an error
//	[+-]?[0-9]+(\.[0-9]+)?         number: int64 when there is no point and the
//	                               value is in range, float64 otherwise
//	true | false | null            constants
//	'...'                          base64 bytes or an error
//	anything else                  the literal string
//
// The reference returns the SET of acceptable outcomes of a value; where the
// documentation leaves the outcome open the set has more than one element.
// ---------------------------------------------------------------------------

type c19kind uint8

const (
	c19Err c19kind = iota
	c19Str
	c19AnyStr // some string, contents not specified (lone surrogates, invalid UTF-8)
	c19Int
	c19Float
	c19Bool
	c19Null
	c19Bytes
)

var c19kindName = [...]string{"error", "string", "anystring", "int64", "float64", "bool", "null", "bytes"}

type c19out struct {
	kind c19kind
	s    string
	i    int64
	f    float64
	b    bool
	by   []byte
}

func (o c19out) String() string {
	switch o.kind {
	case c19Str:
		return fmt.Sprintf("string %q", o.s)
	case c19Int:
		return fmt.Sprintf("int64 %d", o.i)
	case c19Float:
		return fmt.Sprintf("float64 %v", o.f)
	case c19Bool:
		return fmt.Sprintf("bool %v", o.b)
	case c19Bytes:
		return fmt.Sprintf("bytes %q", o.by)
	}
	return c19kindName[o.kind]
}

func c19outs(os []c19out) string {
	var ss []string
	for _, o := range os {
		ss = append(ss, o.String())
	}
	return strings.Join(ss, " | ")
}

func c19isDigits(s string) bool {
	if s == "" {
		return false
	}
	for i := 0; i < len(s); i++ {
		if s[i] < '0' || s[i] > '9' {
			return false
		}
	}
	return true
}

// c19number recognises the documented number syntax (strict) and the
// borderline forms with a missing integer or fraction part (lenient).
func c19number(v string) (strict, lenient bool, ip, fp string, neg, point bool) {
	s := v
	if s != "" && (s[0] == '+' || s[0] == '-') {
		neg = s[0] == '-'
		s = s[1:]
	}
	ip, fp, point = strings.Cut(s, ".")
	if !point {
		return c19isDigits(ip), false, ip, "", neg, false
	}
	if c19isDigits(ip) && c19isDigits(fp) {
		return true, false, ip, fp, neg, true
	}
	if (ip == "" || c19isDigits(ip)) && (fp == "" || c19isDigits(fp)) && ip+fp != "" {
		return false, true, ip, fp, neg, true
	}
	return false, false, "", "", false, false
}

// c19nearest returns the float64 nearest to the decimal ip.fp (sign applied).
func c19nearest(ip, fp string, neg bool) (float64, bool) {
	if ip == "" {
		ip = "0"
	}
	if fp == "" {
		fp = "0"
	}
	r, ok := new(big.Rat).SetString(ip + "." + fp)
	if !ok {
		return 0, false
	}
	if neg {
		r.Neg(r)
	}
	f, _ := r.Float64()
	return f, true
}

// c19ovfThreshold is 2^1024 - 2^970: the smallest magnitude that IEEE 754
// round-to-nearest-even takes to infinity (MaxFloat64 plus half an ulp).
var c19ovfThreshold = func() *big.Int {
	a := new(big.Int).Lsh(big.NewInt(1), 1024)
	return a.Sub(a, new(big.Int).Lsh(big.NewInt(1), 970))
}()

// c19overflows reports, by exact integer arithmetic, whether the decimal
// ip.fp is too large in magnitude to have a finite nearest float64. The
// fraction only matters when the integer part is exactly threshold-1, and
// then it cannot reach the threshold, so the integer part decides.
func c19overflows(ip, fp string) bool {
	ip = strings.TrimLeft(ip, "0")
	if len(ip) < 309 {
		return false
	}
	z, ok := new(big.Int).SetString(ip, 10)
	return ok && z.Cmp(c19ovfThreshold) >= 0
}

// c19jsonString decodes a double-quoted JSON string by hand (RFC 8259).
// ok=false: not a valid JSON string. vague=true: valid, but contains a lone
// surrogate escape or invalid UTF-8, whose decoding encoding/json replaces
// with U+FFFD; the exact result is then left open.
func c19jsonString(v string) (dec string, ok, vague bool) {
	in := v[1 : len(v)-1]
	var sb strings.Builder
	for i := 0; i < len(in); {
		ch := in[i]
		switch {
		case ch < 0x20 || ch == '"':
			return "", false, false
		case ch == '\\':
			if i+1 >= len(in) {
				return "", false, false
			}
			e := in[i+1]
			i += 2
			switch e {
			case '"', '\\', '/':
				sb.WriteByte(e)
			case 'b':
				sb.WriteByte('\b')
			case 'f':
				sb.WriteByte('\f')
			case 'n':
				sb.WriteByte('\n')
			case 'r':
				sb.WriteByte('\r')
			case 't':
				sb.WriteByte('\t')
			case 'u':
				cu, n := c19hex4(in[i:])
				if n == 0 {
					return "", false, false
				}
				i += 4
				switch {
				case cu >= 0xD800 && cu < 0xDC00:
					if strings.HasPrefix(in[i:], `\u`) {
						if lo, n2 := c19hex4(in[i+2:]); n2 != 0 && lo >= 0xDC00 && lo < 0xE000 {
							i += 6
							sb.WriteRune(0x10000 + (rune(cu)-0xD800)<<10 + (rune(lo) - 0xDC00))
							continue
						}
					}
					vague = true
				case cu >= 0xDC00 && cu < 0xE000:
					vague = true
				default:
					sb.WriteRune(rune(cu))
				}
			default:
				return "", false, false
			}
		case ch < utf8.RuneSelf:
			sb.WriteByte(ch)
			i++
		default:
			r, n := utf8.DecodeRuneInString(in[i:])
			if r == utf8.RuneError && n == 1 {
				vague = true
			}
			sb.WriteString(in[i : i+n])
			i += n
		}
	}
	return sb.String(), true, vague
}

func c19hex4(s string) (uint32, int) {
	if len(s) < 4 {
		return 0, 0
	}
	var v uint32
	for i := 0; i < 4; i++ {
		c := s[i]
		switch {
		case c >= '0' && c <= '9':
			v = v<<4 | uint32(c-'0')
		case c >= 'a' && c <= 'f':
			v = v<<4 | uint32(c-'a'+10)
		case c >= 'A' && c <= 'F':
			v = v<<4 | uint32(c-'A'+10)
		default:
			return 0, 0
		}
	}
	return v, 4
}

const c19b64 = "ABCDEFGHIJKLMNOPQRSTUVWXYZabcdefghijklmnopqrstuvwxyz0123456789+/"

// c19base64 decodes the inside of a single-quoted value by hand (RFC 4648
// standard alphabet). valid=false: cannot be base64 in any reading. canon:
// the padding is exactly the canonical one and the unused trailing bits are
// zero (every base64 decoder must accept it).
func c19base64(in string) (dec []byte, valid, canon bool) {
	body := strings.TrimRight(in, "=")
	pad := len(in) - len(body)
	var acc uint32
	nbits := 0
	for i := 0; i < len(body); i++ {
		k := strings.IndexByte(c19b64, body[i])
		if k < 0 {
			return nil, false, false
		}
		acc = acc<<6 | uint32(k)
		nbits += 6
		if nbits >= 8 {
			nbits -= 8
			dec = append(dec, byte(acc>>uint(nbits)))
			acc &= 1<<uint(nbits) - 1
		}
	}
	if len(body)%4 == 1 {
		return nil, false, false
	}
	if dec == nil {
		dec = []byte{}
	}
	canon = acc == 0 && pad == (4-len(body)%4)%4
	return dec, true, canon
}

// c19classify returns the acceptable outcomes for one query value.
func c19classify(v string) []c19out {
	lit := c19out{kind: c19Str, s: v}
	errO := c19out{kind: c19Err}
	n := len(v)
	dq0, dq1 := n > 0 && v[0] == '"', n > 0 && v[n-1] == '"'
	sq0, sq1 := n > 0 && v[0] == '\'', n > 0 && v[n-1] == '\''
	switch {
	case n >= 2 && dq0 && dq1:
		dec, ok, vague := c19jsonString(v)
		if !ok {
			return []c19out{errO}
		}
		if vague {
			return []c19out{{kind: c19AnyStr}, errO}
		}
		return []c19out{{kind: c19Str, s: dec}}
	case dq0 || dq1:
		// A double quote on one side only: the documentation says neither
		// "JSON string" nor "error"; the literal string and an error are both
		// accepted (the implementation reports "missing string quote").
		return []c19out{errO, lit}
	}
	if strict, lenient, ip, fp, neg, point := c19number(v); strict || lenient {
		f, ok := c19nearest(ip, fp, neg)
		if !ok {
			return []c19out{lit}
		}
		if c19overflows(ip, fp) || math.IsInf(f, 0) || math.IsNaN(f) {
			// The magnitude has no finite float64 (it rounds past MaxFloat64).
			// A JSON number must be finite, so the value cannot be typed as a
			// number; what is left is the catch-all rule: the literal string.
			// (Without a fraction the digits might still be an int64: never,
			// an int64 has at most 19 digits.)
			return []c19out{lit}
		}
		fo := c19out{kind: c19Float, f: f}
		if lenient {
			return []c19out{fo, lit} // .5  5.  +.5
		}
		if point {
			return []c19out{fo}
		}
		z, _ := new(big.Int).SetString(ip, 10)
		if neg {
			z.Neg(z)
		}
		if z.IsInt64() {
			return []c19out{{kind: c19Int, i: z.Int64()}}
		}
		return []c19out{fo, lit} // out of int64 range
	}
	switch v {
	case "true":
		return []c19out{{kind: c19Bool, b: true}}
	case "false":
		return []c19out{{kind: c19Bool, b: false}}
	case "null":
		return []c19out{{kind: c19Null}}
	}
	switch {
	case n >= 2 && sq0 && sq1:
		if strings.ContainsAny(v, "\r\n") {
			return []c19out{errO, {kind: c19Bytes, by: nil}, lit} // decoder-specific; not generated
		}
		dec, valid, canon := c19base64(v[1 : n-1])
		if !valid {
			return []c19out{errO}
		}
		bo := c19out{kind: c19Bytes, by: dec}
		if canon {
			return []c19out{bo}
		}
		// unpadded / oddly padded / non-zero trailing bits: decoders differ
		return []c19out{bo, errO}
	case sq0 || sq1:
		return []c19out{errO, lit} // as for the one-sided double quote
	}
	return []c19out{lit}
}

// c19matchGo compares a Go value produced by ParseQuery with one outcome.
func c19matchGo(got any, present bool, o c19out) bool {
	if !present {
		return false
	}
	switch o.kind {
	case c19Str:
		s, ok := got.(string)
		return ok && s == o.s
	case c19AnyStr:
		_, ok := got.(string)
		return ok
	case c19Int:
		z, ok := got.(int64)
		return ok && z == o.i
	case c19Float:
		f, ok := got.(float64)
		return ok && f == o.f
	case c19Bool:
		b, ok := got.(bool)
		return ok && b == o.b
	case c19Null:
		return got == nil
	case c19Bytes:
		b, ok := got.([]byte)
		return ok && bytes.Equal(b, o.by)
	}
	return false
}

// c19matchJSON compares a decoded JSON value (UseNumber) with one outcome.
func c19matchJSON(got any, present bool, o c19out) bool {
	if !present {
		return false
	}
	switch o.kind {
	case c19Str:
		s, ok := got.(string)
		if ok && !utf8.ValidString(o.s) {
			return true // encoding/json replaces invalid UTF-8 by U+FFFD
		}
		return ok && s == o.s
	case c19AnyStr:
		_, ok := got.(string)
		return ok
	case c19Int:
		num, ok := got.(json.Number)
		if !ok {
			return false
		}
		z, ok := new(big.Int).SetString(string(num), 10)
		return ok && z.IsInt64() && z.Int64() == o.i
	case c19Float:
		num, ok := got.(json.Number)
		if !ok {
			return false
		}
		r, ok := new(big.Rat).SetString(string(num))
		if !ok {
			return false
		}
		f, _ := r.Float64()
		return f == o.f
	case c19Bool:
		b, ok := got.(bool)
		return ok && b == o.b
	case c19Null:
		return got == nil
	case c19Bytes:
		s, ok := got.(string)
		return ok && s == base64.StdEncoding.EncodeToString(o.by)
	}
	return false
}

// ---------------------------------------------------------------------------
// Inputs
// ---------------------------------------------------------------------------

// c19alphaX is the alphabet of the exhaustive enumeration: the alphabet of
// DESIGN.md plus the JSON escape character, base64 padding and two more
// letter-case variants of the reserved words.
var c19alphaX = []string{
	"0", "1", "9", ".", "-", "+", "e", "E", "x", "_", `"`, "'", "a",
	"inf", "Inf", "nan", "NaN", "true", "false", "null", "Infinity", "0x", "p",
	`\`, "=", `\n`, "True", "NULL",
}

// c19alphaS extends it for the seeded samples of longer values.
var c19alphaS = append(append([]string(nil), c19alphaX...),
	"TRUE", "False", "FALSE", "Null", "INF", "NAN", "iNf", "nAn", "INFINITY", "infinity",
	" ", "&", "%", "/", "A", "Z", "u", "5", "00", "é", "#", "?", ";", `\u00e9`, `\ud83d\ude00`, "==", "QQ", "aGk",
)

// symbol classes for the distinct-shape signature
func c19class(sym string) byte {
	switch sym {
	case "0", "1", "9", "5", "00":
		return 'd'
	case ".":
		return '.'
	case "-", "+":
		return 's'
	case "e", "E":
		return 'e'
	case "x", "0x", "p", "_":
		return 'h'
	case `"`:
		return 'Q'
	case "'":
		return 'q'
	case `\`, `\n`, `\u00e9`, `\ud83d\ude00`:
		return 'b'
	case "=", "==":
		return '='
	case "true", "false", "null":
		return 'c'
	case "a", "A", "Z", "u", "QQ", "aGk":
		return 'a'
	case " ", "&", "%", "/", "#", "?", ";", "é":
		return 'u'
	}
	return 'w' // reserved-word look-alikes: inf nan Infinity True NULL ...
}

// c19paths returns raw URL paths (as written on the request line) with the
// method name each must produce ("" = must be rejected).
type c19path struct{ raw, method string }

func c19paths() []c19path {
	segs := []string{"/", "a", ".", "%2F", ""}
	seen := map[string]bool{}
	var out []c19path
	add := func(raw string) {
		if seen[raw] {
			return
		}
		seen[raw] = true
		dec := strings.ReplaceAll(raw, "%2F", "/")
		out = append(out, c19path{raw: raw, method: strings.Trim(dec, "/")})
	}
	add("")
	seqs(len(segs), 1, 3, func(idx []int) bool {
		raw := "/"
		for _, k := range idx {
			raw += segs[k]
		}
		add(raw)
		return true
	})
	return out
}

var c19pathList = c19paths()

// c19goodPaths are the paths with a non-empty method.
var c19goodPaths = func() (out []c19path) {
	for _, p := range c19pathList {
		if p.method != "" {
			out = append(out, p)
		}
	}
	return
}()

var c19keys = []string{"x", "y", "", "a b", "k=&v", "é", "X", "+", "x[]", `"q"`}

type c19pair struct{ k, v string }

func c19encode(pairs []c19pair) string {
	var parts []string
	for _, p := range pairs {
		parts = append(parts, url.QueryEscape(p.k)+"="+url.QueryEscape(p.v))
	}
	return strings.Join(parts, "&")
}

// c19input is one HTTP request to evaluate.
type c19input struct {
	path     c19path
	query    []c19pair // URL query, in order
	body     []c19pair // POST form body (nil = GET)
	rawQuery string    // if set, used verbatim instead of query (malformed queries)
	badQuery bool      // rawQuery cannot be parsed by a form decoder
}

func (in c19input) target() string {
	t := "http://h.invalid" + in.path.raw
	q := in.rawQuery
	if q == "" {
		q = c19encode(in.query)
	}
	if q != "" || in.query != nil {
		t += "?" + q
	}
	return t
}

func (in c19input) request() *http.Request {
	if in.body != nil {
		req := httptest.NewRequest("POST", in.target(), strings.NewReader(c19encode(in.body)))
		req.Header.Set("Content-Type", "application/x-www-form-urlencoded")
		return req
	}
	return httptest.NewRequest("GET", in.target(), nil)
}

func (in c19input) String() string {
	if in.body != nil {
		return fmt.Sprintf("POST %s body=%q", in.target(), c19encode(in.body))
	}
	return "GET " + in.target()
}

// first returns the first value of every key (body parameters precede URL
// parameters, which is what http.Request.ParseForm documents).
func (in c19input) first() (keys []string, val map[string]string) {
	val = map[string]string{}
	for _, p := range append(append([]c19pair(nil), in.body...), in.query...) {
		if _, ok := val[p.k]; !ok {
			val[p.k] = p.v
			keys = append(keys, p.k)
		}
	}
	return
}

// c19expect is the reference verdict for an input under ParseQuery.
type c19expect struct {
	mustErr bool                // every acceptable outcome is an error
	mayErr  bool                // an error is acceptable
	keys    []string            // parameter keys, when no error
	outs    map[string][]c19out // acceptable outcomes per key
	method  string
}

func c19reference(in c19input) c19expect {
	ex := c19expect{method: in.path.method, outs: map[string][]c19out{}}
	if in.path.method == "" || in.badQuery {
		ex.mustErr, ex.mayErr = true, true
		return ex
	}
	keys, val := in.first()
	ex.keys = keys
	for _, k := range keys {
		os := c19classify(val[k])
		ex.outs[k] = os
		onlyErr := true
		for _, o := range os {
			if o.kind == c19Err {
				ex.mayErr = true
			} else {
				onlyErr = false
			}
		}
		if onlyErr {
			ex.mustErr = true
		}
	}
	return ex
}

type c19parsed struct {
	method string
	params any
	err    error
	panicV any
}

func c19call(parse func(*http.Request) (string, any, error), req *http.Request) (out c19parsed) {
	defer func() {
		if p := recover(); p != nil {
			out.panicV = p
		}
	}()
	out.method, out.params, out.err = parse(req)
	return
}

// c19checkQuery evaluates ParseQuery on one input against the reference.
// It returns the reference verdict (for the counters).
func c19checkQuery(c *vt.Ctx, in c19input) c19expect {
	ex := c19reference(in)
	got := c19call(jhttp.ParseQuery, in.request())
	c.Eval(1)
	if got.panicV != nil {
		c.Failf("ParseQuery panicked on %s: %v", in, got.panicV)
		return ex
	}
	if got.err != nil {
		if !ex.mayErr {
			c.Failf("ParseQuery(%s) failed with %q; the documented rules give %s", in, got.err, c19want(ex))
		}
		return ex
	}
	if ex.mustErr {
		c.Failf("ParseQuery(%s) succeeded with method %q params %#v; expected an error (%s)", in, got.method, got.params, c19want(ex))
		return ex
	}
	if got.method == "" || got.method != ex.method {
		c.Failf("ParseQuery(%s): method %q, want %q (path trimmed of slashes, non-empty)", in, got.method, ex.method)
	}
	var m map[string]any
	switch p := got.params.(type) {
	case nil:
	case map[string]any:
		m = p
	default:
		c.Failf("ParseQuery(%s): params has type %T, want map[string]any", in, got.params)
		return ex
	}
	if len(m) != len(ex.keys) {
		c.Failf("ParseQuery(%s): %d parameters %#v, want keys %q", in, len(m), m, ex.keys)
		return ex
	}
	bits, err := json.Marshal(got.params)
	if err != nil {
		c.Failf("ParseQuery(%s): params %#v cannot be marshalled to JSON: %v", in, got.params, err)
		return ex
	}
	var back map[string]any
	if len(ex.keys) > 0 {
		dec := json.NewDecoder(bytes.NewReader(bits))
		dec.UseNumber()
		if err := dec.Decode(&back); err != nil {
			c.Failf("ParseQuery(%s): marshalled params %s do not decode as a JSON object: %v", in, bits, err)
			return ex
		}
	}
	for _, k := range ex.keys {
		gv, present := m[k]
		jv, jpresent := back[k]
		ok := false
		for _, o := range ex.outs[k] {
			if o.kind != c19Err && c19matchGo(gv, present, o) && c19matchJSON(jv, jpresent, o) {
				ok = true
				break
			}
		}
		if !ok {
			_, val := in.first()
			c.Failf("ParseQuery(%s): value %q of key %q typed as %T %#v (JSON %s); the documented rules give %s",
				in, val[k], k, gv, gv, bits, c19outs(ex.outs[k]))
		}
	}
	return ex
}

func c19want(ex c19expect) string {
	if ex.method == "" {
		return "error: empty method / unparsable URL"
	}
	var ss []string
	for _, k := range ex.keys {
		ss = append(ss, fmt.Sprintf("%q: %s", k, c19outs(ex.outs[k])))
	}
	if len(ss) == 0 {
		return "error: unparsable query"
	}
	return strings.Join(ss, "; ")
}

// c19checkBasic evaluates ParseBasic on one input: every value is a string.
func c19checkBasic(c *vt.Ctx, in c19input) {
	got := c19call(jhttp.ParseBasic, in.request())
	c.Eval(1)
	if got.panicV != nil {
		c.Failf("ParseBasic panicked on %s: %v", in, got.panicV)
		return
	}
	wantErr := in.path.method == "" || in.badQuery
	if got.err != nil {
		if !wantErr {
			c.Failf("ParseBasic(%s) failed: %v", in, got.err)
		}
		return
	}
	if wantErr {
		c.Failf("ParseBasic(%s) succeeded with method %q params %#v; expected an error", in, got.method, got.params)
		return
	}
	if got.method == "" || got.method != in.path.method {
		c.Failf("ParseBasic(%s): method %q, want %q", in, got.method, in.path.method)
	}
	keys, val := in.first()
	switch p := got.params.(type) {
	case nil:
		if len(keys) != 0 {
			c.Failf("ParseBasic(%s): nil params, want %v", in, val)
		}
	case map[string]string:
		if len(p) != len(val) || (len(val) > 0 && !reflect.DeepEqual(p, val)) {
			c.Failf("ParseBasic(%s): params %#v, want %#v", in, p, val)
		}
	default:
		c.Failf("ParseBasic(%s): params has type %T, want map[string]string", in, got.params)
		return
	}
	if _, err := json.Marshal(got.params); err != nil {
		c.Failf("ParseBasic(%s): params cannot be marshalled: %v", in, err)
	}
}

// c19shape is the symbol-class signature of a value; trivial reports that the
// value consists only of plain letters (no quote, sign, digit, dot, escape,
// padding or reserved word), i.e. exercises nothing but the fall-through.
func c19shape(syms []string) (sig string, trivial bool) {
	b := make([]byte, len(syms))
	trivial = true
	for i, s := range syms {
		b[i] = c19class(s)
		if b[i] != 'a' && b[i] != 'h' && b[i] != 'e' {
			trivial = false
		}
	}
	return string(b), trivial
}

// c19tally feeds the per-class counters of the observation floor.
type c19tally map[string]int

func (t c19tally) add(ex c19expect) {
	if ex.mustErr {
		t["q_expect_error"]++
		return
	}
	for _, k := range ex.keys {
		os := ex.outs[k]
		if len(os) > 1 {
			t["q_expect_lenient"]++
			continue
		}
		t["q_expect_"+c19kindName[os[0].kind]]++
	}
}

func (t c19tally) flush(c *vt.Ctx) {
	for k, v := range t {
		c.Count(k, v)
	}
}
