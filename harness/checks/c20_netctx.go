package checks

import (
	"bufio"
	"context"
	"fmt"
	"net"
	"strings"
	"sync"

	"github.com/creachadair/jrpc2/channel"
	"github.com/creachadair/jrpc2/server"

	"verif/harness/peer"
	"verif/harness/sched"
	"verif/harness/vt"
)

// N/ctx (C20): the context ends while Loop is NOT blocked inside
// NetAccepter.Accept.
//
//	precancel         the context has ended before Loop is called (0-2
//	                  connections are already waiting in the listener's backlog)
//	cancel-on-accept  the listener cancels the context at the very moment its
//	                  Accept hands a connection back, so that the connection is
//	                  returned under an ended context and the next Accept call is
//	                  entered with one; 0-2 servers are live at that moment, 0-1
//	                  further connections wait in the backlog, and the Assigner
//	                  of the connection being accepted may fail
//
// Whatever NetAccepter.Accept does in these windows, the end of the context is
// the only thing that happened, so: Loop returns nil (a context end must
// surface as a closed-listener error), the listener has been closed, every
// accepted connection got a fresh service, every started server was stopped
// and finished exactly once (status stopped, its own assigner) before Loop
// returned, and no accepted connection is left open.
//
// A connection in the backlog at the moment the context ends may or may not be
// accepted (the listener's Accept and its Close race); both are allowed, and
// the services are then not paired with connections (they are only counted).

type c20cancelListener struct {
	*c20listener
	cancel context.CancelFunc
	at     int // cancel as the at-th accepted connection is returned (0 = never)

	amu      sync.Mutex
	accepted int
}

func (l *c20cancelListener) Accept() (net.Conn, error) {
	conn, err := l.c20listener.Accept()
	if err == nil {
		l.amu.Lock()
		l.accepted++
		n := l.accepted
		l.amu.Unlock()
		l.log.Add("listener.accept", "", fmt.Sprint(n))
		if n == l.at {
			l.log.Add("listener.cancel", "", "context cancelled as Accept returns a connection")
			l.cancel()
		}
	}
	return conn, err
}

func (l *c20cancelListener) acceptedCount() int {
	l.amu.Lock()
	defer l.amu.Unlock()
	return l.accepted
}

type c20netCtxScenario struct {
	mode    string // precancel | cancel-on-accept
	live    int    // servers running when the context ends
	backlog int    // connections waiting in the listener when the context ends (besides the one being accepted)
	failAt  bool   // cancel-on-accept: the Assigner for (one of) the connections accepted at the end fails
}

func (s c20netCtxScenario) String() string {
	return fmt.Sprintf("NetAccepter scenario: %s, %d live connection(s), backlog %d, failing Assigner at the end=%v", s.mode, s.live, s.backlog, s.failAt)
}

func c20netCtxExec(c *vt.Ctx, sc c20netCtxScenario, ctrl *sched.Controller) {
	var w *c20world
	desc := sc.String()
	c.Attach(func() any {
		if w == nil {
			return nil
		}
		return map[string]any{"scenario": desc, "log": w.log.Dump()}
	})
	peer.Bubble(c, ctrl, func() {
		log := peer.NewLog()
		w = &c20world{c: c, ctrl: ctrl, log: log, hrec: map[string]c20hrec{}}
		w.setWhen(desc)
		fail := func(format string, args ...any) {
			w.whenMu.Lock()
			when := w.when
			w.whenMu.Unlock()
			c.Failf("%s, %s: %s", desc, when, fmt.Sprintf(format, args...))
		}
		inner := newC20listener(log)
		ctx, cancel := context.WithCancel(context.Background())
		lst := &c20cancelListener{c20listener: inner, cancel: cancel}
		if sc.mode == "cancel-on-accept" {
			lst.at = sc.live + 1
		}

		var clients []*c20netClient
		var writes []chan struct{}
		var sconns []net.Conn
		connect := func() *c20netClient {
			k := len(clients)
			cconn, sconn := net.Pipe()
			cl := &c20netClient{conn: cconn, rdDone: make(chan struct{})}
			clients = append(clients, cl)
			sconns = append(sconns, sconn)
			inner.conns <- sconn
			go func() {
				defer close(cl.rdDone)
				rd := bufio.NewReader(cconn)
				for {
					line, err := rd.ReadString('\n')
					cl.mu.Lock()
					if line != "" {
						cl.lines = append(cl.lines, strings.TrimSpace(line))
					}
					if err != nil {
						cl.eof = true
						cl.mu.Unlock()
						return
					}
					cl.mu.Unlock()
				}
			}()
			wrDone := make(chan struct{})
			writes = append(writes, wrDone)
			go func() {
				defer close(wrDone)
				cconn.Write([]byte(peer.Req("1", "i", fmt.Sprintf("%d.0", k)) + "\n"))
			}()
			return cl
		}

		if sc.mode == "precancel" {
			for i := 0; i < sc.backlog; i++ {
				connect()
			}
			cancel()
			log.Add("ctx.cancel", "", "before Loop is called")
		}
		loopDone := make(chan error, 1)
		var loopT int64
		go func() {
			err := server.Loop(ctx, server.NetAccepter(lst, channel.Line), w.newService, nil)
			loopT = log.Add("loop.ret", "", fmt.Sprint(err))
			loopDone <- err
		}()
		ctrl.Settle()

		returned := false
		var loopErr error
		poll := func() {
			if !returned {
				select {
				case loopErr = <-loopDone:
					returned = true
				default:
				}
			}
		}
		services := func() []*c20service {
			w.mu.Lock()
			defer w.mu.Unlock()
			return append([]*c20service(nil), w.svcs...)
		}
		finishesOf := func(s *c20service) []c20finish {
			w.mu.Lock()
			defer w.mu.Unlock()
			return append([]c20finish(nil), s.finishes...)
		}

		minAccepted, maxAccepted := 0, sc.backlog
		if sc.mode == "cancel-on-accept" {
			// the live connections, one at a time, each settled
			for k := 0; k < sc.live; k++ {
				w.setWhen(fmt.Sprintf("after connect %d", k))
				cl := connect()
				ctrl.Settle()
				if n := len(services()); n != k+1 {
					fail("newService called %d times for %d accepted connections", n, k+1)
				}
				lines, eof := cl.snapshot()
				if len(lines) != 1 || !strings.Contains(lines[0], fmt.Sprintf(`"%d.0/`, k)) {
					fail("client %d did not get the reply to its call: %q (eof=%v)", k, lines, eof)
				}
				if eof {
					fail("connection %d was closed by the server side though nothing stopped it", k)
				}
				poll()
				if returned {
					fail("Loop returned (%v) while accepting", loopErr)
				}
			}
			// the connection whose acceptance ends the context, and the backlog
			if sc.failAt {
				w.mu.Lock()
				w.failNext = true
				w.mu.Unlock()
			}
			for i := 0; i < 1+sc.backlog; i++ {
				connect()
			}
			minAccepted, maxAccepted = sc.live+1, sc.live+1+sc.backlog
			ctrl.Settle()
		}

		w.setWhen("at quiescence after the context ended")
		poll()
		if !returned {
			fail("the context ended but Loop has not returned")
		} else if loopErr != nil {
			fail("Loop returned %q, want nil: the only thing that happened is that the context ended (NetAccepter reports that as a closed listener)", loopErr)
		}
		if inner.closeCount() < 1 {
			fail("the context ended but NetAccepter did not close the listener")
		}
		accepted := lst.acceptedCount()
		if accepted < minAccepted || accepted > maxAccepted {
			fail("the listener handed out %d connections, expected %d..%d", accepted, minAccepted, maxAccepted)
		}
		svcs := services()
		if len(svcs) != accepted {
			fail("newService called %d times for %d accepted connections", len(svcs), accepted)
		}
		failed := 0
		for _, s := range svcs {
			fs := finishesOf(s)
			w.mu.Lock()
			sfailed, calls := s.failed, s.assignerCalls
			w.mu.Unlock()
			if calls != 1 {
				fail("Assigner of service %d called %d times, want 1", s.k, calls)
			}
			if sfailed {
				failed++
				if len(fs) != 0 {
					fail("Finish called %d times for service %d whose Assigner failed", len(fs), s.k)
				}
				continue
			}
			if len(fs) != 1 {
				fail("Finish called %d times for service %d, want exactly 1 (Loop returned=%v)", len(fs), s.k, returned)
				continue
			}
			f := fs[0]
			if !f.same {
				fail("Finish of service %d got a different assigner", s.k)
			}
			if !(f.st.Err == nil && f.st.Stopped && !f.st.Closed) {
				fail("Finish of service %d got status %s, want stopped (the context ended; no client closed)", s.k, c20statusString(f.st))
			}
			if returned && f.t > loopT {
				fail("Finish of service %d (t=%d) after Loop returned (t=%d)", s.k, f.t, loopT)
			}
			c.Count("finish_calls", 1)
			c.Count("finish_status_stopped", 1)
		}
		if sc.failAt && failed != 1 {
			fail("%d services had a failing Assigner, scripted 1", failed)
		}
		if failed > 0 {
			c.Count("assigner_failures", failed)
		}
		for k := 0; k < accepted && k < len(clients); k++ {
			lines, eof := clients[k].snapshot()
			if !eof {
				fail("the context ended but accepted connection %d is still open (its client sees no EOF): its server was not stopped, or the connection was dropped without being closed", k)
			}
			if k < sc.live && len(lines) != 1 {
				fail("client %d saw %q, want only the reply to its call", k, lines)
			}
		}
		if returned {
			if loopErr == nil {
				c.Count("loop_returned_nil", 1)
			} else {
				c.Count("loop_returned_error", 1)
			}
		}
		c.Count("connections_accepted", accepted)
		c.Count("net_ctx_not_in_accept_runs", 1)
		if accepted > minAccepted {
			c.Count("net_ctx_backlog_accepted_after_end", accepted-minAccepted)
		}

		// cleanup
		cancel()
		for _, cl := range clients {
			cl.conn.Close()
		}
		for _, sconn := range sconns[min(accepted, len(sconns)):] {
			sconn.Close() // never handed out
		}
		for _, cl := range clients {
			<-cl.rdDone
		}
		for _, wr := range writes {
			<-wr
		}
		if inner.closeCount() == 0 {
			inner.Close()
		}
		c.Count("net_accepter_runs", 1)
		c.Count("events", log.Len())
	})
	c.Eval(1)
}

func c20netCtxCases(e vt.Env, yield func(vt.Case) bool) bool {
	var scs []c20netCtxScenario
	for backlog := 0; backlog <= 2; backlog++ {
		scs = append(scs, c20netCtxScenario{mode: "precancel", backlog: backlog})
	}
	for live := 0; live <= 2; live++ {
		for backlog := 0; backlog <= 1; backlog++ {
			for _, failAt := range []bool{false, true} {
				scs = append(scs, c20netCtxScenario{mode: "cancel-on-accept", live: live, backlog: backlog, failAt: failAt})
			}
		}
	}
	reps := e.Pick(3, 20)
	for _, sc := range scs {
		id := fmt.Sprintf("N/ctx/%s/live%d/backlog%d/fail%v", sc.mode, sc.live, sc.backlog, sc.failAt)
		if !yield(vt.Case{ID: id, Run: func(c *vt.Ctx) {
			prof := sched.New()
			c20netCtxExec(c, sc, prof)
			offered := sc.mode == "cancel-on-accept" || sc.backlog > 0
			if offered {
				c.Distinct(id)
			}
			if c.Failed() {
				return
			}
			// the select between "context ended" and "Accept returned" inside
			// NetAccepter is a coin toss: repeat the natural schedule
			for r := 1; r < reps && !c.Failed(); r++ {
				c20netCtxExec(c, sc, sched.New())
			}
			sched.DelaySets(prof.Keys(), 1, func(ds []string) bool {
				c20netCtxExec(c, sc, sched.New().WithDelays(ds...))
				if offered {
					c.Distinct(id + "/" + join(ds))
				}
				c.Count("delay_bounded_runs", 1)
				return !c.Failed()
			})
			if c.WantSample() && sc.live > 0 {
				c.Sample(map[string]any{"scenario": sc.String(), "hook_visits_parked_one_at_a_time": len(prof.Keys())})
			}
		}}) {
			return false
		}
	}
	return true
}
