package checks

import (
	"fmt"
	"math"
	"math/big"
	"math/rand/v2"
	"strings"

	"verif/harness/vt"
)

// C19 — HTTP Getter, query parsing and HTTP client channel are total and
// faithful. Three families of cases:
//
//	Q/...  jhttp.ParseQuery and jhttp.ParseBasic against an independent
//	       reference typer written from the ParseQuery doc comment
//	       (c19_query.go);
//	G/...  a live jhttp.Getter: status 200/400/404/500 per cause, body always
//	       valid JSON (c19_getter.go);
//	H/...  jrpc2.Client over jhttp.Channel -> in-process HTTPClient ->
//	       Bridge.ServeHTTP inside a synctest bubble: same observations as
//	       over a direct connection, also for batches with statically invalid
//	       members (c19_invalid.go); after Close no response body is open and
//	       no goroutine is left (c19_channel.go).

func init() {
	vt.Register(&vt.Check{
		Prop:  "C19",
		Level: "exploration",
		Rule: "Q: every query value of <=K symbols (K=4 quick, 5 thorough) over the 28-symbol alphabet {0 1 9 . - + e E x _ \" ' a inf Inf nan NaN true false null Infinity 0x p \\ = \\n True NULL} " +
			"(exhaustive), seeded longer values over a 55-symbol alphabet, grammar-directed values (JSON strings with escapes, base64 with every padding, integers around the int64 limits, " +
			"ParseFloat-only syntax), digit strings around and beyond the float64 range (Q/h: 300-400 digits with sign / fraction / leading zeros, 309-digit values on both sides of the limit, the decimal expansions of " +
			"MaxFloat64 and of the rounding boundary 2^1024-2^970 and their neighbours, long fractions; a number only if a finite float64 exists - decided by exact integer comparison - else the literal string, always marshalable), all pairs of a 60-value pool as two keys / one repeated key / POST body + URL, malformed queries; paths = every concatenation of <=3 segments of {/ a . %2F ''}; " +
			"each request built with httptest.NewRequest and url.QueryEscape, evaluated with ParseQuery (type, value, method, json.Marshal round trip against the reference typer) and ParseBasic. " +
			"G: every 97th Q input, seeded grammar and out-of-range digit strings plus targeted requests through a live Getter (status per cause, body valid JSON, result equal to the reference). " +
			"H: op sequences (call/notify/batch/error/unknown method) over a direct connection and over jhttp.Channel+Bridge compared slot by slot, every op bounded (an op still blocked at quiescence is reported as a client waiting for a reply that never comes); " +
			"H/inv: every batch of <=3 (4) members over {call with empty method (invalid, has an id), notification with empty method, echo call, notification, failing call, unknown method} with at least one invalid member, alone and amid other traffic, " +
			"and the invalid members sent singly before/after every other op; H/rawinv: every raw batch of <=3 (4) members over {wrong version, scalar params, extra field, no method, empty method, valid call, notification} with at least one invalid member, " +
			"posted through jhttp.Channel to a Bridge and sent to a jrpc2.Server over a direct channel, replies compared as multisets of (id, result | error); 0-4 gated calls in flight at Client.Close x {close first, release first, partial release} " +
			"x {reader free, reader held} x single delays at every hch.*/cli.* hook visit; open response bodies and bubble goroutines counted after Close; H/sc: 0-3 calls and 0-3 notifications handed to Send (or Client.Notify) and Close called at once from the same goroutine - no HTTP request may start after Close has returned. " +
			"H/long: 160 (quick) / 700 (thorough) operations over ONE jhttp.Channel - runs of notifications, of notification-only batches, of calls and batches, three seeded mixtures, each followed by calls - compared op by op with a direct connection (whatever a Send reserves must be given back by the operation itself). " +
			"distinct_nontrivial = distinct symbol-class shapes (13 classes; for values of more than 5 symbols the first 3 and last 2 classes and the length) of query values that contain a quote, sign, digit, dot, escape, padding or reserved word (plain-letter values excluded) " +
			"+ distinct (status, cause) Getter requests + distinct (scenario, delay key) channel executions",
		Assumptions: []string{
			"Go 1.26.8 net/http, net/url (form decoding: body parameters precede URL parameters, first value of a key wins), httptest.ResponseRecorder, testing/synctest",
			"reference typer, JSON-string decoder and base64 decoder are hand-written from the documentation / RFC 8259 / RFC 4648; math/big gives the nearest float64",
			"where the documentation is silent the check accepts every outcome: one-sided quotes (error or literal string), .5 5. +.5 (number or string), integers outside int64 (float64 or string), " +
				"unpadded or non-canonical base64 (bytes or error), lone surrogates (any string or error)",
			"a digit string in the documented number syntax whose magnitude is >= 2^1024-2^970 has no finite float64; JSON has no infinities and the parameters must be marshalable, so 'number' is excluded and the catch-all rule (literal string) is required",
			"H/eq, H/inv: no handler of the equality workload waits for anything, hence an op that has not returned at quiescence is blocked for good; it is reported, its context is cancelled, and what it then returns is compared",
			"H/rawinv compares which ids are answered and whether with a result (compared as JSON) or an error; error codes and messages of rejected members are not compared between Bridge and Server",
			"H: a delay at a hook visit is a bounded runtime.Gosched spin, not a virtual-time sleep: Client.Close holds the client mutex while jhttp.Channel.Close drains, " +
				"so a sleeping goroutine plus a goroutine waiting for that mutex would stop the bubble's clock for ever (mutex waits are not durable blocks)",
		},
		Require: map[string]int64{
			"q_values":                       20000,
			"q_expect_int64":                 200,
			"q_expect_float64":               200,
			"q_expect_string":                5000,
			"q_expect_bytes":                 50,
			"q_expect_bool":                  10,
			"q_expect_null":                  5,
			"q_expect_error":                 500,
			"getter_requests":                300,
			"getter_status_200":              100,
			"getter_status_400":              50,
			"getter_status_404":              3,
			"getter_status_500":              10,
			"h_ops_compared":                 200,
			"q_huge_overflow_literal":        500,
			"q_huge_finite_float":            500,
			"getter_huge_numbers":            200,
			"h_invalid_with_id_compared":     300,
			"h_batches_invalid_id_and_calls": 100,
			"h_raw_records_compared":         200,
			"h_bodies_closed":                200,
			"h_inflight_at_close":            100,
			"h_long_ops":                     900,
		},
		Exhaustive: func(e vt.Env) bool { return false },
		Cases:      c19cases,
	})
}

// c19K is the exhaustive depth (symbols per value).
func c19K(e vt.Env) int { return e.Pick(4, 5) }

func c19cases(e vt.Env, yield func(vt.Case) bool) {
	if !c19casesQ(e, yield) {
		return
	}
	if !c19casesG(e, yield) {
		return
	}
	c19casesH(e, yield)
}

// c19block enumerates the values of one exhaustive block: prefix symbols
// (i, j) followed by every suffix of 0..K-2 symbols; block -1 holds the
// values of fewer than two symbols. n is the running index of the input in
// the whole exhaustive enumeration (used to rotate paths and keys and to
// select the Getter sample).
func c19block(K, i, j int, visit func(syms []string)) {
	A := c19alphaX
	if i < 0 {
		visit(nil)
		for _, s := range A {
			visit([]string{s})
		}
		return
	}
	seqs(len(A), 0, K-2, func(idx []int) bool {
		syms := make([]string, 0, 2+len(idx))
		syms = append(syms, A[i], A[j])
		for _, k := range idx {
			syms = append(syms, A[k])
		}
		visit(syms)
		return true
	})
}

// c19mkInput places a value into a request, rotating keys and paths by n.
func c19mkInput(v string, n int) c19input {
	p := c19goodPaths[n%len(c19goodPaths)]
	if n%8 == 5 {
		p = c19pathList[(n/8)%len(c19pathList)]
	}
	k := "x"
	if n%4 == 3 {
		k = c19keys[(n/4)%len(c19keys)]
	}
	return c19input{path: p, query: []c19pair{{k, v}}}
}

func c19runValue(c *vt.Ctx, t c19tally, syms []string, n int) {
	v := strings.Join(syms, "")
	in := c19mkInput(v, n)
	ex := c19checkQuery(c, in)
	t.add(ex)
	t["q_values"]++
	if n%4 == 1 {
		c19checkBasic(c, in)
		t["q_basic"]++
	}
	if sig, trivial := c19shape(syms); !trivial {
		if len(sig) > 5 { // longer (seeded) values: head, tail and length of the shape
			sig = fmt.Sprintf("%s~%s/%d", sig[:3], sig[len(sig)-2:], len(sig))
		}
		c.Distinct("Q:" + sig)
		if n%7 == 0 && c.WantSample() && c19typed(v, ex) {
			c.Sample(map[string]any{"request": in.String(), "accepted_outcomes": c19want(ex)})
		}
	}
}

func c19casesQ(e vt.Env, yield func(vt.Case) bool) bool {
	K := c19K(e)
	A := c19alphaX
	// Q/x: exhaustive enumeration in blocks by two-symbol prefix.
	for i := -1; i < len(A); i++ {
		for j := 0; j < len(A); j++ {
			if i < 0 && j > 0 {
				break
			}
			i, j := i, j
			id := fmt.Sprintf("Q/x/K%d/%d-%d", K, i, j)
			if !yield(vt.Case{ID: id, Run: func(c *vt.Ctx) {
				t := c19tally{}
				n := (i+1)*len(A) + j // decorrelate the rotation between blocks
				c19block(K, i, j, func(syms []string) {
					if c.Failed() {
						return
					}
					c19runValue(c, t, syms, n)
					n++
				})
				t.flush(c)
			}}) {
				return false
			}
		}
	}
	// Q/s: seeded longer values over the extended alphabet.
	blocks, per := e.Pick(48, 640), e.Pick(2500, 5000)
	for b := 0; b < blocks; b++ {
		b := b
		id := fmt.Sprintf("Q/s/%d", b)
		if !yield(vt.Case{ID: id, Run: func(c *vt.Ctx) {
			rng := e.Rand("C19/" + id)
			t := c19tally{}
			for n := 0; n < per && !c.Failed(); n++ {
				ln := K + 1 + rng.IntN(3)
				syms := make([]string, ln)
				for k := range syms {
					syms[k] = c19alphaS[rng.IntN(len(c19alphaS))]
				}
				c19runValue(c, t, syms, n+b*per)
			}
			t.flush(c)
		}}) {
			return false
		}
	}
	// Q/t: grammar-directed values.
	blocks, per = e.Pick(32, 320), e.Pick(2000, 5000)
	for b := 0; b < blocks; b++ {
		b := b
		id := fmt.Sprintf("Q/t/%d", b)
		if !yield(vt.Case{ID: id, Run: func(c *vt.Ctx) {
			rng := e.Rand("C19/" + id)
			t := c19tally{}
			for n := 0; n < per && !c.Failed(); n++ {
				kind, v := c19grammar(rng)
				in := c19mkInput(v, n+b*per)
				ex := c19checkQuery(c, in)
				t.add(ex)
				t["q_values"]++
				t["q_grammar_"+kind]++
				if n%4 == 1 {
					c19checkBasic(c, in)
				}
				c.Distinct(fmt.Sprintf("Qt:%s:%d:%s", kind, min(len(v), 40), c19outKinds(ex)))
			}
			t.flush(c)
		}}) {
			return false
		}
	}
	// Q/h: digit strings around and beyond the range of float64.
	blocks, per = e.Pick(8, 80), e.Pick(500, 2000)
	for b := 0; b < blocks; b++ {
		b := b
		id := fmt.Sprintf("Q/h/%d", b)
		if !yield(vt.Case{ID: id, Run: func(c *vt.Ctx) {
			rng := e.Rand("C19/" + id)
			t := c19tally{}
			for n := 0; n < per && !c.Failed(); n++ {
				kind, v := c19huge(rng)
				in := c19mkInput(v, n+b*per)
				if n%5 == 4 { // next to an ordinary parameter, and as a repeated key
					in.query = append([]c19pair{{"n", "1"}}, append(in.query, c19pair{in.query[0].k, "2"})...)
				}
				ex := c19checkQuery(c, in)
				t.add(ex)
				t["q_values"]++
				t["q_huge_"+kind]++
				out := "finite"
				if os := c19classify(v); len(os) == 1 && os[0].kind == c19Str {
					out = "overflow" // number syntax, but no finite float64: literal string only
					t["q_huge_overflow_literal"]++
				} else if len(os) == 1 && os[0].kind == c19Int {
					out = "int64"
				} else {
					t["q_huge_finite_float"]++
				}
				if n%4 == 1 {
					c19checkBasic(c, in)
				}
				c.Distinct(fmt.Sprintf("Qh:%s:%d:%s", kind, len(v)/8, out))
				if n%50 == 0 && c.WantSample() {
					c.Sample(map[string]any{"request": in.String(), "accepted_outcomes": c19want(ex)})
				}
			}
			t.flush(c)
		}}) {
			return false
		}
	}
	// Q/m: several keys, repeated keys, POST bodies, malformed queries.
	pool := c19pool()
	for part := 0; part < 4; part++ {
		part := part
		id := fmt.Sprintf("Q/m/%d", part)
		if !yield(vt.Case{ID: id, Run: func(c *vt.Ctx) {
			t := c19tally{}
			n := 0
			for a, va := range pool {
				if a%4 != part {
					continue
				}
				for _, vb := range pool {
					for _, in := range c19multi(va, vb, n) {
						if c.Failed() {
							break
						}
						t.add(c19checkQuery(c, in))
						c19checkBasic(c, in)
						t["q_multi"]++
						n++
					}
				}
				c.Distinct("Qm:" + va)
			}
			t.flush(c)
		}}) {
			return false
		}
	}
	return yield(vt.Case{ID: "Q/bad", Run: func(c *vt.Ctx) {
		t := c19tally{}
		for _, in := range c19malformed() {
			t.add(c19checkQuery(c, in))
			c19checkBasic(c, in)
			t["q_malformed"]++
			c.Distinct("Qbad:" + in.rawQuery + in.path.raw)
		}
		// every path with a harmless query and with none
		for _, p := range c19pathList {
			for _, q := range [][]c19pair{nil, {}, {{"x", "1"}}} {
				in := c19input{path: p, query: q}
				t.add(c19checkQuery(c, in))
				c19checkBasic(c, in)
				t["q_paths"]++
			}
			c.Distinct("Qpath:" + p.raw)
		}
		t.flush(c)
	}})
}

// c19typed reports whether the reference types the value by one of the
// specific rules (used to pick informative samples).
func c19typed(v string, ex c19expect) bool {
	switch c19outKinds(ex) {
	case "int64", "float64", "bool", "null", "bytes":
		return true
	case "string":
		return strings.HasPrefix(v, `"`)
	}
	return false
}

func c19outKinds(ex c19expect) string {
	if ex.mustErr {
		return "error"
	}
	var ss []string
	for _, k := range ex.keys {
		for _, o := range ex.outs[k] {
			ss = append(ss, c19kindName[o.kind])
		}
	}
	return strings.Join(ss, "|")
}

// c19grammar draws a value from generators aimed at each documented rule and
// at the syntax that strconv / encoding/json / encoding/base64 accept beyond
// it.
func c19grammar(rng *rand.Rand) (kind, v string) {
	pick := func(ss ...string) string { return ss[rng.IntN(len(ss))] }
	digits := func(n int) string {
		b := make([]byte, n)
		for i := range b {
			b[i] = byte('0' + rng.IntN(10))
		}
		return string(b)
	}
	sign := func() string { return pick("", "", "+", "-") }
	switch rng.IntN(10) {
	case 0: // JSON strings
		var sb strings.Builder
		sb.WriteByte('"')
		for k := rng.IntN(6); k > 0; k-- {
			sb.WriteString(pick("a", "é", "😀", " ", `\n`, `\t`, `\"`, `\\`, `\/`, `\b`, `\f`, `\r`, `\u0041`, `\u00e9`, `\u2028`,
				`\ud83d\ude00`, `\u0000`, `\x`, `\`, `"`, `\u12`, `\uD800`, `\udc00`, "\t", "\x01", "'", "0", "<", "&", `\u003c`, `\U0041`, "\x7f"))
		}
		if rng.IntN(8) != 0 {
			sb.WriteByte('"')
		}
		return "jsonstring", sb.String()
	case 1: // base64
		const al = "ABCDEFGHIJKLMNOPQRSTUVWXYZabcdefghijklmnopqrstuvwxyz0123456789+/"
		n := rng.IntN(10)
		b := make([]byte, n)
		for i := range b {
			b[i] = al[rng.IntN(len(al))]
		}
		s := string(b)
		switch rng.IntN(8) {
		case 0:
			s += pick("-", "_", ".", " ", "=a", "*", "é")
		case 1:
			if n > 0 {
				k := rng.IntN(n)
				s = s[:k] + pick("-", "_", "=", " ", "'") + s[k:]
			}
		}
		s += pick("", "", "=", "==", "===")
		if rng.IntN(3) == 0 { // canonical encoding of random bytes
			raw := make([]byte, rng.IntN(7))
			for i := range raw {
				raw[i] = byte(rng.IntN(256))
			}
			s = c19stdB64(raw)
		}
		return "base64", pick("'", "'", "'", "") + s + pick("'", "'", "'", "")
	case 2: // integers, incl. the int64 limits
		base := pick("9223372036854775807", "9223372036854775808", "9223372036854775806", "9223372036854775809",
			"18446744073709551615", "18446744073709551616", "9007199254740993", "0", "00", "007", digits(1+rng.IntN(25)), digits(1+rng.IntN(6)))
		return "integer", sign() + base
	case 3: // decimals
		return "decimal", sign() + digits(rng.IntN(22)) + "." + digits(rng.IntN(22))
	case 4: // what ParseFloat/ParseInt accept beyond the documented syntax
		return "floatsyntax", sign() + pick("1e5", "1E5", "1e+5", "1e-5", "1.5e3", "0x10", "0X1F", "0x1p-2", "0x1.8p1", "1_000", "1_0.0_1",
			"0b101", "0o17", "017", "1e400", "1e-400", "0x", "1e", "e1", "1e5.5", digits(2)+"e"+digits(1), "1p3", "1."+"e2", ".1e2")
	case 5: // non-finite words
		w := pick("inf", "Inf", "INF", "iNf", "infinity", "Infinity", "INFINITY", "nan", "NaN", "NAN", "nAn", "infinit", "in", "na")
		return "nonfinite", sign() + w
	case 6: // constants and look-alikes
		return "constant", pick("true", "false", "null", "True", "TRUE", "False", "FALSE", "Null", "NULL", "nil", "none", "tru", "truee",
			" true", "true ", "nul", "yes", "no", "t", "f", "1", "0", "undefined")
	case 7: // one-sided and mixed quotes
		return "quotes", pick(`"`, `'`, `"abc`, `abc"`, `'abc`, `abc'`, `"abc'`, `'abc"`, `""`, `''`, `"'"`, `'"'`, `a"b`, `a'b`, `"a"b"`, `'a'b'`,
			`""""`, `''''`, `"\"`, `"\\"`, `'='`, `'=='`, `'a'`, `'ab'`, `'abc'`, `'abcd'`, `'abcde'`)
	case 8: // URL-hostile literals
		var sb strings.Builder
		for k := 1 + rng.IntN(5); k > 0; k-- {
			sb.WriteString(pick("a", " ", "+", "&", "=", "%", "%41", "#", "?", "/", ";", "é", "😀", "\n", "\x00", "\xff", ".", "-", "5", `\`, "~", "*"))
		}
		return "literal", sb.String()
	}
	// digits with stray characters
	s := digits(1 + rng.IntN(4))
	k := rng.IntN(len(s) + 1)
	return "neardecimal", sign() + s[:k] + pick("_", " ", "e", "x", ".", "..", ",", "-", "+", "'", "a", "٣", "１") + s[k:]
}

// c19huge draws digit strings around and beyond the range of float64:
// 300-400 digits with optional sign and fraction, the exact decimal expansions
// of MaxFloat64 and of the rounding boundary 2^1024-2^970 and their
// neighbours, long runs of leading zeros (still small numbers), long
// fractions (tiny numbers) and the lenient forms with an empty fraction. The
// documented number syntax has no length limit, but a number has to be a
// finite float64 (or an int64) to be a JSON number at all; beyond that only
// the literal string is left.
func c19huge(rng *rand.Rand) (kind, v string) {
	pick := func(ss ...string) string { return ss[rng.IntN(len(ss))] }
	digits := func(n int) string {
		b := make([]byte, n)
		for i := range b {
			b[i] = byte('0' + rng.IntN(10))
		}
		return string(b)
	}
	nz := func(n int) string { // n digits, the first not zero
		if n == 0 {
			return ""
		}
		return string(byte('1'+rng.IntN(9))) + digits(n-1)
	}
	sign := pick("", "", "+", "-")
	frac := func() string {
		switch rng.IntN(5) {
		case 0:
			return "." + digits(1+rng.IntN(30))
		case 1:
			return pick(".0", ".5", ".9999999999", ".0000000001", ".")
		}
		return ""
	}
	switch rng.IntN(8) {
	case 0, 1: // far beyond the range
		return "overflow", sign + nz(300+rng.IntN(101)) + frac()
	case 2: // the boundary itself and its neighbours
		z := new(big.Int).Set(c19ovfThreshold)
		switch rng.IntN(4) {
		case 0:
			z.Add(z, big.NewInt(int64(rng.IntN(5)-2)))
		case 1:
			mf, _ := new(big.Float).SetFloat64(math.MaxFloat64).Int(nil)
			z = mf.Add(mf, big.NewInt(int64(rng.IntN(3)-1)))
		case 2: // somewhere in the last binade
			z.Sub(z, new(big.Int).Lsh(big.NewInt(rng.Int64N(1<<40)), uint(rng.IntN(980))))
		case 3: // somewhere beyond
			z.Add(z, new(big.Int).Lsh(big.NewInt(rng.Int64N(1<<40)), uint(rng.IntN(1000))))
		}
		return "boundary", sign + pick("", "", "0", "000") + z.String() + frac()
	case 3: // 309 digits: in or out of range depending on the leading digits
		return "digits309", sign + c19pad309(rng, pick("17", "18", "1", "179769313486231570", "179769313486231581", "2", "9", "10")) + frac()
	case 4: // large but finite
		return "finite", sign + nz(20+rng.IntN(289)) + frac()
	case 5: // many leading zeros: the value is small whatever the length
		return "zeros", sign + strings.Repeat("0", 290+rng.IntN(120)) + digits(rng.IntN(19)) + frac()
	case 6: // long fractions: tiny or ordinary values
		return "fraction", sign + pick("0", "1", "00", digits(1+rng.IntN(18))) + "." + strings.Repeat("0", rng.IntN(2)*(300+rng.IntN(100))) + digits(1+rng.IntN(60))
	}
	// both parts long
	return "both", sign + nz(280+rng.IntN(60)) + "." + digits(280+rng.IntN(60))
}

// c19pad309 completes a prefix with random digits to 309 digits in all.
func c19pad309(rng *rand.Rand, prefix string) string {
	b := []byte(prefix)
	for len(b) < 309 {
		b = append(b, byte('0'+rng.IntN(10)))
	}
	return string(b)
}

func c19stdB64(raw []byte) string {
	var sb strings.Builder
	for i := 0; i < len(raw); i += 3 {
		var v uint32
		n := min(3, len(raw)-i)
		for k := 0; k < 3; k++ {
			v <<= 8
			if k < n {
				v |= uint32(raw[i+k])
			}
		}
		for k := 0; k < 4; k++ {
			if k <= n {
				sb.WriteByte(c19b64[(v>>uint(18-6*k))&63])
			} else {
				sb.WriteByte('=')
			}
		}
	}
	return sb.String()
}

// c19pool is the value pool of the multi-key cases: every kind of outcome.
func c19pool() []string {
	return []string{
		"", "abc", "a b", "a&b=c", "+", "%", "é",
		`""`, `"abc"`, `"a\nb"`, `"a \"q\" b"`, `"\u00e9"`, `"abc`, `abc"`, `"`, `"\x"`, `"a"b"`,
		"0", "25", "-16", "+7", "007", "3.259", "-0.5", "1.50", "9223372036854775807", "-9223372036854775808", "9223372036854775808",
		".5", "5.", "1e5", "0x10", "1_000", "NaN", "Inf", "-inf", "Infinity",
		"true", "false", "null", "True", "NULL", "nil",
		"''", "'aGVsbG8sIHdvcmxk'", "'aGk='", "'aGk'", "'aA=='", "'a'", "'a-b_'", "'abc", "abc'", "'", "'*'",
		"it's", `say "hi" now`, "1 2", "-", ".", "-.", "e", "١٢",
	}
}

// c19multi builds the multi-key requests for an ordered pair of values.
func c19multi(va, vb string, n int) []c19input {
	p := c19goodPaths[n%len(c19goodPaths)]
	k1 := c19keys[n%len(c19keys)]
	k2 := c19keys[(n+1+n/len(c19keys))%len(c19keys)]
	if k1 == k2 {
		k2 += "2"
	}
	return []c19input{
		{path: p, query: []c19pair{{k1, va}, {k2, vb}}},                                 // two keys
		{path: p, query: []c19pair{{k1, va}, {k1, vb}}},                                 // repeated key: first wins
		{path: p, query: []c19pair{{k1, va}, {k2, vb}, {k1, vb}, {"z", "1"}}},           // interleaved repeat
		{path: p, query: []c19pair{{k1, vb}}, body: []c19pair{{k1, va}}},                // body precedes URL
		{path: p, query: []c19pair{{k2, vb}}, body: []c19pair{{k1, va}, {"z", "true"}}}, // body and URL keys
		{path: p, query: []c19pair{{k1, va}, {"z", "null"}, {"w", "'aGk='"}, {k2, vb}}}, // four keys
	}
}

// c19malformed returns requests whose URL cannot be parsed into a method and
// parameters: undecodable escapes, semicolons, empty paths.
func c19malformed() []c19input {
	good := c19goodPaths[0]
	var out []c19input
	for _, q := range []string{"x=%zz", "x=%", "x=%4", "%zz=1", "x=1;y=2", "x=1&y=%G1", "x=1&%=2", ";", "x=%%"} {
		out = append(out, c19input{path: good, rawQuery: q, badQuery: true})
		out = append(out, c19input{path: c19path{raw: "/a/a", method: "a/a"}, rawQuery: q, badQuery: true})
	}
	return out
}
