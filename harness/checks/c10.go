package checks

import (
	"context"
	"encoding/json"
	"errors"
	"fmt"
	"github.com/creachadair/jrpc2/channel"
	"io"
	"math/rand/v2"
	"net"
	"sync"
	"sync/atomic"
	"time"

	"github.com/creachadair/jrpc2"
	"github.com/creachadair/jrpc2/handler"

	"verif/harness/peer"
	"verif/harness/sched"
	"verif/harness/vchan"
	"verif/harness/vt"
)

// C10 — channel discipline: one sender, one receiver, one Close, whole messages.
//
// Oracle: the instrumented channel (vchan) itself. Entry/exit counters on each
// end fire at the instant a second Send (or Recv) enters while one is in
// progress, when Send and Close overlap, and when Close is called a second
// time; every record passed to Send must be a JSON object or a non-empty array
// of JSON objects. The end's unsynchronised shadow fields make the race
// detector report the same misuse independently.
//
// Workloads: (S) real-time stress — a real Client and a real Server connected
// by a vchan pair (both ends monitored), many caller goroutines issuing calls,
// batches, notifications, cancelled calls, handlers pushing notifications and
// callbacks, CancelRequest, then Close / Stop racing the traffic, with Gosched
// at every hook point; (B) bubble scenarios with every single hook visit
// parked: batches completing together, pushes from handlers during delivery,
// callback replies racing client sends, stop racing deliveries.

var c10oddNames = []string{"bell\aalert", "vt\vtab", "del\x7f", "nul\x00byte", "esc\x1b[0m", "line\u2028sep", "astral\U000E0001tag", "quote\"back\\slash", "<html>&amp;", "é"}

func c10validRecord(rec []byte) error {
	var raws []json.RawMessage
	isArr := false
	for _, b := range rec {
		if b == ' ' || b == '\t' || b == '\r' || b == '\n' {
			continue
		}
		isArr = b == '['
		break
	}
	if isArr {
		if err := json.Unmarshal(rec, &raws); err != nil {
			return fmt.Errorf("not valid JSON: %v", err)
		}
		if len(raws) == 0 {
			return fmt.Errorf("empty array")
		}
	} else {
		raws = []json.RawMessage{rec}
	}
	for _, r := range raws {
		var obj map[string]json.RawMessage
		if err := json.Unmarshal(r, &obj); err != nil || obj == nil {
			return fmt.Errorf("member is not a JSON object: %.80q", r)
		}
		if string(obj["jsonrpc"]) != `"2.0"` {
			return fmt.Errorf("member without jsonrpc 2.0: %.80q", r)
		}
	}
	return nil
}

// c10stress runs one real-time round.
func c10stress(c *vt.Ctx, rng *rand.Rand, callers, opsPer int, endHow int) {
	log := peer.NewLog()
	mon := &peer.Mon{C: c, Log: log, FailOnDiscipline: true, Quiet: true}
	cliEnd, srvEnd := vchan.NewPair("cli", "srv", mon)
	cliEnd.Spin, srvEnd.Spin = 4, 4
	cliEnd.PipeLike, srvEnd.PipeLike = true, true
	cliEnd.SetValidator(c10validRecord)
	srvEnd.SetValidator(c10validRecord)
	ctrl := sched.New().WithGosched()
	ctrl.Install()
	defer sched.Uninstall()

	var srv *jrpc2.Server
	var pushes atomic.Int64
	mux := handler.Map{
		"i": func(ctx context.Context, req *jrpc2.Request) (any, error) { return "ok", nil },
		"e": func(ctx context.Context, req *jrpc2.Request) (any, error) { return nil, jrpc2.Errorf(9, "nope") },
		"push": func(ctx context.Context, req *jrpc2.Request) (any, error) {
			s := jrpc2.ServerFromContext(ctx)
			s.Notify(ctx, "srvnote", []int{1})
			pushes.Add(1)
			if rsp, err := s.Callback(ctx, "cb", nil); err == nil {
				return rsp.ResultString(), nil
			}
			return "nocb", nil
		},
		"slow": func(ctx context.Context, req *jrpc2.Request) (any, error) {
			for i := 0; i < 20 && ctx.Err() == nil; i++ {
				sched.Yield()
			}
			return "slow", nil
		},
	}
	srv = jrpc2.NewServer(mux, &jrpc2.ServerOptions{AllowPush: true, Concurrency: 8}).Start(srvEnd)
	cli := jrpc2.NewClient(cliEnd, &jrpc2.ClientOptions{
		OnNotify:   func(*jrpc2.Request) {},
		OnCallback: func(ctx context.Context, req *jrpc2.Request) (any, error) { return "cbok", nil },
	})
	seeds := make([]uint64, callers)
	for i := range seeds {
		seeds[i] = rng.Uint64()
	}
	var wg sync.WaitGroup
	var done, timeouts atomic.Int64
	for g := 0; g < callers; g++ {
		wg.Add(1)
		go func(g int) {
			defer wg.Done()
			r := rand.New(rand.NewPCG(seeds[g], uint64(g)))
			for k := 0; k < opsPer; k++ {
				// the deadline only keeps a broken build from hanging the round; it is no verdict
				ctx, cancelOp := context.WithTimeout(context.Background(), 20*time.Second)
				var err error
				switch r.IntN(11) {
				case 8:
					_, err = cli.Batch(ctx, []jrpc2.Spec{{Method: "e"}})
				case 9: // method names that need JSON (not Go) escaping must still give whole messages
					name := c10oddNames[r.IntN(len(c10oddNames))]
					err = cli.Notify(ctx, name, nil)
					if err == nil {
						_, err = cli.Call(ctx, name, []string{name})
						if _, ok := err.(*jrpc2.Error); ok {
							err = nil
						}
					}
				case 10:
					srv.Notify(ctx, c10oddNames[r.IntN(len(c10oddNames))], map[string]string{"k": "v\u2028\a"})
				case 0, 1:
					_, err = cli.Call(ctx, "i", []int{k})
				case 2:
					_, err = cli.Call(ctx, "push", nil)
				case 3:
					_, err = cli.Batch(ctx, []jrpc2.Spec{{Method: "i"}, {Method: "e"}, {Method: "i", Notify: true}, {Method: "nosuch"}})
				case 4:
					err = cli.Notify(ctx, "i", nil)
				case 5:
					cctx, cancel := context.WithCancel(ctx)
					go cancel()
					_, err = cli.Call(cctx, "slow", nil)
					if err == context.Canceled {
						err = nil
					}
				case 6:
					srv.CancelRequest(fmt.Sprint(1 + r.IntN(200)))
				case 7:
					_, err = cli.Call(ctx, "e", nil)
					if _, ok := err.(*jrpc2.Error); ok {
						err = nil
					}
				}
				cancelOp()
				if err == context.DeadlineExceeded {
					timeouts.Add(1)
				}
				done.Add(1)
				if err != nil && (cli.IsStopped()) {
					return
				}
			}
		}(g)
	}
	// end the connection while traffic is still flowing
	wg.Add(1)
	go func() {
		defer wg.Done()
		for done.Load() < int64(callers*opsPer/2) {
			sched.Yield()
		}
		switch endHow {
		case 0:
			cli.Close()
		case 1:
			srv.Stop()
			cli.Close()
		default:
			var w2 sync.WaitGroup
			w2.Add(2)
			go func() { defer w2.Done(); srv.Stop() }()
			go func() { defer w2.Done(); cli.Close() }()
			w2.Wait()
		}
	}()
	wg.Wait()
	cli.Close()
	srv.Stop()
	srv.WaitStatus()
	for _, e := range []*vchan.End{cliEnd, srvEnd} {
		if _, _, closes := e.Counts(); closes != 1 {
			c.Failf("end %s: Close called %d times for one Start/NewClient", e.Name, closes)
		}
	}
	s1, r1, _ := cliEnd.Counts()
	s2, r2, _ := srvEnd.Counts()
	c.Count("channel_ops", int(mon.Ops.Load()))
	c.Count("sends", int(s1+s2))
	c.Count("recvs", int(r1+r2))
	c.Count("pushes", int(pushes.Load()))
	c.Count("api_ops", int(done.Load()))
	c.Count("ops_abandoned_after_20s", int(timeouts.Load()))
	c.Eval(1)
}

// c10recvErrors are the errors the failing-Recv variants inject: a plain failure, end of
// stream, and the spellings of "the connection was closed" that channel.IsErrClosing knows.
var c10recvErrors = []error{
	errors.New("c10: transport failure"), io.EOF, fmt.Errorf("c10: %w", channel.ErrClosed), net.ErrClosed, fmt.Errorf("read tcp: %w", net.ErrClosed),
}

// c10bubble runs a scripted server scenario in a bubble with the monitor armed.
func c10bubble(c *vt.Ctx, variant int, ctrl *sched.Controller) {
	peer.Bubble(c, ctrl, func() {
		opts := peer.ServerOpts{AllowPush: true, Concurrency: 8, FailOnDiscipline: true, PipeLike: variant%2 == 0, Spin: 6, Validator: c10validRecord}
		if k := variant/2 - 4; k >= 0 {
			// the connection ends by a failing Recv, with every kind of error a transport reports
			opts.Faults = []vchan.Fault{{Op: vchan.OpRecv, N: 3, Sticky: true, Err: c10recvErrors[k]}}
		}
		rig := peer.NewServerRig(c, ctrl, opts)
		rig.H.OnEnter = func(ctx context.Context, tag string, req *jrpc2.Request) {
			if tag == "p1" || tag == "p2" {
				jrpc2.ServerFromContext(ctx).Notify(ctx, "note", nil)
			}
		}
		switch variant / 2 {
		case 0: // three messages complete together
			for i := 1; i <= 3; i++ {
				rig.Send(peer.Req(fmt.Sprint(i), "g", fmt.Sprintf("c%d", i)))
			}
			rig.Settle()
			rig.H.ReleaseAll()
		case 1: // pushes from handlers while other batches are delivered
			rig.Send(peer.Req("1", "g", "c1"))
			rig.Send(peer.Req("2", "g", "c2"))
			rig.Settle()
			rig.H.ReleaseAll()
			rig.Send(peer.Req("3", "i", "p1"))
			rig.Send(peer.Req("4", "i", "p2"))
			go rig.Srv.Notify(context.Background(), "outside", nil)
		case 2: // stop racing deliveries and parse errors
			rig.Send(peer.Req("1", "g", "c1"))
			rig.Send(`garbage`)
			rig.Send(`[]`)
			rig.Send(`[{"jsonrpc":"2.0","id":5,"method":"nosuch"}]`)
			rig.Send(`[{"jsonrpc":"2.0","method":"nosuch"},{"jsonrpc":"2.0","id":6,"method":"e","params":{"t":"e6"}}]`)
			rig.Settle()
			rig.H.ReleaseAll()
			rig.Send(`more garbage`)
			rig.Srv.Stop()
		case 4, 5, 6, 7, 8: // traffic until the third Recv fails
			rig.Send(peer.Req("1", "g", "c1"))
			rig.Send(peer.Req("2", "i", "c2"))
			rig.Settle()
			rig.H.ReleaseAll()
		case 3: // callback outstanding, reply and stop
			go rig.Srv.Callback(context.Background(), "cb", nil)
			rig.Send(peer.Req("1", "g", "c1"))
			rig.Settle()
			rig.Send(`{"jsonrpc":"2.0","id":1,"result":1}`)
			rig.H.ReleaseAll()
			rig.Send(`[]`)
		}
		rig.Settle()
		if _, ok := rig.Finish(); !ok {
			c.Failf("server did not exit")
		}
		if _, _, closes := rig.End.Counts(); closes != 1 {
			c.Failf("server end: Close called %d times", closes)
		}
		c.Count("channel_ops", int(rig.Mon.Ops.Load()))
		s, r, _ := rig.End.Counts()
		c.Count("sends", int(s))
		c.Count("recvs", int(r))
	})
	c.Eval(1)
}

// c10bubbleClient: a real client, raw peer; sends racing callback replies and close.
func c10bubbleClient(c *vt.Ctx, variant int, ctrl *sched.Controller) {
	peer.Bubble(c, ctrl, func() {
		rig := peer.NewClientRig(c, ctrl, peer.ClientOpts{PipeLike: variant%2 == 0, FailOnDiscipline: true, Spin: 6, Validator: c10validRecord})
		ctx, cancel := context.WithCancel(context.Background())
		defer cancel()
		rig.Reply(`{"jsonrpc":"2.0","id":900,"method":"i","params":{"t":"cb1"}}`)
		rig.Reply(`{"jsonrpc":"2.0","id":901,"method":"i","params":{"t":"cb2"}}`)
		rig.GoCall("a", ctx, "m", nil)
		rig.GoCall("b", ctx, "m", nil)
		rig.GoNotify("n", ctx, "m", nil)
		if variant/2 == 1 {
			rig.GoClose()
		}
		rig.Settle()
		rig.Reply(`[{"jsonrpc":"2.0","id":1,"result":1},{"jsonrpc":"2.0","id":2,"result":2}]`)
		rig.Reply(`{"jsonrpc":"2.0","id":902,"method":"i","params":{"t":"cb3"}}`)
		rig.GoCall("c", ctx, "m", nil)
		rig.Settle()
		cancel()
		rig.GoClose()
		rig.Settle()
		rig.Peer.CloseQuiet()
		rig.Settle()
		if _, _, closes := rig.End.Counts(); closes != 1 {
			c.Failf("client end: Close called %d times", closes)
		}
		c.Count("channel_ops", int(rig.Mon.Ops.Load()))
		s, r, _ := rig.End.Counts()
		c.Count("sends", int(s))
		c.Count("recvs", int(r))
	})
	c.Eval(1)
}

func init() {
	vt.Register(&vt.Check{
		Prop:  "C10",
		Level: "exploration",
		Rule: "(S) real-time stress rounds: real Client <-> real Server over an instrumented channel pair, 16-32 caller goroutines x random {Call, Batch, Notify, cancelled Call, push-issuing Call, CancelRequest}, connection ended mid-traffic by Close / Stop / both, Gosched at every hook; " +
			"(B) scripted bubble scenarios (batches completing together, pushes during delivery, stop racing deliveries and parse errors, callback reply racing stop, the third Recv failing with {plain error, io.EOF, wrapped channel.ErrClosed, net.ErrClosed, wrapped net.ErrClosed}; client sends racing callback replies and Close) with every single hook visit parked. " +
			"distinct_nontrivial = distinct (round seed, ending mode) and (scenario, delay set) executions in which both ends performed at least one Send",
		Assumptions: []string{
			"overlap is detected when the second operation enters while the first is inside the channel (a Gosched spin widens the window); the race detector independently reports unsynchronised use",
			"Recv overlapping Close is permitted (that is how a blocked reader is released)",
		},
		Require: map[string]int64{"sends": 5000, "recvs": 5000, "channel_ops": 20000},
		Cases:   c10cases,
	})
}

func c10cases(e vt.Env, yield func(vt.Case) bool) {
	rounds := e.Pick(96, 2000)
	rng := e.Rand("C10/S")
	for i := 0; i < rounds; i++ {
		s1, s2 := rng.Uint64(), rng.Uint64()
		callers := []int{8, 16, 32}[i%3]
		how := i % 3
		id := fmt.Sprintf("S/%d/callers=%d/end=%d", i, callers, how)
		if !yield(vt.Case{ID: id, Run: func(c *vt.Ctx) {
			c10stress(c, rand.New(rand.NewPCG(s1, s2)), callers, e.Pick(40, 60), how)
			c.Distinct(id)
			if c.WantSample() {
				c.Sample(map[string]any{"round": id, "what": "callers issue random Call/Batch/Notify/cancelled Call/push/CancelRequest, connection ended mid-traffic"})
			}
		}}) {
			return
		}
	}
	d := e.Pick(1, 2)
	for v := 0; v < 8+2*len(c10recvErrors); v++ {
		v := v
		id := fmt.Sprintf("B/server/%d/d%d", v, d)
		if !yield(vt.Case{ID: id, Run: func(c *vt.Ctx) {
			prof := sched.New()
			c10bubble(c, v, prof)
			if c.Failed() {
				return
			}
			sched.DelaySets(prof.Keys(), d, func(ds []string) bool {
				c10bubble(c, v, sched.New().WithDelays(ds...))
				c.Distinct(id + "/" + join(ds))
				return !c.Failed()
			})
		}}) {
			return
		}
	}
	for v := 0; v < 4; v++ {
		v := v
		id := fmt.Sprintf("B/client/%d/d%d", v, d)
		if !yield(vt.Case{ID: id, Run: func(c *vt.Ctx) {
			prof := sched.New()
			c10bubbleClient(c, v, prof)
			if c.Failed() {
				return
			}
			sched.DelaySets(prof.Keys(), d, func(ds []string) bool {
				c10bubbleClient(c, v, sched.New().WithDelays(ds...))
				c.Distinct(id + "/" + join(ds))
				return !c.Failed()
			})
		}}) {
			return
		}
	}
}
