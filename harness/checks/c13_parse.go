package checks

import (
	"bytes"
	"encoding/json"
	"errors"
	"fmt"
	"reflect"
	"strings"

	"github.com/creachadair/jrpc2"

	"verif/harness/oracle"
	"verif/harness/peer"
	"verif/harness/sched"
	"verif/harness/vt"
)

// C13, half P: jrpc2.ParseRequests against the reference classifier, and
// against what a live server answers to the same record.

type c13pin struct {
	in    string
	diff  bool // also send it to a live server
	exact bool // every member has at most one defect: the server must answer with the very code ParseRequests reports
}

// c13readings returns the admissible reference readings of a member: those of
// oracle.ClassifyMember, plus - if the member carries a null-valued "error"
// key - the readings of the member without that key (a null error is "no
// error" for the library's parser as for its server; stated leniency).
func c13readings(raw []byte, base []oracle.Member) []oracle.Member {
	pairs, err := c13pairs(raw)
	if err != nil {
		return base
	}
	var keep []string
	dropped := false
	for _, p := range pairs {
		if p.k == "error" && string(bytes.TrimSpace(p.v)) == "null" {
			dropped = true
			continue
		}
		k, _ := json.Marshal(p.k)
		keep = append(keep, string(k)+":"+string(p.v))
	}
	if !dropped {
		return base
	}
	return append(append([]oracle.Member(nil), base...), oracle.ClassifyMember([]byte("{"+strings.Join(keep, ",")+"}"))...)
}

const c13pblock = 400

func c13jsonEqual(a, b []byte) bool {
	var ca, cb bytes.Buffer
	if json.Compact(&ca, a) == nil && json.Compact(&cb, b) == nil && bytes.Equal(ca.Bytes(), cb.Bytes()) {
		return true
	}
	va, e1 := c13decode(a)
	vb, e2 := c13decode(b)
	return e1 == nil && e2 == nil && reflect.DeepEqual(va, vb)
}

func c13showParsed(ps []*jrpc2.ParsedRequest, err error) string {
	var sb strings.Builder
	fmt.Fprintf(&sb, "err=%v entries=%d", err, len(ps))
	for i, p := range ps {
		if i >= 6 {
			sb.WriteString(" ...")
			break
		}
		if p == nil {
			sb.WriteString(" <nil>")
			continue
		}
		fmt.Fprintf(&sb, " {ID:%s Method:%s Params:%s Error:%v}", c13short(p.ID), c13short(p.Method), c13short(string(p.Params)), p.Error)
	}
	return sb.String()
}

// c13parseJudge evaluates ParseRequests on one input against the reference.
func c13parseJudge(c *vt.Ctx, in string) (ps []*jrpc2.ParsedRequest, perr error, ok bool) {
	c.Eval(1)
	c.Count("parse_inputs", 1)
	ps, perr, pan := c13parseRequests([]byte(in))
	fail := func(format string, args ...any) {
		c.Failf("ParseRequests(%s): %s; got %s", c13short(in), fmt.Sprintf(format, args...), c13showParsed(ps, perr))
	}
	if pan != nil {
		fail("panic: %v", pan)
		return nil, nil, false
	}
	ref := oracle.ClassifyRecord([]byte(in))
	if !ref.ValidJSON {
		c.Count("parse_toplevel_errors", 1)
		if perr == nil {
			fail("the input is not valid JSON but no top-level error is reported")
			return ps, perr, false
		}
		if len(ps) != 0 {
			fail("entries returned together with a top-level error")
			return ps, perr, false
		}
		return ps, perr, true
	}
	if perr != nil {
		fail("top-level error for an input that is valid JSON")
		return ps, perr, false
	}
	if len(ps) != len(ref.Members) {
		fail("%d entries for %d members", len(ps), len(ref.Members))
		return ps, perr, false
	}
	for i, p := range ps {
		if p == nil {
			fail("entry %d is nil", i)
			return ps, perr, false
		}
		rq, pan := func() (rq *jrpc2.Request, pan any) {
			defer func() { pan = recover() }()
			return p.ToRequest(), nil
		}()
		if pan != nil {
			fail("entry %d: ToRequest panicked: %v", i, pan)
			return ps, perr, false
		}
		why := ""
		for _, r := range c13readings(ref.Raw[i], ref.Members[i]) {
			if r.Kind == oracle.Invalid {
				if p.Error == nil {
					why = "the member is structurally invalid (" + r.Why + ") but is not flagged"
					continue
				}
				if p.Error.Code != jrpc2.ParseError && p.Error.Code != jrpc2.InvalidRequest {
					why = fmt.Sprintf("flagged with code %d, a server answers -32700 or -32600", p.Error.Code)
					continue
				}
				if rq != nil {
					why = "ToRequest() of a flagged entry is not nil"
					continue
				}
				why = ""
				break
			}
			if p.Error != nil {
				why = fmt.Sprintf("the member is a valid %v but is flagged: %v", r.Kind, p.Error)
				continue
			}
			switch {
			case r.Kind == oracle.Note && p.ID != "":
				why = fmt.Sprintf("notification (absent or null id) parsed with ID %q", p.ID)
			case r.Kind == oracle.Call && !oracle.IDEqual(json.RawMessage(p.ID), r.ID):
				why = fmt.Sprintf("ID %q, the member's id is %s", p.ID, r.ID)
			case r.Kind == oracle.Call && p.ID == "":
				why = "call parsed with an empty ID"
			case p.Method != r.Method:
				why = fmt.Sprintf("Method %s, the member's method is %s", c13short(p.Method), c13short(r.Method))
			case r.Params == nil && len(p.Params) != 0:
				why = fmt.Sprintf("Params %s for a member without (or with null) params", c13short(string(p.Params)))
			case r.Params != nil && !c13jsonEqual(p.Params, r.Params):
				why = fmt.Sprintf("Params %s, the member's params are %s", c13short(string(p.Params)), c13short(string(r.Params)))
			case rq == nil:
				why = "ToRequest() of a valid entry is nil"
			case rq.ID() != p.ID || rq.Method() != p.Method || rq.ParamString() != string(p.Params):
				// IsNotification of the converted request is deliberately not asserted (not part of the statement)
				why = fmt.Sprintf("ToRequest() = {ID:%q Method:%s Params:%s} does not agree with the entry", rq.ID(), c13short(rq.Method()), c13short(rq.ParamString()))
			default:
				why = ""
			}
			if why == "" {
				break
			}
		}
		if why != "" {
			fail("entry %d (member %s): %s", i, c13short(string(ref.Raw[i])), why)
			return ps, perr, false
		}
		if p.Error != nil {
			c.Count("parse_members_flagged", 1)
		} else {
			c.Count("parse_members_valid", 1)
		}
	}
	return ps, perr, true
}

// c13diff sends the record to a live server and requires that the server
// answers the flagged members with the codes ParseRequests reported and does
// not answer any other member with a structural error.
func c13diff(c *vt.Ctx, rig *peer.ServerRig, in string, exact bool, ps []*jrpc2.ParsedRequest, perr error) {
	n0 := len(rig.Outbound())
	rig.Send(in)
	rig.Settle()
	out := rig.OutboundFrom(n0)
	fail := func(format string, args ...any) {
		c.Failf("differential, input %s: %s; ParseRequests: %s; the server emitted %s", c13short(in), fmt.Sprintf(format, args...), c13showParsed(ps, perr), c13clipAll(out))
	}
	c.Count("differential_checked", 1)
	var resps []oracle.Resp
	if len(out) > 1 {
		fail("%d records for one input", len(out))
		return
	}
	if len(out) == 1 {
		rs, _, err := oracle.ParseResponsesLoose(out[0])
		if err != nil {
			fail("the server's answer is not a JSON-RPC response: %v", err)
			return
		}
		resps = rs
	}
	if perr != nil {
		var je *jrpc2.Error
		if !errors.As(perr, &je) {
			fail("the top-level error is not a *jrpc2.Error")
			return
		}
		if len(resps) != 1 || !resps[0].IsErr || resps[0].Code != int(je.Code) || !oracle.IDEqual(nil, resps[0].ID) {
			fail("ParseRequests reports the top-level error code %d, the server answers differently", je.Code)
		}
		return
	}
	if len(ps) == 0 {
		c.Count("differential_empty_batch", 1) // the server's -32600 concerns the envelope, not a member
		return
	}
	idCount := map[string]int{}
	for _, p := range ps {
		if p.ID != "" {
			idCount[p.ID]++
		}
	}
	j := 0
	for i, p := range ps {
		dup := p.ID != "" && idCount[p.ID] > 1
		if p.Error == nil && p.ID == "" {
			continue // a valid notification: no answer
		}
		if j >= len(resps) {
			fail("no answer for entry %d", i)
			return
		}
		r := resps[j]
		j++
		var wantID json.RawMessage
		if p.ID != "" {
			wantID = json.RawMessage(p.ID)
		}
		if !oracle.IDEqual(wantID, r.ID) {
			fail("entry %d has ID %q, the server's answer at that position has id %s", i, p.ID, r.ID)
			return
		}
		structural := r.IsErr && (r.Code == -32700 || r.Code == -32600)
		switch {
		case dup && r.IsErr && r.Code == -32600:
			// duplicate request id within the record
		case p.Error != nil && !structural:
			fail("entry %d is flagged with code %d, the server answers isErr=%v code=%d", i, p.Error.Code, r.IsErr, r.Code)
			return
		case p.Error != nil && exact && r.Code != int(p.Error.Code):
			fail("entry %d (at most one defect) is flagged with code %d, the server answers with code %d", i, p.Error.Code, r.Code)
			return
		case p.Error == nil && structural:
			fail("entry %d is not flagged, but the server rejects the member with code %d (%s)", i, r.Code, r.Msg)
			return
		}
	}
	if j != len(resps) {
		fail("the server gave %d answers, ParseRequests accounts for %d", len(resps), j)
	}
}

func c13parseRun(c *vt.Ctx, inputs []c13pin) {
	type parsed struct {
		in    string
		exact bool
		ps    []*jrpc2.ParsedRequest
		perr  error
	}
	var todo []parsed
	for _, pin := range inputs {
		ps, perr, ok := c13parseJudge(c, pin.in)
		if pin.in != c02ok {
			c.DistinctHash(vt.Hash64("P\x00" + pin.in))
		}
		if ok && pin.diff {
			todo = append(todo, parsed{pin.in, pin.exact, ps, perr})
		}
		if c.Failed() {
			return
		}
	}
	if c.WantSample() && len(inputs) > 0 {
		in := inputs[c.Index%len(inputs)].in
		ps, perr, _ := c13parseRequests([]byte(in))
		c.Sample(map[string]any{"path": "P", "input": c13short(in), "ParseRequests": c13showParsed(ps, perr)})
	}
	if len(todo) == 0 {
		return
	}
	ctrl := sched.New()
	peer.Bubble(c, ctrl, func() {
		log := peer.NewLog()
		h := peer.NewHandlers(log)
		rig := peer.NewServerRig(c, ctrl, peer.ServerOpts{Concurrency: 4, Assigner: c02assigner{h}})
		for _, t := range todo {
			c13diff(c, rig, t.in, t.exact, t.ps, t.perr)
			if t.exact {
				c.Count("differential_exact_code", 1)
			}
			if c.Failed() {
				break
			}
		}
		if _, ok := rig.Finish(); !ok {
			c.Failf("differential: the server did not exit after the peer closed")
		}
	})
}

func c13parseCases(e vt.Env, yield func(vt.Case) bool) {
	var buf []c13pin
	nblock := 0
	flush := func(prefix string) bool {
		if len(buf) == 0 {
			return true
		}
		nblock++
		inputs := append([]c13pin(nil), buf...)
		buf = buf[:0]
		return yield(vt.Case{ID: fmt.Sprintf("%s/%d", prefix, nblock), Run: func(c *vt.Ctx) { c13parseRun(c, inputs) }})
	}
	// P0: hand-picked envelopes and members
	special := []string{``, ` `, `garbage`, `{`, `[`, `]`, `[]`, ` [ ] `, "\n[\n]\n", `[[]]`, `[1]`, `["s"]`, `[null]`, `[true]`, `[{}]`, `{}`, `1`, `5`, `-0`, `1e5`, `"s"`, `"x"`, `""`, `null`, `true`, `false`,
		` 5 `, "\t\"x\"\n", `nul`, `5 5`, `[1,2,3]`, `[` + c02ok + `,1]`, `[1,` + c02ok + `]`, `[[` + c02ok + `]]`, `{"jsonrpc":"2.0","method":"i"} trailing`, c02ok + c02ok, "\xff\xfe", "\xef\xbb\xbf" + c02ok,
		`{"jsonrpc":"2.0","id":1}`, `{"jsonrpc":"2.0"}`, `{"jsonrpc":"2.0","id":1,"method":""}`, `{"jsonrpc":"2.0","id":1,"method":null}`, `{"jsonrpc":"2.0","method":""}`, `{"jsonrpc":"2.0","method":null,"params":[]}`,
		`{"jsonrpc":"2.0","id":1,"result":5}`, `{"jsonrpc":"2.0","id":1,"result":null}`, `{"jsonrpc":"2.0","id":1,"error":{"code":1}}`, `{"jsonrpc":"2.0","id":1,"error":{"code":1,"message":"m"}}`, `{"jsonrpc":"2.0","id":1,"error":5}`, `{"jsonrpc":"2.0","id":1,"error":null}`,
		`{"jsonrpc":"2.0","id":1,"method":"i","result":null}`, `{"jsonrpc":"2.0","id":1,"method":"i","error":null}`,
		`[{"jsonrpc":"2.0","id":1},` + c02ok + `]`, `[` + c02ok + `,{"jsonrpc":"2.0","id":2,"method":""}]`,
		`{"jsonrpc":"2.0","id":1,"method":"i\u0000"}`, `{"jsonrpc":"2.0","id":1,"method":"i"}`, `{"JSONRPC":"2.0","id":1,"method":"i"}`, `{"jsonrpc":"2.0","ID":1,"method":"i"}`, `{"jsonrpc":"2.0","id":1,"Method":"i"}`,
		`{"jsonrpc":"2.0","id":1,"method":"e"}`, `{"jsonrpc":"2.0","method":"e"}`, `[{"jsonrpc":"2.0","method":"i"},{"jsonrpc":"2.0","method":"e"}]`,
		`{"jsonrpc":"2.0","id":123456789012345678901234567890,"method":"i"}`, `{"jsonrpc":"2.0","id":1e999,"method":"i"}`, `{"jsonrpc":"2.0","id":"","method":"i"}`, `{"jsonrpc":"2.0","id":"null","method":"i"}`,
		`{"jsonrpc":"2.0","id":null,"method":"i"}`, `{"jsonrpc":"2.0","id": null ,"method":"i"}`, `{"jsonrpc":"2.0","id":null,"method":"i","params":null}`, `{"jsonrpc":"2.0","id":7,"method":"i","params": null }`,
		`{"jsonrpc":"2.0","id":7,"method":"i","params":[1,{"a":[]},"x"]}`, "{\"jsonrpc\":\"2.0\",\"id\":7,\"method\":\"i\",\"params\":{\n \"a\" : [ 1 ,\n 2 ] }}", `{"jsonrpc":"2.0","id":7,"method":"i","params":"s"}`, `{"jsonrpc":"2.0","id":7,"method":"i","params":0}`,
		`{"jsonrpc":"2.0","id":7,"method":"mé\u2028😀\"\\","params":{"k\u0001":"<>&"}}`, `{"jsonrpc":"2.0","id":"\u0041\ud83d\ude00","method":"i"}`, `{"jsonrpc":"2.0","id":"\ud800","method":"\udfff"}`,
		`{"jsonrpc":"2.0","id":1,"id":2,"method":"i"}`, `{"jsonrpc":"2.0","id":1,"method":"i","method":""}`, `{"jsonrpc":"2.0","id":1,"method":"","method":"i"}`, `{"jsonrpc":"1.0","jsonrpc":"2.0","id":1,"method":"i"}`,
		`{"jsonrpc":"2.0","id":[1],"method":"i"}`, `{"jsonrpc":"2.0","id":{},"method":"i"}`, `{"jsonrpc":"2.0","id":false,"method":"i"}`,
		`[` + c02ok + `,` + c02ok + `]`, `[{"jsonrpc":"2.0","id":1,"method":"i"},{"jsonrpc":"2.0","id":1,"method":5}]`,
		` {"jsonrpc":"2.0","id":1,"method":"i"} `, "\n[\n" + c02ok + "\n]\n", strings.Repeat("[", 10001) + strings.Repeat("]", 10001), strings.Repeat("[", 9999) + strings.Repeat("]", 9999),
	}
	for _, s := range special {
		buf = append(buf, c13pin{s, true, true})
	}
	for _, s := range c02whitespaced() { // JSON whitespace around and inside single and batch records
		buf = append(buf, c13pin{s, true, true})
	}
	if !flush("P/special") {
		return
	}
	// P1: the C02 product of field variants in the four containers
	for v := range c02versions {
		for i := range c02ids {
			for m := range c02methods {
				for p := range c02params {
					for x := range c02extras {
						idx := [5]int{v, i, m, p, x}
						defects := 0
						for k := range idx {
							if idx[k] != c02base[k] {
								defects++
							}
						}
						mem := c02member(v, i, m, p, x)
						h := vt.Hash64(fmt.Sprint("C13", e.Seed, mem))
						if !e.Thorough() && defects > 1 && h%10 != 0 {
							continue
						}
						for ci, rec := range c02containers(mem) {
							buf = append(buf, c13pin{rec, defects <= 1 || (h/10+uint64(ci))%8 == 0, defects <= 1})
						}
						if len(buf) >= c13pblock {
							if !flush("P/product") {
								return
							}
						}
					}
				}
			}
		}
	}
	if !flush("P/product") {
		return
	}
	// P2: seeded mutations of valid records (requests and replies)
	seeds := []string{
		c02ok, `{"jsonrpc":"2.0","method":"i","params":[1,2,3]}`, `[` + c02ok + `,{"jsonrpc":"2.0","id":7,"method":"nosuch"}]`,
		`{"jsonrpc":"2.0","id":3,"result":{"a":[1,2,{"b":null}]}}`, `{"jsonrpc":"2.0","id":"x","error":{"code":-5,"message":"boom","data":[true]}}`,
		`[{"jsonrpc":"2.0","id":1,"method":"i","params":{"t":"a","n":1.5e3}},{"jsonrpc":"2.0","method":"e"},{"jsonrpc":"2.0","id":"s","method":"rpc.serverInfo"}]`,
		`{"jsonrpc":"2.0","id":-12.5,"method":"i","params":{"t":"éé😀","x":"<>&"}}`,
		`{"jsonrpc":"2.0","id":null,"method":"i","params":null}`, `[{"jsonrpc":"2.0","id":4},{"jsonrpc":"2.0","id":5,"method":"e","params":[]}]`,
	}
	rng := e.Rand("C13/P2")
	total := e.Pick(6000, 400000)
	for k := 0; k < total; k++ {
		buf = append(buf, c13pin{c02mutate(rng, seeds[rng.IntN(len(seeds))]), k%8 == 0, false})
		if len(buf) >= c13pblock {
			if !flush("P/mut") {
				return
			}
		}
	}
	flush("P/mut")
}
