package checks

import (
	"context"
	"fmt"
	"io"
	"math/rand/v2"
	"net/http/httptest"
	"runtime"
	"strings"
	"sync"
	"sync/atomic"
	"time"

	"github.com/creachadair/jrpc2"
	"github.com/creachadair/jrpc2/jhttp"

	"verif/harness/peer"
	"verif/harness/sched"
	"verif/harness/vt"
)

// c18assigner exposes the harness methods i (instant), e (error), g (gated),
// c (returns context.Canceled) and d (returns an *Error with code DeadlineExceeded).
type c18assigner struct{ h *peer.Handlers }

func (a c18assigner) Assign(ctx context.Context, m string) jrpc2.Handler {
	if m == "i" || m == "e" || m == "g" || m == "c" || m == "d" {
		return a.h.Assign(ctx, m)
	}
	return nil
}
func (a c18assigner) Names() []string { return []string{"c", "d", "e", "g", "i"} }

func c18bridge(h *peer.Handlers) jhttp.Bridge {
	return jhttp.NewBridge(c18assigner{h}, &jhttp.BridgeOptions{Server: &jrpc2.ServerOptions{Concurrency: 16}})
}

// ---- body construction ----------------------------------------------------

// c18idPool are the id texts every caller of a scenario draws from, in the
// same order: different callers therefore use identical ids.
var c18idPool = []string{`1`, `"1"`, `1.0`, `1e0`, `-0`, `"a<b>&"`, `""`, `99999999999999999999999`, `1.50`, `1E+2`, `"\u0031"`, `0`}

// c18idset returns the ids used by the k-th, (k+1)-th ... call of a body.
// Set len(pool) is "every call uses the id 1".
func c18idset(k int) []string {
	n := len(c18idPool)
	if k%(n+1) == n {
		return []string{`1`}
	}
	out := make([]string, n)
	for j := range out {
		out[j] = c18idPool[(k+j)%n]
	}
	return out
}

const c18nIdsets = 13

// c18build makes the body of one POST from a shape. A shape is one symbol
// (single object) or "[...]" (batch); symbols:
//
//	C gated call   c gated call repeating the previous call's id
//	I instant call E call returning an application error   U call of an unknown method
//	S rpc.serverInfo call
//	N notification n notification to an unknown method
//	X invalid member whose id must be echoed   x invalid member answered with id null
//	M member with neither id nor method
//
// With instant set, gated calls become instant ones.
func c18build(name, shape string, ids []string, instant bool) c18post {
	p := c18post{name: name, method: "POST", ctype: "application/json"}
	batch := strings.HasPrefix(shape, "[")
	syms := strings.Trim(shape, "[]")
	var parts []string
	next, prev := 0, ids[0]
	nextID := func() string {
		id := ids[next%len(ids)]
		next++
		prev = id
		return id
	}
	h := int(vt.Hash64(name+shape) % 1000)
	for j, ch := range syms {
		tag := fmt.Sprintf("%s.%d", name, j)
		tp := `"params":{"t":"` + tag + `"}`
		var m string
		switch ch {
		case 'C', 'c':
			id := prev
			if ch == 'C' {
				id = nextID()
			}
			meth := "g"
			if instant {
				meth = "i"
			} else {
				p.gates = append(p.gates, tag)
			}
			m = peer.Req(id, meth, tag)
		case 'I':
			m = peer.Req(nextID(), "i", tag)
		case 'E':
			m = peer.Req(nextID(), "e", tag)
		case 'U':
			m = peer.Req(nextID(), "nosuch", tag)
		case 'S':
			m = peer.Req(nextID(), "rpc.serverInfo", "")
		case 'N':
			m = peer.Req("", "i", tag)
		case 'n':
			m = peer.Req("", "nosuch", tag)
		case 'X':
			id := nextID()
			m = []string{
				`{"jsonrpc":"1.0","id":` + id + `,"method":"i",` + tp + `}`,
				`{"id":` + id + `,"method":"i",` + tp + `}`,
				`{"jsonrpc":"2.0","id":` + id + `,"method":"i","params":5}`,
				`{"jsonrpc":"2.0","id":` + id + `,"method":"i",` + tp + `,"x":1}`,
				`{"jsonrpc":"2.0","id":` + id + `,"method":"i",` + tp + `,"result":1}`,
				`{"jsonrpc":"2.0","id":` + id + `}`,
				`{"jsonrpc":"2.0","id":` + id + `,"method":"",` + tp + `}`,
				`{"jsonrpc":"2.0","id":` + id + `,"method":7,` + tp + `}`,
			}[(h+j)%8]
		case 'x':
			m = []string{
				`7`, `"s"`, `null`, `[]`, `{}`,
				`{"jsonrpc":"2.0","id":true,"method":"i",` + tp + `}`,
				`{"jsonrpc":"2.0","id":[1],"method":"i",` + tp + `}`,
				`{"jsonrpc":"2.0","id":{"a":1},"method":"i",` + tp + `}`,
				`{"jsonrpc":"2.0","method":"i","params":"s"}`,
				`{"jsonrpc":"1.0","method":"i",` + tp + `}`,
			}[(h+j)%10]
		case 'M':
			m = []string{
				`{"jsonrpc":"2.0"}`,
				`{"jsonrpc":"2.0","method":""}`,
				`{"jsonrpc":"2.0",` + tp + `}`,
				`{"jsonrpc":"2.0","id":null,"method":null}`,
				`{"jsonrpc":"2.0","id":null,` + tp + `}`,
			}[(h+j)%5]
		default:
			panic("c18build: bad symbol in shape " + shape)
		}
		parts = append(parts, m)
	}
	if batch {
		p.body = "[" + strings.Join(parts, ",") + "]"
	} else {
		if len(parts) != 1 {
			panic("c18build: single shape with several members: " + shape)
		}
		p.body = parts[0]
	}
	return p
}

// c18shapes is the alphabet of bodies of the concurrent scenarios.
var c18shapes = []string{
	"C", "I", "E", "N", "X", "M",
	"[C]", "[CC]", "[Cc]", "[NC]", "[CN]", "[XC]", "[CX]", "[MC]", "[NXCI]", "[CNCXE]", "[IENU]", "[NN]", "[xM]", "[nCxcN]", "[SC]",
}

func c18gatesIn(shape string) int { return strings.Count(shape, "C") + strings.Count(shape, "c") }

// ---- hook observer with spin parks ---------------------------------------

// c18obs records the visits of the cli.* and srv.* hook points and delays
// the goroutine at chosen visits by yielding the processor many times. (The
// bridge's client and server are joined by channel.Direct, whose Send blocks
// under the sender's mutex; a virtual-time sleep at a hook could then leave
// the bubble with a mutex waiter and no runnable goroutine.)
type c18obs struct {
	mu     sync.Mutex
	visits map[string]int
	trace  []string
	delays map[string]bool
	parks  atomic.Int64
}

func c18newObs(delays []string) *c18obs {
	o := &c18obs{visits: map[string]int{}, delays: map[string]bool{}}
	for _, d := range delays {
		o.delays[d] = true
	}
	return o
}

func (o *c18obs) visit(site string) {
	if !strings.HasPrefix(site, "cli.") && !strings.HasPrefix(site, "srv.") {
		return
	}
	o.mu.Lock()
	k := o.visits[site]
	o.visits[site] = k + 1
	key := fmt.Sprintf("%s#%d", site, k)
	o.trace = append(o.trace, key)
	park := o.delays[key]
	o.mu.Unlock()
	if park {
		o.parks.Add(1)
		for i := 0; i < 300; i++ {
			runtime.Gosched()
		}
	}
}

func (o *c18obs) keys() []string {
	o.mu.Lock()
	defer o.mu.Unlock()
	return append([]string(nil), o.trace...)
}

// ---- one POST in flight ---------------------------------------------------

type c18flight struct {
	post c18post
	rec  *httptest.ResponseRecorder
	done atomic.Bool
}

// c18body returns the request body as a reader. Every other body (by its hash) comes as a
// reader whose length net/http cannot know in advance - a streamed or generated body, sent
// with chunked transfer encoding: the request then has ContentLength -1.
func c18body(body string) io.Reader {
	if vt.Hash64("c18body/"+body)%2 == 0 {
		return struct{ io.Reader }{strings.NewReader(body)}
	}
	return strings.NewReader(body)
}

func c18start(b jhttp.Bridge, p c18post, wg *sync.WaitGroup) *c18flight {
	f := &c18flight{post: p, rec: httptest.NewRecorder()}
	req := httptest.NewRequest(p.method, "/", c18body(p.body))
	if p.ctype != "" {
		req.Header.Set("Content-Type", p.ctype)
	}
	wg.Add(1)
	go func() {
		defer wg.Done()
		b.ServeHTTP(f.rec, req)
		f.done.Store(true)
	}()
	return f
}

func c18describe(posts []c18post) []string {
	var out []string
	for _, p := range posts {
		s := p.method + " " + p.name + " " + p.body
		if p.ctype != "application/json" {
			s += " [Content-Type " + p.ctype + "]"
		}
		out = append(out, s)
	}
	return out
}

// ---- concurrent scenario in a bubble --------------------------------------

// c18exec posts all bodies concurrently to one bridge, waits until every
// caller is blocked in its gated handlers, releases the gates in the given
// order and checks at every quiescent point that exactly the POSTs whose
// gated calls have all been released are answered; then judges every answer.
func c18exec(c *vt.Ctx, what string, posts []c18post, order []string, obs *c18obs) {
	ctrl := sched.New()
	if obs != nil {
		ctrl.OnVisit(obs.visit)
	}
	if obs != nil && len(obs.delays) > 0 {
		var ds []string
		for d := range obs.delays {
			ds = append(ds, d)
		}
		what += " delayed at " + join(ds)
	}
	peer.Bubble(c, ctrl, func() {
		log := peer.NewLog()
		c.Attach(func() any {
			return map[string]any{"scenario": what, "posts": c18describe(posts), "release_order": order, "handler_log": log.Dump()}
		})
		H := peer.NewHandlers(log)
		bridge := c18bridge(H)
		var wg sync.WaitGroup
		flights := make([]*c18flight, len(posts))
		for i, p := range posts {
			flights[i] = c18start(bridge, p, &wg)
		}
		released := map[string]bool{}
		check := func(when string) {
			ctrl.Settle()
			inflight := 0
			for _, f := range flights {
				want := true
				for _, g := range f.post.gates {
					want = want && released[g]
					if n := log.Count("h.enter", g); n != 1 {
						c.Failf("%s, %s: gated handler %s of %s entered %d times, want 1 (all callers must be inside the shared client at once)", what, when, g, f.post.name, n)
					}
				}
				got := f.done.Load()
				switch {
				case got && !want:
					c.Failf("%s, %s: %s was answered (%d %q) although its own gated calls are still running", what, when, f.post.name, f.rec.Code, f.rec.Body.String())
				case !got && want:
					c.Failf("%s, %s: %s is not answered although all of its calls have returned", what, when, f.post.name)
				}
				if !got {
					inflight++
				}
			}
			if inflight >= 2 {
				c.Count("concurrent_overlaps_observed", 1)
			}
			c.Count("quiescent_points_checked", 1)
		}
		check("after all callers started")
		for k, g := range order {
			H.Release(g)
			released[g] = true
			check(fmt.Sprintf("after release %d (%s)", k, g))
		}
		H.ReleaseAll()
		ctrl.Settle()
		hung := false
		for _, f := range flights {
			if !f.done.Load() {
				hung = true
				c.Failf("%s: %s is never answered (all handlers have returned)", what, f.post.name)
			}
		}
		if hung {
			c.Flush()
			bridge.Close() // fails the pending calls so that the callers return
			wg.Wait()
			return
		}
		wg.Wait()
		counts := c18runCounts(log)
		runs := func(tag string) int {
			if strings.HasPrefix(tag, "-") {
				return -1
			}
			return counts[tag]
		}
		total := 0
		for _, f := range flights {
			v := c18judge(c, what, f.post, f.rec.Code, f.rec.Body.Bytes(), runs)
			total += v.runs
			c18tally(c, v)
		}
		if n := int(H.Invocations()); n != total {
			c.Failf("%s: %d handler invocations in all, the valid requests of the bodies account for %d", what, n, total)
		}
		c.Count("handler_runs", int(H.Invocations()))
		bridge.Close()
	})
	c.Eval(len(posts))
	if obs != nil {
		c.Count("delays_taken", int(obs.parks.Load()))
	}
}

func c18tally(c *vt.Ctx, v c18verdict) {
	c.Count("posts", 1)
	c.Count("responses_checked", v.responses)
	c.Count("invalid_members_answered", v.invalid)
	if v.rejected {
		c.Count("http_rejections_checked", 1)
	}
}

// ---- sequential blocks in a bubble ----------------------------------------

// c18sequential posts the bodies one after the other to one bridge, waiting
// for quiescence after each (notification handlers have then run), and judges
// each answer with the handler invocations it caused.
func c18sequential(c *vt.Ctx, what string, posts []c18post) {
	ctrl := sched.New()
	peer.Bubble(c, ctrl, func() {
		log := peer.NewLog()
		H := peer.NewHandlers(log)
		H.ReleaseAll()
		bridge := c18bridge(H)
		var wg sync.WaitGroup
		var cur *c18post
		c.Attach(func() any {
			m := map[string]any{"scenario": what, "handler_log": log.Dump()}
			if cur != nil {
				m["last_post"] = c18describe([]c18post{*cur})
			}
			return m
		})
		before := map[string]int{}
		for i := range posts {
			p := posts[i]
			cur = &p
			n0 := int(H.Invocations())
			f := c18start(bridge, p, &wg)
			ctrl.Settle()
			if !f.done.Load() {
				c.Failf("%s: %s body %q is never answered", what, p.name, p.body)
				c.Flush()
				break
			}
			counts := c18runCounts(log)
			runs := func(tag string) int { return counts[tag] - before[tag] }
			v := c18judge(c, what, p, f.rec.Code, f.rec.Body.Bytes(), runs)
			if d := int(H.Invocations()) - n0; d != v.runs {
				c.Failf("%s: %s body %q caused %d handler invocations, its valid requests account for %d; bridge answered %d %q",
					what, p.name, p.body, d, v.runs, f.rec.Code, f.rec.Body.String())
			}
			before = counts
			c18tally(c, v)
			c.Eval(1)
			if c.Failed() {
				break
			}
		}
		c.Count("handler_runs", int(H.Invocations()))
		bridge.Close()
		wg.Wait()
	})
}

// ---- real-time stress ------------------------------------------------------

type c18answer struct {
	post   c18post
	status int
	body   []byte
}

// c18randomPost draws one body for the stress run: mostly valid mixed
// batches with instant handlers, some refused requests.
func c18randomPost(rng *rand.Rand, name string) c18post {
	shape := c18shapes[rng.IntN(len(c18shapes))]
	if rng.IntN(4) == 0 {
		// a longer random batch
		syms := "CcIEUNnXxMIC"
		n := 2 + rng.IntN(7)
		b := make([]byte, n)
		for i := range b {
			b[i] = syms[rng.IntN(len(syms))]
		}
		if b[0] == 'c' {
			b[0] = 'C'
		}
		shape = "[" + string(b) + "]"
	}
	p := c18build(name, shape, c18idset(rng.IntN(c18nIdsets)), true)
	switch rng.IntN(40) {
	case 0:
		p.method = []string{"GET", "PUT", "DELETE", "HEAD"}[rng.IntN(4)]
	case 1:
		p.ctype = c18ctypeBad[rng.IntN(len(c18ctypeBad))]
	case 2:
		p.body = []string{p.body + "x", p.body[:len(p.body)-1], "{" + p.body, ""}[rng.IntN(4)]
	case 3:
		p.ctype = c18ctypeOK[1]
	}
	return p
}

// c18stress runs callers x per POSTs in real time (race detector on, no
// bubble) against one bridge and judges every answer afterwards.
func c18stress(c *vt.Ctx, e vt.Env, id string, callers, per int) {
	log := peer.NewLog()
	H := peer.NewHandlers(log)
	H.ReleaseAll()
	var tick atomic.Uint64
	jrpc2.VerifSetHook(func(string) {
		if tick.Add(1)%7 == 0 {
			runtime.Gosched()
		}
	})
	defer jrpc2.VerifSetHook(nil)
	bridge := c18bridge(H)
	c.Attach(func() any { return map[string]any{"scenario": id, "handler_log": log.Dump()} })

	answers := make([][]c18answer, callers)
	var progress atomic.Int64
	var maxInflight, inflight atomic.Int32
	var wg sync.WaitGroup
	for g := 0; g < callers; g++ {
		wg.Add(1)
		rng := e.Rand(fmt.Sprintf("%s/caller%d", id, g))
		go func() {
			defer wg.Done()
			for k := 0; k < per; k++ {
				p := c18randomPost(rng, fmt.Sprintf("s%d_%d", g, k))
				req := httptest.NewRequest(p.method, "/", c18body(p.body))
				if p.ctype != "" {
					req.Header.Set("Content-Type", p.ctype)
				}
				rec := httptest.NewRecorder()
				n := inflight.Add(1)
				for {
					m := maxInflight.Load()
					if n <= m || maxInflight.CompareAndSwap(m, n) {
						break
					}
				}
				bridge.ServeHTTP(rec, req)
				inflight.Add(-1)
				answers[g] = append(answers[g], c18answer{p, rec.Code, rec.Body.Bytes()})
				progress.Add(1)
			}
		}()
	}
	finished := make(chan struct{})
	go func() { wg.Wait(); close(finished) }()
	// hang detector: no POST completes for a very long time
	last, lastAt := int64(-1), time.Now()
wait:
	for {
		select {
		case <-finished:
			break wait
		case <-time.After(time.Second):
			if n := progress.Load(); n != last {
				last, lastAt = n, time.Now()
			} else if time.Since(lastAt) > 90*time.Second {
				c.Failf("%s: no POST has completed for 90 s with %d of %d answered: callers are stuck in the bridge", id, n, callers*per)
				c.Flush()
				bridge.Close()
				<-finished
				return
			}
		}
	}
	// Barrier: a call posted after all the others; the server finishes every
	// earlier notification before it starts a later request (C03).
	bar := c18build("barrier", "I", []string{`1`}, true)
	rec := httptest.NewRecorder()
	req := httptest.NewRequest("POST", "/", strings.NewReader(bar.body))
	req.Header.Set("Content-Type", "application/json")
	bridge.ServeHTTP(rec, req)
	bridge.Close()

	counts := c18runCounts(log)
	runs := func(tag string) int {
		if strings.HasPrefix(tag, "-") {
			return -1
		}
		return counts[tag]
	}
	total := 0
	v := c18judge(c, id, bar, rec.Code, rec.Body.Bytes(), runs)
	total += v.runs
	for g := range answers {
		for _, a := range answers[g] {
			v := c18judge(c, id, a.post, a.status, a.body, runs)
			total += v.runs
			c18tally(c, v)
			c.Eval(1)
			if g == 0 && len(a.post.body) > 200 && id == "E4/stress/0" && c.WantSample() {
				c.Sample(map[string]any{"phase": "E4 stress", "concurrent_callers": callers, "post": c18describe([]c18post{a.post}), "status": a.status, "answer": string(a.body)})
			}
		}
	}
	if n := int(H.Invocations()); n != total {
		c.Failf("%s: %d handler invocations in all, the valid requests of the bodies account for %d", id, n, total)
	}
	c.Count("handler_runs", int(H.Invocations()))
	if maxInflight.Load() >= 2 {
		c.Count("concurrent_overlaps_observed", 1)
	}
}
