package checks

import (
	"bytes"
	"context"
	"encoding/json"
	"fmt"
	"math/rand/v2"
	"reflect"
	"strings"

	"github.com/creachadair/jrpc2"
	"github.com/creachadair/jrpc2/handler"

	"verif/harness/vt"
)

// C16 — handler.Positional / NewPos, handler.Args and handler.Obj.
//
// Positional oracle for func(ctx, X1..Xn), n >= 1, names k1..kn (written from
// the documentation of Positional, on top of encoding/json used directly on
// each argument separately):
//
//	array params:  length != n, or array support disabled -> refuse; otherwise
//	               element i is decoded into a fresh Xi (null leaves the zero value)
//	object params: a key that is not one of the names -> refuse; otherwise the
//	               value of ki is decoded into Xi, missing names stay zero
//	any other JSON value -> refuse
//	some element does not decode into its Xi -> refuse
//	everything decodes, also with DisallowUnknownFields -> the function must be
//	               called exactly once with exactly those values
//	everything decodes, but only without DisallowUnknownFields (an unknown key
//	               nested inside an argument) -> either outcome (DESIGN.md
//	               leniency); if called, with the plainly decoded values
//	absent / null params -> either outcome; if called, with all zero values
//	refuse = not called, InvalidParams. Result and error are passed through.
//
// Names "" and "-" (a parameter that cannot be addressed by key; nothing in the
// documentation forbids them and Positional accepts them): the array-length
// clause does not depend on how the names are spelled, so
//
//	array of a length other than n                 -> refuse
//	object using only the other (addressable) names -> call, unaddressable arguments zero
//	array of exactly n elements, or an object with a key "" / "-" that is one
//	of the names -> either outcome (the unchanged library refuses both; the
//	               statement read literally wants a call); if called, with the
//	               values the positional reading gives
//
// A handler keeps the AllowArray setting in force when Wrap returned it, whatever
// is done to the FuncInfo afterwards (shared-FuncInfo variants).
//
// Args: json.Unmarshal / Request.UnmarshalParams into Args{t1..tn} succeeds iff
// the text is an array of exactly n elements and element i decodes into ti
// (nil ti skipped); then every target equals what encoding/json makes of its
// own element. json.Marshal(Args{v...}) = '[' elements ']'.
// Obj: decoding succeeds iff the text is an object and, for every key of the
// map present in the object, its value decodes into the target; targets whose
// key is not in the object are left exactly as they were, whatever the outcome.

var c16kinds = []reflect.Type{
	c15T[int](), c15T[string](), c15T[bool](), c15T[float64](), c15T[[]int](), c15T[map[string]int](),
	c15T[c15S2](), c15T[*c15S2](), c15T[*int](), c15T[any](), c15T[json.RawMessage](),
}

// extra kinds used only by the seeded signatures
var c16moreKinds = []reflect.Type{
	c15T[c15Nested](), c15T[[]C15Inner](), c15T[[2]int](), c15T[int8](), c15T[*string](), c15T[c15Tag](), c15T[map[string]any](),
}

// tag-safe names: distinct, non-empty, not "-", no comma / quote / backslash.
var c16nameAlphabet = []string{
	"a", "b", "first", "second", "x1", "A", "B2", "_", "é", "b c", "$x.y", "-x", "n0", "n1", "value", "Key", "ID", "id", "P_1", "z-9",
}

const c16unknown = "zz_unknown"

type c16rec struct {
	calls int
	ctx   reflect.Value
	args  []reflect.Value
}

type c16sig struct {
	types []reflect.Type
	names []string
	res   *c15sig // result handling (outs, rec.ret)
	rec   *c16rec
	fn    any
	name  string
}

func c16makeSig(types []reflect.Type, names []string, outs []reflect.Type) *c16sig {
	ins := append([]reflect.Type{c15ctxType}, types...)
	s := &c16sig{types: types, names: names, rec: &c16rec{}}
	s.res = c15newSig(nil, outs, nil, &c15rec{})
	fv := reflect.MakeFunc(reflect.FuncOf(ins, outs, false), func(args []reflect.Value) []reflect.Value {
		s.rec.calls++
		s.rec.ctx = args[0]
		s.rec.args = append([]reflect.Value(nil), args[1:]...)
		return s.res.rec.ret
	})
	s.fn = fv.Interface()
	var ts []string
	for _, t := range types {
		ts = append(ts, t.String())
	}
	s.name = "func(ctx," + strings.Join(ts, ",") + ")" + strings.TrimPrefix(s.res.name, "func(ctx,-)") + " names=" + fmt.Sprintf("%q", names)
	return s
}

// ---- positional oracle ---------------------------------------------------------

type c16want struct {
	v        c15verdict
	vals     []reflect.Value
	rawExact bool
	why      string
	nested   bool // accepted or refused only because of a nested unknown key
	unaddr   bool // n-element array for, or object key among, names "" / "-"
	badLen   bool // refused for the array length alone
	array    bool
}

// c16pairs splits an object text into its members in order, keeping duplicates.
func c16pairs(text string) (keys []string, vals []json.RawMessage) {
	dec := json.NewDecoder(strings.NewReader(text))
	if tok, err := dec.Token(); err != nil || tok != json.Delim('{') {
		panic("c16pairs: not an object: " + text)
	}
	for dec.More() {
		tok, err := dec.Token()
		if err != nil {
			panic("c16pairs: " + err.Error() + ": " + text)
		}
		var raw json.RawMessage
		if err := dec.Decode(&raw); err != nil {
			panic("c16pairs: " + err.Error() + ": " + text)
		}
		keys = append(keys, tok.(string))
		vals = append(vals, raw)
	}
	return
}

func c16into(target reflect.Value, raw []byte, strict bool) error {
	if !strict {
		return json.Unmarshal(raw, target.Interface())
	}
	dec := json.NewDecoder(bytes.NewReader(raw))
	dec.DisallowUnknownFields()
	return dec.Decode(target.Interface())
}

func c16oracle(types []reflect.Type, names []string, allowArray bool, params string) c16want {
	n := len(types)
	plain, strict := make([]reflect.Value, n), make([]reflect.Value, n)
	for i, t := range types {
		plain[i], strict[i] = reflect.New(t), reflect.New(t)
	}
	w := c16want{rawExact: true}
	done := func() c16want {
		w.vals = make([]reflect.Value, n)
		for i := range plain {
			w.vals[i] = plain[i].Elem()
		}
		return w
	}
	refuse := func(why string) c16want { w.v, w.why = c15refuse, why; return w }
	if params == "" || params == "null" {
		w.v = c15either
		return done()
	}
	strictFail, unaddressable := false, false
	hasUnaddressable := false
	for _, nm := range names {
		if c16unaddressable(nm) {
			hasUnaddressable = true
		}
	}
	one := func(i int, raw []byte) error {
		if err := c16into(plain[i], raw, false); err != nil {
			return err
		}
		if err := c16into(strict[i], raw, true); err != nil {
			strictFail = true
		}
		return nil
	}
	switch c15first([]byte(params)) {
	case '[':
		if !allowArray {
			return refuse("array support disabled")
		}
		var arr []json.RawMessage
		if err := json.Unmarshal([]byte(params), &arr); err != nil {
			panic("c16oracle: invalid array " + params)
		}
		if len(arr) != n {
			w.badLen = true
			return refuse(fmt.Sprintf("array of %d for %d arguments", len(arr), n))
		}
		w.rawExact, w.array = false, true
		for i := range arr {
			if err := one(i, arr[i]); err != nil {
				return refuse(fmt.Sprintf("element %d: %v", i, err))
			}
		}
		unaddressable = hasUnaddressable
	case '{':
		keys, vals := c16pairs(params)
		for j, k := range keys {
			idx := -1
			for i, nm := range names {
				if nm == k {
					idx = i
				}
			}
			if idx < 0 {
				return refuse(fmt.Sprintf("unknown name %q", k))
			}
			if c16unaddressable(k) {
				unaddressable = true
			}
			if err := one(idx, vals[j]); err != nil {
				return refuse(fmt.Sprintf("name %q: %v", k, err))
			}
		}
	default:
		return refuse("params is neither array nor object")
	}
	if strictFail {
		w.v, w.nested = c15either, true
	}
	if unaddressable {
		w.v, w.unaddr = c15either, true
	}
	return done()
}

// c16unaddressable: names for which Positional documents no object key.
func c16unaddressable(name string) bool { return name == "" || name == "-" }

// ---- one positional evaluation ---------------------------------------------------

type c16stats struct {
	called, refused, either, nestedEither, arrayCalls, objectCalls int
	unaddrShort, unaddrObjCalls, sharedCalls                       int
}

func (st *c16stats) flush(c *vt.Ctx) {
	c.Count("functions_called", st.called)
	c.Count("rejected_invalid_params", st.refused)
	c.Count("unspecified_outcomes", st.either)
	c.Count("nested_unknown_key_cases", st.nestedEither)
	c.Count("array_form_calls", st.arrayCalls)
	c.Count("object_form_calls", st.objectCalls)
	c.Count("unaddressable_names_wrong_length_refusals", st.unaddrShort)
	c.Count("unaddressable_names_object_calls", st.unaddrObjCalls)
	c.Count("calls_after_funcinfo_changed", st.sharedCalls)
}

func c16eval(c *vt.Ctx, s *c16sig, optName string, h jrpc2.Handler, params string, w c16want, k int, errMode bool, st *c16stats) (ok bool) {
	req := c15request(params)
	s.rec.calls, s.rec.args, s.rec.ctx = 0, nil, reflect.Value{}
	wantRes, wantErr := c15retFor(s.res, k, errMode)
	where := func() string { return fmt.Sprintf("%s %s params=%s", s.name, optName, c15paramShow(params)) }
	defer func() {
		if p := recover(); p != nil {
			c.Failf("%s: handler panicked: %v", where(), p)
			ok = false
		}
	}()
	ctx := c15pickCtx(k, params)
	res, err := h(ctx, req)
	c.Eval(1)
	if ctx.Err() != nil {
		c.Count("invocations_with_ended_context", 1)
	}
	rec := s.rec
	if rec.calls > 1 {
		c.Failf("%s: function called %d times", where(), rec.calls)
		return false
	}
	if w.v == c15either {
		st.either++
		if w.nested {
			st.nestedEither++
		}
	}
	if rec.calls == 0 {
		if w.v == c15call {
			c.Failf("%s: function not called (handler returned %v, %v); want a call with %s", where(), res, err, c16showVals(w.vals))
			return false
		}
		if err == nil {
			c.Failf("%s: function not called and no error reported (result %v)", where(), res)
			return false
		}
		if code := jrpc2.ErrorCode(err); code != jrpc2.InvalidParams {
			c.Failf("%s: function not called, error code %d (%v), want InvalidParams", where(), code, err)
			return false
		}
		st.refused++
		return true
	}
	if w.v == c15refuse {
		c.Failf("%s: function called with %s, but the params must be refused: %s", where(), c16showVals(rec.args), w.why)
		return false
	}
	if tok, _ := rec.ctx.Interface().(context.Context); tok == nil || tok.Value(c15ctxKey{}) != any(c15ctxToken) {
		c.Failf("%s: function did not receive the caller's context", where())
		return false
	}
	if len(rec.args) != len(w.vals) {
		c.Failf("%s: function received %d arguments, want %d", where(), len(rec.args), len(w.vals))
		return false
	}
	for i := range w.vals {
		if !c15equal(rec.args[i], w.vals[i], w.rawExact) {
			c.Failf("%s: argument %d is %s, want %s (all arguments: got %s, want %s)", where(), i+1,
				c15show(rec.args[i]), c15show(w.vals[i]), c16showVals(rec.args), c16showVals(w.vals))
			return false
		}
	}
	if wantErr != nil {
		if err != wantErr {
			c.Failf("%s: function returned error %#v, handler returned error %#v", where(), wantErr, err)
			return false
		}
	} else {
		if err != nil {
			c.Failf("%s: function returned a nil error, handler returned %v", where(), err)
			return false
		}
		if !c15sameResult(res, wantRes) {
			c.Failf("%s: function returned %#v, handler returned %#v", where(), wantRes, res)
			return false
		}
	}
	st.called++
	if w.array {
		st.arrayCalls++
	} else if params != "" && params != "null" {
		st.objectCalls++
	}
	return true
}

func c16showVals(vs []reflect.Value) string {
	var ps []string
	for _, v := range vs {
		ps = append(ps, c15show(v))
	}
	return "(" + strings.Join(ps, ", ") + ")"
}

// ---- positional workload ---------------------------------------------------------

func c16structKind(t reflect.Type) bool {
	if t.Kind() == reflect.Pointer {
		t = t.Elem()
	}
	return t.Kind() == reflect.Struct
}

func c16params(types []reflect.Type, names []string, r *rand.Rand) []string {
	n := len(types)
	out := []string{"", "null", `{}`, `[]`, `5`, `"x"`, `true`, `[[]]`, `{"` + c16unknown + `":1}`, `{"":1}`}
	arr := func(l, mod int, with string) string {
		ps := make([]string, l)
		for i := range ps {
			if i < n {
				ps[i] = c15good(types[i], r, 1)
			} else {
				ps[i] = c15anyTexts[r.IntN(len(c15anyTexts))]
			}
			if i == mod {
				ps[i] = with
			}
		}
		return "[" + strings.Join(ps, ",") + "]"
	}
	for l := 0; l <= n+2; l++ {
		out = append(out, arr(l, -1, ""))
	}
	out = append(out, arr(n, -1, ""), "[ "+strings.TrimSuffix(strings.TrimPrefix(arr(n, -1, ""), "["), "]")+" ]")
	nulls := make([]string, n)
	for i := range nulls {
		nulls[i] = "null"
	}
	out = append(out, "["+strings.Join(nulls, ",")+"]")
	for i, t := range types {
		out = append(out, arr(n, i, "null"))
		if b, ok := c15bad(t, r); ok {
			out = append(out, arr(n, i, b))
			out = append(out, c15obj(c15kv(names[i], b)))
		}
		if c16structKind(t) {
			out = append(out, arr(n, i, `{"A":1,"zz_nested":2}`), c15obj(c15kv(names[i], `{"A":1,"zz_nested":2}`)))
		}
		out = append(out, c15obj(c15kv(names[i], "null")))
	}
	// objects: every subset of the names (at most 64), some with an unknown key
	for mask := 0; mask < 1<<n; mask++ {
		var ps []string
		for i := 0; i < n; i++ {
			if mask&(1<<i) != 0 {
				ps = append(ps, c15kv(names[i], c15good(types[i], r, 1)))
			}
		}
		r.Shuffle(len(ps), func(a, b int) { ps[a], ps[b] = ps[b], ps[a] })
		out = append(out, c15obj(ps...))
		if mask < 4 || mask == 1<<n-1 || r.IntN(8) == 0 {
			at := r.IntN(len(ps) + 1)
			with := append(append(append([]string(nil), ps[:at]...), c15kv(c16unknown, c15anyTexts[r.IntN(len(c15anyTexts))])), ps[at:]...)
			out = append(out, c15obj(with...))
		}
	}
	// duplicate key
	i := r.IntN(n)
	out = append(out, c15obj(c15kv(names[i], c15good(types[i], r, 1)), c15kv(names[i], c15good(types[i], r, 1))))
	if b, ok := c15bad(types[i], r); ok {
		out = append(out, c15obj(c15kv(names[i], b), c15kv(names[i], c15good(types[i], r, 1))))
	}
	// wrong-length arrays that would fit if positions were dropped, repeated or
	// padded: all-null arrays of every length (null fits every type), arrays
	// good for every subsequence with one position left out, a seeded shorter
	// subsequence, and the full list with one position doubled
	for l := 0; l <= n+2; l++ {
		if l != n {
			out = append(out, "["+strings.TrimSuffix(strings.Repeat("null,", l), ",")+"]")
		}
	}
	sub := func(keep func(i int) int) string { // keep: how many copies of position i
		var ps []string
		for i, t := range types {
			for j := keep(i); j > 0; j-- {
				ps = append(ps, c15good(t, r, 1))
			}
		}
		return "[" + strings.Join(ps, ",") + "]"
	}
	for drop := 0; drop < n; drop++ {
		out = append(out, sub(func(i int) int { return btoi(i != drop) }))
		out = append(out, sub(func(i int) int { return 1 + btoi(i == drop) }))
	}
	if n > 2 {
		mask := r.IntN(1 << n)
		out = append(out, sub(func(i int) int { return mask >> i & 1 }))
	}
	// numbers that are more than their float64 value, at every position that
	// has a numeric leaf (all of them for n = 1, a seeded choice otherwise)
	nums := c15numTexts(r)
	for i, t := range types {
		for _, num := range nums {
			v, ok := c15numInto(t, num, 1)
			if !ok {
				continue
			}
			if n == 1 || r.IntN(2+2*n) == 0 {
				out = append(out, arr(n, i, v))
			}
			if r.IntN(12) == 0 {
				out = append(out, c15obj(c15kv(names[i], v)))
			}
		}
	}
	return out
}

// c16namesUnaddressable returns n names of which the positions in mask are ""
// or "-" (seeded spelling) and the others distinct tag-safe names.
func c16namesUnaddressable(n, mask int, r *rand.Rand) []string {
	out := c16names(n, r)
	for i := range out {
		if mask>>i&1 != 0 {
			out[i] = []string{"", "-"}[r.IntN(2)]
		}
	}
	return out
}

func c16names(n int, r *rand.Rand) []string {
	perm := r.Perm(len(c16nameAlphabet))
	out := make([]string, n)
	for i := range out {
		out[i] = c16nameAlphabet[perm[i]]
	}
	return out
}

func c16outs(k int) []reflect.Type {
	sh := c15shapes()
	switch k % 3 {
	case 0:
		return sh[0]
	case 1:
		return sh[1+(k/3)%7]
	}
	return sh[8+(k/3)%6]
}

// c16runSig evaluates one positional signature under both array settings.
func c16runSig(c *vt.Ctx, types []reflect.Type, k int, r *rand.Rand, st *c16stats) bool {
	return c16runSigNames(c, types, c16names(len(types), r), k, r, st)
}

// c16variant is one handler under test with the array setting it was built with.
type c16variant struct {
	name   string
	array  bool
	h      jrpc2.Handler
	before func() // run before the handler is used (changes the shared FuncInfo)
	shared bool
}

func c16runSigNames(c *vt.Ctx, types []reflect.Type, names []string, k int, r *rand.Rand, st *c16stats) bool {
	s := c16makeSig(types, names, c16outs(k))
	params := c16params(types, names, r)
	hasUnaddr := false
	for _, nm := range names {
		hasUnaddr = hasUnaddr || c16unaddressable(nm)
	}
	var variants []c16variant
	if err := func() (err error) {
		defer func() {
			if p := recover(); p != nil {
				err = fmt.Errorf("panic: %v", p)
			}
		}()
		variants = append(variants, c16variant{name: "array-default", array: true, h: handler.NewPos(s.fn, names...)})
		fi, err := handler.Positional(s.fn, names...)
		if err != nil {
			return err
		}
		variants = append(variants, c16variant{name: "AllowArray(false)", h: fi.AllowArray(false).Wrap()})
		if k%2 == 0 {
			// three handlers out of one FuncInfo; each is used only after the
			// FuncInfo has been given the opposite setting
			fi, err := handler.Positional(s.fn, names...)
			if err != nil {
				return err
			}
			h1 := fi.Wrap()
			h2 := fi.AllowArray(false).Wrap()
			h3 := fi.AllowArray(true).Wrap()
			variants = append(variants,
				c16variant{name: "shared FuncInfo: Wrap (default), afterwards AllowArray(false)", array: true, h: h1, shared: true, before: func() { fi.AllowArray(false) }},
				c16variant{name: "shared FuncInfo: AllowArray(false).Wrap, afterwards AllowArray(true)", array: false, h: h2, shared: true, before: func() { fi.AllowArray(true) }},
				c16variant{name: "shared FuncInfo: AllowArray(true).Wrap, afterwards AllowArray(false)", array: true, h: h3, shared: true, before: func() { fi.AllowArray(false) }})
		}
		return nil
	}(); err != nil {
		c.Failf("%s: a documented positional signature was refused: %v", s.name, err)
		return false
	}
	for _, v := range variants {
		optName, h := v.name, v.h
		if v.before != nil {
			v.before()
		}
		for pi, p := range params {
			w := c16oracle(types, names, v.array, p)
			modes := []bool{false}
			if s.res.reportsErr && pi%4 == 0 {
				modes = []bool{false, true}
			}
			for _, em := range modes {
				if !c16eval(c, s, optName, h, p, w, k*1000+pi, em, st) {
					return false
				}
				if v.shared {
					st.sharedCalls++
				}
			}
			if hasUnaddr && w.badLen {
				st.unaddrShort++
			}
			if hasUnaddr && w.v == c15call && c15first([]byte(p)) == '{' {
				st.unaddrObjCalls++
			}
			if p != "" && p != "null" {
				c.Distinct("P|" + s.name + "|" + optName + "|" + p)
				if (w.nested || pi%37 == 5) && c.WantSample() {
					c.Sample(map[string]any{"signature": s.name, "options": optName, "params": p,
						"oracle": []string{"call", "refuse", "unspecified"}[w.v], "nested_unknown_key": w.nested, "decoded": c16showVals(w.vals)})
				}
			}
		}
	}
	return true
}

// ---- Positional acceptance -------------------------------------------------------

func c16runAcceptance(c *vt.Ctx) {
	type tc struct {
		fn    any
		names []string
		ok    bool
	}
	good1 := func(context.Context, int) error { return nil }
	good3 := func(context.Context, int, string, []int) (int, error) { return 0, nil }
	cases := []tc{
		{nil, nil, false}, {nil, []string{"a"}, false}, {5, []string{"a"}, false}, {"f", nil, false}, {&good1, []string{"a"}, false},
		{struct{}{}, nil, false}, {[]any{good1}, []string{"a"}, false},
		{good1, []string{"a"}, true}, {good1, nil, false}, {good1, []string{"a", "b"}, false},
		{good3, []string{"a", "b", "c"}, true}, {good3, []string{"a", "b"}, false}, {good3, []string{"a", "b", "c", "d"}, false}, {good3, nil, false},
		{func(context.Context) error { return nil }, nil, true},
		{func(context.Context) (int, error) { return 0, nil }, nil, true},
		{func() error { return nil }, nil, false},
		{func(int, int) error { return nil }, []string{"a"}, false},
		{func(int, context.Context) error { return nil }, []string{"a"}, false},
		{func(c15MyCtx, int) error { return nil }, []string{"a"}, false},
		{func(*context.Context, int) error { return nil }, []string{"a"}, false},
		{func(context.Context, ...int) error { return nil }, []string{"a"}, false},
		{func(context.Context, int, ...string) error { return nil }, []string{"a", "b"}, false},
		{func(context.Context, int) {}, []string{"a"}, false},
		{func(context.Context, int) (int, int) { return 0, 0 }, []string{"a"}, false},
		{func(context.Context, int) (error, int) { return nil, 0 }, []string{"a"}, false},
		{func(context.Context, int) (int, *jrpc2.Error) { return 0, nil }, []string{"a"}, false},
		{func(context.Context, int) (int, c15MyErr) { return 0, nil }, []string{"a"}, false},
		{func(context.Context, int) (int, error, error) { return 0, nil, nil }, []string{"a"}, false},
		{func(context.Context, int) int { return 0 }, []string{"a"}, true},
		{func(context.Context, int, int, int, int, int, int) (any, error) { return nil, nil }, []string{"a", "b", "c", "d", "e", "f"}, true},
		{func(context.Context, int, int, int, int, int, int) (any, error) { return nil, nil }, []string{"a", "b", "c", "d", "e"}, false},
	}
	// generated: arities 1..6 with n-1, n, n+1 names and the result grammar
	outsAlpha := c15checkOuts()
	for n := 1; n <= 6; n++ {
		ins := []reflect.Type{c15ctxType}
		for i := 0; i < n; i++ {
			ins = append(ins, c16kinds[(i*3+n)%len(c16kinds)])
		}
		seqs(len(outsAlpha), 0, 3, func(oi []int) bool {
			var ot []reflect.Type
			for _, k := range oi {
				ot = append(ot, outsAlpha[k])
			}
			resOK := (len(ot) == 1) || (len(ot) == 2 && ot[1] == c15errorType)
			for _, variadic := range []bool{false, true} {
				fins := append([]reflect.Type(nil), ins...)
				if variadic {
					fins[n] = c15T[[]int]()
				}
				ft := reflect.FuncOf(fins, ot, variadic)
				fn := reflect.MakeFunc(ft, func([]reflect.Value) []reflect.Value { panic("stub") }).Interface()
				for _, m := range []int{n - 1, n, n + 1} {
					cases = append(cases, tc{fn, c16nameAlphabet[:m], resOK && !variadic && m == n})
				}
			}
			return true
		})
	}
	for _, t := range cases {
		fi, err := func() (fi *handler.FuncInfo, err error) {
			defer func() {
				if p := recover(); p != nil {
					c.Failf("Positional(%T, %q) panicked: %v", t.fn, t.names, p)
				}
			}()
			return handler.Positional(t.fn, t.names...)
		}()
		if c.Failed() {
			return
		}
		c.Eval(1)
		panicked := func() (p bool) {
			defer func() { p = recover() != nil }()
			handler.NewPos(t.fn, t.names...)
			return false
		}()
		switch {
		case t.ok && (err != nil || fi == nil):
			c.Failf("Positional(%T, %q) refused a documented signature: %v", t.fn, t.names, err)
			return
		case t.ok && panicked:
			c.Failf("NewPos(%T, %q) panicked although Positional accepts it", t.fn, t.names)
			return
		case !t.ok && err == nil:
			c.Failf("Positional(%T, %q) accepted a value outside the documented schemes", t.fn, t.names)
			return
		case !t.ok && !panicked:
			c.Failf("NewPos(%T, %q) did not panic although Positional reports %v", t.fn, t.names, err)
			return
		}
		if t.ok {
			c.Count("positional_accepts", 1)
		} else {
			c.Count("positional_rejections", 1)
		}
	}
}

// ---- Args and Obj ------------------------------------------------------------------

// c16sentinel returns a pointer to a fresh, pre-filled value of type t.
func c16sentinel(t reflect.Type) reflect.Value {
	p := reflect.New(t)
	var v any
	switch t {
	case c15rawType:
		v = json.RawMessage(`"sentinel"`)
	case c15T[any]():
		p.Elem().Set(reflect.ValueOf("sentinel"))
		return p
	}
	if v == nil {
		switch t.Kind() {
		case reflect.Int:
			v = 99
		case reflect.Int8:
			v = int8(99)
		case reflect.String:
			v = "sentinel"
		case reflect.Bool:
			v = true
		case reflect.Float64:
			v = 9.5
		case reflect.Slice:
			if t == c15T[[]int]() {
				v = []int{9, 9, 9}
			} else {
				s := reflect.MakeSlice(t, 1, 1)
				p.Elem().Set(s)
				return p
			}
		case reflect.Array:
			if t == c15T[[2]int]() {
				v = [2]int{9, 9}
			}
		case reflect.Map:
			m := reflect.MakeMap(t)
			m.SetMapIndex(reflect.ValueOf("sentinel"), reflect.New(t.Elem()).Elem())
			p.Elem().Set(m)
			return p
		case reflect.Pointer:
			p.Elem().Set(c16sentinel(t.Elem()))
			return p
		case reflect.Struct:
			switch t {
			case c15T[c15S2]():
				v = c15S2{A: 9, B: "sentinel"}
			case c15T[c15Tag]():
				v = c15Tag{A: 9, B: "sentinel", C: true, D: 9.5}
			case c15T[c15Nested]():
				v = c15Nested{P: C15Inner{X: 9, Y: "sentinel"}, Q: &C15Inner{X: 9}, R: []C15Inner{{X: 9}}}
			}
		}
	}
	if v != nil {
		p.Elem().Set(reflect.ValueOf(v))
	}
	return p
}

func c16allKinds() []reflect.Type {
	return append(append([]reflect.Type(nil), c16kinds...), c16moreKinds...)
}

// c16targets makes n target slots of seeded kinds; some slots nil when
// withNil. It returns the types (nil type = nil slot).
func c16targetTypes(n int, withNil bool, r *rand.Rand) []reflect.Type {
	ks := c16allKinds()
	out := make([]reflect.Type, n)
	for i := range out {
		if withNil && r.IntN(4) == 0 {
			continue
		}
		out[i] = ks[r.IntN(len(ks))]
	}
	return out
}

func c16mkTargets(ts []reflect.Type) []reflect.Value {
	out := make([]reflect.Value, len(ts))
	for i, t := range ts {
		if t != nil {
			out[i] = c16sentinel(t)
		}
	}
	return out
}

func c16argsOf(ts []reflect.Value) handler.Args {
	a := make(handler.Args, len(ts))
	for i, t := range ts {
		if t.IsValid() {
			a[i] = t.Interface()
		}
	}
	return a
}

func c16typeNames(ts []reflect.Type) string {
	var ps []string
	for _, t := range ts {
		if t == nil {
			ps = append(ps, "nil")
		} else {
			ps = append(ps, "*"+t.String())
		}
	}
	return "[" + strings.Join(ps, ",") + "]"
}

// c16runArgs: one seeded target list against its derived array texts.
func c16runArgs(c *vt.Ctx, n int, r *rand.Rand) bool {
	ts := c16targetTypes(n, true, r)
	goodOf := func(i int) string {
		if ts[i] == nil {
			return c15anyTexts[r.IntN(len(c15anyTexts))]
		}
		return c15good(ts[i], r, 1)
	}
	arr := func(l, mod int, with string) string {
		ps := make([]string, l)
		for i := range ps {
			if i < n {
				ps[i] = goodOf(i)
			} else {
				ps[i] = c15anyTexts[r.IntN(len(c15anyTexts))]
			}
			if i == mod {
				ps[i] = with
			}
		}
		return "[" + strings.Join(ps, ",") + "]"
	}
	texts := []string{`{}`, `5`, `"x"`, `true`, `{"0":1}`, `null`, `[[]]`}
	for l := 0; l <= n+2; l++ {
		texts = append(texts, arr(l, -1, ""))
	}
	texts = append(texts, arr(n, -1, ""), " [ "+strings.TrimSuffix(strings.TrimPrefix(arr(n, -1, ""), "["), "]")+" ] ")
	for i := 0; i < n; i++ {
		texts = append(texts, arr(n, i, "null"))
		if ts[i] != nil {
			if b, ok := c15bad(ts[i], r); ok {
				texts = append(texts, arr(n, i, b))
			}
		}
	}
	name := "Args" + c16typeNames(ts)
	for _, text := range texts {
		trimmed := strings.TrimSpace(text)
		// oracle
		want := c16mkTargets(ts)
		var wantErr error
		judged := trimmed != "null"
		if c15first([]byte(text)) != '[' {
			wantErr = fmt.Errorf("not an array")
		} else {
			var elts []json.RawMessage
			if err := json.Unmarshal([]byte(text), &elts); err != nil {
				panic("c16runArgs: invalid text " + text)
			}
			if len(elts) != n {
				wantErr = fmt.Errorf("array of %d for %d targets", len(elts), n)
			} else {
				for i, e := range elts {
					if want[i].IsValid() {
						if err := json.Unmarshal(e, want[i].Interface()); err != nil && wantErr == nil {
							wantErr = fmt.Errorf("element %d: %v", i, err)
						}
					}
				}
			}
		}
		for via := 0; via < 2; via++ {
			if via == 1 && (trimmed != text || (trimmed[0] != '[' && trimmed[0] != '{')) {
				continue // UnmarshalParams: only what a request can carry
			}
			got := c16mkTargets(ts)
			args := c16argsOf(got)
			var err error
			how := "json.Unmarshal(text, &args)"
			if p := func() (p any) {
				defer func() { p = recover() }()
				if via == 0 {
					err = json.Unmarshal([]byte(text), &args)
				} else {
					how = "req.UnmarshalParams(&args)"
					err = c15request(text).UnmarshalParams(&args)
				}
				return nil
			}(); p != nil {
				c.Failf("%s %s text=%s: panic: %v", name, how, text, p)
				return false
			}
			c.Eval(1)
			if !judged {
				continue
			}
			if wantErr != nil {
				if err == nil {
					c.Failf("%s %s text=%s: decoding succeeded, want an error (%v); targets now %s", name, how, text, wantErr, c16showTargets(got))
					return false
				}
				if via == 1 && jrpc2.ErrorCode(err) != jrpc2.InvalidParams {
					c.Failf("%s %s text=%s: error code %d (%v), want InvalidParams", name, how, text, jrpc2.ErrorCode(err), err)
					return false
				}
				c.Count("args_decode_errors", 1)
				continue
			}
			if err != nil {
				c.Failf("%s %s text=%s: unexpected error %v", name, how, text, err)
				return false
			}
			for i := range got {
				if got[i].IsValid() && !c15equal(got[i].Elem(), want[i].Elem(), true) {
					c.Failf("%s %s text=%s: target %d is %s, want %s", name, how, text, i, c15show(got[i].Elem()), c15show(want[i].Elem()))
					return false
				}
			}
			c.Count("args_decoded", 1)
			c.Distinct("A|" + name + "|" + text)
			if n >= 2 && c.WantSample() && r.IntN(50) == 0 {
				c.Sample(map[string]any{"args_targets": c16typeNames(ts), "text": text, "decoded": c16showTargets(got)})
			}
		}
	}
	// encoding: Args of the decoded / sentinel values
	vals := c16mkTargets(ts)
	var elems handler.Args
	var parts []string
	for i, v := range vals {
		var e any
		switch {
		case !v.IsValid():
			e = nil
		case i%2 == 0:
			e = v.Interface() // pointer element
		default:
			e = v.Elem().Interface()
		}
		elems = append(elems, e)
		b, err := json.Marshal(e)
		if err != nil {
			panic("c16runArgs: sentinel does not marshal: " + err.Error())
		}
		parts = append(parts, string(b))
	}
	for _, a := range []handler.Args{elems, append(handler.Args{}, elems...)} {
		got, err := json.Marshal(a)
		c.Eval(1)
		want := "[" + strings.Join(parts, ",") + "]"
		if err != nil || string(got) != want {
			c.Failf("json.Marshal(%s values) = %s, %v; want %s", name, got, err, want)
			return false
		}
		c.Count("args_encoded", 1)
	}
	if n == 0 {
		if got, err := json.Marshal(handler.Args(nil)); err != nil || string(got) != "[]" {
			c.Failf("json.Marshal(Args(nil)) = %s, %v; want []", got, err)
			return false
		}
	} else {
		bad := append(handler.Args{}, elems...)
		bad[r.IntN(n)] = make(chan int)
		if got, err := json.Marshal(bad); err == nil {
			c.Failf("json.Marshal(Args with a channel) = %s, want an error", got)
			return false
		}
	}
	return true
}

func c16showTargets(ts []reflect.Value) string {
	var ps []string
	for _, t := range ts {
		if !t.IsValid() {
			ps = append(ps, "nil")
		} else {
			ps = append(ps, c15show(t.Elem()))
		}
	}
	return "(" + strings.Join(ps, ", ") + ")"
}

// c16runObj: one seeded key->target map against its derived object texts.
func c16runObj(c *vt.Ctx, n int, r *rand.Rand) bool {
	ts := c16targetTypes(n, false, r)
	names := c16names(n, r)
	mk := func() (handler.Obj, []reflect.Value) {
		vals := c16mkTargets(ts)
		o := handler.Obj{}
		for i, v := range vals {
			o[names[i]] = v.Interface()
		}
		return o, vals
	}
	texts := []string{`[]`, `5`, `"x"`, `true`, `null`, `[{}]`, `{"` + c16unknown + `":[1,{"a":2}]}`}
	for mask := 0; mask < 1<<n; mask++ {
		var ps []string
		for i := 0; i < n; i++ {
			if mask&(1<<i) != 0 {
				ps = append(ps, c15kv(names[i], c15good(ts[i], r, 1)))
			}
		}
		r.Shuffle(len(ps), func(a, b int) { ps[a], ps[b] = ps[b], ps[a] })
		texts = append(texts, c15obj(ps...))
		if mask%3 == 0 {
			texts = append(texts, c15obj(append(ps, c15kv(c16unknown, `{"x":1}`))...))
		}
	}
	for i := 0; i < n; i++ {
		texts = append(texts, c15obj(c15kv(names[i], "null")), c15obj(c15kv(c15flipCase(names[i])+"~", "1")))
		if b, ok := c15bad(ts[i], r); ok {
			texts = append(texts, c15obj(c15kv(names[i], b)))
			if n > 1 {
				j := (i + 1) % n
				texts = append(texts, c15obj(c15kv(names[j], c15good(ts[j], r, 1)), c15kv(names[i], b)))
			}
		}
	}
	name := "Obj" + fmt.Sprintf("%q", names) + c16typeNames(ts)
	for _, text := range texts {
		judged := text != "null"
		_, want := mk()
		present := make([]bool, n)
		var wantErr error
		if text[0] != '{' {
			wantErr = fmt.Errorf("not an object")
		} else {
			keys, vals := c16pairs(text)
			for j, k := range keys {
				for i, nm := range names {
					if nm == k {
						present[i] = true
						if err := json.Unmarshal(vals[j], want[i].Interface()); err != nil && wantErr == nil {
							wantErr = fmt.Errorf("key %q: %v", k, err)
						}
					}
				}
			}
		}
		for via := 0; via < 2; via++ {
			if via == 1 && text[0] != '[' && text[0] != '{' {
				continue
			}
			obj, got := mk()
			var err error
			how := "json.Unmarshal(text, &obj)"
			if p := func() (p any) {
				defer func() { p = recover() }()
				if via == 0 {
					err = json.Unmarshal([]byte(text), &obj)
				} else {
					how = "req.UnmarshalParams(&obj)"
					err = c15request(text).UnmarshalParams(&obj)
				}
				return nil
			}(); p != nil {
				c.Failf("%s %s text=%s: panic: %v", name, how, text, p)
				return false
			}
			c.Eval(1)
			if !judged {
				continue
			}
			if len(obj) != n {
				c.Failf("%s %s text=%s: the map now has %d keys, had %d", name, how, text, len(obj), n)
				return false
			}
			_, fresh := mk()
			for i := range got {
				if !present[i] && !c15equal(got[i].Elem(), fresh[i].Elem(), true) {
					c.Failf("%s %s text=%s: target of key %q was touched although the key is absent: now %s, was %s",
						name, how, text, names[i], c15show(got[i].Elem()), c15show(fresh[i].Elem()))
					return false
				}
			}
			c.Count("obj_untouched_targets_checked", n)
			if wantErr != nil {
				if err == nil {
					c.Failf("%s %s text=%s: decoding succeeded, want an error (%v)", name, how, text, wantErr)
					return false
				}
				if via == 1 && jrpc2.ErrorCode(err) != jrpc2.InvalidParams {
					c.Failf("%s %s text=%s: error code %d (%v), want InvalidParams", name, how, text, jrpc2.ErrorCode(err), err)
					return false
				}
				c.Count("obj_decode_errors", 1)
				continue
			}
			if err != nil {
				c.Failf("%s %s text=%s: unexpected error %v", name, how, text, err)
				return false
			}
			for i := range got {
				if present[i] && !c15equal(got[i].Elem(), want[i].Elem(), true) {
					c.Failf("%s %s text=%s: target of key %q is %s, want %s", name, how, text, names[i], c15show(got[i].Elem()), c15show(want[i].Elem()))
					return false
				}
			}
			c.Count("obj_decoded", 1)
			c.Distinct("O|" + name + "|" + text)
			if n >= 2 && c.WantSample() && r.IntN(80) == 0 {
				c.Sample(map[string]any{"obj_keys": names, "obj_targets": c16typeNames(ts), "text": text, "decoded": c16showTargets(got)})
			}
		}
	}
	// Marshaling an Obj works as for an ordinary map.
	obj, _ := mk()
	got, err1 := json.Marshal(obj)
	want, err2 := json.Marshal(map[string]any(obj))
	c.Eval(1)
	if (err1 == nil) != (err2 == nil) || !bytes.Equal(got, want) {
		c.Failf("json.Marshal(%s) = %s, %v; as a plain map: %s, %v", name, got, err1, want, err2)
		return false
	}
	return true
}

// ---- registration ------------------------------------------------------------------

func init() {
	vt.Register(&vt.Check{
		Prop:  "C16",
		Level: "exploration",
		Rule: "Positional: every signature func(ctx,X1..Xn) with n<=2 over 11 argument kinds {int,string,bool,float64,[]int,map,struct,*struct,*int,any,json.RawMessage}, " +
			"seeded signatures with n=3..6 over 18 kinds, each with seeded distinct tag-safe names and result shapes error | Y | (Y,error), built by reflect.MakeFunc so the arguments are captured, " +
			"and (U) name lists in which a set of positions is named \"\" or \"-\" (every non-empty set for n<=3, seeded sets for n=4..6, including all positions; all-int and seeded argument kinds), " +
			"x {NewPos default, Positional+AllowArray(false); for every second signature also three handlers wrapped from ONE FuncInfo (default, AllowArray(false), AllowArray(true)), each used only after the FuncInfo was given the opposite setting} " +
			"x params: absent, null, arrays of every length 0..n+2, all-null arrays of every length, arrays fitting the argument list with one position left out / doubled / a seeded subsequence, per-position wrong type / null / nested unknown key, " +
			"per-position number texts that are more than their float64 value (beyond 2^53, integer-width limits, 2.0 / 1e3 / -0 spellings; array and object form), " +
			"objects with every subset of the names (<=64), subsets plus an unknown key, per-name wrong type / null, duplicate keys, non-array non-object values; " +
			"Positional/NewPos acceptance over arities 1..6 x {n-1,n,n+1 names} x result grammar x variadic, and non-function values. " +
			"Args: seeded target lists (arity 0..6, nil slots, targets pre-filled with sentinels) x arrays of every length 0..n+2, per-position wrong type / null, non-arrays, via json.Unmarshal and Request.UnmarshalParams; encoding vs element-wise json.Marshal. " +
			"Obj: seeded key->target maps (0..6 keys, sentinels) x objects with every subset of keys, unknown keys, wrong types, nulls, non-objects; untouched targets compared with fresh sentinels. " +
			"evaluations = handler invocations + Args/Obj decode and encode operations + Positional calls judged. " +
			"distinct_nontrivial = distinct (signature or target list, names, option, text) with present params/text; for Args/Obj only successful decodes are counted",
		Assumptions: []string{
			"Go 1.26.8 encoding/json and reflect are the trusted base of the oracle",
			"names are free of comma, quote and backslash (anything else cannot be expressed in a struct tag) and, apart from \"\" and \"-\", distinct; object keys are exactly one of the names or differ from all of them under case folding (encoding/json matches keys case-insensitively)",
			"names \"\" and \"-\" (Positional accepts them; the parameter then has no object key): an array of any length other than n must be refused and an object using only the other names must lead to a call with the unaddressable arguments zero; an array of exactly n elements and an object using \"\" / \"-\" as a key may be refused or accepted (the unchanged library refuses both), if accepted the function must get the positionally decoded values",
			"a handler keeps the AllowArray setting in force when Wrap returned it; the FuncInfo is not modified while a handler built from it is running",
			"absent / null params for a positional handler may be refused or answered by a call with all-zero arguments (the statement quantifies over arrays and objects)",
			"an unknown key nested inside an argument may be refused or ignored (DisallowUnknownFields is recursive; the statement speaks of top-level names only)",
			"json.RawMessage arguments that arrived in array form are compared as JSON values, elsewhere byte for byte",
			"the text null given directly to Args / Obj is run (no panic) but not judged; Obj texts have no duplicate keys",
		},
		Require: map[string]int64{
			"functions_called": 3000, "rejected_invalid_params": 3000, "array_form_calls": 500, "object_form_calls": 1000,
			"positional_rejections": 100, "args_decoded": 500, "args_decode_errors": 500, "args_encoded": 100,
			"obj_decoded": 500, "obj_decode_errors": 200, "obj_untouched_targets_checked": 1000, "nested_unknown_key_cases": 50,
			"unaddressable_names_wrong_length_refusals": 2000, "unaddressable_names_object_calls": 300, "calls_after_funcinfo_changed": 20000,
		},
		Cases: c16cases,
	})
}

func c16cases(e vt.Env, yield func(vt.Case) bool) {
	if !yield(vt.Case{ID: "Q/acceptance", Run: c16runAcceptance}) {
		return
	}
	// P1, P2: exhaustive over the 11 kinds.
	for a, ta := range c16kinds {
		a, ta := a, ta
		id := fmt.Sprintf("P/n<=2/%d-%s", a, ta)
		if !yield(vt.Case{ID: id, Run: func(c *vt.Ctx) {
			r := e.Rand(id)
			var st c16stats
			defer st.flush(c)
			for rep := 0; rep < 3; rep++ {
				if !c16runSig(c, []reflect.Type{ta}, a*3+rep, r, &st) {
					return
				}
			}
			for b, tb := range c16kinds {
				if !c16runSig(c, []reflect.Type{ta, tb}, a*11+b, r, &st) {
					return
				}
			}
		}}) {
			return
		}
	}
	// P3..6: seeded signatures over all kinds, blocks of 8.
	blocks := e.Pick(150, 3000)
	for bi := 0; bi < blocks; bi++ {
		bi := bi
		id := fmt.Sprintf("P/n3-6/%d", bi)
		if !yield(vt.Case{ID: id, Run: func(c *vt.Ctx) {
			r := e.Rand(id)
			ks := c16allKinds()
			var st c16stats
			defer st.flush(c)
			for j := 0; j < 8; j++ {
				n := 3 + (bi+j)%4
				types := make([]reflect.Type, n)
				for i := range types {
					types[i] = ks[r.IntN(len(ks))]
				}
				if !c16runSig(c, types, bi*8+j, r, &st) {
					return
				}
			}
		}}) {
			return
		}
	}
	// U: name lists containing "" and "-". Arities 1..3: every non-empty set of
	// unaddressable positions; arities 4..6: seeded sets.
	ub := e.Pick(40, 1000)
	for bi := 0; bi < ub; bi++ {
		bi := bi
		id := fmt.Sprintf("U/%d", bi)
		if !yield(vt.Case{ID: id, Run: func(c *vt.Ctx) {
			r := e.Rand(id)
			ks := c16allKinds()
			var st c16stats
			defer st.flush(c)
			mk := func(n int) []reflect.Type {
				types := make([]reflect.Type, n)
				for i := range types {
					if bi%4 == 0 {
						types[i] = c16kinds[0] // all int: every shifted assignment type-checks
					} else {
						types[i] = ks[r.IntN(len(ks))]
					}
				}
				return types
			}
			j := 0
			for n := 1; n <= 3; n++ {
				for mask := 1; mask < 1<<n; mask++ {
					if (mask+bi)%2 == 0 && n == 3 {
						continue // half of the n=3 masks per block
					}
					j++
					if !c16runSigNames(c, mk(n), c16namesUnaddressable(n, mask, r), bi*16+j, r, &st) {
						return
					}
				}
			}
			for n := 4; n <= 6; n++ {
				j++
				mask := 1 + r.IntN(1<<n-1)
				if !c16runSigNames(c, mk(n), c16namesUnaddressable(n, mask, r), bi*16+j, r, &st) {
					return
				}
			}
		}}) {
			return
		}
	}
	// A, O: Args and Obj.
	ab := e.Pick(160, 4000)
	for bi := 0; bi < ab; bi++ {
		bi := bi
		id := fmt.Sprintf("A/%d", bi)
		if !yield(vt.Case{ID: id, Run: func(c *vt.Ctx) {
			r := e.Rand(id)
			for j := 0; j < 14; j++ {
				if !c16runArgs(c, j%7, r) {
					return
				}
			}
		}}) {
			return
		}
		id2 := fmt.Sprintf("O/%d", bi)
		if !yield(vt.Case{ID: id2, Run: func(c *vt.Ctx) {
			r := e.Rand(id2)
			for j := 0; j < 14; j++ {
				if !c16runObj(c, j%7, r) {
					return
				}
			}
		}}) {
			return
		}
	}
}
