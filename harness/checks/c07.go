package checks

import (
	"context"
	"encoding/json"
	"fmt"
	"sort"
	"strings"
	"sync/atomic"

	"github.com/creachadair/jrpc2"

	"verif/harness/peer"
	"verif/harness/sched"
	"verif/harness/vt"
)

// C07 — cancellation hits only its target; ids are reserved exactly while a
// call carrying them is in flight.
//
// Oracle: a sequential reference model of the reservation discipline, written
// from the property statement and doc.go, driven by the same history as the
// real server. The harness settles after every operation, so the model is
// deterministic except where the statement itself leaves a race open: a queued
// message dispatched in the same quiescent step in which an earlier message
// with the same id completes may see the id reserved or free. The model keeps
// the SET of states admissible under those races and filters it with what was
// observed at each quiescent point (reserved-id snapshot, queue length,
// handlers entered / exited, multiset of new replies). An empty set is a
// violation. At the end every handler's ctx.Err() at exit must be
// context.Canceled iff CancelRequest named its id while it was in flight.

type c07member struct {
	ID   string // raw JSON id; "" = notification
	Kind byte   // 'G' stubborn gated, 'i' instant, 'e' error, 'q' error with code InvalidRequest, 'n' unknown method, 'r' reserved rpc.x
	Tag  string
	St   int  // 0 not dispatched, 1 duplicate-rejected, 2 running, 3 done, 4 checked and parked at the barrier
	Pre  bool // context cancelled (CancelRequest) before the handler could start: it never runs
}

type c07msg struct {
	Members    []c07member
	Batch      bool
	Dispatched bool
	Completed  bool
	Delivered  bool
}

type c07state struct {
	Msgs      []c07msg
	Queue     []int
	Parked    int // message dequeued and checked, waiting for the notification barrier (-1: none)
	Reserved  map[string]int
	Started   map[string]bool
	Exited    map[string]bool
	Cancelled map[string]bool
	Opened    map[string]bool
	Replies   []string
}

func (s *c07state) clone() *c07state {
	n := &c07state{
		Parked: s.Parked,
		Queue:  append([]int(nil), s.Queue...), Reserved: map[string]int{}, Started: map[string]bool{},
		Exited: map[string]bool{}, Cancelled: map[string]bool{}, Opened: map[string]bool{},
		Replies: append([]string(nil), s.Replies...),
	}
	for _, m := range s.Msgs {
		m.Members = append([]c07member(nil), m.Members...)
		n.Msgs = append(n.Msgs, m)
	}
	for k, v := range s.Reserved {
		n.Reserved[k] = v
	}
	for k := range s.Started {
		n.Started[k] = true
	}
	for k := range s.Exited {
		n.Exited[k] = true
	}
	for k := range s.Cancelled {
		n.Cancelled[k] = true
	}
	for k := range s.Opened {
		n.Opened[k] = true
	}
	return n
}

func (s *c07state) key() string {
	b, _ := json.Marshal(s)
	return string(b)
}

func (s *c07state) notesRunning() bool {
	for _, m := range s.Msgs {
		if !m.Dispatched {
			continue
		}
		for _, mem := range m.Members {
			if mem.ID == "" && mem.St == 2 {
				return true
			}
		}
	}
	return false
}

func (s *c07state) checkComplete(i int) {
	m := &s.Msgs[i]
	if !m.Dispatched || m.Completed {
		return
	}
	for _, mem := range m.Members {
		if mem.St == 2 || mem.St == 4 {
			return
		}
	}
	m.Completed = true
}

// assign models the dispatcher dequeuing message i: duplicate detection and
// id reservation happen at once, before the notification barrier is awaited.
func (s *c07state) assign(i int) {
	m := &s.Msgs[i]
	m.Dispatched = true
	first := map[string]int{}
	for j := range m.Members {
		mem := &m.Members[j]
		if mem.ID == "" {
			continue
		}
		if k, ok := first[mem.ID]; ok {
			m.Members[k].St = 1
			mem.St = 1
		} else if _, used := s.Reserved[mem.ID]; used {
			mem.St = 1
		} else {
			first[mem.ID] = j
		}
	}
	for j := range m.Members {
		mem := &m.Members[j]
		if mem.St == 1 {
			continue
		}
		if mem.ID != "" {
			s.Reserved[mem.ID] = i
		}
		mem.St = 4 // assigned, not started
	}
	s.Parked = i
}

// start models the barrier opening for the parked message: handlers start.
func (s *c07state) start(i int) {
	m := &s.Msgs[i]
	for j := range m.Members {
		mem := &m.Members[j]
		if mem.St != 4 {
			continue
		}
		if mem.Pre && (mem.Kind == 'G' || mem.Kind == 'i' || mem.Kind == 'e' || mem.Kind == 'q' || mem.Kind == 'b') {
			mem.St = 3 // answered with a cancellation error; the handler never runs
			continue
		}
		switch mem.Kind {
		case 'G':
			s.Started[mem.Tag] = true
			if s.Opened[mem.Tag] {
				s.Exited[mem.Tag] = true
				mem.St = 3
			} else {
				mem.St = 2
			}
		case 'i', 'e', 'q', 'b':
			s.Started[mem.Tag] = true
			s.Exited[mem.Tag] = true
			mem.St = 3
		default: // unknown or reserved method: no handler
			mem.St = 3
		}
	}
	s.Parked = -1
	s.checkComplete(i)
}

func (s *c07state) deliver(i int, seq map[string]string) {
	m := &s.Msgs[i]
	m.Delivered = true
	var parts []string
	for _, mem := range m.Members {
		if mem.ID == "" {
			continue
		}
		switch {
		case mem.St == 1:
			parts = append(parts, fmt.Sprintf("id=%s error=-32600:duplicate request ID", mem.ID))
		case mem.Pre && (mem.Kind == 'G' || mem.Kind == 'i' || mem.Kind == 'e' || mem.Kind == 'q' || mem.Kind == 'b'):
			parts = append(parts, fmt.Sprintf("id=%s error=-32097:", mem.ID))
		case mem.Kind == 'G' || mem.Kind == 'i':
			parts = append(parts, fmt.Sprintf("id=%s result=%s/TOKEN", mem.ID, mem.Tag))
		case mem.Kind == 'e':
			parts = append(parts, fmt.Sprintf("id=%s error=7:E:%s", mem.ID, mem.Tag))
		case mem.Kind == 'q':
			parts = append(parts, fmt.Sprintf("id=%s error=-32600:R:%s", mem.ID, mem.Tag))
		case mem.Kind == 'b':
			// the handler's error cannot be encoded as it is (its data are not JSON);
			// the call is answered with an internal error in its place
			parts = append(parts, fmt.Sprintf("id=%s error=-32603:", mem.ID))
		default:
			parts = append(parts, fmt.Sprintf("id=%s error=-32601:", mem.ID))
		}
		if mem.St != 1 {
			delete(s.Reserved, mem.ID)
		}
	}
	if len(parts) > 0 {
		sig := strings.Join(parts, " | ")
		if m.Batch {
			sig = "[" + sig + "]"
		}
		s.Replies = append(s.Replies, sig)
	}
}

// conflicts reports whether delivering message i (which releases its ids) can
// be observed by a message still queued, i.e. whether they share an id.
func (s *c07state) conflicts(i int) bool {
	for _, mem := range s.Msgs[i].Members {
		if mem.ID == "" || mem.St == 1 {
			continue
		}
		for _, q := range s.Queue {
			for _, qm := range s.Msgs[q].Members {
				if qm.ID == mem.ID {
					return true
				}
			}
		}
	}
	return false
}

const c07maxStates = 4000

// pump explores the interleavings of pending deliveries and in-order
// dispatcher steps until nothing more can happen, returning the distinct end
// states. A delivery that no queued message can observe commutes with
// everything and is taken eagerly. ok is false if the state space exceeded
// the cap (the execution is then not judged further).
func c07pump(start *c07state) (out []*c07state, ok bool) {
	seen := map[string]bool{}
	ok = true
	var rec func(s *c07state)
	rec = func(s *c07state) {
		if !ok {
			return
		}
		k := s.key()
		if seen[k] {
			return
		}
		if len(seen) > c07maxStates {
			ok = false
			return
		}
		seen[k] = true
		for i := range s.Msgs {
			if s.Msgs[i].Completed && !s.Msgs[i].Delivered && !s.conflicts(i) {
				n := s.clone()
				n.deliver(i, nil)
				rec(n)
				return
			}
		}
		moved := false
		for i := range s.Msgs {
			if s.Msgs[i].Completed && !s.Msgs[i].Delivered {
				n := s.clone()
				n.deliver(i, nil)
				rec(n)
				moved = true
			}
		}
		if s.Parked >= 0 && !s.notesRunning() {
			n := s.clone()
			n.start(n.Parked)
			rec(n)
			moved = true
		} else if s.Parked < 0 && len(s.Queue) > 0 {
			n := s.clone()
			i := n.Queue[0]
			n.Queue = n.Queue[1:]
			n.assign(i)
			rec(n)
			moved = true
		}
		if !moved {
			out = append(out, s)
		}
	}
	rec(start)
	return out, ok
}

// history operations
type c07op struct {
	Kind    string      // "msg", "cancel", "release"
	Members []c07member // msg
	Batch   bool
	ID      string // cancel
	Nth     int    // release: the Nth oldest gate not yet released
}

func (o c07op) String() string {
	switch o.Kind {
	case "msg":
		var p []string
		for _, m := range o.Members {
			id := m.ID
			if id == "" {
				id = "-"
			}
			p = append(p, fmt.Sprintf("%s%c", id, m.Kind))
		}
		if o.Batch {
			return "[" + strings.Join(p, ",") + "]"
		}
		return p[0]
	case "cancel":
		return "cancel(" + o.ID + ")"
	default:
		return fmt.Sprintf("rel%d", o.Nth)
	}
}

func c07alphabet() []c07op {
	call := func(id string, k byte) c07op {
		return c07op{Kind: "msg", Members: []c07member{{ID: id, Kind: k}}}
	}
	batch := func(ms ...c07member) c07op { return c07op{Kind: "msg", Members: ms, Batch: true} }
	return []c07op{
		call("1", 'G'), call("1", 'i'), call("1", 'n'), call("1", 'e'), call("1", 'q'), call("1", 'r'),
		call("12", 'G'), call("12", 'i'), call(`"a"`, 'G'), call(`"1"`, 'G'), call("1", 'b'),
		// string ids whose text is not what an encoder would write (an escaped solidus, HTML
		// metacharacters, a raw DEL, an unassigned astral character): reserved and released under the same key like any other
		call("\"x\\/y<&>\x7f\U000E0001\"", 'i'), call("\"x\\/y<&>\x7f\U000E0001\"", 'G'),
		call("", 'G'), // gated notification: parks the dispatcher for later messages
		batch(c07member{ID: "1", Kind: 'G'}, c07member{ID: "1", Kind: 'G'}),
		// an id three and four times in one batch, next to an innocent member: all bearers fail
		batch(c07member{ID: "1", Kind: 'G'}, c07member{ID: "1", Kind: 'i'}, c07member{ID: "1", Kind: 'G'}),
		batch(c07member{ID: "1", Kind: 'i'}, c07member{ID: "12", Kind: 'i'}, c07member{ID: "1", Kind: 'i'}, c07member{ID: "1", Kind: 'e'}, c07member{ID: "1", Kind: 'i'}),
		batch(c07member{ID: "1", Kind: 'G'}, c07member{ID: "12", Kind: 'i'}),
		batch(c07member{ID: "1", Kind: 'n'}, c07member{ID: "12", Kind: 'G'}),
		{Kind: "cancel", ID: "1"}, {Kind: "cancel", ID: "12"},
		{Kind: "release", Nth: 0}, {Kind: "release", Nth: 1},
	}
}

func c07wire(o c07op) string {
	var parts []string
	for _, m := range o.Members {
		method := map[byte]string{'G': "G", 'i': "i", 'e': "e", 'q': "r", 'b': "b", 'n': "nosuch", 'r': "rpc.reserved"}[m.Kind]
		parts = append(parts, peer.Req(m.ID, method, m.Tag))
	}
	if o.Batch {
		return "[" + strings.Join(parts, ",") + "]"
	}
	return parts[0]
}

// c07actual renders an outbound record in the model's canonical form.
func c07actual(c *vt.Ctx, rec []byte) string {
	ms, isArr, err := peer.Decode(rec)
	if err != nil {
		c.Failf("undecodable outbound record %q: %v", rec, err)
		return "invalid"
	}
	var parts []string
	for _, m := range ms {
		switch {
		case m.Error == nil:
			tok := m.ResultToken()
			if i := strings.LastIndexByte(tok, '/'); i >= 0 {
				tok = tok[:i] + "/TOKEN"
			}
			parts = append(parts, fmt.Sprintf("id=%s result=%s", m.ID, tok))
		case m.Error.Code == 7:
			parts = append(parts, fmt.Sprintf("id=%s error=7:%s", m.ID, m.Error.Message))
		case m.Error.Code == -32600:
			parts = append(parts, fmt.Sprintf("id=%s error=-32600:%s", m.ID, m.Error.Message))
		default:
			parts = append(parts, fmt.Sprintf("id=%s error=%d:", m.ID, m.Error.Code))
		}
	}
	sig := strings.Join(parts, " | ")
	if isArr {
		sig = "[" + sig + "]"
	}
	return sig
}

type c07obs struct {
	reserved []string
	queue    int
	started  map[string]bool
	exited   map[string]bool
	replies  []string // sorted multiset of all replies so far
}

func c07observe(c *vt.Ctx, rig *peer.ServerRig) c07obs {
	snap := rig.Srv.VerifSnapshot()
	o := c07obs{reserved: snap.Reserved, queue: snap.QueueLen, started: map[string]bool{}, exited: map[string]bool{}}
	for _, e := range rig.Log.Events() {
		switch e.Kind {
		case "h.enter":
			if o.started[e.Tag] {
				c.Failf("handler of %s entered twice", e.Tag)
			}
			o.started[e.Tag] = true
		case "h.exit":
			o.exited[e.Tag] = true
		}
	}
	for _, rec := range rig.Outbound() {
		o.replies = append(o.replies, c07actual(c, rec))
	}
	sort.Strings(o.replies)
	return o
}

func (s *c07state) matches(o c07obs) bool {
	var res []string
	for id := range s.Reserved {
		res = append(res, id)
	}
	sort.Strings(res)
	if strings.Join(res, ",") != strings.Join(o.reserved, ",") || len(s.Queue) != o.queue {
		return false
	}
	if len(s.Started) != len(o.started) || len(s.Exited) != len(o.exited) {
		return false
	}
	for k := range s.Started {
		if !o.started[k] {
			return false
		}
	}
	for k := range s.Exited {
		if !o.exited[k] {
			return false
		}
	}
	rep := append([]string(nil), s.Replies...)
	sort.Strings(rep)
	return strings.Join(rep, "\n") == strings.Join(o.replies, "\n")
}

func (s *c07state) describe() string {
	var res []string
	for id := range s.Reserved {
		res = append(res, id)
	}
	sort.Strings(res)
	var st, ex []string
	for k := range s.Started {
		st = append(st, k)
	}
	for k := range s.Exited {
		ex = append(ex, k)
	}
	sort.Strings(st)
	sort.Strings(ex)
	rep := append([]string(nil), s.Replies...)
	sort.Strings(rep)
	return fmt.Sprintf("reserved=%v queue=%d entered=%v exited=%v replies=%v", res, len(s.Queue), st, ex, rep)
}

func (o c07obs) describe() string {
	var st, ex []string
	for k := range o.started {
		st = append(st, k)
	}
	for k := range o.exited {
		ex = append(ex, k)
	}
	sort.Strings(st)
	sort.Strings(ex)
	return fmt.Sprintf("reserved=%v queue=%d entered=%v exited=%v replies=%v", o.reserved, o.queue, st, ex, o.replies)
}

type c07rpclog struct{ n *int64 }

func (l c07rpclog) LogRequest(context.Context, *jrpc2.Request)   { atomic.AddInt64(l.n, 1) }
func (l c07rpclog) LogResponse(context.Context, *jrpc2.Response) { atomic.AddInt64(l.n, 1) }

func c07exec(c *vt.Ctx, hist []c07op, ctrl *sched.Controller) {
	peer.Bubble(c, ctrl, func() {
		opts := peer.ServerOpts{Concurrency: 16}
		var logged int64
		if vt.Hash64(c07hsig(hist))%2 == 0 {
			// half of the histories run with an RPC logger installed (a configuration
			// that changes which contexts the server creates)
			opts.RPCLog = c07rpclog{&logged}
		}
		rig := peer.NewServerRig(c, ctrl, opts)
		states := []*c07state{{Parked: -1, Reserved: map[string]int{}, Started: map[string]bool{}, Exited: map[string]bool{},
			Cancelled: map[string]bool{}, Opened: map[string]bool{}}}
		var gates []string // gate tags in creation order, not yet released
		tooLarge := false
		apply := func(f func(s *c07state)) {
			var next []*c07state
			seen := map[string]bool{}
			for _, s := range states {
				n := s.clone()
				f(n)
				ends, ok := c07pump(n)
				if !ok || len(next) > c07maxStates {
					tooLarge = true
					return
				}
				for _, e := range ends {
					if k := e.key(); !seen[k] {
						seen[k] = true
						next = append(next, e)
					}
				}
			}
			states = next
		}
		filter := func(when string) bool {
			rig.Settle()
			if tooLarge {
				// too many admissible outcomes to track (many same-id messages queued
				// behind one notification): stop judging this execution.
				c.Count("model_too_large", 1)
				return false
			}
			o := c07observe(c, rig)
			var keep []*c07state
			for _, s := range states {
				if s.matches(o) {
					keep = append(keep, s)
				}
			}
			if len(keep) == 0 {
				var adm []string
				for i, s := range states {
					if i < 3 {
						adm = append(adm, s.describe())
					}
				}
				c.Failf("%s: observed state is not admissible.\n observed:   %s\n admissible: %s", when, o.describe(), strings.Join(adm, "\n         or: "))
				return false
			}
			c.Count("model_states", len(keep))
			states = keep
			return true
		}
		release := func(tag string) {
			rig.H.Release(tag)
			apply(func(s *c07state) {
				s.Opened[tag] = true
				for i := range s.Msgs {
					for j := range s.Msgs[i].Members {
						mem := &s.Msgs[i].Members[j]
						if mem.Tag == tag && mem.St == 2 {
							mem.St = 3
							s.Exited[tag] = true
							s.checkComplete(i)
						}
					}
				}
			})
		}
		ok := true
		for k, op := range hist {
			when := fmt.Sprintf("after op %d %s", k, op)
			switch op.Kind {
			case "msg":
				op.Members = append([]c07member(nil), op.Members...)
				for j := range op.Members {
					op.Members[j].Tag = fmt.Sprintf("o%d.%d", k, j)
					if op.Members[j].Kind == 'G' {
						gates = append(gates, op.Members[j].Tag)
					}
				}
				rig.Send(c07wire(op))
				apply(func(s *c07state) {
					s.Msgs = append(s.Msgs, c07msg{Members: append([]c07member(nil), op.Members...), Batch: op.Batch})
					s.Queue = append(s.Queue, len(s.Msgs)-1)
				})
			case "cancel":
				rig.Srv.CancelRequest(op.ID)
				apply(func(s *c07state) {
					if i, ok := s.Reserved[op.ID]; ok {
						for j := range s.Msgs[i].Members {
							mem := &s.Msgs[i].Members[j]
							if mem.ID == op.ID && mem.St == 2 {
								s.Cancelled[mem.Tag] = true
							}
							if mem.ID == op.ID && mem.St == 4 {
								mem.Pre = true
							}
						}
					}
				})
			case "release":
				if op.Nth < len(gates) {
					tag := gates[op.Nth]
					gates = append(gates[:op.Nth:op.Nth], gates[op.Nth+1:]...)
					release(tag)
				}
			}
			if ok = filter(when); !ok {
				break
			}
		}
		// wind down: release the remaining gates oldest first, checking each step
		for ok && len(gates) > 0 {
			tag := gates[0]
			gates = gates[1:]
			release(tag)
			ok = filter("after final release of " + tag)
		}
		rig.H.ReleaseAll()
		rig.Settle()
		if ok {
			// some admissible state must explain every handler's context at exit
			exits := rig.Log.Find("h.exit", "*")
			explained := false
			for _, s := range states {
				all := true
				for _, e := range exits {
					if strings.Contains(e.Info, "ctxerr=context canceled") != s.Cancelled[e.Tag] {
						all = false
					}
				}
				explained = explained || all
			}
			if !explained {
				want := states[0].Cancelled
				for _, e := range exits {
					if got := strings.Contains(e.Info, "ctxerr=context canceled"); got != want[e.Tag] {
						c.Failf("handler %s left with %s; CancelRequest named its id while in flight: %v", e.Tag, e.Info, want[e.Tag])
					}
				}
			}
			for _, e := range rig.Log.Find("h.enter", "*") {
				if !strings.Contains(e.Info, "ctxerr=<nil>") {
					c.Failf("handler %s started with a dead context: %s", e.Tag, e.Info)
				}
			}
			if snap := rig.Srv.VerifSnapshot(); len(snap.Reserved) != 0 {
				c.Failf("ids still reserved after every call was answered: %v", snap.Reserved)
			}
		}
		if _, fin := rig.Finish(); !fin {
			c.Failf("server did not exit after the peer closed")
		}
		c.Count("events", rig.Log.Len())
		c.Count("handler_runs", int(rig.H.Invocations()))
		c.Count("replies", len(rig.Outbound()))
	})
	c.Eval(1)
}

func c07hsig(h []c07op) string {
	var p []string
	for _, o := range h {
		p = append(p, o.String())
	}
	return strings.Join(p, " ")
}

// non-trivial: an id is used by at least two calls, or a cancel targets a used id
func c07nontrivial(h []c07op) bool {
	uses := map[string]int{}
	for _, o := range h {
		for _, m := range o.Members {
			if m.ID != "" {
				uses[m.ID]++
			}
		}
	}
	for _, o := range h {
		if o.Kind == "cancel" && uses[o.ID] > 0 {
			return true
		}
	}
	for _, n := range uses {
		if n >= 2 {
			return true
		}
	}
	return false
}

func init() {
	vt.Register(&vt.Check{
		Prop:  "C07",
		Level: "exploration",
		Rule: "histories over {call(id in {1,12,\"a\",\"1\" (a string that spells a number)}, method in {stubborn gated, instant, error, error coded -32600 by the handler, error whose data cannot be encoded (no reply can be sent; the id must be released all the same), unknown, reserved rpc.*}), batches with equal ids / mixed outcomes, gated notification (parks the dispatcher), " +
			"CancelRequest(1|12), release of the k-th oldest gate}: all histories up to length 3 (4 in thorough) plus seeded longer ones; after every operation the reserved-id snapshot, queue length, " +
			"handlers entered/exited and replies must be admissible under the reference reservation model; plus delay-bounded schedules and seeded perturbation. " +
			"distinct_nontrivial = distinct (history, delay set) in which an id is reused or a CancelRequest names a used id",
		Assumptions: []string{
			"Go 1.26.8 runtime and testing/synctest quiescence",
			"Concurrency 16 so that no call waits for a slot (slot waiting is C06's subject)",
			"a message counts as in flight from the moment the dispatcher dequeues it (its id is reserved while it waits for an earlier notification to finish); a message dequeued in the same quiescent step in which an earlier same-id message completes may be accepted or rejected (the statement leaves that race open); the model admits both",
		},
		Require: map[string]int64{"handler_runs": 200, "replies": 200},
		Cases:   c07cases,
	})
}

func c07cases(e vt.Env, yield func(vt.Case) bool) {
	// H, R: the edges of the reservation window (c07_window.go)
	if !c07windowCases(e, yield) {
		return
	}
	alpha := c07alphabet()
	exhLen := e.Pick(3, 4)
	// E1: exhaustive short histories; one case per first two symbols
	for a := range alpha {
		for b := -1; b < len(alpha); b++ {
			a, b := a, b
			id := fmt.Sprintf("E1/%s", alpha[a])
			if b >= 0 {
				id += " " + alpha[b].String() + " *"
			}
			if !yield(vt.Case{ID: id, Run: func(c *vt.Ctx) {
				if b < 0 {
					h := []c07op{alpha[a]}
					c07exec(c, h, sched.New())
					return
				}
				seqs(len(alpha), 0, exhLen-2, func(idx []int) bool {
					h := []c07op{alpha[a], alpha[b]}
					for _, k := range idx {
						h = append(h, alpha[k])
					}
					c07exec(c, h, sched.New())
					if c07nontrivial(h) {
						c.Distinct(c07hsig(h))
						if c.WantSample() && len(h) >= 3 {
							c.Sample(c07hsig(h))
						}
					}
					return !c.Failed()
				})
			}}) {
				return
			}
		}
	}
	// E1x: seeded longer histories
	rng := e.Rand("C07/E1x")
	for i := 0; i < e.Pick(1500, 30000); i++ {
		n := exhLen + 1 + rng.IntN(3)
		h := make([]c07op, n)
		for k := range h {
			h[k] = alpha[rng.IntN(len(alpha))]
		}
		id := fmt.Sprintf("E1x/%d/%s", i, c07hsig(h))
		if !yield(vt.Case{ID: id, Run: func(c *vt.Ctx) {
			c07exec(c, h, sched.New())
			if c07nontrivial(h) {
				c.Distinct(c07hsig(h))
			}
		}}) {
			return
		}
	}
	// E2: delay-bounded schedules on seeded non-trivial histories
	rng = e.Rand("C07/E2")
	d := e.Pick(1, 2)
	for i := 0; i < e.Pick(40, 300); i++ {
		n := 3 + rng.IntN(2)
		h := make([]c07op, n)
		for k := range h {
			h[k] = alpha[rng.IntN(len(alpha))]
		}
		if !c07nontrivial(h) {
			continue
		}
		dd := d
		if dd == 2 && i%5 != 0 {
			dd = 1
		}
		id := fmt.Sprintf("E2/%d/%s/d%d", i, c07hsig(h), dd)
		if !yield(vt.Case{ID: id, Run: func(c *vt.Ctx) {
			prof := sched.New()
			c07exec(c, h, prof)
			if c.Failed() {
				return
			}
			sched.DelaySets(prof.Keys(), dd, func(ds []string) bool {
				c07exec(c, h, sched.New().WithDelays(ds...))
				c.Distinct(id + "/" + join(ds))
				return !c.Failed()
			})
		}}) {
			return
		}
	}
	// E3: seeded perturbation on long histories
	rng = e.Rand("C07/E3")
	for i := 0; i < e.Pick(150, 3000); i++ {
		n := 6 + rng.IntN(10)
		h := make([]c07op, n)
		for k := range h {
			h[k] = alpha[rng.IntN(len(alpha))]
		}
		p := []float64{0.02, 0.05, 0.1, 0.2}[rng.IntN(4)]
		id := fmt.Sprintf("E3/%d/p%.2f/%s", i, p, c07hsig(h))
		if !yield(vt.Case{ID: id, Run: func(c *vt.Ctx) {
			c07exec(c, h, sched.New().WithPerturb(p, e.Rand(id)))
			if c07nontrivial(h) {
				c.Distinct(id)
			}
		}}) {
			return
		}
	}
}
