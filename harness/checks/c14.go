package checks

import (
	"bytes"
	"context"
	"encoding/json"
	"errors"
	"fmt"
	"io"
	"math"
	"math/rand/v2"
	"reflect"
	"strings"
	"sync"
	"unicode/utf8"
	"unsafe"

	"github.com/creachadair/jrpc2"

	"verif/harness/peer"
	"verif/harness/sched"
	"verif/harness/vchan"
	"verif/harness/vt"
)

// C14 — errors keep their code, message and data from handler to caller.
//
// A real jrpc2.Server and a real jrpc2.Client are connected by the
// instrumented in-memory channel. The harness handler returns the i-th error
// value of a block generated from a grammar of the constructors users have;
// the error Client.Call returns is compared with it:
//
//	(a) ErrorCode(e) == ErrorCode(h)            (the library's classifier on both sides);
//	(b) the class of e computed by hand (its concrete type) is a class the
//	    documentation of ErrorCode allows for the structure of h: the code of
//	    an ErrCoder in h's tree if there is one (ErrCoder is listed first),
//	    else Cancelled / DeadlineExceeded if that sentinel is in the tree,
//	    else SystemError;
//	(c) h a bare *Error with code not in {Cancelled, DeadlineExceeded}:
//	    e is *Error with equal code, equal message, JSON-equal data;
//	(d) no ErrCoder in h's tree and a context sentinel in it: e == that sentinel.
//
// Block X repeats the comparison for handlers whose server-side context has
// been cancelled before they return (Server.CancelRequest on the request's id,
// called by the handler itself, by a second handler reached through a call or
// through a notification, or by a goroutine outside any handler) while the
// caller's own context stays live: clauses (a)-(d) are applied unchanged, so
// only an error that IS a context error (clause d) may surface as a context
// sentinel, and code, message and data of every other error are as without
// the cancellation. Whether the cancellation took effect before the handler
// returned is observed (ctx.Err() in the handler) and feeds the observation
// floor only.
//
// Unmarshalable results (block U, in a synctest bubble so that a missing
// response is a quiescent state and not a hang): the call completes with an
// error and the server's wire record is a well-formed error response with the
// id of the request.
//
// Pure clauses: ErrorCode(c.Err()) == c for c != NoError (P1); WithData
// leaves the receiver's fields byte-identical, also when the result is
// scribbled on afterwards, also under two concurrent callers (P2).
//
// Deliberate leniencies (the statement is silent): which of several ErrCoders
// with different codes in one tree wins; which sentinel wins if both are in
// the tree; message and data of errors that are not a bare *Error; the
// concrete type of e for a bare *Error with code Cancelled/DeadlineExceeded
// (only its ErrorCode is compared); the error code used for an unmarshalable
// result; whether "message" is present on the wire for an empty message.
// Domain restrictions: messages valid UTF-8, data valid JSON, codes of
// ErrCoders other than a bare *Error differ from NoError, no typed-nil errors.

// ---- custom error types of the grammar ----

type c14coderVal struct {
	c jrpc2.Code
	m string
}

func (e c14coderVal) Error() string       { return "coderVal:" + e.m }
func (e c14coderVal) ErrCode() jrpc2.Code { return e.c }

type c14coderPtr struct {
	c jrpc2.Code
	m string
}

func (e *c14coderPtr) Error() string       { return "coderPtr:" + e.m }
func (e *c14coderPtr) ErrCode() jrpc2.Code { return e.c }

// c14coderWrap is an ErrCoder that also wraps another error.
type c14coderWrap struct {
	c     jrpc2.Code
	inner error
}

func (e *c14coderWrap) Error() string       { return "coderWrap(" + e.inner.Error() + ")" }
func (e *c14coderWrap) ErrCode() jrpc2.Code { return e.c }
func (e *c14coderWrap) Unwrap() error       { return e.inner }

type c14plain struct{ m string }

func (e c14plain) Error() string { return "plain:" + e.m }

// c14uwrap wraps without being an ErrCoder.
type c14uwrap struct {
	m     string
	inner error
}

func (e *c14uwrap) Error() string { return e.m + "{" + e.inner.Error() + "}" }
func (e *c14uwrap) Unwrap() error { return e.inner }

// c14multi wraps several errors (Unwrap() []error), like errors.Join.
type c14multi struct{ inner []error }

func (e *c14multi) Error() string {
	var p []string
	for _, x := range e.inner {
		p = append(p, x.Error())
	}
	return "multi[" + strings.Join(p, "|") + "]"
}
func (e *c14multi) Unwrap() []error { return e.inner }

// ---- the grammar ----

type c14node struct {
	kind string
	code jrpc2.Code      // coder kinds and *Error kinds
	msg  string          // expected Message of *Error kinds
	data json.RawMessage // expected Data of *Error kinds (nil = none)
	kids []*c14node
	err  error
	bad  string // a constructor misbehaved while the value was built
}

// c14nilErr stands in for a constructor result that was nil.
var c14nilErr = errors.New("harness placeholder: the constructor returned nil")

func (n *c14node) firstBad() string {
	if n.bad != "" {
		return n.bad
	}
	for _, k := range n.kids {
		if b := k.firstBad(); b != "" {
			return b
		}
	}
	return ""
}

func (n *c14node) isErrorPtr() bool {
	return n.kind == "EPtr" || n.kind == "Errorf" || n.kind == "ErrorfData"
}

func (n *c14node) isCoder() bool {
	switch n.kind {
	case "EPtr", "Errorf", "ErrorfData", "EVal", "CodeErr", "coderVal", "coderPtr", "coderWrap":
		return true
	}
	return false
}

// coders lists the codes of the ErrCoders in the tree in errors.As order.
func (n *c14node) coders(out []jrpc2.Code) []jrpc2.Code {
	if n.isCoder() {
		out = append(out, n.code)
	}
	for _, k := range n.kids {
		out = k.coders(out)
	}
	return out
}

func (n *c14node) has(kind string) bool {
	if n.kind == kind {
		return true
	}
	for _, k := range n.kids {
		if k.has(kind) {
			return true
		}
	}
	return false
}

func (n *c14node) depth() int {
	d := 0
	for _, k := range n.kids {
		d = max(d, k.depth())
	}
	if len(n.kids) > 0 {
		d++
	}
	return d
}

func c14short(s string) string {
	if len(s) > 40 {
		return fmt.Sprintf("%q...(%d bytes)", s[:40], len(s))
	}
	return fmt.Sprintf("%q", s)
}

// String renders the construction of the value (for violation messages).
func (n *c14node) String() string {
	switch n.kind {
	case "EPtr":
		return fmt.Sprintf("&jrpc2.Error{Code:%d,Message:%s,Data:%s}", n.code, c14short(n.msg), c14short(string(n.data)))
	case "Errorf":
		return fmt.Sprintf("jrpc2.Errorf(%d,\"%%s\",%s)", n.code, c14short(n.msg))
	case "ErrorfData":
		return fmt.Sprintf("jrpc2.Errorf(%d,\"%%s\",%s).WithData(<%s>)", n.code, c14short(n.msg), c14short(string(n.data)))
	case "EVal":
		return fmt.Sprintf("jrpc2.Error{Code:%d,Message:%s}", n.code, c14short(n.msg))
	case "CodeErr":
		return fmt.Sprintf("jrpc2.Code(%d).Err()", n.code)
	case "coderVal", "coderPtr":
		return fmt.Sprintf("%s{%d}", n.kind, n.code)
	case "coderWrap":
		return fmt.Sprintf("coderWrap{%d, %s}", n.code, n.kids[0])
	case "canceled":
		return "context.Canceled"
	case "deadline":
		return "context.DeadlineExceeded"
	case "plain", "opaque":
		return n.kind + "(" + c14short(n.msg) + ")"
	}
	var p []string
	for _, k := range n.kids {
		p = append(p, k.String())
	}
	return n.kind + "(" + strings.Join(p, ", ") + ")"
}

func c14codeClass(c jrpc2.Code) string {
	switch c {
	case 0:
		return "0"
	case jrpc2.ParseError, jrpc2.InvalidRequest, jrpc2.MethodNotFound, jrpc2.InvalidParams, jrpc2.InternalError:
		return "std"
	case jrpc2.NoError:
		return "noerror"
	case jrpc2.SystemError:
		return "system"
	case jrpc2.Cancelled:
		return "cancelled"
	case jrpc2.DeadlineExceeded:
		return "deadline"
	case math.MinInt32:
		return "min"
	case math.MaxInt32:
		return "max"
	}
	switch {
	case c >= -32768 && c <= -32000:
		return "reserved"
	case c < 0:
		return "neg"
	}
	return "pos"
}

func c14msgClass(s string) string {
	switch {
	case s == "":
		return "empty"
	case len(s) > 1000:
		return "long"
	}
	for _, r := range s {
		if r < 0x20 || r == '"' || r == '\\' || r == '<' || r == '>' || r == '&' || r == 0x2028 || r == 0x2029 {
			return "escaped"
		}
		if r > 0x7f {
			return "unicode"
		}
	}
	return "ascii"
}

func c14dataClass(d json.RawMessage) string {
	t := bytes.TrimSpace(d)
	if len(d) == 0 {
		if d == nil {
			return "none"
		}
		return "emptyslice"
	}
	ws := ""
	if len(t) != len(d) {
		ws = "ws+"
	}
	switch t[0] {
	case '{':
		return ws + "object"
	case '[':
		return ws + "array"
	case '"':
		return ws + "string"
	case 'n':
		return ws + "null"
	case 't', 'f':
		return ws + "bool"
	}
	return ws + "number"
}

// shape is the signature used for distinct counting: the construction with
// codes, messages and data reduced to classes.
func (n *c14node) shape() string {
	switch n.kind {
	case "EPtr", "Errorf", "ErrorfData":
		return fmt.Sprintf("%s<%s,%s,%s>", n.kind, c14codeClass(n.code), c14msgClass(n.msg), c14dataClass(n.data))
	case "EVal", "CodeErr", "coderVal", "coderPtr":
		return fmt.Sprintf("%s<%s>", n.kind, c14codeClass(n.code))
	case "coderWrap":
		return fmt.Sprintf("coderWrap<%s>(%s)", c14codeClass(n.code), n.kids[0].shape())
	case "canceled", "deadline", "plain", "opaque":
		return n.kind
	}
	var p []string
	for _, k := range n.kids {
		p = append(p, k.shape())
	}
	return n.kind + "(" + strings.Join(p, ",") + ")"
}

var c14specialCodes = []jrpc2.Code{
	0, 1, -1, 2, 7, 100, -100, math.MinInt32, math.MaxInt32, math.MinInt32 + 1, math.MaxInt32 - 1,
	jrpc2.ParseError, jrpc2.InvalidRequest, jrpc2.MethodNotFound, jrpc2.InvalidParams, jrpc2.InternalError,
	jrpc2.SystemError, jrpc2.Cancelled, jrpc2.DeadlineExceeded, jrpc2.Cancelled, jrpc2.DeadlineExceeded,
	-32768, -32769, -32000, -31999, -32001, -32100, -32095, -32094, 32097, 32096, 32099, 65536, -65536,
}

// c14code picks a code; NoError only when allowNoError.
func c14code(r *rand.Rand, allowNoError bool) jrpc2.Code {
	for {
		var c jrpc2.Code
		switch r.IntN(10) {
		case 0, 1, 2, 3:
			c = c14specialCodes[r.IntN(len(c14specialCodes))]
		case 4:
			c = jrpc2.Code(-32768 + r.IntN(769)) // the reserved range, NoError included
		case 5:
			c = jrpc2.NoError
		default:
			c = jrpc2.Code(int32(r.Uint32()))
		}
		if c == jrpc2.NoError && !allowNoError {
			continue
		}
		return c
	}
}

var c14msgs = []string{
	"", "", "m", "hello world", "é", "日本語のメッセージ", "a b c", "<tag> & \"quoted\" \\ back",
	"\x00\x01\x1f", "line1\nline2\ttab\r", "%d %s %!v(MISSING) %%", "[5] looks like an Error string",
	"context canceled", "context deadline exceeded", "\U0001F600 emoji", "� replacement char", " leading and trailing ",
	"{\"json\":\"inside\"}", "null", "0",
}

func c14msg(r *rand.Rand) string {
	switch r.IntN(12) {
	case 0:
		return strings.Repeat("long message é ", 400)
	case 1, 2, 3:
		n := r.IntN(24)
		var sb strings.Builder
		for i := 0; i < n; i++ {
			switch r.IntN(6) {
			case 0:
				sb.WriteRune(rune(0x80 + r.IntN(0x2000)))
			case 1:
				sb.WriteRune(rune(r.IntN(0x20)))
			case 2:
				sb.WriteRune([]rune{'"', '\\', '<', '>', '&', '/', '\'', 0x2028, 0x1F600, 0xFFFD, 0x7f}[r.IntN(11)])
			default:
				sb.WriteByte(byte(0x20 + r.IntN(0x5f)))
			}
		}
		s := sb.String()
		if !utf8.ValidString(s) { // surrogate range etc. cannot happen with WriteRune, but be safe
			return "m"
		}
		return s
	}
	return c14msgs[r.IntN(len(c14msgs))]
}

var c14scalars = []string{
	"null", "true", "false", "0", "-0", "1", "-1", "1.5", "1e3", "1E-2", "0.000001", "123456789012345678901234567890",
	"1e400", "-1.7976931348623157e308", `""`, `"s"`, `"é"`, `"\u00e9"`, `"<&>"`, "\"a\u2028b\"", `"\\"`, `"\"q\""`,
	`"\ud83d\ude00"`, `"😀"`, `"\u0000"`, `"/\/"`, `"日本"`, `"\n\t"`,
}

func c14ws(r *rand.Rand) string {
	switch r.IntN(6) {
	case 0:
		return " "
	case 1:
		return "\n\t"
	case 2:
		return "  \r\n"
	}
	return ""
}

func c14json(r *rand.Rand, depth int) string {
	k := r.IntN(10)
	if depth <= 0 && k >= 6 {
		k = r.IntN(6)
	}
	switch {
	case k < 6:
		return c14scalars[r.IntN(len(c14scalars))]
	case k < 8:
		n := r.IntN(4)
		var p []string
		for i := 0; i < n; i++ {
			p = append(p, c14ws(r)+c14json(r, depth-1)+c14ws(r))
		}
		return "[" + c14ws(r) + strings.Join(p, ",") + "]"
	default:
		n := r.IntN(4)
		keys := []string{`"a"`, `"b"`, `"a"`, `""`, `"é"`, `"<k>"`, `"data"`, `"code"`, `"message"`}
		var p []string
		for i := 0; i < n; i++ {
			p = append(p, c14ws(r)+keys[r.IntN(len(keys))]+c14ws(r)+":"+c14ws(r)+c14json(r, depth-1)+c14ws(r))
		}
		return "{" + c14ws(r) + strings.Join(p, ",") + "}"
	}
}

// c14data picks the Data field of an *Error literal (valid JSON, or absent).
func c14data(r *rand.Rand) json.RawMessage {
	switch r.IntN(8) {
	case 0, 1:
		return nil
	case 2:
		if r.IntN(4) == 0 {
			return json.RawMessage{} // empty, non-nil
		}
		return nil
	}
	s := c14ws(r) + c14json(r, 3) + c14ws(r)
	if !json.Valid([]byte(s)) {
		panic("harness bug: generated invalid JSON " + s)
	}
	return json.RawMessage(s)
}

// c14value picks a marshalable Go value (for WithData).
func c14value(r *rand.Rand) any {
	switch r.IntN(12) {
	case 0:
		return r.IntN(1000) - 500
	case 1:
		return c14msg(r)
	case 2:
		return []int{1, 2, r.IntN(9)}
	case 3:
		return map[string]any{"k": c14msg(r), "n": r.IntN(5), "<": nil}
	case 4:
		return struct {
			A int    `json:"a"`
			B string `json:"b,omitempty"`
		}{r.IntN(7), c14msg(r)}
	case 5:
		return json.RawMessage(c14ws(r) + c14json(r, 2) + c14ws(r))
	case 6:
		return (*int)(nil)
	case 7:
		return true
	case 8:
		return 1.25
	case 9:
		return []string{}
	case 10:
		return []byte("bytes become base64")
	}
	return map[string][]string{"xs": {"<a>", "é"}}
}

// c14leaf generates a leaf. root tells whether the value is returned bare.
func c14leaf(r *rand.Rand, root bool) *c14node {
	n := &c14node{}
	switch k := r.IntN(20); {
	case k < 4:
		n.kind, n.code, n.msg, n.data = "EPtr", c14code(r, root), c14msg(r), c14data(r)
		n.err = &jrpc2.Error{Code: n.code, Message: n.msg, Data: append(json.RawMessage(nil), n.data...)}
		if n.data != nil && len(n.data) == 0 {
			n.err.(*jrpc2.Error).Data = json.RawMessage{}
		}
	case k < 6:
		n.kind, n.code, n.msg = "Errorf", c14code(r, root), c14msg(r)
		n.err = jrpc2.Errorf(n.code, "%s", n.msg)
		if n.err.(*jrpc2.Error) == nil {
			n.err, n.bad = c14nilErr, "Errorf returned nil"
		}
	case k < 8:
		n.kind, n.code, n.msg = "ErrorfData", c14code(r, root), c14msg(r)
		v := c14value(r)
		d, err := json.Marshal(v)
		if err != nil {
			panic("harness bug: value not marshalable")
		}
		n.data = d
		n.err = jrpc2.Errorf(n.code, "%s", n.msg).WithData(v)
		if n.err.(*jrpc2.Error) == nil {
			n.err, n.bad = c14nilErr, "Errorf(...).WithData returned nil"
		}
	case k < 9:
		n.kind, n.code, n.msg = "EVal", c14code(r, false), c14msg(r)
		n.err = jrpc2.Error{Code: n.code, Message: n.msg}
	case k < 11:
		n.kind, n.code = "CodeErr", c14code(r, false)
		n.err = n.code.Err()
		if n.err == nil {
			n.err, n.bad = c14nilErr, fmt.Sprintf("Code(%d).Err() returned nil (only NoError may)", n.code)
		}
	case k < 12:
		n.kind, n.code = "coderVal", c14code(r, false)
		n.err = c14coderVal{n.code, c14msg(r)}
	case k < 13:
		n.kind, n.code = "coderPtr", c14code(r, false)
		n.err = &c14coderPtr{n.code, c14msg(r)}
	case k < 15:
		n.kind, n.err = "canceled", context.Canceled
	case k < 17:
		n.kind, n.err = "deadline", context.DeadlineExceeded
	case k < 19:
		n.kind, n.msg = "plain", c14msg(r)
		switch r.IntN(3) {
		case 0:
			n.err = errors.New(n.msg)
		case 1:
			n.err = c14plain{n.msg}
		default:
			n.err = io.ErrUnexpectedEOF
			n.msg = "io.ErrUnexpectedEOF"
		}
	default:
		// %v hides whatever it formats: a plain error although its text
		// mentions a code or a context error.
		n.kind = "opaque"
		hidden := []error{context.Canceled, context.DeadlineExceeded, jrpc2.Code(5).Err(), &jrpc2.Error{Code: 9, Message: "x"}}[r.IntN(4)]
		n.err = fmt.Errorf("seen: %v", hidden)
		n.msg = n.err.Error()
	}
	return n
}

// c14gen generates an error value whose wrapping depth is at most depth.
func c14gen(r *rand.Rand, depth int, root bool) *c14node {
	if depth <= 0 || r.IntN(3) == 0 {
		return c14leaf(r, root)
	}
	n := &c14node{}
	switch r.IntN(7) {
	case 0, 1:
		n.kind = "wrap"
		n.kids = []*c14node{c14gen(r, depth-1, false)}
		n.err = fmt.Errorf("w%d: %w", depth, n.kids[0].err)
	case 2:
		n.kind = "wrap2"
		n.kids = []*c14node{c14gen(r, depth-1, false), c14gen(r, depth-1, false)}
		n.err = fmt.Errorf("%w and then %w", n.kids[0].err, n.kids[1].err)
	case 3:
		n.kind = "join"
		k := 2 + r.IntN(2)
		var es []error
		for i := 0; i < k; i++ {
			kid := c14gen(r, depth-1, false)
			n.kids = append(n.kids, kid)
			es = append(es, kid.err)
		}
		n.err = errors.Join(es...)
	case 4:
		n.kind = "uwrap"
		n.kids = []*c14node{c14gen(r, depth-1, false)}
		n.err = &c14uwrap{"uw", n.kids[0].err}
	case 5:
		n.kind = "multi"
		n.kids = []*c14node{c14gen(r, depth-1, false), c14gen(r, depth-1, false)}
		n.err = &c14multi{[]error{n.kids[0].err, n.kids[1].err}}
	default:
		n.kind, n.code = "coderWrap", c14code(r, false)
		n.kids = []*c14node{c14gen(r, depth-1, false)}
		n.err = &c14coderWrap{n.code, n.kids[0].err}
	}
	return n
}

// c14show renders an error for a violation message (type and quoted text).
func c14show(e error) string {
	if e == nil {
		return "<nil>"
	}
	return fmt.Sprintf("%T %s", e, c14short(e.Error()))
}

// c14jsonEqual compares two JSON texts as values (numbers by their text).
func c14jsonEqual(a, b []byte) bool {
	dec := func(x []byte) (any, bool) {
		d := json.NewDecoder(bytes.NewReader(x))
		d.UseNumber()
		var v any
		if err := d.Decode(&v); err != nil {
			return nil, false
		}
		var extra any
		if err := d.Decode(&extra); err != io.EOF {
			return nil, false
		}
		return v, true
	}
	va, oka := dec(a)
	vb, okb := dec(b)
	return oka && okb && reflect.DeepEqual(va, vb)
}

// c14class computes the class of a client-side error by hand.
func c14class(e error) (jrpc2.Code, string) {
	switch v := e.(type) {
	case *jrpc2.Error:
		if v == nil {
			return 0, "typed nil *Error"
		}
		return v.Code, ""
	}
	switch e {
	case context.Canceled:
		return jrpc2.Cancelled, ""
	case context.DeadlineExceeded:
		return jrpc2.DeadlineExceeded, ""
	}
	return 0, "neither *jrpc2.Error nor a context sentinel: " + c14show(e)
}

// c14allowed returns the codes the documentation allows for the tree.
func c14allowed(n *c14node) (allowed []jrpc2.Code, coders []jrpc2.Code, canc, dead bool) {
	coders = n.coders(nil)
	canc, dead = n.has("canceled"), n.has("deadline")
	switch {
	case len(coders) > 0:
		allowed = coders
	case canc || dead:
		if canc {
			allowed = append(allowed, jrpc2.Cancelled)
		}
		if dead {
			allowed = append(allowed, jrpc2.DeadlineExceeded)
		}
	default:
		allowed = []jrpc2.Code{jrpc2.SystemError}
	}
	return
}

func c14ints(cs []jrpc2.Code) []int {
	out := make([]int, len(cs))
	for i, c := range cs {
		out[i] = int(c)
	}
	return out
}

func c14in(c jrpc2.Code, set []jrpc2.Code) bool {
	for _, x := range set {
		if x == c {
			return true
		}
	}
	return false
}

// c14rig is a live server and client over the instrumented channel.
type c14rig struct {
	mon    *peer.Mon
	cliEnd *vchan.End
	srvEnd *vchan.End
	srv    *jrpc2.Server
	cli    *jrpc2.Client
}

func c14start(c *vt.Ctx, asg jrpc2.Assigner, opts *jrpc2.ServerOptions) *c14rig {
	r := &c14rig{mon: &peer.Mon{C: c, Log: peer.NewLog()}}
	r.cliEnd, r.srvEnd = vchan.NewPair("cli", "srv", r.mon)
	r.srv = jrpc2.NewServer(asg, opts).Start(r.srvEnd)
	r.cli = jrpc2.NewClient(r.cliEnd, nil)
	return r
}

func (r *c14rig) stop(c *vt.Ctx) {
	r.cli.Close()
	r.srv.WaitStatus()
	c.Count("channel_ops", int(r.mon.Ops.Load()))
	if n := r.mon.Discipline.Load(); n > 0 {
		c.Count("channel_discipline_reports", int(n))
	}
}

type c14assigner struct {
	h jrpc2.Handler
	u jrpc2.Handler
	k jrpc2.Handler // "cancel": cancels another request (block X)
	s jrpc2.Handler // "sync": returns at once (block X)
}

func (a c14assigner) Assign(_ context.Context, m string) jrpc2.Handler {
	switch m {
	case "err":
		return a.h
	case "u":
		return a.u
	case "cancel":
		return a.k
	case "sync":
		return a.s
	}
	return nil
}

// How the server-side context of a call of block X is ended before its
// handler returns. The caller's own context stays live in every mode.
const (
	c14cancelNone   = iota // block G: the context is live when the handler returns
	c14cancelSelf          // the handler calls Server.CancelRequest on its own id
	c14cancelPeer          // a second handler (method "cancel") calls Server.CancelRequest(id)
	c14cancelNote          // the same second handler, invoked by a notification
	c14cancelDirect        // a harness goroutine outside any handler calls Server.CancelRequest(id)
	c14cancelModes
)

var c14cancelName = [...]string{"live", "self", "peer-call", "peer-notification", "direct"}

// c14grammarBlock runs one block of generated handler errors. With cancelled
// set (block X) the server-side context of every call is ended before the
// handler returns its error, in one of the ways c14cancelSelf/Peer/Note/Direct,
// while the caller keeps waiting on a live context: the error that reaches the
// caller must be the same as without the cancellation.
func c14grammarBlock(c *vt.Ctx, id string, n int, cancelled bool) {
	rng := c.Env.Rand(id)
	nodes := make([]*c14node, n)
	modes := make([]int, n)
	for i := range nodes {
		nodes[i] = c14gen(rng, rng.IntN(4), true)
		if d := nodes[i].depth(); d > 3 {
			panic("harness bug: depth")
		}
		if cancelled {
			modes[i] = 1 + rng.IntN(c14cancelModes-1)
		}
	}
	// constructor sanity: the *Error kinds carry the fields the harness expects
	for _, nd := range nodes {
		if b := nd.firstBad(); b != "" {
			c.Failf("while building %s: %s", nd, b)
			return
		}
		if nd.isErrorPtr() {
			h := nd.err.(*jrpc2.Error)
			if h.Code != nd.code || h.Message != nd.msg || !(bytes.Equal(h.Data, nd.data) || c14jsonEqual(h.Data, nd.data)) {
				c.Failf("constructor %s produced %#v", nd, h)
				return
			}
		}
	}
	var hmu sync.Mutex
	returned := make([]int, n)
	ended := make([]bool, n)            // the handler's context had ended when it returned
	idc := make([]chan string, n)       // the handler publishes its request id (peer, rpc.cancel)
	release := make([]chan struct{}, n) // closed by the caller once the cancellation was ordered
	if cancelled {
		for i := range idc {
			idc[i], release[i] = make(chan string, 1), make(chan struct{})
		}
	}
	const callers = 4
	var opts *jrpc2.ServerOptions
	if cancelled {
		// every caller has at most two handlers in flight (its call and "cancel"/"sync")
		opts = &jrpc2.ServerOptions{Concurrency: 4 * callers}
	}
	rig := c14start(c, c14assigner{h: func(ctx context.Context, req *jrpc2.Request) (any, error) {
		var p []int
		if err := req.UnmarshalParams(&p); err != nil || len(p) != 1 || p[0] < 0 || p[0] >= n {
			return nil, errors.New("harness: bad params")
		}
		i := p[0]
		switch modes[i] {
		case c14cancelSelf:
			jrpc2.ServerFromContext(ctx).CancelRequest(req.ID())
		case c14cancelPeer, c14cancelNote, c14cancelDirect:
			idc[i] <- req.ID()
			select { // never blocks for good: the caller closes release[i] in every outcome
			case <-ctx.Done():
			case <-release[i]:
			}
		}
		hmu.Lock()
		returned[i]++
		ended[i] = ctx.Err() != nil
		hmu.Unlock()
		if i%2 == 1 {
			return "a result returned together with an error", nodes[i].err
		}
		return nil, nodes[i].err
	}, k: func(ctx context.Context, req *jrpc2.Request) (any, error) {
		var ids []string
		if err := req.UnmarshalParams(&ids); err != nil || len(ids) != 1 {
			return nil, errors.New("harness: bad params")
		}
		jrpc2.ServerFromContext(ctx).CancelRequest(ids[0])
		return "ok", nil
	}, s: func(context.Context, *jrpc2.Request) (any, error) { return "ok", nil }}, opts)
	got := make([]error, n)
	rsps := make([]*jrpc2.Response, n)
	viaBatch := make([]bool, n) // issued as a member of a Client.Batch: several failing calls answered in one message
	bg := context.Background()  // the callers' contexts never end
	var wg sync.WaitGroup
	for g := 0; g < callers; g++ {
		wg.Add(1)
		grng := c.Env.Rand(fmt.Sprint(id, "/caller", g))
		go func() {
			defer wg.Done()
			for i := g; i < n; i += callers {
				if !cancelled && grng.IntN(3) == 0 {
					// this and up to three of the caller's following inputs go out as one batch
					var idxs []int
					var specs []jrpc2.Spec
					for k := 0; k < 2+grng.IntN(3) && i+k*callers < n; k++ {
						idxs = append(idxs, i+k*callers)
						specs = append(specs, jrpc2.Spec{Method: "err", Params: []int{i + k*callers}})
					}
					rs, err := rig.cli.Batch(bg, specs)
					for j, idx := range idxs {
						viaBatch[idx] = true
						if err != nil || j >= len(rs) {
							got[idx] = fmt.Errorf("harness: Batch failed: %v (%d responses for %d specs)", err, len(rs), len(specs))
							continue
						}
						rsps[idx] = rs[j]
						if e := rs[j].Error(); e != nil {
							got[idx] = e
						}
					}
					i += (len(idxs) - 1) * callers
					continue
				}
				if modes[i] == c14cancelNone || modes[i] == c14cancelSelf {
					rsps[i], got[i] = rig.cli.Call(bg, "err", []int{i})
					continue
				}
				done := make(chan struct{})
				go func() {
					defer close(done)
					rsps[i], got[i] = rig.cli.Call(bg, "err", []int{i})
				}()
				select {
				case rid := <-idc[i]: // the handler is running and waits
					switch modes[i] {
					case c14cancelPeer:
						// returns after the second handler called CancelRequest
						rig.cli.Call(bg, "cancel", []string{rid})
					case c14cancelNote:
						// a call issued after a notification is not started
						// before the notification has been handled
						rig.cli.Notify(bg, "cancel", []string{rid})
						rig.cli.Call(bg, "sync", nil)
					default:
						rig.srv.CancelRequest(rid)
					}
				case <-done: // the handler did not get that far; reported below
				}
				close(release[i])
				<-done
			}
		}()
	}
	wg.Wait()
	rig.stop(c)

	for i, nd := range nodes {
		h, e := nd.err, got[i]
		c.Eval(1)
		failf := c.Failf
		if cancelled {
			// the rest of the loop compares exactly as for a live context:
			// a cancellation of the request on the server must not change the
			// error the handler chose to return.
			failf = func(format string, args ...any) {
				c.Failf("[server-side context of the call ended before the handler returned: %v, via %s; caller's context live] "+format,
					append([]any{ended[i], c14cancelName[modes[i]]}, args...)...)
			}
			if !ended[i] {
				// Server.CancelRequest / rpc.cancel did not end the context
				// before the handler returned: not a C14 matter, but the case
				// then says nothing about cancelled handlers.
				c.Count("cancel_had_no_effect_before_return", 1)
			} else {
				c.Count("cancelled_handler_errors_compared", 1)
				c.Count("cancelled_via_"+c14cancelName[modes[i]], 1)
			}
		}
		if returned[i] != 1 {
			failf("handler for input %d ran %d times (harness expectation 1)", i, returned[i])
			continue
		}
		if e == nil {
			failf("handler returned %s but Call returned a nil error (result %s)", nd, c14short(rsps[i].ResultString()))
			continue
		}
		c.Count("calls_compared", 1)
		// (a) the literal statement
		hc, ec := jrpc2.ErrorCode(h), jrpc2.ErrorCode(e)
		if hc != ec {
			failf("ErrorCode(client error)=%d != ErrorCode(handler error)=%d; handler returned %s; client got %s", ec, hc, nd, c14show(e))
		}
		// (b) documented classification of the structure
		allowed, coders, canc, dead := c14allowed(nd)
		cls, bad := c14class(e)
		if bad != "" {
			failf("client error is %s; handler returned %s", bad, nd)
			continue
		}
		if !c14in(cls, allowed) {
			failf("client error %s has class %d, documentation allows %v for handler error %s", c14show(e), cls, c14ints(allowed), nd)
		}
		if !c14in(hc, allowed) {
			failf("ErrorCode(handler error)=%d, documentation allows %v for %s", hc, c14ints(allowed), nd)
		}
		if len(allowed) > 1 {
			c.Count("inputs_with_documented_ambiguity", 1)
		}
		// (c) bare *Error
		if nd.isErrorPtr() && nd.code != jrpc2.Cancelled && nd.code != jrpc2.DeadlineExceeded {
			c.Count("bare_error_field_compares", 1)
			ce, ok := e.(*jrpc2.Error)
			switch {
			case !ok:
				failf("handler returned bare %s; client got %s, want *jrpc2.Error", nd, c14show(e))
			case ce.Code != nd.code:
				failf("handler returned bare %s; client code %d", nd, ce.Code)
			case ce.Message != nd.msg:
				failf("handler returned bare %s; client message %s", nd, c14short(ce.Message))
			case len(nd.data) == 0 && len(ce.Data) != 0:
				failf("handler returned bare %s (no data); client data %s", nd, c14short(string(ce.Data)))
			case len(nd.data) != 0 && !c14jsonEqual(nd.data, ce.Data):
				failf("handler returned bare %s; client data %s is not JSON-equal", nd, c14short(string(ce.Data)))
			}
			if len(nd.data) != 0 {
				c.Count("bare_error_data_compares", 1)
			}
		}
		// (d) context sentinels
		if viaBatch[i] {
			c.Count("errors_compared_through_batch", 1)
		}
		if len(coders) == 0 && (canc || dead) && !viaBatch[i] { // Batch hands out *Error values, Call the sentinels
			c.Count("ctx_sentinel_identity_checks", 1)
			okc := canc && e == context.Canceled
			okd := dead && e == context.DeadlineExceeded
			if !okc && !okd {
				failf("handler returned %s (context sentinel, no ErrCoder); client got %s, want exactly the sentinel", nd, c14show(e))
			}
			if nd.depth() > 0 {
				c.Count("ctx_sentinel_wrapped", 1)
			}
		}
		if cancelled {
			if ended[i] {
				if hc == jrpc2.SystemError {
					c.Count("cancelled_system_class_errors_compared", 1)
				}
				if nd.isErrorPtr() {
					c.Count("cancelled_bare_error_field_compares", 1)
				}
				c.Distinct("cancelled:" + c14cancelName[modes[i]] + "/" + nd.shape())
			}
		} else {
			c.Distinct(nd.shape())
		}
		if c.WantSample() && nd.depth() >= 2 {
			c.Sample(map[string]any{"handler_error": nd.String(), "client_error": c14show(e), "server_side_context": c14cancelName[modes[i]],
				"ErrorCode_handler": int(hc), "ErrorCode_client": int(ec), "documented_codes": c14ints(allowed)})
		}
	}
}

// ---- unmarshalable results ----

type c14badMarshaler struct{}

func (c14badMarshaler) MarshalJSON() ([]byte, error) { return nil, errors.New("will not marshal") }

type c14badPtrMarshaler struct{ x int }

func (*c14badPtrMarshaler) MarshalJSON() ([]byte, error) { return nil, errors.New("will not marshal") }

type c14garbageMarshaler struct{}

func (c14garbageMarshaler) MarshalJSON() ([]byte, error) { return []byte(`{"unterminated`), nil }

type c14badText struct{ s string }

func (c14badText) MarshalText() ([]byte, error) { return nil, errors.New("no text") }

type c14cyc struct{ Next *c14cyc }

func c14unmarshalable() []struct {
	name string
	v    func() any
} {
	return []struct {
		name string
		v    func() any
	}{
		{"chan", func() any { return make(chan int) }},
		{"func", func() any { return func() {} }},
		{"NaN", func() any { return math.NaN() }},
		{"+Inf", func() any { return math.Inf(1) }},
		{"complex", func() any { return complex(1, 2) }},
		{"map[bool]", func() any { return map[bool]int{true: 1} }},
		{"struct{func}", func() any { return struct{ F func() }{func() {}} }},
		{"[]any{chan}", func() any { return []any{1, "x", make(chan string)} }},
		{"map{func}", func() any { return map[string]any{"a": 1, "f": func() {}} }},
		{"Marshaler error", func() any { return c14badMarshaler{} }},
		{"*Marshaler error", func() any { return &c14badPtrMarshaler{1} }},
		{"nested Marshaler error", func() any { return map[string]any{"ok": 1, "bad": []any{c14badMarshaler{}}} }},
		{"Marshaler garbage", func() any { return c14garbageMarshaler{} }},
		{"TextMarshaler key error", func() any { return map[c14badText]int{{"k"}: 1} }},
		{"RawMessage invalid", func() any { return json.RawMessage(`{bad`) }},
		{"Number invalid", func() any { return json.Number("12abc") }},
		{"pointer cycle", func() any { x := &c14cyc{}; x.Next = x; return x }},
		{"peer.UnmarshalableResult", func() any { return peer.UnmarshalableResult{} }},
	}
}

func c14unmarshalableBlock(c *vt.Ctx) {
	kinds := c14unmarshalable()
	for _, k := range kinds {
		if _, err := json.Marshal(k.v()); err == nil {
			c.Failf("harness bug: %s is marshalable", k.name)
			return
		}
	}
	ctrl := sched.New()
	peer.Bubble(c, ctrl, func() {
		var cur func() any
		var hmu sync.Mutex
		rig := c14start(c, c14assigner{u: func(ctx context.Context, req *jrpc2.Request) (any, error) {
			hmu.Lock()
			defer hmu.Unlock()
			return cur(), nil
		}}, nil)
		c.Attach(func() any { return rig.mon.Log.Dump() })
		for _, k := range kinds {
			hmu.Lock()
			cur = k.v
			hmu.Unlock()
			c.Eval(1)
			nSrv, nCli := len(rig.srvEnd.Sent()), len(rig.cliEnd.Sent())
			ctx, cancel := context.WithCancel(context.Background())
			type res struct {
				rsp *jrpc2.Response
				err error
			}
			done := make(chan res, 1)
			go func() {
				rsp, err := rig.cli.Call(ctx, "u", nil)
				done <- res{rsp, err}
			}()
			ctrl.Settle()
			var r res
			select {
			case r = <-done:
			default:
				c.Failf("unmarshalable result (%s): no response at quiescence, the caller is still blocked; server sent %q",
					k.name, rig.srvEnd.Sent()[nSrv:])
				cancel()
				<-done
				continue
			}
			cancel()
			if r.err == nil {
				c.Failf("unmarshalable result (%s): Call returned no error, response %q", k.name, r.rsp.ResultString())
			} else if _, ok := r.err.(*jrpc2.Error); !ok {
				c.Failf("unmarshalable result (%s): Call returned %s, want the *jrpc2.Error of an error response", k.name, c14show(r.err))
			}
			// the wire: exactly one record from the server, a well-formed
			// error response carrying the id of the request.
			reqs, recs := rig.cliEnd.Sent()[nCli:], rig.srvEnd.Sent()[nSrv:]
			if len(reqs) != 1 || len(recs) != 1 {
				c.Failf("unmarshalable result (%s): client sent %d records, server sent %d records %q, want 1 and 1", k.name, len(reqs), len(recs), recs)
				continue
			}
			qm, _, qerr := peer.Decode(reqs[0])
			rm, arr, rerr := peer.Decode(recs[0])
			switch {
			case qerr != nil || len(qm) != 1:
				c.Failf("harness: cannot decode the client's request %q", reqs[0])
			case rerr != nil || !json.Valid(recs[0]) || arr || len(rm) != 1:
				c.Failf("unmarshalable result (%s): malformed response %q: %v", k.name, recs[0], rerr)
			case rm[0].V != "2.0" || string(rm[0].ID) != string(qm[0].ID) || rm[0].Error == nil || len(rm[0].Result) != 0 || rm[0].Method != "":
				c.Failf("unmarshalable result (%s): response %q is not an error response for id %s", k.name, recs[0], qm[0].ID)
			default:
				c.Count("unmarshalable_results_answered_with_error", 1)
				c.Distinct("U/" + k.name)
			}
		}
		rig.stop(c)
	})
}

// ---- pure clauses ----

func c14codeIdentity(c *vt.Ctx, code jrpc2.Code) bool {
	err := code.Err()
	if code == jrpc2.NoError {
		if err != nil {
			c.Failf("NoError.Err() = %v, documented nil", err)
			return false
		}
		return true
	}
	if err == nil {
		c.Failf("Code(%d).Err() == nil (only NoError may give nil)", code)
		return false
	}
	if got := jrpc2.ErrorCode(err); got != code {
		c.Failf("ErrorCode(Code(%d).Err()) = %d", code, got)
		return false
	}
	return true
}

func c14codeRange(c *vt.Ctx, lo, hi int64) { // inclusive bounds within int32
	var n int
	func() {
		defer func() {
			if p := recover(); p != nil {
				c.Failf("panic in Code.Err/ErrorCode within [%d,%d]: %v", lo, hi, p)
			}
		}()
		for v := lo; v <= hi; v++ {
			n++
			if !c14codeIdentity(c, jrpc2.Code(int32(v))) {
				break // the first failing code is in the message
			}
		}
	}()
	c.Eval(n)
	c.Count("code_identity_checks", n)
}

func c14boundaryCodes(c *vt.Ctx) {
	ranges := [][2]int64{
		{math.MinInt32, math.MinInt32 + 4096}, {math.MaxInt32 - 4096, math.MaxInt32},
		{-40000, -30000}, {-70000, -65000}, {65000, 70000}, {-2048, 2048}, {31000, 34000},
	}
	for sh := 8; sh < 31; sh++ {
		p := int64(1) << sh
		ranges = append(ranges, [2]int64{p - 16, p + 16}, [2]int64{-p - 16, -p + 16})
	}
	for _, r := range ranges {
		c14codeRange(c, r[0], r[1])
		if c.Failed() {
			return
		}
	}
	c.Distinct("P1/boundaries")
}

func c14randomCodes(c *vt.Ctx, id string, n int) {
	r := c.Env.Rand(id)
	defer func() {
		if p := recover(); p != nil {
			c.Failf("panic in Code.Err/ErrorCode: %v", p)
		}
	}()
	for i := 0; i < n; i++ {
		if !c14codeIdentity(c, jrpc2.Code(int32(r.Uint32()))) {
			break
		}
	}
	c.Eval(n)
	c.Count("code_identity_checks", n)
	c.Distinct(id)
}

type c14snap struct {
	code jrpc2.Code
	msg  string
	isN  bool
	ptr  *byte
	ln   int
	cp   int
	full []byte // contents up to capacity
}

func c14take(e *jrpc2.Error) c14snap {
	s := c14snap{code: e.Code, msg: strings.Clone(e.Message), isN: e.Data == nil, ptr: unsafe.SliceData(e.Data), ln: len(e.Data), cp: cap(e.Data)}
	s.full = append([]byte(nil), e.Data[:cap(e.Data)]...)
	return s
}

func (s c14snap) diff(e *jrpc2.Error) string {
	switch {
	case e.Code != s.code:
		return fmt.Sprintf("Code %d -> %d", s.code, e.Code)
	case e.Message != s.msg:
		return fmt.Sprintf("Message %s -> %s", c14short(s.msg), c14short(e.Message))
	case (e.Data == nil) != s.isN || len(e.Data) != s.ln || cap(e.Data) != s.cp || unsafe.SliceData(e.Data) != s.ptr:
		return fmt.Sprintf("Data slice header changed (nil %v->%v, len %d->%d, cap %d->%d) now %s", s.isN, e.Data == nil, s.ln, len(e.Data), s.cp, cap(e.Data), c14short(string(e.Data)))
	case !bytes.Equal(e.Data[:cap(e.Data)], s.full):
		return fmt.Sprintf("Data bytes %s -> %s", c14short(string(s.full)), c14short(string(e.Data[:cap(e.Data)])))
	}
	return ""
}

func c14withDataBlock(c *vt.Ctx, id string, n int) {
	r := c.Env.Rand(id)
	bad := c14unmarshalable()
	for i := 0; i < n; i++ {
		// receiver
		e := &jrpc2.Error{Code: c14code(r, true), Message: c14msg(r)}
		dclass := "nil"
		switch r.IntN(5) {
		case 0:
		case 1:
			e.Data = json.RawMessage{}
			dclass = "empty"
		case 2:
			d := c14data(r)
			buf := make([]byte, len(d), len(d)+32) // spare capacity an in-place writer could use
			copy(buf, d)
			copy(buf[len(d):cap(buf)], "................................")
			if d != nil {
				e.Data = buf
				dclass = "spare-capacity"
			}
		default:
			e.Data = c14data(r)
			if e.Data != nil {
				dclass = "exact"
			}
		}
		// value
		var v any
		vclass := ""
		var want []byte
		var werr error
		switch k := r.IntN(10); {
		case k == 0:
			v, vclass = nil, "nil"
		case k < 3:
			b := bad[r.IntN(len(bad))]
			v, vclass = b.v(), "unmarshalable:"+b.name
		case k == 3 && len(e.Data) > 0:
			v, vclass = e.Data, "receiver's own Data"
		default:
			v = c14value(r)
			vclass = fmt.Sprintf("%T", v)
		}
		if v != nil {
			want, werr = json.Marshal(v)
		}
		snap := c14take(e)
		var res *jrpc2.Error
		func() {
			defer func() {
				if p := recover(); p != nil {
					c.Failf("WithData panicked: receiver %#v value %s: %v", e, vclass, p)
				}
			}()
			res = e.WithData(v)
		}()
		c.Eval(1)
		c.Count("withdata_checks", 1)
		if c.Failed() {
			return
		}
		if d := snap.diff(e); d != "" {
			c.Failf("WithData modified its receiver: %s (receiver Code=%d Message=%s Data=%s; value %s)", d, snap.code, c14short(snap.msg), c14short(string(snap.full[:snap.ln])), vclass)
			return
		}
		switch {
		case res == nil:
			c.Failf("WithData returned nil (value %s)", vclass)
			return
		case v == nil || werr != nil:
			if res != e {
				c.Failf("WithData(%s) did not return the receiver itself (documented: e is returned without modification): %#v", vclass, res)
				return
			}
		default:
			if res.Code != snap.code || res.Message != snap.msg || !(bytes.Equal(res.Data, want) || c14jsonEqual(res.Data, want)) {
				c.Failf("WithData(%s) returned Code=%d Message=%s Data=%s, want the receiver's code and message with data %s",
					vclass, res.Code, c14short(res.Message), c14short(string(res.Data)), c14short(string(want)))
				return
			}
			if res != e {
				// the copy must not share storage with the receiver
				res.Code++
				res.Message = "scribbled"
				for j := range res.Data {
					res.Data[j] ^= 0xff
				}
				if d := snap.diff(e); d != "" {
					c.Failf("writing to the value returned by WithData(%s) changed the receiver: %s", vclass, d)
					return
				}
				c.Count("withdata_copies_scribbled", 1)
			}
		}
		// two concurrent callers on one receiver (the race detector watches)
		if i%8 == 0 {
			var wg sync.WaitGroup
			for g := 0; g < 2; g++ {
				wg.Add(1)
				go func() {
					defer wg.Done()
					e.WithData(map[string]int{"g": g})
				}()
			}
			wg.Wait()
			if d := snap.diff(e); d != "" {
				c.Failf("concurrent WithData modified its receiver: %s", d)
				return
			}
			c.Count("withdata_concurrent_pairs", 1)
		}
		c.Distinct(fmt.Sprintf("P2/%s/%s/%s/%s", c14codeClass(snap.code), c14msgClass(snap.msg), dclass, vclass))
		if c.WantSample() && i == 3 {
			c.Sample(map[string]any{"WithData_receiver": fmt.Sprintf("%#v", e), "value": vclass})
		}
	}
}

func c14cases(e vt.Env, yield func(vt.Case) bool) {
	// G: grammar blocks through a live server and client
	blocks, per := e.Pick(100, 1000), 500
	for b := 0; b < blocks; b++ {
		id := fmt.Sprintf("G/%d", b)
		if !yield(vt.Case{ID: id, Run: func(c *vt.Ctx) { c14grammarBlock(c, id, per, false) }}) {
			return
		}
	}
	// X: the same grammar, every handler's server-side context cancelled
	// (CancelRequest by itself / by a second handler called or notified / from outside) before it
	// returns, caller's context live
	for b := 0; b < e.Pick(40, 400); b++ {
		id := fmt.Sprintf("X/%d", b)
		if !yield(vt.Case{ID: id, Run: func(c *vt.Ctx) { c14grammarBlock(c, id, per, true) }}) {
			return
		}
	}
	// U: unmarshalable results
	for b := 0; b < e.Pick(4, 40); b++ {
		id := fmt.Sprintf("U/%d", b)
		if !yield(vt.Case{ID: id, Run: func(c *vt.Ctx) { c14unmarshalableBlock(c) }}) {
			return
		}
	}
	// P2: WithData
	for b := 0; b < e.Pick(20, 200); b++ {
		id := fmt.Sprintf("P2/%d", b)
		if !yield(vt.Case{ID: id, Run: func(c *vt.Ctx) { c14withDataBlock(c, id, 2000) }}) {
			return
		}
	}
	// P1: code identity
	if !yield(vt.Case{ID: "P1/boundaries", Run: c14boundaryCodes}) {
		return
	}
	if e.Thorough() {
		const bits = 22 // 1024 blocks of 2^22 codes = all of int32
		for b := int64(0); b < 1<<(32-bits); b++ {
			lo := int64(math.MinInt32) + b<<bits
			hi := lo + 1<<bits - 1
			id := fmt.Sprintf("P1/all/%d..%d", lo, hi)
			if !yield(vt.Case{ID: id, Run: func(c *vt.Ctx) {
				c14codeRange(c, lo, hi)
				c.Distinct(id)
			}}) {
				return
			}
		}
	} else {
		for b := 0; b < 16; b++ {
			id := fmt.Sprintf("P1/random/%d", b)
			if !yield(vt.Case{ID: id, Run: func(c *vt.Ctx) { c14randomCodes(c, id, 62500) }}) {
				return
			}
		}
	}
}

func init() {
	vt.Register(&vt.Check{
		Prop:  "C14",
		Level: "exploration",
		Rule: "G: seeded grammar of handler error values (bare *Error literal / Errorf / Errorf+WithData with codes from boundaries, the reserved range and random int32, " +
			"messages incl. empty, escapes, unicode, 6 KB, data = random valid JSON with whitespace; jrpc2.Error value; Code.Err(); three custom ErrCoder types incl. one that wraps; " +
			"context.Canceled / DeadlineExceeded; plain and %v-opaque errors; wrapped <=3 deep by fmt.Errorf %w, two-%w, errors.Join, custom Unwrap() error / Unwrap() []error), " +
			"each returned by a handler of a live Server and compared with what a live Client.Call returns (4 concurrent callers, -race); a third of the inputs go out in Client.Batch groups of 2-4, so that several failing calls are answered in one message. " +
			"X: the same grammar and the same oracle with the server-side context of every call cancelled before its handler returns (Server.CancelRequest(id) by the handler itself / by a second handler reached by a call / by a second handler reached by a notification / by a goroutine outside any handler; mode drawn per input), the caller's context live; the handler records ctx.Err()!=nil before returning. " +
			"U: 18 kinds of unmarshalable handler results in a synctest bubble (quiescence decides 'missing response'), wire record checked. " +
			"P1: ErrorCode(c.Err())==c on boundary ranges + 10^6 random codes (quick) / all 2^32 codes (thorough). P2: WithData receiver snapshot (fields, slice header, bytes up to capacity) " +
			"over receivers x {nil, marshalable, unmarshalable, aliasing} values, result scribbled on, concurrent pairs. " +
			"distinct_nontrivial = distinct structural shapes of delivered-and-compared handler errors (constructor tree with code/message/data reduced to classes; in X only handlers whose context had really ended, keyed by (cancellation mode, shape)) + distinct P2 (receiver class, value class) + P1/U blocks",
		Assumptions: []string{
			"domain: messages are valid UTF-8, Data is valid JSON, ErrCoder codes other than on a bare *Error differ from NoError, no typed-nil error values",
			"reference classification written from the doc comment of ErrorCode (ErrCoder first, then context.Canceled, context.DeadlineExceeded, else SystemError); where several ErrCoders or both sentinels occur any of them is accepted",
			"JSON equality = equal values after decoding with UseNumber (number texts compared literally)",
			"Go 1.26.8 encoding/json, errors, fmt; testing/synctest quiescence for block U",
			"block X: the request is cancelled on the server only (Server.CancelRequest); cancellation of the caller's own context, where Call returns the context error by design, is outside this block. Server.CancelRequest returning before the target's context is Done, and a call sent after a notification starting only after the notification's handler returned, are relied on for coverage (counters), not for verdicts",
		},
		Require: map[string]int64{
			"calls_compared": 10000, "errors_compared_through_batch": 1500, "bare_error_field_compares": 2000, "bare_error_data_compares": 500,
			"ctx_sentinel_identity_checks": 1000, "ctx_sentinel_wrapped": 300,
			"cancelled_handler_errors_compared": 10000, "cancelled_system_class_errors_compared": 800, "cancelled_bare_error_field_compares": 1500,
			"cancelled_via_self": 1500, "cancelled_via_peer-call": 1500, "cancelled_via_peer-notification": 1500, "cancelled_via_direct": 1500,
			"unmarshalable_results_answered_with_error": 18, "code_identity_checks": 1000000,
			"withdata_checks": 10000, "withdata_copies_scribbled": 3000, "withdata_concurrent_pairs": 1000,
		},
		Exhaustive: func(e vt.Env) bool { return false },
		Cases:      c14cases,
	})
}
