package checks

import (
	"bufio"
	"context"
	"errors"
	"fmt"
	"net"
	"strings"
	"sync"
	"sync/atomic"

	"github.com/creachadair/jrpc2"
	"github.com/creachadair/jrpc2/channel"
	"github.com/creachadair/jrpc2/server"

	"verif/harness/peer"
	"verif/harness/sched"
	"verif/harness/vt"
)

// The NetAccepter part of C20: server.Loop over server.NetAccepter over an
// in-memory net.Listener whose connections are net.Pipe pairs. The listener
// honours no context; NetAccepter must close it when the context ends, and
// Loop must map the resulting closed-listener error to nil.

// c20halfConn adds the CloseWrite method of *net.TCPConn / *net.UnixConn to an
// in-memory connection. Nothing here needs a half-close; CloseWrite alone leaves the
// connection open in both directions as far as the peer can tell.
type c20halfConn struct {
	net.Conn
	closeWrites atomic.Int32
}

func (c *c20halfConn) CloseWrite() error { c.closeWrites.Add(1); return nil }

type c20addr struct{}

func (c20addr) Network() string { return "c20pipe" }
func (c20addr) String() string  { return "c20pipe" }

type c20listener struct {
	log   *peer.Log
	conns chan net.Conn
	errs  chan error
	done  chan struct{}

	mu     sync.Mutex
	closes int
}

func newC20listener(log *peer.Log) *c20listener {
	return &c20listener{log: log, conns: make(chan net.Conn, 4), errs: make(chan error, 1), done: make(chan struct{})}
}

func (l *c20listener) Accept() (net.Conn, error) {
	select {
	case <-l.done:
		return nil, &net.OpError{Op: "accept", Net: "c20pipe", Addr: c20addr{}, Err: net.ErrClosed}
	default:
	}
	select {
	case c := <-l.conns:
		return c, nil
	case err := <-l.errs:
		return nil, err
	case <-l.done:
		return nil, &net.OpError{Op: "accept", Net: "c20pipe", Addr: c20addr{}, Err: net.ErrClosed}
	}
}

func (l *c20listener) Close() error {
	l.mu.Lock()
	defer l.mu.Unlock()
	l.closes++
	l.log.Add("listener.close", "", fmt.Sprint(l.closes))
	if l.closes == 1 {
		close(l.done)
		return nil
	}
	return &net.OpError{Op: "close", Net: "c20pipe", Err: net.ErrClosed}
}

func (l *c20listener) Addr() net.Addr { return c20addr{} }

func (l *c20listener) closeCount() int {
	l.mu.Lock()
	defer l.mu.Unlock()
	return l.closes
}

type c20netClient struct {
	conn   net.Conn
	mu     sync.Mutex
	lines  []string
	eof    bool
	rdDone chan struct{}
}

func (cl *c20netClient) snapshot() (lines []string, eof bool) {
	cl.mu.Lock()
	defer cl.mu.Unlock()
	return append([]string(nil), cl.lines...), cl.eof
}

// c20netExec runs one NetAccepter scenario: nconn clients connect and make one
// instant call each; then the scenario ends by "cancel" (context), "close"
// (somebody closes the listener) or "error" (the listener fails otherwise).
func c20netExec(c *vt.Ctx, nconn int, ending string, failLast bool, ctrl *sched.Controller) {
	var w *c20world
	desc := fmt.Sprintf("NetAccepter scenario: %d connection(s), last Assigner fails=%v, ending=%s", nconn, failLast, ending)
	c.Attach(func() any {
		if w == nil {
			return nil
		}
		return map[string]any{"scenario": desc, "log": w.log.Dump()}
	})
	peer.Bubble(c, ctrl, func() {
		log := peer.NewLog()
		w = &c20world{c: c, ctrl: ctrl, log: log, hrec: map[string]c20hrec{}}
		w.setWhen(desc)
		fail := func(format string, args ...any) {
			w.whenMu.Lock()
			when := w.when
			w.whenMu.Unlock()
			c.Failf("%s, %s: %s", desc, when, fmt.Sprintf(format, args...))
		}
		lst := newC20listener(log)
		ctx, cancel := context.WithCancel(context.Background())
		errListener := errors.New("c20 listener: scripted failure")
		loopDone := make(chan error, 1)
		var loopT int64
		go func() {
			err := server.Loop(ctx, server.NetAccepter(lst, channel.Line), w.newService, nil)
			loopT = log.Add("loop.ret", "", fmt.Sprint(err))
			loopDone <- err
		}()
		ctrl.Settle()

		returned := false
		var loopErr error
		poll := func() {
			select {
			case loopErr = <-loopDone:
				returned = true
			default:
			}
		}
		finishes := func(k int) []c20finish {
			w.mu.Lock()
			defer w.mu.Unlock()
			if k >= len(w.svcs) {
				return nil
			}
			return append([]c20finish(nil), w.svcs[k].finishes...)
		}

		var clients []*c20netClient
		var writes []chan struct{}
		for k := 0; k < nconn; k++ {
			w.setWhen(fmt.Sprintf("after connect %d", k))
			isFail := failLast && k == nconn-1
			if isFail {
				w.mu.Lock()
				w.failNext = true
				w.mu.Unlock()
			}
			cconn, sconn := net.Pipe()
			cl := &c20netClient{conn: cconn, rdDone: make(chan struct{})}
			clients = append(clients, cl)
			if k%2 == 0 {
				// a connection that can be half-closed, as TCP and Unix-domain ones can: closing a
				// channel still means closing the connection, not just its writing side
				lst.conns <- &c20halfConn{Conn: sconn}
			} else {
				lst.conns <- sconn
			}
			go func() {
				defer close(cl.rdDone)
				rd := bufio.NewReader(cconn)
				for {
					line, err := rd.ReadString('\n')
					cl.mu.Lock()
					if line != "" {
						cl.lines = append(cl.lines, strings.TrimSpace(line))
					}
					if err != nil {
						cl.eof = true
						cl.mu.Unlock()
						return
					}
					cl.mu.Unlock()
				}
			}()
			tag := fmt.Sprintf("%d.0", k)
			wrDone := make(chan struct{})
			writes = append(writes, wrDone)
			go func() {
				defer close(wrDone)
				cconn.Write([]byte(peer.Req("1", "i", tag) + "\n"))
			}()
			ctrl.Settle()
			w.mu.Lock()
			nsvc := len(w.svcs)
			w.mu.Unlock()
			if nsvc != k+1 {
				fail("newService called %d times for %d accepted connections", nsvc, k+1)
			}
			lines, eof := cl.snapshot()
			if isFail {
				if !eof {
					fail("the Assigner of connection %d failed but its connection was not closed (client sees no EOF)", k)
				}
				if len(lines) != 0 {
					fail("the Assigner of connection %d failed but its client received %q", k, lines)
				}
			} else {
				if len(lines) != 1 || !strings.Contains(lines[0], `"`+tag+`/`) {
					fail("client %d did not get the reply to its call: %q (eof=%v)", k, lines, eof)
				}
				if eof {
					fail("connection %d was closed by the server side though nothing stopped it", k)
				}
			}
			if len(finishes(k)) != 0 {
				fail("Finish called for connection %d although its server has not exited / was never started", k)
			}
			poll()
			if returned {
				fail("Loop returned (%v) while accepting", loopErr)
			}
		}
		live := nconn
		if failLast && nconn > 0 {
			live--
		}

		w.setWhen("after the ending event")
		switch ending {
		case "cancel":
			cancel()
		case "close":
			lst.Close()
		case "error":
			lst.errs <- errListener
		}
		ctrl.Settle()
		poll()
		wantStatus := "closed"
		if ending == "cancel" {
			wantStatus = "stopped"
			if !returned {
				fail("the context ended but Loop has not returned")
			}
			if lst.closeCount() < 1 {
				fail("the context ended but NetAccepter did not close the listener")
			}
			for k := 0; k < live; k++ {
				if _, eof := clients[k].snapshot(); !eof {
					fail("the context ended but the server of connection %d was not stopped (its client sees no EOF)", k)
				}
			}
		} else if live > 0 {
			if returned {
				fail("the listener failed and Loop returned (%v) while %d server(s) were still running", loopErr, live)
			}
			for k := 0; k < live; k++ {
				if len(finishes(k)) != 0 {
					fail("Finish called for connection %d while its server is still running", k)
				}
			}
			w.setWhen("after the clients closed")
			for k := 0; k < live; k++ {
				clients[k].conn.Close()
			}
			ctrl.Settle()
			poll()
			if !returned {
				fail("the listener failed and every client closed, but Loop has not returned")
			}
		} else if !returned {
			fail("the listener failed with no server running, but Loop has not returned")
		}
		if returned {
			if ending == "error" {
				if loopErr != errListener {
					fail("Loop returned %v, want the listener's error %q", loopErr, errListener)
				}
			} else if loopErr != nil {
				fail("Loop returned %q, want nil for a closed listener", loopErr)
			}
		}
		for k := 0; k < nconn; k++ {
			fs := finishes(k)
			if failLast && k == nconn-1 {
				if len(fs) != 0 {
					fail("Finish called %d times for connection %d whose Assigner failed", len(fs), k)
				}
				continue
			}
			if len(fs) != 1 {
				fail("Finish called %d times for connection %d, want exactly 1", len(fs), k)
				continue
			}
			f := fs[0]
			if !f.same {
				fail("Finish of connection %d got a different assigner", k)
			}
			ok := f.st.Err == nil && ((wantStatus == "stopped" && f.st.Stopped && !f.st.Closed) || (wantStatus == "closed" && f.st.Closed && !f.st.Stopped))
			if !ok {
				fail("Finish of connection %d got status %s, want %s", k, c20statusString(f.st), wantStatus)
			}
			if returned && f.t > loopT {
				fail("Finish of connection %d (t=%d) after Loop returned (t=%d)", k, f.t, loopT)
			}
			c.Count("finish_calls", 1)
		}
		if returned {
			if loopErr == nil {
				c.Count("loop_returned_nil", 1)
			} else {
				c.Count("loop_returned_error", 1)
			}
		}

		// cleanup
		cancel()
		for _, cl := range clients {
			cl.conn.Close()
		}
		for _, cl := range clients {
			<-cl.rdDone
		}
		for _, wr := range writes {
			<-wr
		}
		if !returned {
			lst.Close()
		}
		c.Count("net_accepter_runs", 1)
		c.Count("events", log.Len())
	})
	c.Eval(1)
}

var _ jrpc2.Assigner = (*c20assigner)(nil)

func c20netCases(e vt.Env, yield func(vt.Case) bool) {
	for _, ending := range []string{"cancel", "close", "error"} {
		for nconn := 0; nconn <= 2; nconn++ {
			for _, failLast := range []bool{false, true} {
				if failLast && nconn == 0 {
					continue
				}
				id := fmt.Sprintf("N/%s/conns%d/fail%v", ending, nconn, failLast)
				if !yield(vt.Case{ID: id, Run: func(c *vt.Ctx) {
					prof := sched.New()
					c20netExec(c, nconn, ending, failLast, prof)
					if nconn > 0 {
						c.Distinct(id)
					}
					if c.Failed() {
						return
					}
					sched.DelaySets(prof.Keys(), 1, func(ds []string) bool {
						c20netExec(c, nconn, ending, failLast, sched.New().WithDelays(ds...))
						if nconn > 0 {
							c.Distinct(id + "/" + join(ds))
						}
						return !c.Failed()
					})
				}}) {
					return
				}
			}
		}
	}
	// N/ctx: the context ends while Loop is not inside Accept (c20_netctx.go).
	c20netCtxCases(e, yield)
}
