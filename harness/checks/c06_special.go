package checks

import (
	"context"
	"fmt"
	"runtime"
	"strings"
	"sync/atomic"

	"github.com/creachadair/jrpc2"

	"verif/harness/peer"
	"verif/harness/sched"
	"verif/harness/vt"
)

// Two further C06 families, added after independent seeded changes showed
// circumstances the batch scripts never produce:
//
//	(S) Stop while slots are held by handlers that are slow to react to the
//	    cancellation and while notifications retained at shutdown still have
//	    to run: old and new handlers together must stay within the limit;
//	(P) a handler that is blocked inside Server.Callback still occupies its
//	    slot: a waiting request must not start alongside it.
//
// The slot counter is the same as in c06.go (the library's own invoke hook
// sites), checked online at every acquisition and at quiescent points.

func c06counter(c *vt.Ctx, ctrl *sched.Controller, limit int) (running *atomic.Int32) {
	running = new(atomic.Int32)
	ctrl.OnVisit(func(site string) {
		switch site {
		case "srv.invoke.afterAcquire":
			if n := running.Add(1); int(n) > limit {
				c.Failf("%d handler invocations hold a slot at once; Concurrency is %d", n, limit)
			}
		case "srv.invoke.afterHandler":
			running.Add(-1)
		}
	})
	return running
}

func c06stopScenario(c *vt.Ctx, L int, pipeLike bool, ctrl *sched.Controller) {
	running := c06counter(c, ctrl, L)
	peer.Bubble(c, ctrl, func() {
		rig := peer.NewServerRig(c, ctrl, peer.ServerOpts{Concurrency: L, PipeLike: pipeLike})
		// L-1 calls that ignore cancellation, one notification: all slots taken
		for i := 1; i < L; i++ {
			rig.Send(peer.Req(fmt.Sprint(i), "G", fmt.Sprintf("a%d", i)))
		}
		rig.Send(peer.Req("", "G", "n0"))
		rig.Settle()
		// a batch of notifications parked behind n0, more notifications queued
		rig.Send("[" + peer.Req("", "G", "n1") + "," + peer.Req("", "G", "n2") + "," + peer.Req("", "G", "n3") + "]")
		rig.Send(peer.Req("", "G", "n4"))
		rig.Settle()
		if got := int(running.Load()); got != L {
			c.Failf("before Stop: %d slots held, want %d", got, L)
		}
		rig.Srv.Stop()
		rig.Settle()
		// the parked notifications start one by one as slots free up
		for _, tag := range []string{"n0", "n1", "n2", "n3", "n4"} {
			rig.H.Release(tag)
			rig.Settle()
			if got := int(running.Load()); got > L {
				c.Failf("after releasing %s: %d slots held, limit %d", tag, got, L)
			}
		}
		rig.H.ReleaseAll()
		if _, ok := rig.Finish(); !ok {
			c.Failf("server did not exit")
		}
		for _, tag := range []string{"n0", "n1", "n2", "n3", "n4"} {
			if rig.Log.Count("h.exit", tag) != 1 {
				c.Failf("notification %s received before the stop did not run exactly once", tag)
			}
		}
		c.Count("handler_runs", int(rig.H.Invocations()))
		c.Count("events", rig.Log.Len())
		c.Count("runs_reaching_limit", 1)
	})
	c.Eval(1)
}

func c06callbackScenario(c *vt.Ctx, L int, ctrl *sched.Controller) {
	running := c06counter(c, ctrl, L)
	peer.Bubble(c, ctrl, func() {
		rig := peer.NewServerRig(c, ctrl, peer.ServerOpts{Concurrency: L, AllowPush: true})
		rig.H.OnEnter = func(ctx context.Context, tag string, req *jrpc2.Request) {
			if strings.HasPrefix(tag, "k") {
				rsp, err := jrpc2.ServerFromContext(ctx).Callback(ctx, "cb", nil)
				rig.Log.Add("cb.ret", tag, fmt.Sprint(rsp != nil, err))
			}
		}
		// L handlers that each wait inside Callback: all slots taken
		for i := 0; i < L; i++ {
			rig.Send(peer.Req(fmt.Sprint(100+i), "i", fmt.Sprintf("k%d", i)))
		}
		rig.Settle()
		// two more calls must wait
		rig.Send(peer.Req("201", "g", "w1"))
		rig.Send("[" + peer.Req("202", "i", "w2") + "," + peer.Req("203", "rpc.serverInfo", "") + "]")
		rig.Settle()
		if got := int(running.Load()); got != L {
			c.Failf("with %d handlers blocked in Callback and 3 calls waiting: %d slots held, want %d", L, got, L)
		}
		if n := rig.Log.Count("h.enter", "w1") + rig.Log.Count("h.enter", "w2"); n != 0 {
			c.Failf("%d waiting handlers started while every slot is held by a handler blocked in Callback", n)
		}
		// answer the callbacks one by one
		answered := map[string]bool{}
		for round := 0; round < L; round++ {
			for _, rec := range rig.Outbound() {
				ms, _, err := peer.Decode(rec)
				if err != nil || len(ms) != 1 || ms[0].Method != "cb" || answered[string(ms[0].ID)] {
					continue
				}
				answered[string(ms[0].ID)] = true
				rig.Send(fmt.Sprintf(`{"jsonrpc":"2.0","id":%s,"result":true}`, ms[0].ID))
				break
			}
			rig.Settle()
			if got := int(running.Load()); got > L {
				c.Failf("after answering a callback: %d slots held, limit %d", got, L)
			}
		}
		rig.H.ReleaseAll()
		rig.Settle()
		if got := int(running.Load()); got != 0 {
			c.Failf("at the end %d slots are still held", got)
		}
		if n := rig.Log.Count("cb.ret", "*"); n != L {
			c.Failf("%d of %d callbacks returned", n, L)
		}
		if _, ok := rig.Finish(); !ok {
			c.Failf("server did not exit")
		}
		c.Count("handler_runs", int(rig.H.Invocations()))
		c.Count("events", rig.Log.Len())
		c.Count("runs_reaching_limit", 1)
	})
	c.Eval(1)
}

// c06backpressure: the reply of a finished call cannot be written yet (the transport
// exerts back-pressure; here the harness holds every Send of the server's end). The
// slot of that call is free from the moment its handler returned: a request waiting
// for a slot must start then, not when the reply has finally been written.
//
// L slots; L gated single calls fill them, w more calls wait. One running call is
// released: at the next quiescent point its reply is being held in Send and exactly
// one waiter must have started (L running again); then the writes are let through and
// everything is accounted for. Which of the running calls is released varies (rel).
// While a Send is held the harness sends nothing (the server's mutex is held by the writer).
func c06backpressure(c *vt.Ctx, L, w, rel int, batchWaiters bool, ctrl *sched.Controller) {
	peer.Bubble(c, ctrl, func() {
		hold := make(chan struct{})
		rig := peer.NewServerRig(c, ctrl, peer.ServerOpts{Concurrency: L, HoldSend: hold})
		what := fmt.Sprintf("back-pressure: Concurrency %d, %d waiting, running call #%d released while every reply is held", L, w, rel%L)
		id := 0
		for i := 0; i < L; i++ {
			id++
			rig.Send(peer.Req(fmt.Sprint(id), "g", fmt.Sprintf("run%d", i)))
		}
		rig.Settle()
		if batchWaiters {
			var ms []string
			for i := 0; i < w; i++ {
				id++
				ms = append(ms, peer.Req(fmt.Sprint(id), "g", fmt.Sprintf("wait%d", i)))
			}
			rig.Send("[" + strings.Join(ms, ",") + "]")
		} else {
			for i := 0; i < w; i++ {
				id++
				rig.Send(peer.Req(fmt.Sprint(id), "g", fmt.Sprintf("wait%d", i)))
			}
		}
		rig.Settle()
		if got := rig.H.Running(); got != L {
			c.Failf("%s: %d handlers running after arrival, want %d", what, got, L)
		}
		started := func() int {
			n := 0
			for i := 0; i < w; i++ {
				n += rig.Log.Count("h.enter", fmt.Sprintf("wait%d", i))
			}
			return n
		}
		// exactly one call is released while the transport is held: a second finished call
		// would have to wait for the server's mutex, which the blocked writer holds, and a
		// goroutine waiting for a mutex never counts as quiescent
		for k := 0; k < 1; k++ {
			rig.H.Release(fmt.Sprintf("run%d", rel%L))
			// the reply of that call is now held inside Send, with the server's mutex; a
			// request that has been given the free slot must not need that mutex to start
			// Either way the server can go no further until the write is let through: if other
			// goroutines wait for the mutex meanwhile, that is the harness's doing - unless the
			// waiter that should have started is among them.
			stuck := peer.SettleOrStuck(ctrl)
			wantStarted := min(k+1, w)
			if got := started(); stuck != nil && got != wantStarted {
				c.Failf("%s: with the finished call's reply still being written, %d of the waiting calls have started, want %d, and nothing can move: %d goroutine(s) of the server wait for its mutex (a request that has been given the free slot must not need that mutex to start); first:\n%.1500s", what, got, wantStarted, len(stuck), stuck[0])
				close(hold)
				rig.H.ReleaseAll()
				rig.Settle()
				rig.Finish()
				return
			}
			if got := started(); got != wantStarted {
				c.Failf("%s: after %d of the running calls returned (their replies still being written), %d waiting calls have started, want %d: a slot is free as soon as its handler has returned",
					what, k+1, got, wantStarted)
			}
			if got, want := rig.H.Running(), min(L, L-(k+1)+w); got != want {
				c.Failf("%s: after %d of the running calls returned, %d handlers are running, want %d", what, k+1, got, want)
			}
			if rig.H.MaxRunning() > L {
				c.Failf("%s: %d handlers ran at once; Concurrency is %d", what, rig.H.MaxRunning(), L)
			}
			c.Count("quiescent_points_with_reply_held", 1)
		}
		close(hold) // the reader catches up
		rig.H.ReleaseAll()
		rig.Settle()
		if got := len(rig.Outbound()); got == 0 {
			c.Failf("%s: nothing was written after the transport was released", what)
		}
		if got := int(rig.H.Invocations()); got != L+w {
			c.Failf("%s: %d handler invocations, want %d", what, got, L+w)
		}
		if _, ok := rig.Finish(); !ok {
			c.Failf("%s: server did not exit after the peer closed", what)
		}
		c.Count("handler_runs", int(rig.H.Invocations()))
		c.Count("events", rig.Log.Len())
	})
	c.Eval(1)
}

// c06wide: limits larger than the number of CPUs are limits like any other: with
// Concurrency L and L+extra gated calls exactly L run, and each released one is
// replaced at once.
func c06wide(c *vt.Ctx, L, extra int, ctrl *sched.Controller) {
	peer.Bubble(c, ctrl, func() {
		rig := peer.NewServerRig(c, ctrl, peer.ServerOpts{Concurrency: L})
		what := fmt.Sprintf("wide: Concurrency %d (NumCPU %d), %d calls", L, runtime.NumCPU(), L+extra)
		for i := 0; i < L+extra; i++ {
			rig.Send(peer.Req(fmt.Sprint(i+1), "g", fmt.Sprintf("w%d", i)))
		}
		rig.Settle()
		if got := rig.H.Running(); got != L {
			c.Failf("%s: %d handlers running, want %d", what, got, L)
		}
		for k := 0; k < extra; k++ {
			// release one that is running
			for i := 0; i < L+extra; i++ {
				tag := fmt.Sprintf("w%d", i)
				if rig.Log.Count("h.enter", tag) == 1 && rig.Log.Count("h.exit", tag) == 0 {
					rig.H.Release(tag)
					break
				}
			}
			rig.Settle()
			if got := rig.H.Running(); got != L {
				c.Failf("%s: after %d releases %d handlers running, want %d", what, k+1, got, L)
			}
		}
		if rig.H.MaxRunning() > L {
			c.Failf("%s: %d handlers ran at once", what, rig.H.MaxRunning())
		}
		rig.H.ReleaseAll()
		rig.Settle()
		if _, ok := rig.Finish(); !ok {
			c.Failf("%s: server did not exit after the peer closed", what)
		}
		c.Count("handler_runs", int(rig.H.Invocations()))
		c.Count("events", rig.Log.Len())
		c.Count("runs_with_limit_above_numcpu", 1)
	})
	c.Eval(1)
}

// c06cancelRace: a waiter is cancelled in the very step in which a slot becomes free.
// Whichever way that goes for the cancelled call - it is answered with the cancellation
// error without having run, or it got the slot and ran - the slot itself is not lost:
// the next waiter starts, and in the end every call is answered.
func c06cancelRace(c *vt.Ctx, L int, cancelFirst bool, ctrl *sched.Controller) {
	peer.Bubble(c, ctrl, func() {
		rig := peer.NewServerRig(c, ctrl, peer.ServerOpts{Concurrency: L})
		what := fmt.Sprintf("cancel/release race: Concurrency %d, cancel first: %v", L, cancelFirst)
		id := 0
		send := func(tag string) string {
			id++
			rig.Send(peer.Req(fmt.Sprint(id), "g", tag))
			return fmt.Sprint(id)
		}
		for i := 0; i < L; i++ {
			send(fmt.Sprintf("run%d", i))
		}
		rig.Settle()
		w1 := send("w1")
		send("w2")
		send("w3")
		rig.Settle()
		if cancelFirst {
			rig.Srv.CancelRequest(w1)
			if ctrl.HasDelays() {
				ctrl.Quiesce()
			}
			rig.H.Release("run0")
		} else {
			rig.H.Release("run0")
			if ctrl.HasDelays() {
				ctrl.Quiesce()
			}
			rig.Srv.CancelRequest(w1)
		}
		rig.Settle()
		if got := rig.H.Running(); got != L {
			c.Failf("%s: after one running call returned and waiter w1 was cancelled in the same step, %d handlers are running, want %d (two more calls are waiting)", what, got, L)
		}
		rig.H.ReleaseAll()
		rig.Settle()
		answered := map[string]peer.Msg{}
		for _, rec := range rig.Outbound() {
			if ms, _, err := peer.Decode(rec); err == nil {
				for _, m := range ms {
					answered[string(m.ID)] = m
				}
			}
		}
		for k := 1; k <= id; k++ {
			m, ok := answered[fmt.Sprint(k)]
			switch {
			case !ok:
				c.Failf("%s: call %d was never answered (a slot was lost)", what, k)
			case fmt.Sprint(k) == w1:
				ran := rig.Log.Count("h.enter", "w1") > 0
				if m.Error != nil && (m.Error.Code != -32097 || ran) || m.Error == nil && !ran {
					c.Failf("%s: the cancelled waiter was answered %+v / result %s, its handler ran: %v; want the cancellation error without a run, or a run with its result", what, m.Error, m.Result, ran)
				}
			case m.Error != nil:
				c.Failf("%s: call %d answered with error %+v", what, k, m.Error)
			}
		}
		if rig.H.MaxRunning() > L {
			c.Failf("%s: %d handlers ran at once", what, rig.H.MaxRunning())
		}
		if _, ok := rig.Finish(); !ok {
			c.Failf("%s: server did not exit after the peer closed", what)
		}
		c.Count("handler_runs", int(rig.H.Invocations()))
		c.Count("events", rig.Log.Len())
		c.Count("cancel_release_races", 1)
	})
	c.Eval(1)
}

func init() {
	chk := vt.Lookup("C06")
	if chk == nil {
		panic("c06_special.go must be initialised after c06.go")
	}
	old := chk.Cases
	chk.Cases = func(e vt.Env, yield func(vt.Case) bool) {
		ok := true
		old(e, func(cs vt.Case) bool { ok = yield(cs); return ok })
		if !ok {
			return
		}
		d := e.Pick(1, 2)
		for _, L := range []int{1, 2, 3, 4} {
			for _, pipe := range []bool{true, false} {
				L, pipe := L, pipe
				id := fmt.Sprintf("S/stop/L%d/pipe=%v/d%d", L, pipe, d)
				if !yield(vt.Case{ID: id, Run: func(c *vt.Ctx) {
					prof := sched.New()
					c06stopScenario(c, L, pipe, prof)
					c.Distinct(id)
					if c.Failed() {
						return
					}
					dd := d
					if L > 2 {
						dd = 1
					}
					sched.DelaySets(prof.Keys(), dd, func(ds []string) bool {
						c06stopScenario(c, L, pipe, sched.New().WithDelays(ds...))
						c.Distinct(id + "/" + join(ds))
						return !c.Failed()
					})
				}}) {
					return
				}
			}
		}
		for _, L := range []int{1, 2, 3} {
			L := L
			id := fmt.Sprintf("P/callback/L%d/d%d", L, d)
			if !yield(vt.Case{ID: id, Run: func(c *vt.Ctx) {
				prof := sched.New()
				c06callbackScenario(c, L, prof)
				c.Distinct(id)
				if c.Failed() {
					return
				}
				dd := d
				if L > 1 {
					dd = 1
				}
				sched.DelaySets(prof.Keys(), dd, func(ds []string) bool {
					c06callbackScenario(c, L, sched.New().WithDelays(ds...))
					c.Distinct(id + "/" + join(ds))
					return !c.Failed()
				})
			}}) {
				return
			}
		}
		for _, L := range []int{1, 2, 3} {
			for _, w := range []int{1, 2} {
				for _, batch := range []bool{false, true} {
					L, w, batch := L, w, batch
					id := fmt.Sprintf("W/backpressure/L%d/w%d/batch=%v", L, w, batch)
					if !yield(vt.Case{ID: id, Run: func(c *vt.Ctx) {
						for rel := 1; rel <= L; rel++ {
							c06backpressure(c, L, w, rel, batch, sched.New())
							c.Distinct(fmt.Sprintf("%s/rel%d", id, rel))
							if c.Failed() {
								return
							}
						}
					}}) {
						return
					}
				}
			}
		}
		for _, L := range []int{1, 2} {
			for _, cf := range []bool{true, false} {
				L, cf := L, cf
				id := fmt.Sprintf("X/cancel-release/L%d/cancelfirst=%v", L, cf)
				if !yield(vt.Case{ID: id, Run: func(c *vt.Ctx) {
					prof := sched.New()
					c06cancelRace(c, L, cf, prof)
					for rep := 0; rep < e.Pick(30, 300) && !c.Failed(); rep++ {
						c06cancelRace(c, L, cf, sched.New())
					}
					c.Distinct(id)
					if c.Failed() {
						return
					}
					sched.DelaySets(prof.Keys(), 1, func(ds []string) bool {
						c06cancelRace(c, L, cf, sched.New().WithDelays(ds...))
						c.Distinct(id + "/" + join(ds))
						return !c.Failed()
					})
				}}) {
					return
				}
			}
		}
		for _, L := range []int{runtime.NumCPU() + 3, 2*runtime.NumCPU() + 1, 100} {
			L := L
			id := fmt.Sprintf("V/wide/L%d", L)
			if !yield(vt.Case{ID: id, Run: func(c *vt.Ctx) {
				c06wide(c, L, 3, sched.New())
				c.Distinct(id)
			}}) {
				return
			}
		}
		// (T) calls whose context (NewContext with a deadline and a cause) ends while they wait for a slot: c01_timeout.go
		for _, script := range [][]string{{"c"}, {"c", "c"}, {"nc", "c"}, {"c", "cn"}} {
			for _, conc := range []int{1, 2} {
				script, conc := script, conc
				id := fmt.Sprintf("T/%s/c%d", join(script), conc)
				if !yield(vt.Case{ID: id, Run: func(c *vt.Ctx) {
					c01tExec(c, script, conc, sched.New())
					c.Distinct(id)
				}}) {
					return
				}
			}
		}
	}
	chk.Rule += "; (X) a waiter cancelled in the very step in which a slot becomes free (both orders, repeated, and with every single hook visit parked): the slot is not lost; (V) limits above the number of CPUs (NumCPU+3, 2*NumCPU+1, 100) with 3 calls beyond the limit; (T) calls whose context - a deadline with a cause from ServerOptions.NewContext - ends while they wait for a slot: answered with a cancellation error, handler never run"
	chk.Rule += "; (W) every Send of the server's end held by the harness (a transport with back-pressure): L running calls, w waiting, running calls released one by one — at each quiescent point, with the finished call's reply still inside Send, the next waiter must have started"
	chk.Rule += "; plus (S) Stop with L-1 cancellation-deaf calls and a notification holding all slots and 4 more notifications parked/queued, released one by one, and (P) L handlers blocked inside Server.Callback with further calls waiting — both with every single hook visit parked"
}
