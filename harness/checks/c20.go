package checks

import (
	"fmt"
	"math/rand/v2"
	"strings"

	"verif/harness/sched"
	"verif/harness/vt"
)

// C20 — server.Loop: one fresh service per accepted connection, exactly one
// Finish per started server (after the server has fully exited, with the
// assigner the service returned and the server's exit status), Loop returns
// last, nil for a closed-listener error and the accepter's error otherwise;
// the end of the context stops every running server; a service whose Assigner
// fails gets no server, no Finish, and its connection is closed.
//
// The real server.Loop runs inside a testing/synctest bubble against a
// scripted in-memory Accepter (c20_world.go); a reference model written from
// the documentation (c20_model.go) predicts, for every quiescent point of a
// script, which servers have exited with which status and whether Loop has
// returned; the oracle compares the instrumented services' call log, the
// channels' Close log and the handlers' enter/exit log against it after every
// script event. NetAccepter is exercised over an in-memory net.Listener built
// on net.Pipe (c20_net.go).

func init() {
	vt.Register(&vt.Check{
		Prop:  "C20",
		Level: "exploration",
		Rule: "E1: every script of <=5 (thorough: <=6) events that makes sense over {connect, connect with failing Assigner, gated call, instant call, client close, gate release, " +
			"context cancel, accepter closing error, accepter other error (per script one of: plain error, timeout net.Error, *net.OpError wrapping it, context.DeadlineExceeded, io.ErrUnexpectedEOF)} with <=3 connections, followed by an orderly teardown (release, close, cancel, accepter closes), " +
			"x variants (Accept ignores ctx / returns a closing error / returns ctx.Err()) x (channel Close unblocks Recv or not) x (gated handlers obey ctx or not); " +
			"the bubble is settled and the oracle evaluated after every event. E2: the same scripts (<=3 events quick, <=4 thorough) re-run once per hook visit " +
			"(loop.* and srv.* sites) with that visit parked until everything else is blocked (pairs of visits in thorough on scripts <=3). " +
			"E3: seeded longer scripts (6-10 events, racing pairs of events without a settle in between, random park probability). " +
			"N: NetAccepter over an in-memory net.Listener/net.Pipe (cancel, listener closed, listener error; 0-2 connections; every single hook visit parked). " +
			"N/ctx: the context ends while Loop is not blocked inside NetAccepter.Accept - already ended before Loop is called (0-2 connections waiting in the listener's backlog), or cancelled by the listener " +
			"at the very moment its Accept hands a connection back (0-2 live servers, 0-1 further connections in the backlog, Assigner of the accepted connection failing or not) - natural schedule repeated 3 (20) times " +
			"(NetAccepter's select between 'context ended' and 'Accept returned' is a coin toss) and every single hook visit parked: Loop returns nil, the listener was closed, one fresh service per accepted connection, " +
			"every started server stopped and finished once before Loop returns, no accepted connection left open. " +
			"distinct_nontrivial = distinct (script, variant, delay set / perturbation seed) executions in which at least one connection was offered to the accepter",
		Assumptions: []string{
			"Go 1.26.8 standard library and testing/synctest (quiescence = all bubble goroutines durably blocked)",
			"between hook points goroutines are scheduled by the Go runtime (schedules are recorded, not replayed bit for bit)",
			"the harness Accepter, Services and vchan channel are trusted; service k is paired with connection k because the bubble is settled after every connect " +
				"(newService is expected to be called once per accepted connection, after it was accepted, not ahead of time)",
			"read strictly: only the end of the context (or the client) stops a server; an accepter failure alone makes Loop wait, not stop servers",
			"N/ctx: a connection waiting in the listener's backlog when the context ends may or may not be accepted (Accept and Close of the listener race); services are then counted, not paired with connections. " +
				"The listener wrapper that cancels the context as Accept returns is a harness device that makes 'cancel racing with an incoming connection' deterministic",
			"a server whose channel's Close does not unblock Recv has not exited until its client closes (documented in jrpc2.Server.read); the model accounts for it",
		},
		Require: map[string]int64{
			"quiescent_oracle_checks":    5000,
			"connections_accepted":       1000,
			"finish_calls":               500,
			"assigner_failures":          100,
			"handler_runs":               300,
			"finish_status_stopped":      100,
			"finish_status_closed":       100,
			"loop_returned_nil":          500,
			"loop_returned_error":        100,
			"net_accepter_runs":          20,
			"net_ctx_not_in_accept_runs": 200,
			"delay_bounded_runs":         2000,
			"seeded_runs":                300,
		},
		Cases: c20cases,
	})
}

var c20limE1 = c20lim{maxConns: 3, maxGated: 2, maxInstant: 1, gatedPerConn: 2}
var c20limE3 = c20lim{maxConns: 3, maxGated: 4, maxInstant: 2, gatedPerConn: 2, closeFailed: true, afterReturn: true}

func c20variants() []c20var {
	var out []c20var
	for _, mode := range []int{c20CtxClosing, c20CtxIgnore, c20CtxErr} {
		for _, pipe := range []bool{true, false} {
			for _, stub := range []bool{false, true} {
				out = append(out, c20var{CtxMode: mode, Pipe: pipe, Stubborn: stub, NetErr: len(out)%2 == 1})
			}
		}
	}
	return out
}

// c20relevant drops variant flags that cannot influence a script.
func c20relevant(v c20var, evs []c20ev) bool {
	hasG, hasK, hasX := false, false, false
	for _, e := range evs {
		switch e.Op {
		case 'g':
			hasG = true
		case 'K':
			hasK = true
		case 'X':
			hasX = true
		}
	}
	if v.Stubborn && !hasG {
		return false
	}
	if !v.Pipe && !(hasK && hasX) {
		return false
	}
	return true
}

func c20scripts(v c20var, l c20lim, minLen, maxLen int) [][]c20ev {
	var out [][]c20ev
	for n := minLen; n <= maxLen; n++ {
		c20enum(v, l, n, func(evs []c20ev) bool {
			if c20relevant(v, evs) {
				out = append(out, evs)
			}
			return true
		})
	}
	return out
}

func c20sample(c *vt.Ctx, script c20script, v c20var, extra map[string]any) {
	if !c.WantSample() || !script.hasConn() || len(script) < 4 || !strings.ContainsAny(script.String(), "XAE") {
		return
	}
	s := map[string]any{"script": script.String(), "variant": v.String()}
	for k, x := range extra {
		s[k] = x
	}
	c.Sample(s)
}

func c20cases(e vt.Env, yield func(vt.Case) bool) {
	// E1: all scripts, every variant that matters, no forced delays.
	const block = 40
	maxLen := e.Pick(5, 6)
	for _, v := range c20variants() {
		scripts := c20scripts(v, c20limE1, 0, maxLen)
		for b := 0; b*block < len(scripts); b++ {
			part := scripts[b*block : min(len(scripts), (b+1)*block)]
			id := fmt.Sprintf("E1/%s/b%d/%s", v, b, c20single(part[0]))
			if !yield(vt.Case{ID: id, Run: func(c *vt.Ctx) {
				for _, evs := range part {
					script := c20single(evs)
					c20exec(c, v, script, sched.New())
					if script.hasConn() {
						c.Distinct("E1/" + v.String() + "/" + script.String())
					}
					c20sample(c, script, v, nil)
					if c.Failed() {
						return
					}
				}
			}}) {
				return
			}
		}
	}

	// E2: delay-bounded schedules.
	e2Len := e.Pick(3, 4)
	for _, v := range c20variants() {
		for _, evs := range c20scripts(v, c20limE1, 1, e2Len) {
			script := c20single(evs)
			if !script.hasConn() {
				continue
			}
			d := 1
			if e.Thorough() && len(evs) <= 3 {
				d = 2
			}
			id := fmt.Sprintf("E2/%s/%s/d%d", v, script, d)
			if !yield(vt.Case{ID: id, Run: func(c *vt.Ctx) {
				prof := sched.New()
				c20exec(c, v, script, prof)
				if c.Failed() {
					return
				}
				sched.DelaySets(prof.Keys(), d, func(ds []string) bool {
					c20exec(c, v, script, sched.New().WithDelays(ds...))
					c.Distinct(id + "/" + join(ds))
					c.Count("delay_bounded_runs", 1)
					c20sample(c, script, v, map[string]any{"parked_at": ds})
					return !c.Failed()
				})
			}}) {
				return
			}
		}
	}

	// E3: seeded longer scripts with racing pairs and random parks.
	n := e.Pick(1500, 8000)
	rng := e.Rand("C20/E3")
	for i := 0; i < n; i++ {
		v := c20var{CtxMode: rng.IntN(3), Pipe: rng.IntN(3) > 0, Stubborn: rng.IntN(2) == 0, NetErr: rng.IntN(2) == 0, PrioCtx: rng.IntN(2) == 0}
		script := c20random(rng, v, 6+rng.IntN(5))
		p := []float64{0, 0.02, 0.05, 0.1, 0.2, 0.3}[rng.IntN(6)]
		s1, s2 := rng.Uint64(), rng.Uint64()
		id := fmt.Sprintf("E3/%d/%s/%s/p%.2f", i, v, script, p)
		if !yield(vt.Case{ID: id, Run: func(c *vt.Ctx) {
			ctrl := sched.New()
			if p > 0 {
				ctrl = ctrl.WithPerturb(p, rand.New(rand.NewPCG(s1, s2)))
			}
			c20exec(c, v, script, ctrl)
			if script.hasConn() {
				c.Distinct(id)
			}
			c.Count("seeded_runs", 1)
			c20sample(c, script, v, map[string]any{"park_probability": p})
		}}) {
			return
		}
	}

	// N: NetAccepter over an in-memory listener.
	c20netCases(e, yield)
}

// c20mergeable reports whether two consecutive events may be applied without
// a quiescent point in between (the model knows how to widen its expectation).
func c20mergeable(v c20var, a, b c20ev) bool {
	for _, e := range []c20ev{a, b} {
		if e.Op == 'F' || e.Op == 'g' {
			return false
		}
	}
	if a.Op == 'K' && b.Op == 'K' {
		return false
	}
	// an event addressed to a connection that is offered in the same step
	if a.Op == 'K' || b.Op == 'K' {
		o := b
		if b.Op == 'K' {
			o = a
		}
		switch o.Op {
		case 'X', 'A', 'E':
			return true
		}
		return false
	}
	if a.Op == 'i' && b.Op == 'i' {
		return false
	}
	// a request racing with the context's end: when Close does not unblock
	// Recv, the reader of a stopped server exits on the next inbound record,
	// so whether the server has exited would depend on the race.
	if !v.Pipe && (a.Op == 'i' && b.Op == 'X' || a.Op == 'X' && b.Op == 'i') {
		return false
	}
	return true
}

// c20random draws a script of about n events; adjacent events are merged into
// racing steps with probability 1/3 where the model allows it.
func c20random(rng *rand.Rand, v c20var, n int) c20script {
	m := &c20model{v: v}
	var evs []c20ev
	for len(evs) < n {
		en := m.enabled(c20limE3)
		if len(en) == 0 {
			break
		}
		// favour connects early and postpone X/A/E, which end most of the
		// action, so that scripts are not dominated by them
		e := en[rng.IntN(len(en))]
		if len(m.conns) == 0 && rng.IntN(3) > 0 && !m.accFailed() {
			e = c20ev{Op: 'K'}
		}
		if (e.Op == 'X' || e.Op == 'A' || e.Op == 'E') && len(evs) < n-3 && rng.IntN(4) > 0 {
			var rest []c20ev
			for _, o := range en {
				if o.Op != 'X' && o.Op != 'A' && o.Op != 'E' {
					rest = append(rest, o)
				}
			}
			if len(rest) > 0 {
				e = rest[rng.IntN(len(rest))]
			}
		}
		if e.Op == 'c' && m.conns[e.K].fail && rng.IntN(2) == 0 {
			continue
		}
		evs = append(evs, e)
		m.apply(e)
	}
	var out c20script
	for i := 0; i < len(evs); i++ {
		if i+1 < len(evs) && rng.IntN(3) == 0 && c20mergeable(v, evs[i], evs[i+1]) {
			a, b := evs[i], evs[i+1]
			// the second event may also go first, unless it needs the first
			if rng.IntN(2) == 0 && !(b.Op == 'r' || b.Op == 'c' && a.Op == 'i' && a.K == b.K) {
				a, b = b, a
			}
			out = append(out, c20step{a, b})
			i++
			continue
		}
		out = append(out, c20step{evs[i]})
	}
	return out
}
