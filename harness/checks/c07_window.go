package checks

import (
	"fmt"
	"strings"

	"verif/harness/peer"
	"verif/harness/sched"
	"verif/harness/vt"
)

// C07, families H and R — the two edges of "reserved exactly while in flight".
//
// H (held reply): the reply of call X is inside Send (the transport exerts back-pressure;
// the harness holds the server end's Send). X is still in flight - its reply has not been
// sent - so a second request bearing X's id must not be accepted and run now. (What the
// library does is not look at the second request at all until the write is over.)
//
// R (reuse right after the reply): with one goroutine parked at each hook visit in turn,
// the harness waits until the server can go no further (Quiesce). If X's reply is on the
// wire by then, a new request with X's id is legal at once and must be served, whatever
// part of the server's bookkeeping is still parked.

func c07windowCases(e vt.Env, yield func(vt.Case) bool) bool {
	ids := []string{"1", `"a"`, `"x\/y"`, "1.50"}
	for _, id := range ids {
		id := id
		cid := "H/" + id
		if !yield(vt.Case{ID: cid, Run: func(c *vt.Ctx) {
			c07held(c, cid, id)
			c.Distinct(cid)
		}}) {
			return false
		}
		cid2 := "R/" + id
		if !yield(vt.Case{ID: cid2, Run: func(c *vt.Ctx) {
			prof := sched.New()
			c07reuse(c, cid2, id, prof)
			c.Distinct(cid2)
			if c.Failed() {
				return
			}
			sched.DelaySets(prof.Keys(), 1, func(ds []string) bool {
				c07reuse(c, cid2+" parked at "+join(ds), id, sched.New().WithDelays(ds...))
				c.Distinct(cid2 + "/" + join(ds))
				return !c.Failed()
			})
		}}) {
			return false
		}
	}
	return true
}

func c07held(c *vt.Ctx, what, id string) {
	ctrl := sched.New()
	peer.Bubble(c, ctrl, func() {
		hold := make(chan struct{})
		rig := peer.NewServerRig(c, ctrl, peer.ServerOpts{Concurrency: 4, HoldSend: hold})
		rig.Send(peer.Req(id, "i", "first"))
		// (goroutines of the server may be waiting for its mutex now - the writer holds it for as
		// long as the harness holds the write; that is the harness's doing, not a fault)
		peer.SettleOrStuck(ctrl)
		if rig.Log.Count("h.exit", "first") != 1 {
			c.Failf("%s: the first call's handler has not run", what)
		}
		// its reply is now inside Send; a second request with the same id arrives
		rig.Send(peer.Req(id, "G", "second"))
		peer.SettleOrStuck(ctrl) // the reader may legitimately be waiting for the writer here
		if n := rig.Log.Count("h.enter", "second"); n != 0 {
			c.Failf("%s: a second request with id %s was accepted and its handler started while the reply to the first call with that id had not been sent yet", what, id)
		}
		close(hold)
		rig.Settle()
		rig.H.ReleaseAll()
		rig.Settle()
		var sigs []string
		for _, rec := range rig.Outbound() {
			ms, _, err := peer.Decode(rec)
			if err != nil || len(ms) != 1 {
				c.Failf("%s: undecodable record %q", what, rec)
				continue
			}
			if ms[0].Error != nil {
				sigs = append(sigs, fmt.Sprintf("error %d", ms[0].Error.Code))
			} else {
				sigs = append(sigs, "result "+strings.SplitN(ms[0].ResultToken(), "/", 2)[0])
			}
		}
		// once the first reply is out the id is free: the second request is served
		// (being refused as a duplicate would also have been in order had it been looked at
		// while the first was in flight - it was not)
		if got := strings.Join(sigs, ", "); got != "result first, result second" && got != "result first, error -32600" {
			c.Failf("%s: replies %q, want the first call's result, then the second call's result (or its rejection as a duplicate)", what, got)
		}
		if _, ok := rig.Finish(); !ok {
			c.Failf("%s: server did not exit after the peer closed", what)
		}
		c.Count("held_reply_windows_checked", 1)
	})
	c.Eval(1)
}

func c07reuse(c *vt.Ctx, what, id string, ctrl *sched.Controller) {
	peer.Bubble(c, ctrl, func() {
		rig := peer.NewServerRig(c, ctrl, peer.ServerOpts{Concurrency: 4})
		rig.Send(peer.Req(id, "i", "first"))
		ctrl.Quiesce() // as far as the server gets with the parked goroutine parked
		rig.Collect()
		replied := len(rig.Outbound()) == 1
		if !replied {
			rig.Settle()
		} else {
			c.Count("reuse_while_bookkeeping_parked", 1)
		}
		rig.Send(peer.Req(id, "i", "again"))
		rig.Settle()
		out := rig.Outbound()
		if len(out) != 2 {
			c.Failf("%s: %d records on the wire, want 2: %q", what, len(out), out)
		} else if ms, _, err := peer.Decode(out[1]); err != nil || len(ms) != 1 || ms[0].Error != nil || !strings.HasPrefix(ms[0].ResultToken(), "again/") {
			c.Failf("%s: the reply to the first call with id %s was on the wire (seen before the second was sent: %v); a new call with that id was answered %q, want its handler's result", what, id, replied, out[1])
		}
		if _, ok := rig.Finish(); !ok {
			c.Failf("%s: server did not exit after the peer closed", what)
		}
	})
	c.Eval(1)
}
