package checks

import (
	"bytes"
	"fmt"

	"github.com/creachadair/jrpc2/channel"

	"verif/harness/vt"
)

// C11 (splitbyte) — the round trip and the refusal for Split(b) with EVERY
// byte value b = 0x00..0xFF as the delimiter, not only the ASCII ones.
//
// The split byte is a byte, not a character: for b >= 0x80 the code point with
// the same number is spelt with two bytes in UTF-8 (C2 b for 0x80..0xBF,
// C3 b-0x40 for 0xC0..0xFF). A record is legal for Split(b) exactly when it
// does not contain the byte b, so
//   - a record containing the raw byte b must be refused, nothing written,
//     whatever else it contains (also next to the UTF-8 spelling of U+00<b>);
//   - a record containing the UTF-8 spelling of U+00<b> but not the byte b
//     (b = 0xC0..0xFF except 0xC3) is legal and must arrive intact;
//   - every other byte value, including b-1, b+1, b^0x80, the UTF-8 lead bytes
//     C2/C3 and continuation bytes, is payload.
//
// One case per split byte: legal records and refused records are interleaved
// on one sending channel, then the stream is decoded under several chunkings
// and both EOF modes.

func c11splitByteFr(b byte) c11fr {
	return c11fr{fmt.Sprintf("Split(0x%02X)", b), channel.Split(b), 's', b}
}

// c11splitByteLegal returns the legal records for Split(b).
func c11splitByteLegal(b byte, fr c11fr, c *vt.Ctx, e vt.Env, id string) [][]byte {
	rng := e.Rand("C11/" + id)
	var all []byte
	for v := 0; v < 256; v++ {
		if byte(v) != b {
			all = append(all, byte(v))
		}
	}
	recs := [][]byte{
		{b + 1, b - 1, b ^ 0x80},
		all,
		{},
		{b ^ 0xFF},
	}
	enc := c11utf8(b)
	if !bytes.Contains(enc, []byte{b}) {
		// the UTF-8 spelling of U+00<b> does not contain the split byte: legal
		// at the start, in the middle, at the end, alone, repeated
		recs = append(recs,
			append([]byte(nil), enc...),
			append([]byte("pre"), enc...),
			append(append([]byte(nil), enc...), "post"...),
			append(append([]byte("caf\xc3\xa9 "), enc...), " na\xc3\xafve"...),
			bytes.Repeat(enc, 2100), // crosses the 4096-byte read buffer
		)
		c.Count("legal_records_with_utf8_of_split", 5)
	}
	if b >= 0x80 {
		// each byte of the spelling alone, and the spelling with the split byte
		// replaced by its neighbour
		for _, x := range enc {
			if x != b {
				recs = append(recs, []byte{x}, []byte{'a', x})
			}
		}
		recs = append(recs, append([]byte("x"), c11splitSpelling(b)...))
	}
	recs = append(recs, c11legal(fr, 4097, rng), c11legal(fr, rng.IntN(300), rng), []byte{}, c11legal(fr, 1+rng.IntN(5), rng))
	return recs
}

// c11splitByteBad returns records Split(b) cannot represent.
func c11splitByteBad(b byte, fr c11fr, e vt.Env, id string) [][]byte {
	rng := e.Rand("C11/bad/" + id)
	enc := c11utf8(b)
	bad := [][]byte{
		{b},
		{b, b + 1},
		{b + 1, b, b + 1},
		{b + 1, b + 1, b},
		{b, b},
	}
	if b >= 0x80 {
		// the raw byte next to the UTF-8 spelling of U+00<b> and to the bytes of
		// that spelling; for 0x80..0xBF and 0xC3 the spelling itself contains
		// the byte and is therefore unrepresentable as well
		sp := c11splitSpelling(b)
		bad = append(bad,
			append(append([]byte(nil), sp...), b),
			append([]byte{b}, sp...),
			[]byte{sp[0], b, sp[1]},
			[]byte{0xC2, b}, []byte{0xC3, b}, []byte{b, 0x80}, []byte{b, 0xBF},
			append([]byte("text "), b),
		)
		if bytes.Contains(enc, []byte{b}) {
			bad = append(bad, append([]byte(nil), enc...), append(append([]byte("pre"), enc...), "post"...))
		}
	}
	for _, n := range []int{4096, 4097} {
		r := c11legal(fr, n, rng)
		r[[]int{0, n / 2, n - 1}[rng.IntN(3)]] = b
		bad = append(bad, r)
	}
	return bad
}

func c11splitByte(c *vt.Ctx, e vt.Env, b byte, id string) {
	fr := c11splitByteFr(b)
	legal := c11splitByteLegal(b, fr, c, e, id)
	bad := c11splitByteBad(b, fr, e, id)
	for i, r := range legal {
		if bytes.IndexByte(r, b) >= 0 {
			c.Failf("harness: record #%d %s generated as legal for %s contains the split byte", i, c11showBytes(r), fr.name)
			return
		}
	}
	for i, r := range bad {
		if bytes.IndexByte(r, b) < 0 {
			c.Failf("harness: record #%d %s generated as unrepresentable for %s does not contain the split byte", i, c11showBytes(r), fr.name)
			return
		}
	}

	// one sending channel: every legal record is accepted, every bad one is
	// refused with nothing written and without disturbing what follows
	var stream []byte
	ok := func() (ok bool) {
		defer func() {
			if p := recover(); p != nil {
				c.Failf("%s: panic in Send/Close: %v", fr.name, p)
				ok = false
			}
		}()
		sink := &c11sinkWC{}
		ch := fr.f(bytes.NewReader(nil), sink)
		nb := 0
		refuse := func() bool {
			r := bad[nb%len(bad)]
			nb++
			before := sink.buf.Len()
			cp := make([]byte, len(r))
			copy(cp, r)
			err := ch.Send(cp)
			if err == nil {
				c.Failf("%s: Send accepted a record containing the split byte 0x%02X: %s (wrote %d bytes)", fr.name, b, c11showBytes(r), sink.buf.Len()-before)
				return false
			}
			if n := sink.buf.Len() - before; n != 0 {
				c.Failf("%s: Send refused %s with %q but wrote %d bytes", fr.name, c11showBytes(r), err.Error(), n)
				return false
			}
			c.Count("refusals_checked", 1)
			if b >= 0x80 {
				c.Count("refusals_non_ascii_split", 1)
			}
			return true
		}
		for i, r := range legal {
			cp := make([]byte, len(r))
			copy(cp, r)
			if err := ch.Send(cp); err != nil {
				c.Failf("%s: Send of legal record #%d %s (it does not contain the split byte 0x%02X) failed: %v", fr.name, i, c11showBytes(r), b, err)
				return false
			}
			if !refuse() {
				return false
			}
		}
		for nb < len(bad) {
			if !refuse() {
				return false
			}
		}
		if err := ch.Close(); err != nil {
			c.Failf("%s: Close failed: %v", fr.name, err)
			return false
		}
		stream = sink.buf.Bytes()
		return true
	}()
	if !ok {
		return
	}

	var acct c11acct
	defer acct.flush(c)
	rng := e.Rand("C11/cuts/" + id)
	chunkings := []c11chunking{{name: "whole"}, {name: "1-byte", max: 1}, {name: "3-byte", max: 3},
		{name: "boundaries", cuts: c11normCuts(c11boundaries(fr, c, legal), len(stream))},
		{name: "random", cuts: c11randomCuts(len(stream), rng)}, {name: "random", cuts: c11randomCuts(len(stream), rng)}}
	for k, ch := range chunkings {
		for _, with := range []bool{false, true} {
			rd := &c11cutReader{data: stream, cuts: ch.cuts, max: ch.max, eofWithLast: with}
			acct.add(legal, stream)
			acct.cutsets++
			if with {
				c.Count("eof_with_last_bytes", 1)
			}
			if !c11decode(c, fr, rd, legal) {
				return
			}
			c.Distinct(fmt.Sprintf("%s/%d/%v", id, k, with))
		}
	}
	c.Count("split_bytes_covered", 1)
	if b >= 0x80 {
		c.Count("split_bytes_non_ascii", 1)
	}
	if c.WantSample() && b >= 0xC4 {
		c.Sample(map[string]any{"framing": fr.name, "legal": c11showRecs(legal), "refused": c11showRecs(bad), "chunkings": len(chunkings), "eof_modes": 2})
	}
}
