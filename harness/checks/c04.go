package checks

import (
	"context"
	"fmt"
	"sort"
	"strings"

	"github.com/creachadair/jrpc2"

	"verif/harness/peer"
	"verif/harness/sched"
	"verif/harness/vt"
)

// C04 — the client matches replies to requests by id, whatever the peer's
// ordering, grouping, duplication or interleaving with unknown ids, malformed
// members and server-initiated requests.
//
// A real client issues K <= 3 concurrent operations (Calls and Batches with
// notifications) to a raw scripted peer, which learns each request's id from
// the wire and answers with a reply stream in which every reply carries a
// unique token. Oracle: each Call / Batch slot returns exactly the token of
// the first reply sent for its id (error replies as *Error with that token as
// message); Batch results come in spec order; request ids are pairwise
// distinct while outstanding; the client's pending set (VerifSnapshot) equals
// the ids not yet answered at every quiescent point; an unanswered call stays
// blocked until Close; server notifications / callbacks reach their hooks;
// nothing makes the client panic (worker death).

type c04slot struct {
	op   int    // index of the operation
	tag  string // api tag of the operation
	id   string // request id learnt from the wire
	want []string
	done bool
}

// a stream item: kind "r" reply to slot, "e" error reply to slot, "dup" second reply,
// "mal" malformed member with the slot's id, "unk", "note", "cb", "nonobj"
type c04item struct {
	kind string
	slot int
}

func (it c04item) String() string {
	switch it.kind {
	case "r", "e", "dup", "mal", "mal2", "strid", "badreq":
		return fmt.Sprintf("%s%d", it.kind, it.slot)
	}
	return it.kind
}

type c04stream [][]c04item // records; a record with one item is sent as an object unless arr1

func (s c04stream) String() string {
	var recs []string
	for _, r := range s {
		var p []string
		for _, it := range r {
			p = append(p, it.String())
		}
		if len(r) == 1 {
			recs = append(recs, p[0])
		} else {
			recs = append(recs, "["+strings.Join(p, ",")+"]")
		}
	}
	return strings.Join(recs, " ")
}

// c04failingParams blocks in MarshalJSON until its gate opens, then fails: a
// Batch whose later spec cannot be encoded, while other requests are created.
type c04failingParams struct{ gate chan struct{} }

func (p c04failingParams) MarshalJSON() ([]byte, error) {
	<-p.gate
	return nil, fmt.Errorf("these params cannot be encoded")
}

type c04run struct {
	ops    []string // "C" or "B:cnc"
	stream c04stream
	arr1   bool // send single-item records as one-element arrays
	settle bool // settle between records (deterministic "first reply wins")
	omit   int  // slot left unanswered (-1: none)
	ctrl   *sched.Controller
}

func c04exec(c *vt.Ctx, r c04run) {
	peer.Bubble(c, r.ctrl, func() {
		rig := peer.NewClientRig(c, r.ctrl, peer.ClientOpts{PipeLike: true})
		ctx := context.Background()
		var slots []*c04slot
		var pendingGate chan struct{}
		// issue the operations one by one so that each reaches the wire
		for i, op := range r.ops {
			tag := fmt.Sprintf("op%d", i)
			n0 := len(rig.Sent())
			if op == "BF" {
				// first spec fine (an id is allocated), second spec blocks in its encoder and then fails
				gate := make(chan struct{})
				rig.GoBatch(tag, ctx, []jrpc2.Spec{{Method: "m", Params: []int{i, 0}}, {Method: "m", Params: c04failingParams{gate}}})
				rig.Settle()
				if got := rig.Sent()[n0:]; len(got) != 0 {
					c.Failf("a Batch whose encoding is still in progress transmitted %q", got)
				}
				pendingGate = gate
				continue
			}
			if op == "C" {
				rig.GoCall(tag, ctx, "m", []int{i})
			} else {
				var specs []jrpc2.Spec
				for j, ch := range strings.TrimPrefix(op, "B:") {
					if ch == 'z' {
						// a notification without a method name: nothing the peer could act on, but
						// a notification all the same - no response slot, no reply expected
						specs = append(specs, jrpc2.Spec{Method: "", Params: []int{i, j}, Notify: true})
						continue
					}
					specs = append(specs, jrpc2.Spec{Method: "m", Params: []int{i, j}, Notify: ch == 'n'})
				}
				rig.GoBatch(tag, ctx, specs)
			}
			rig.Settle()
			if pendingGate != nil {
				// the half-encoded Batch fails now, after another request was created
				close(pendingGate)
				pendingGate = nil
				rig.Settle()
			}
			sent := rig.Sent()[n0:]
			if len(sent) != 1 {
				c.Failf("operation %s transmitted %d records, want 1: %q", op, len(sent), sent)
				return
			}
			ms, _, err := peer.Decode(sent[0])
			if err != nil {
				c.Failf("operation %s transmitted an undecodable record %q", op, sent[0])
				return
			}
			for _, m := range ms {
				if len(m.ID) > 0 && string(m.ID) != "null" {
					slots = append(slots, &c04slot{op: i, tag: tag, id: string(m.ID)})
				}
			}
		}
		if pendingGate != nil {
			close(pendingGate)
			rig.Settle()
		}
		ids := map[string]bool{}
		for _, s := range slots {
			if ids[s.id] {
				c.Failf("request id %s is used by two requests in flight", s.id)
			}
			ids[s.id] = true
		}
		pendingCheck := func(when string) {
			var want []string
			for _, s := range slots {
				if !s.done {
					want = append(want, s.id)
				}
			}
			sort.Strings(want)
			got := rig.Cli.VerifSnapshot().Pending
			if strings.Join(got, ",") != strings.Join(want, ",") {
				c.Failf("%s: client pending set %v, want %v", when, got, want)
			}
		}
		pendingCheck("after sending")
		tokens := 0
		notes, cbs := 0, 0
		render := func(it c04item) string {
			tokens++
			tok := fmt.Sprintf("T%d", tokens)
			switch it.kind {
			case "r", "dup":
				s := slots[it.slot]
				s.want = append(s.want, "ok:"+tok)
				if tokens%3 == 0 {
					// a successful reply spelt the way JSON-RPC 1.0 peers do, with an explicit null error
					return fmt.Sprintf(`{"jsonrpc":"2.0","id":%s,"result":%q,"error":null}`, s.id, tok)
				}
				return fmt.Sprintf(`{"jsonrpc":"2.0","id":%s,"result":%q}`, s.id, tok)
			case "e":
				s := slots[it.slot]
				s.want = append(s.want, "jerr:-7:"+tok)
				return fmt.Sprintf(`{"jsonrpc":"2.0","id":%s,"error":{"code":-7,"message":%q}}`, s.id, tok)
			case "mal":
				s := slots[it.slot]
				s.want = append(s.want, "anyerror")
				return fmt.Sprintf(`{"jsonrpc":"1.0","id":%s,"result":%q}`, s.id, tok)
			case "mal2":
				s := slots[it.slot]
				s.want = append(s.want, "anyerror")
				return fmt.Sprintf(`{"jsonrpc":"2.0","id":%s,"error":5}`, s.id)
			case "badreq": // an INVALID server-initiated request that happens to carry a pending id: not a reply
				return fmt.Sprintf(`{"jsonrpc":"1.0","id":%s,"method":"nosuchcb","params":[%q]}`, slots[it.slot].id, tok)
			case "strid": // a different id: the JSON string that spells a pending numeric id
				return fmt.Sprintf(`{"jsonrpc":"2.0","id":"%s","result":%q}`, strings.Trim(slots[it.slot].id, `"`), tok)
			case "unk":
				return fmt.Sprintf(`{"jsonrpc":"2.0","id":99999,"result":%q}`, tok)
			case "note":
				notes++
				return `{"jsonrpc":"2.0","method":"srvnote","params":[1]}`
			case "cb":
				cbs++
				return fmt.Sprintf(`{"jsonrpc":"2.0","id":%d,"method":"i","params":{"t":"cb%d"}}`, 5000+cbs, cbs)
			case "nonobj":
				return `5`
			}
			panic(it.kind)
		}
		for k, rec := range r.stream {
			var parts []string
			for _, it := range rec {
				if (it.kind == "r" || it.kind == "e") && it.slot == r.omit {
					continue
				}
				if it.slot >= len(slots) {
					continue
				}
				parts = append(parts, render(it))
			}
			if len(parts) == 0 {
				continue
			}
			// every third record is wrapped in JSON whitespace (space, tab, CR, LF), as peers
			// that pretty-print or end lines with CR LF send it
			pre, post := "", ""
			if tokens%3 == 1 {
				pre = []string{" ", "\r\n", "\t\r", "\n \r "}[tokens/3%4]
				post = []string{"", "\r\n"}[tokens/12%2]
			}
			if len(parts) == 1 && !r.arr1 {
				rig.Reply(pre + parts[0] + post)
			} else {
				rig.Reply(pre + "[" + pre + strings.Join(parts, post+","+pre) + post + "]" + post)
			}
			if r.settle {
				rig.Settle()
				for _, s := range slots {
					if len(s.want) > 0 {
						s.done = true
					}
				}
				pendingCheck(fmt.Sprintf("after record %d", k))
			}
		}
		rig.Settle()
		for _, s := range slots {
			if len(s.want) > 0 {
				s.done = true
			}
		}
		pendingCheck("after the reply stream")
		// judge returns
		judge := func(final bool) {
			seenTok := map[string]string{}
			for i, op := range r.ops {
				tag := fmt.Sprintf("op%d", i)
				info, n := rig.Returned(tag)
				if op == "BF" {
					if n != 1 || !strings.HasPrefix(info, "batcherr:") {
						c.Failf("%s: a Batch with an unencodable spec returned %q x%d, want an encoding error", tag, info, n)
					}
					continue
				}
				var mine []*c04slot
				for _, s := range slots {
					if s.op == i {
						mine = append(mine, s)
					}
				}
				complete := true
				for _, s := range mine {
					if len(s.want) == 0 {
						complete = false
					}
				}
				if n > 1 {
					c.Failf("%s returned %d times", tag, n)
				}
				if !complete && !final {
					if n != 0 {
						c.Failf("%s (%s) returned %q although a request of it has not been answered", tag, op, info)
					}
					continue
				}
				if n == 0 {
					c.Failf("%s (%s) has not returned although every request of it was answered (or the client was closed)", tag, op)
					continue
				}
				if !complete {
					continue // unanswered and closed: any outcome, it only has to return
				}
				var got []string
				if op == "C" {
					got = []string{info}
				} else {
					for _, p := range strings.Split(info, " | ") {
						idx := strings.Index(p, "=")
						if idx < 0 {
							c.Failf("%s: unexpected batch return %q", tag, info)
							continue
						}
						got = append(got, p[idx+1:])
					}
				}
				if len(got) != len(mine) {
					c.Failf("%s (%s) returned %d responses %q, want %d (notifications omitted)", tag, op, len(got), info, len(mine))
					continue
				}
				for k, s := range mine {
					g := got[k]
					if strings.HasPrefix(g, "rsperr:") { // Batch reports errors inside the response
						g = "jerr:" + strings.TrimPrefix(g, "rsperr:")
					}
					ok := false
					if strings.Contains(g, "+stray-result=") || strings.Contains(g, "+marshals-with") {
						c.Failf("%s (%s) slot %d (id %s): the Response of the failed call is not a pure error: %q (a failed call carries no result and its JSON form is an error response)", tag, op, k, s.id, g)
					}
					if r.settle {
						// deterministic: the first reply sent for the id wins; a malformed
						// first reply may yield any error, or be ignored in favour of the next
						for _, w := range s.want {
							if w == "anyerror" {
								if !strings.HasPrefix(g, "ok:") {
									ok = true
								}
								continue
							}
							ok = ok || w == g
							break
						}
					} else {
						for _, w := range s.want {
							ok = ok || w == g || (w == "anyerror" && !strings.HasPrefix(g, "ok:"))
						}
					}
					if !ok {
						c.Failf("%s (%s) slot %d (id %s) completed with %q; replies sent for that id, in order: %q", tag, op, k, s.id, g, s.want)
					}
					if strings.HasPrefix(g, "ok:") || strings.HasPrefix(g, "jerr:-7:") {
						if prev, dup := seenTok[g]; dup {
							c.Failf("reply %q was consumed by two requests (%s and %s)", g, prev, tag)
						}
						seenTok[g] = tag
					}
				}
			}
		}
		judge(false)
		if got := rig.Log.Count("onnotify", "srvnote"); got != notes {
			c.Failf("%d server notifications sent, OnNotify ran %d times", notes, got)
		}
		// callbacks answered on the wire
		for k := 1; k <= cbs; k++ {
			found := 0
			for _, rec := range rig.Sent() {
				ms, _, _ := peer.Decode(rec)
				for _, m := range ms {
					if string(m.ID) == fmt.Sprint(5000+k) && m.Method == "" && strings.HasPrefix(m.ResultToken(), fmt.Sprintf("cb%d/", k)) {
						found++
					}
				}
			}
			if found != 1 {
				c.Failf("server callback %d got %d responses from the client, want 1", k, found)
			}
		}
		// close: everything returns
		rig.GoClose()
		rig.Settle()
		rig.Peer.CloseQuiet()
		rig.Settle()
		if _, n := rig.Returned("close"); n != 1 {
			c.Failf("Close has not returned")
		}
		judge(true)
		c.Count("events", rig.Log.Len())
		c.Count("replies_sent", tokens)
		c.Count("requests_in_flight", len(slots))
	})
	c.Eval(1)
}

// compositions of n items into consecutive groups
func c04compositions(items []c04item, yield func(c04stream) bool) bool {
	n := len(items)
	for mask := 0; mask < 1<<(max(n-1, 0)); mask++ {
		var s c04stream
		cur := []c04item{items[0]}
		for i := 1; i < n; i++ {
			if mask&(1<<(i-1)) != 0 {
				s = append(s, cur)
				cur = nil
			}
			cur = append(cur, items[i])
		}
		s = append(s, cur)
		if !yield(s) {
			return false
		}
	}
	return true
}

func init() {
	vt.Register(&vt.Check{
		Prop:  "C04",
		Level: "exploration",
		Rule: "operation sets {Call,Call}, {Call,Batch[c,n,c]}, {Batch[c,c],Call}, {Call,Call,Call}, {Batch[n,c,n]}, {Batch[n,c],Call}, {Batch[c,n,c],Batch[n,c]}, {Call, Batch that fails to encode after another request was created, Call, Call} against a raw peer; reply streams = every permutation of the replies x every partition into records (objects / arrays) " +
			"x one extra item {duplicate reply, malformed member with a pending id, unknown id, string spelling of a pending numeric id, server notification, server callback, non-object member} at every position, x one reply omitted; " +
			"records are delivered with a settle in between (first reply wins) or back to back (any reply sent for the id), plus delay-bounded schedules and seeded random streams with up to 24 outstanding requests. " +
			"every Response handed back for a failed call must be a pure error (no result, JSON form an error object). " +
			"distinct_nontrivial = distinct (operations, stream, mode, delay set) with at least two replies",
		Assumptions: []string{
			"Go 1.26.8 runtime and testing/synctest quiescence",
			"a malformed member bearing a pending id may complete that call with any error or be ignored",
			"records delivered without a quiescent point in between may be processed in either order (the client delivers each record in its own goroutine)",
		},
		Require: map[string]int64{"replies_sent": 1000, "requests_in_flight": 1000},
		Cases:   c04cases,
	})
}

func c04slotsOf(ops []string) int {
	n := 0
	for _, op := range ops {
		if op == "BF" {
			continue
		}
		if op == "C" {
			n++
		} else {
			n += strings.Count(op, "c")
		}
	}
	return n
}

func c04cases(e vt.Env, yield func(vt.Case) bool) {
	// D: a rendezvous transport with a single-threaded peer (c05_direct.go)
	if !c05directCases("C04", e, yield) {
		return
	}
	opsets := [][]string{{"C", "C"}, {"C", "B:cnc"}, {"B:cc", "C"}, {"C", "C", "C"}, {"B:ncn"}, {"B:nc", "C"}, {"B:cnc", "B:nc"}, {"C", "BF", "C", "C"}, {"BF", "B:cc", "C"}, {"B:czc", "C"}}
	extras := []string{"", "dup", "mal", "mal2", "strid", "badreq", "unk", "note", "cb", "nonobj"}
	for oi, ops := range opsets {
		n := c04slotsOf(ops)
		base := make([]c04item, n)
		for i := range base {
			kind := "r"
			if i == 1 {
				kind = "e"
			}
			base[i] = c04item{kind: kind, slot: i}
		}
		for _, ex := range extras {
			for _, settle := range []bool{true, false} {
				ops, ex, settle := ops, ex, settle
				id := fmt.Sprintf("E1/%d:%s/extra=%s/settle=%v", oi, strings.Join(ops, "+"), ex, settle)
				if !yield(vt.Case{ID: id, Run: func(c *vt.Ctx) {
					perm := append([]c04item(nil), base...)
					perms(perm, func(p []c04item) bool {
						// insert the extra at every position (or none)
						positions := []int{-1}
						if ex != "" {
							positions = nil
							for k := 0; k <= len(p); k++ {
								positions = append(positions, k)
							}
						}
						for _, pos := range positions {
							var items []c04item
							for k := 0; k <= len(p); k++ {
								if k == pos {
									switch ex {
									case "dup", "mal", "mal2", "strid", "badreq":
										items = append(items, c04item{kind: ex, slot: pos % n})
									default:
										items = append(items, c04item{kind: ex})
									}
								}
								if k < len(p) {
									items = append(items, p[k])
								}
							}
							if !c04compositions(items, func(st c04stream) bool {
								for _, omit := range []int{-1, n - 1} {
									if omit >= 0 && (ex != "" || !settle) {
										continue
									}
									for _, arr1 := range []bool{false, true} {
										if arr1 && ex != "" {
											continue
										}
										st2 := make(c04stream, len(st))
										copy(st2, st)
										c04exec(c, c04run{ops: ops, stream: st2, arr1: arr1, settle: settle, omit: omit, ctrl: sched.New()})
										c.Distinct(fmt.Sprintf("%s/%s/arr1=%v/omit=%d", id, st, arr1, omit))
										if c.WantSample() && ex != "" && len(st) > 1 {
											c.Sample(map[string]any{"operations": ops, "reply_stream": st.String(), "settle_between_records": settle})
										}
										if c.Failed() {
											return false
										}
									}
								}
								return true
							}) {
								return false
							}
						}
						return true
					})
				}}) {
					return
				}
			}
		}
	}
	// E2: delay-bounded schedules on back-to-back streams
	d := e.Pick(1, 2)
	rng := e.Rand("C04/E2")
	for i := 0; i < e.Pick(24, 120); i++ {
		ops := opsets[rng.IntN(len(opsets))]
		n := c04slotsOf(ops)
		var items []c04item
		for s := 0; s < n; s++ {
			items = append(items, c04item{kind: []string{"r", "e"}[rng.IntN(2)], slot: s})
		}
		items = append(items, c04item{kind: []string{"dup", "mal", "mal2"}[rng.IntN(3)], slot: rng.IntN(n)}, c04item{kind: []string{"unk", "note", "cb"}[rng.IntN(3)]})
		rng.Shuffle(len(items), func(a, b int) { items[a], items[b] = items[b], items[a] })
		var st c04stream
		for k := 0; k < len(items); {
			g := 1 + rng.IntN(2)
			if k+g > len(items) {
				g = len(items) - k
			}
			st = append(st, items[k:k+g])
			k += g
		}
		dd := d
		if dd == 2 && i%4 != 0 {
			dd = 1
		}
		id := fmt.Sprintf("E2/%d/%s/%s/d%d", i, strings.Join(ops, "+"), st, dd)
		if !yield(vt.Case{ID: id, Run: func(c *vt.Ctx) {
			prof := sched.New()
			c04exec(c, c04run{ops: ops, stream: st, settle: false, omit: -1, ctrl: prof})
			if c.Failed() {
				return
			}
			var keys []string
			for _, k := range prof.Keys() {
				if strings.HasPrefix(k, "cli.accept") || strings.HasPrefix(k, "cli.deliver") || strings.HasPrefix(k, "cli.call") || strings.HasPrefix(k, "cli.wait") || strings.HasPrefix(k, "cli.cb") {
					keys = append(keys, k)
				}
			}
			sched.DelaySets(keys, dd, func(ds []string) bool {
				c04exec(c, c04run{ops: ops, stream: st, settle: false, omit: -1, ctrl: sched.New().WithDelays(ds...)})
				c.Distinct(id + "/" + join(ds))
				return !c.Failed()
			})
		}}) {
			return
		}
	}
	// E3: many outstanding requests, seeded random streams, perturbation
	rng = e.Rand("C04/E3")
	for i := 0; i < e.Pick(120, 2500); i++ {
		nops := 2 + rng.IntN(8)
		var ops []string
		for k := 0; k < nops; k++ {
			if rng.IntN(3) == 0 {
				spec := ""
				for j := 0; j < 1+rng.IntN(4); j++ {
					spec += string("ccn"[rng.IntN(3)])
				}
				if !strings.Contains(spec, "c") {
					spec += "c"
				}
				ops = append(ops, "B:"+spec)
			} else {
				ops = append(ops, "C")
			}
		}
		n := c04slotsOf(ops)
		var items []c04item
		for s := 0; s < n; s++ {
			items = append(items, c04item{kind: []string{"r", "e"}[rng.IntN(2)], slot: s})
			if rng.IntN(4) == 0 {
				items = append(items, c04item{kind: []string{"dup", "mal", "mal2"}[rng.IntN(3)], slot: s})
			}
		}
		for k := 0; k < rng.IntN(4); k++ {
			if rng.IntN(4) == 0 {
				items = append(items, c04item{kind: []string{"strid", "badreq"}[rng.IntN(2)], slot: rng.IntN(n)})
			}
			items = append(items, c04item{kind: []string{"unk", "note", "cb", "nonobj"}[rng.IntN(4)]})
		}
		rng.Shuffle(len(items), func(a, b int) { items[a], items[b] = items[b], items[a] })
		var st c04stream
		for k := 0; k < len(items); {
			g := 1 + rng.IntN(4)
			if k+g > len(items) {
				g = len(items) - k
			}
			st = append(st, items[k:k+g])
			k += g
		}
		settle := rng.IntN(2) == 0
		p := []float64{0, 0.02, 0.05, 0.1, 0.2}[rng.IntN(5)]
		id := fmt.Sprintf("E3/%d/%s/settle=%v/p%.2f", i, strings.Join(ops, "+"), settle, p)
		if !yield(vt.Case{ID: id, Run: func(c *vt.Ctx) {
			c04exec(c, c04run{ops: ops, stream: st, settle: settle, omit: -1, ctrl: sched.New().WithPerturb(p, e.Rand(id))})
			c.Distinct(id)
		}}) {
			return
		}
	}
}
