package checks

import (
	"context"
	"encoding/json"
	"fmt"
	"io"
	"math/rand/v2"
	"net/http"
	"net/http/httptest"
	"runtime"
	"sort"
	"strings"
	"sync"
	"sync/atomic"

	"github.com/creachadair/jrpc2"
	"github.com/creachadair/jrpc2/jhttp"
	"github.com/creachadair/jrpc2/server"

	"verif/harness/peer"
	"verif/harness/sched"
	"verif/harness/vt"
)

// ---------------------------------------------------------------------------
// In-process HTTP client: Do calls the handler with a ResponseRecorder and
// returns the recorded response with a body that counts its Close. No
// network, no timers, no goroutines: usable inside a synctest bubble.
// ---------------------------------------------------------------------------

type c19inproc struct {
	h http.Handler

	started   atomic.Int64 // Do calls entered
	open      atomic.Int64 // response bodies handed out and not yet closed
	total     atomic.Int64 // response bodies handed out
	byClose   atomic.Int64 // ... closed from jhttp.(*Channel).Close (drain)
	byRecv    atomic.Int64 // ... closed from jhttp.(*Channel).Recv
	bySend    atomic.Int64 // ... closed from the Send goroutine (204)
	byOther   atomic.Int64
	status204 atomic.Int64
}

type c19body struct {
	io.ReadCloser
	cl     *c19inproc
	closed atomic.Bool
	ctx    context.Context // the request's context: as with net/http, reading the body fails once it has ended
}

func (b *c19body) Read(p []byte) (int, error) {
	if err := b.ctx.Err(); err != nil {
		return 0, err
	}
	return b.ReadCloser.Read(p)
}

func (b *c19body) Close() error {
	if b.closed.CompareAndSwap(false, true) {
		b.cl.open.Add(-1)
		var pcs [12]uintptr
		n := runtime.Callers(2, pcs[:])
		frames := runtime.CallersFrames(pcs[:n])
		who := &b.cl.byOther
		for {
			f, more := frames.Next()
			if strings.Contains(f.Function, "jhttp.(*Channel).Close") {
				who = &b.cl.byClose
				break
			} else if strings.Contains(f.Function, "jhttp.(*Channel).Recv") {
				who = &b.cl.byRecv
				break
			} else if strings.Contains(f.Function, "jhttp.(*Channel).Send") {
				who = &b.cl.bySend
				break
			}
			if !more {
				break
			}
		}
		who.Add(1)
	}
	return b.ReadCloser.Close()
}

func (cl *c19inproc) Do(req *http.Request) (*http.Response, error) {
	cl.started.Add(1)
	if err := req.Context().Err(); err != nil {
		return nil, err
	}
	rec := httptest.NewRecorder()
	cl.h.ServeHTTP(rec, req)
	rsp := rec.Result()
	if rsp.StatusCode == http.StatusNoContent {
		cl.status204.Add(1)
	}
	cl.total.Add(1)
	cl.open.Add(1)
	rsp.Body = &c19body{ReadCloser: rsp.Body, cl: cl, ctx: req.Context()}
	return rsp, nil
}

func (cl *c19inproc) count(c *vt.Ctx) {
	c.Count("h_bodies_total", int(cl.total.Load()))
	c.Count("h_bodies_closed", int(cl.total.Load()-cl.open.Load()))
	c.Count("h_drained_by_close", int(cl.byClose.Load()))
	c.Count("h_closed_by_recv", int(cl.byRecv.Load()))
	c.Count("h_closed_by_send_204", int(cl.bySend.Load()))
	c.Count("h_closed_elsewhere", int(cl.byOther.Load()))
}

// ---------------------------------------------------------------------------
// H/eq: the same operations over a direct connection and over the HTTP
// channel must be observed identically by the caller and by the handlers.
// ---------------------------------------------------------------------------

// c19recorder wraps c19assigner and records what the handlers saw.
type c19recorder struct {
	mu   sync.Mutex
	seen []string
}

func (r *c19recorder) Assign(ctx context.Context, method string) jrpc2.Handler {
	h := c19assigner{}.Assign(ctx, method)
	if h == nil {
		return nil
	}
	return func(ctx context.Context, req *jrpc2.Request) (any, error) {
		p := "-"
		if req.HasParams() {
			p = c19canon([]byte(req.ParamString()))
		}
		r.mu.Lock()
		r.seen = append(r.seen, fmt.Sprintf("%s note=%v params=%s", req.Method(), req.IsNotification(), p))
		r.mu.Unlock()
		return h(ctx, req)
	}
}

func (r *c19recorder) sorted() []string {
	r.mu.Lock()
	defer r.mu.Unlock()
	out := append([]string(nil), r.seen...)
	sort.Strings(out)
	return out
}

type c19op struct {
	name  string
	kind  byte // 'c' call, 'n' notify, 'b' batch
	specs []jrpc2.Spec
}

func c19raw(s string) any { return json.RawMessage(s) }

var c19ops = []c19op{
	{"call-echo-object", 'c', []jrpc2.Spec{{Method: "echo", Params: c19raw(`{"a":1.50,"s":"<x&y>","u":"é  ☃","big":12345678901234567890123,"e":1e3,"z":-0}`)}}},
	{"call-echo-array", 'c', []jrpc2.Spec{{Method: "echo", Params: []any{1, "two", nil, []int{3}}}}},
	{"call-echo-noparams", 'c', []jrpc2.Spec{{Method: "echo"}}},
	{"call-value", 'c', []jrpc2.Spec{{Method: "value", Params: map[string]string{"k": "v"}}}},
	{"call-rpcerr", 'c', []jrpc2.Spec{{Method: "rpcerr"}}},
	{"call-fail", 'c', []jrpc2.Spec{{Method: "fail", Params: []int{1}}}},
	{"call-unknown", 'c', []jrpc2.Spec{{Method: "missing", Params: []int{1}}}},
	{"call-invalid-params", 'c', []jrpc2.Spec{{Method: "strict", Params: map[string]string{"x": "abc"}}}},
	{"call-strict", 'c', []jrpc2.Spec{{Method: "strict", Params: map[string]int{"x": 41}}}},
	{"call-scalar-params", 'c', []jrpc2.Spec{{Method: "echo", Params: 5}}},
	{"call-unmarshalable", 'c', []jrpc2.Spec{{Method: "unmarshalable"}}},
	{"notify", 'n', []jrpc2.Spec{{Method: "note", Params: map[string]int{"n": 1}, Notify: true}}},
	{"notify-unknown", 'n', []jrpc2.Spec{{Method: "missing", Notify: true}}},
	{"batch-calls", 'b', []jrpc2.Spec{{Method: "echo", Params: []int{1}}, {Method: "echo", Params: []int{2}}, {Method: "strict", Params: map[string]int{"x": 1}}}},
	{"batch-mixed", 'b', []jrpc2.Spec{{Method: "echo", Params: []string{"<a>"}}, {Method: "note", Notify: true, Params: []int{7}}, {Method: "rpcerr"}, {Method: "missing"}, {Method: "fail"}}},
	{"batch-notes", 'b', []jrpc2.Spec{{Method: "note", Notify: true, Params: []int{1}}, {Method: "note2", Notify: true}}},
	{"batch-one-call-one-note", 'b', []jrpc2.Spec{{Method: "note", Notify: true}, {Method: "echo", Params: map[string]any{"only": true}}}},
}

func c19errString(err error) string {
	if err == nil {
		return "ok"
	}
	if je, ok := err.(*jrpc2.Error); ok {
		return fmt.Sprintf("jrpc2.Error{code=%d message=%q data=%s}", je.Code, je.Message, c19canon(je.Data))
	}
	return fmt.Sprintf("%T{%s}", err, err.Error())
}

// c19apply runs an op on a client and renders what the caller observed:
// one line per call, and for a batch one entry per response slot, in the order
// Batch returns them (the order of the specs, notifications omitted).
func c19apply(ctx context.Context, cli *jrpc2.Client, op c19op) string {
	switch op.kind {
	case 'c':
		rsp, err := cli.Call(ctx, op.specs[0].Method, op.specs[0].Params)
		if err != nil {
			return "call: " + c19errString(err)
		}
		return fmt.Sprintf("call: id=%s result=%s", rsp.ID(), c19canon([]byte(rsp.ResultString())))
	case 'n':
		return "notify: " + c19errString(cli.Notify(ctx, op.specs[0].Method, op.specs[0].Params))
	}
	rsps, err := cli.Batch(ctx, op.specs)
	if err != nil {
		return "batch: " + c19errString(err)
	}
	var parts []string
	for _, rsp := range rsps {
		if e := rsp.Error(); e != nil {
			parts = append(parts, fmt.Sprintf("id=%s %s", rsp.ID(), c19errString(e)))
		} else {
			parts = append(parts, fmt.Sprintf("id=%s result=%s", rsp.ID(), c19canon([]byte(rsp.ResultString()))))
		}
	}
	return fmt.Sprintf("batch[%d]: %s", len(rsps), strings.Join(parts, " ; "))
}

// c19applyBounded runs an op in a goroutine of its own and settles the bubble.
// None of the handlers of the equality workload waits for anything, so at
// quiescence the op must have returned; if it has not, the client is blocked
// waiting for a reply that will never come. That is reported (instead of
// hanging the bubble), the op's context is cancelled to get the caller back,
// and what it then returns is rendered for the comparison.
const c19stuck = "BLOCKED even after its context was cancelled"

func c19applyBounded(c *vt.Ctx, ctrl *sched.Controller, cli *jrpc2.Client, op c19op, where string, names []string) string {
	ctx, cancel := context.WithCancel(context.Background())
	defer cancel()
	done := make(chan string, 1)
	go func() { done <- c19apply(ctx, cli, op) }()
	ctrl.Settle()
	select {
	case s := <-done:
		return s
	default:
	}
	c.Failf("ops %v: %s: op %s (%s) is still blocked when everything is quiescent (no handler waits): a reply that the caller waits for never arrives",
		names, where, op.name, c19specString(op.specs))
	c.Count("h_ops_blocked", 1)
	cancel()
	ctrl.Settle()
	select {
	case s := <-done:
		return "BLOCKED until its context was cancelled, then " + s
	default:
	}
	return c19stuck
}

func c19specString(specs []jrpc2.Spec) string {
	var ss []string
	for _, sp := range specs {
		p := ""
		if sp.Params != nil {
			b, _ := json.Marshal(sp.Params)
			p = " " + string(b)
		}
		k := "call"
		if sp.Notify {
			k = "note"
		}
		ss = append(ss, fmt.Sprintf("%s %q%s", k, sp.Method, p))
	}
	return "[" + strings.Join(ss, ", ") + "]"
}

func c19eqRun(c *vt.Ctx, ops []c19op) {
	var names []string
	for _, op := range ops {
		names = append(names, op.name)
	}
	if n := len(names); n > 16 {
		// long runs: the messages name the length, the head and the tail
		names = append(append(append([]string{fmt.Sprintf("(%d ops)", n)}, names[:4]...), "..."), names[n-8:]...)
	}
	ctrl := sched.New()
	peer.Bubble(c, ctrl, func() {
		// direct connection
		recD := &c19recorder{}
		loc := server.NewLocal(recD, nil)
		var obsD []string
		for _, op := range ops {
			obsD = append(obsD, c19applyBounded(c, ctrl, loc.Client, op, "direct connection", names))
			if strings.HasPrefix(obsD[len(obsD)-1], c19stuck) {
				c.Flush()
				return // nothing more can be done with this client; the leak scan names the goroutine
			}
		}
		if err := loc.Close(); err != nil {
			c.Failf("direct: Local.Close: %v", err)
		}
		// the same over HTTP
		recH := &c19recorder{}
		bridge := jhttp.NewBridge(recH, nil)
		inp := &c19inproc{h: bridge}
		ch := jhttp.NewChannel("http://bridge.invalid/rpc", &jhttp.ChannelOptions{Client: inp})
		cli := jrpc2.NewClient(ch, nil)
		var obsH []string
		for _, op := range ops {
			obsH = append(obsH, c19applyBounded(c, ctrl, cli, op, "HTTP channel", names))
			if strings.HasPrefix(obsH[len(obsH)-1], c19stuck) {
				// the caller is beyond recall (typically inside Channel.Send, under the client's
				// mutex): every further operation, Close included, would queue up behind it on that
				// mutex, which a bubble cannot tell from work in progress
				c.Flush()
				return
			}
		}
		if err := cli.Close(); err != nil {
			c.Failf("http: Client.Close after %v: %v", names, err)
		}
		if err := bridge.Close(); err != nil {
			c.Failf("http: Bridge.Close after %v: %v", names, err)
		}
		ctrl.Settle()
		for i := range ops {
			if obsD[i] != obsH[i] {
				c.Failf("ops %v: op %d (%s) observed differently:\n direct: %s\n http:   %s", names, i, ops[i].name, obsD[i], obsH[i])
			}
			c.Count("h_ops_compared", 1)
		}
		sd, sh := recD.sorted(), recH.sorted()
		if strings.Join(sd, "\n") != strings.Join(sh, "\n") {
			c.Failf("ops %v: the handlers saw different requests:\n direct: %q\n http:   %q", names, sd, sh)
		}
		c.Count("h_handler_invocations", len(sh))
		if n := inp.open.Load(); n != 0 {
			c.Failf("ops %v: %d of %d HTTP response bodies were never closed (204 responses: %d) after Client.Close", names, n, inp.total.Load(), inp.status204.Load())
		}
		inp.count(c)
		if c.WantSample() && len(ops) > 1 {
			c.Sample(map[string]any{"ops": names, "observed_over_both_transports": obsH})
		}
	})
	c.Eval(1)
}

// ---------------------------------------------------------------------------
// H/fl, H/d: calls in flight when the client is closed.
// ---------------------------------------------------------------------------

// c19obs is the hook observer of the in-flight scenarios. A "delay" at a
// visit key is a bounded Gosched spin: Client.Close holds the client mutex
// while Channel.Close drains, deliver goroutines wait for that mutex, and a
// goroutine waiting for a mutex is not durably blocked - a virtual-time
// sleep at a hook would then never end. The reader hold is a durable block
// on a bubble channel that the scenario releases itself.
type c19obs struct {
	mu     sync.Mutex
	visits map[string]int
	trace  []string
	delays map[string]bool
	prob   float64
	rng    *rand.Rand
	spin   int

	holdArmed atomic.Bool
	holdCh    chan struct{}
	held      atomic.Int32
	parks     atomic.Int64
}

func c19newObs(delays []string, prob float64, rng *rand.Rand) *c19obs {
	o := &c19obs{visits: map[string]int{}, delays: map[string]bool{}, prob: prob, rng: rng, spin: 400}
	for _, d := range delays {
		o.delays[d] = true
	}
	return o
}

func c19delayable(site string) bool {
	return strings.HasPrefix(site, "hch.") || strings.HasPrefix(site, "cli.")
}

func (o *c19obs) visit(site string) {
	if site == "hch.recv.beforeWait" && o.holdArmed.Load() {
		o.held.Add(1)
		<-o.holdCh
		o.held.Add(-1)
	}
	if !c19delayable(site) {
		return
	}
	o.mu.Lock()
	k := o.visits[site]
	o.visits[site] = k + 1
	key := fmt.Sprintf("%s#%d", site, k)
	o.trace = append(o.trace, key)
	park := o.delays[key]
	if !park && o.rng != nil && o.prob > 0 {
		park = o.rng.Float64() < o.prob
	}
	o.mu.Unlock()
	if park {
		o.parks.Add(1)
		for i := 0; i < o.spin; i++ {
			runtime.Gosched()
		}
	}
}

func (o *c19obs) keys() []string {
	o.mu.Lock()
	defer o.mu.Unlock()
	return append([]string(nil), o.trace...)
}

type c19flight struct {
	k     int    // gated calls issued before Close
	notes int    // instant notifications before (204 path)
	mode  string // close-first | release-first | partial
	hold  bool   // the client's reader is held before its Recv from before Close until Close waits for it
}

func (f c19flight) String() string {
	return fmt.Sprintf("k=%d notes=%d mode=%s hold=%v", f.k, f.notes, f.mode, f.hold)
}

type c19callResult struct {
	tag string
	tok string
	err error
}

func c19tag(t string) map[string]string { return map[string]string{"t": t} }

func c19flightRun(c *vt.Ctx, f c19flight, obs *c19obs) {
	ctrl := sched.New().OnVisit(obs.visit)
	what := f.String()
	if len(obs.delays) > 0 {
		var ds []string
		for d := range obs.delays {
			ds = append(ds, d)
		}
		what += " delayed at " + strings.Join(ds, ",")
	}
	peer.Bubble(c, ctrl, func() {
		log := peer.NewLog()
		c.Attach(func() any {
			return map[string]any{"scenario": what, "hook_trace": obs.keys(), "handler_log": log.Dump()}
		})
		H := peer.NewHandlers(log)
		obs.holdCh = make(chan struct{})
		bridge := jhttp.NewBridge(H, nil)
		inp := &c19inproc{h: bridge}
		ch := jhttp.NewChannel("http://bridge.invalid/rpc", &jhttp.ChannelOptions{Client: inp})
		cli := jrpc2.NewClient(ch, nil)
		ctx := context.Background()
		ctrl.Settle() // the reader is inside its first Recv

		// Warm-up call. With hold, the reader is stopped when it comes back
		// to Recv after delivering this response.
		if f.hold {
			obs.holdArmed.Store(true)
		}
		var tok string
		if err := cli.CallResult(ctx, "i", c19tag("w"), &tok); err != nil || !strings.HasPrefix(tok, "w/") {
			c.Failf("%s: warm-up call over the HTTP channel: result %q, error %v", what, tok, err)
		}
		for n := 0; n < f.notes; n++ {
			if err := cli.Notify(ctx, "i", c19tag(fmt.Sprintf("n%d", n))); err != nil {
				c.Failf("%s: Notify over the HTTP channel: %v", what, err)
			}
		}
		ctrl.Settle()
		if f.hold && obs.held.Load() != 1 {
			c.Count("h_hold_not_reached", 1)
		}
		if got := log.Count("h.enter", "*"); got != 1+f.notes {
			c.Failf("%s: %d handler invocations after one call and %d notifications, want %d", what, got, f.notes, 1+f.notes)
		}
		if n := inp.open.Load(); n != 0 {
			c.Failf("%s: %d response bodies open at quiescence after one completed call and %d notifications (204 responses: %d)", what, n, f.notes, inp.status204.Load())
		}

		// k gated calls.
		results := make(chan c19callResult, f.k)
		for j := 0; j < f.k; j++ {
			tag := fmt.Sprintf("c%d", j)
			go func() {
				var tok string
				err := cli.CallResult(ctx, "g", c19tag(tag), &tok)
				results <- c19callResult{tag, tok, err}
			}()
		}
		ctrl.Settle()
		if got := log.Count("h.enter", "*"); got != 1+f.notes+f.k {
			c.Failf("%s: %d handler invocations after issuing %d gated calls, want %d", what, got, f.k, 1+f.notes+f.k)
		}
		returned := 0
		collect := func() {
			for {
				select {
				case r := <-results:
					returned++
					if r.err == nil && !strings.HasPrefix(r.tok, r.tag+"/") {
						c.Failf("%s: call %s returned the result %q of another invocation", what, r.tag, r.tok)
					}
					if r.err == nil {
						c.Count("h_calls_completed", 1)
					} else {
						c.Count("h_calls_failed_by_close", 1)
					}
				default:
					return
				}
			}
		}
		switch f.mode {
		case "partial":
			for j := 0; j < f.k/2; j++ {
				H.Release(fmt.Sprintf("c%d", j))
			}
			ctrl.Settle()
			collect()
		case "release-first":
			H.ReleaseAll() // responses race with Close
		}
		inflight := f.k - returned
		c.Count("h_inflight_at_close", inflight)

		closeDone := make(chan error, 1)
		closed := false
		// pollClose notes whether Client.Close has returned; from then on
		// nothing of the channel may be left, whatever the handlers do.
		pollClose := func(when string) {
			if !closed {
				select {
				case err := <-closeDone:
					closed = true
					if err != nil {
						c.Failf("%s: Client.Close: %v", what, err)
					}
				default:
					return
				}
			}
			if n := inp.open.Load(); n != 0 {
				c.Failf("%s: %s, Client.Close has returned and %d of %d HTTP response bodies are still open (%d calls were in flight at Close; closed by Close/Recv/Send: %d/%d/%d)",
					what, when, n, inp.total.Load(), inflight, inp.byClose.Load(), inp.byRecv.Load(), inp.bySend.Load())
			}
			var left []string
			for _, g := range peer.LeakScan() {
				if strings.Contains(g, "jhttp.(*Channel)") {
					left = append(left, g)
				}
			}
			if len(left) > 0 {
				c.Failf("%s: %s, Client.Close has returned and %d goroutine(s) of the HTTP channel are still there (%d handlers still running):\n%s",
					what, when, len(left), H.Running(), left[0])
			}
		}
		go func() { closeDone <- cli.Close() }()
		if f.mode != "release-first" {
			ctrl.Settle() // Close is now waiting for the in-flight requests (or has given them up)
			pollClose("before the handlers were released")
		}
		H.ReleaseAll()
		ctrl.Settle()
		pollClose("after the handlers returned")
		if f.hold {
			obs.holdArmed.Store(false)
			close(obs.holdCh)
			ctrl.Settle()
			pollClose("after the reader was let go")
		}
		if !closed {
			c.Failf("%s: Client.Close has not returned although every handler has returned", what)
		}
		collect()
		if returned != f.k {
			c.Failf("%s: %d of %d calls have not returned after Client.Close returned", what, f.k-returned, f.k)
		}
		if want := int64(1 + f.notes + f.k); inp.total.Load() != want {
			c.Failf("%s: the HTTP client saw %d requests, want %d (one POST per message)", what, inp.total.Load(), want)
		}
		if err := bridge.Close(); err != nil {
			c.Failf("%s: Bridge.Close: %v", what, err)
		}
		inp.count(c)
		c.Count("h_delays_taken", int(obs.parks.Load()))
	})
	c.Eval(1)
}

// c19rawRun drives a jhttp.Channel directly (no jrpc2.Client): k gated
// requests and some notifications are sent, r of the responses are received,
// then the channel is closed. From the moment Channel.Close has returned no
// goroutine of the channel and no open response body may exist, whether or
// not the handlers have returned.
func c19rawRun(c *vt.Ctx, k, r, notes int, obs *c19obs) {
	ctrl := sched.New().OnVisit(obs.visit)
	what := fmt.Sprintf("raw channel: %d requests sent, %d responses received, %d notifications, then Close", k, r, notes)
	peer.Bubble(c, ctrl, func() {
		log := peer.NewLog()
		c.Attach(func() any {
			return map[string]any{"scenario": what, "hook_trace": obs.keys(), "handler_log": log.Dump()}
		})
		H := peer.NewHandlers(log)
		bridge := jhttp.NewBridge(H, nil)
		inp := &c19inproc{h: bridge}
		ch := jhttp.NewChannel("http://bridge.invalid/rpc", &jhttp.ChannelOptions{Client: inp})
		for j := 0; j < k; j++ {
			if err := ch.Send([]byte(peer.Req(fmt.Sprint(j+1), "g", fmt.Sprintf("c%d", j)))); err != nil {
				c.Failf("%s: Send: %v", what, err)
			}
		}
		for j := 0; j < notes; j++ {
			if err := ch.Send([]byte(peer.Req("", "i", fmt.Sprintf("n%d", j)))); err != nil {
				c.Failf("%s: Send: %v", what, err)
			}
		}
		ctrl.Settle()
		if got := log.Count("h.enter", "*"); got != k+notes {
			c.Failf("%s: %d handler invocations, want %d", what, got, k+notes)
		}
		seen := map[string]bool{}
		for j := 0; j < r; j++ {
			H.Release(fmt.Sprintf("c%d", j))
			data, err := ch.Recv()
			if err != nil {
				c.Failf("%s: Recv %d: %v", what, j, err)
				continue
			}
			var rsp struct {
				ID     int    `json:"id"`
				Result string `json:"result"`
			}
			if err := json.Unmarshal(data, &rsp); err != nil || rsp.ID != j+1 || !strings.HasPrefix(rsp.Result, fmt.Sprintf("c%d/", j)) || seen[rsp.Result] {
				c.Failf("%s: Recv %d returned %q, want the response to request id %d (tag c%d)", what, j, data, j+1, j)
			}
			seen[rsp.Result] = true
			c.Count("h_raw_responses", 1)
		}
		ctrl.Settle()
		inflight := k - r
		c.Count("h_inflight_at_close", inflight)
		closeDone := make(chan error, 1)
		closed := false
		pollClose := func(when string) {
			if !closed {
				select {
				case err := <-closeDone:
					closed = true
					if err != nil {
						c.Failf("%s: Channel.Close: %v", what, err)
					}
				default:
					return
				}
			}
			if n := inp.open.Load(); n != 0 {
				c.Failf("%s: %s, Channel.Close has returned and %d of %d HTTP response bodies are still open (closed by Close/Recv/Send: %d/%d/%d)",
					what, when, n, inp.total.Load(), inp.byClose.Load(), inp.byRecv.Load(), inp.bySend.Load())
			}
			var left []string
			for _, g := range peer.LeakScan() {
				if strings.Contains(g, "jhttp.(*Channel)") {
					left = append(left, g)
				}
			}
			if len(left) > 0 {
				c.Failf("%s: %s, Channel.Close has returned and %d goroutine(s) of the channel are still there (%d handlers still running):\n%s",
					what, when, len(left), H.Running(), left[0])
			}
		}
		go func() { closeDone <- ch.Close() }()
		ctrl.Settle()
		pollClose("before the handlers were released")
		H.ReleaseAll()
		ctrl.Settle()
		pollClose("after the handlers returned")
		if !closed {
			c.Failf("%s: Channel.Close has not returned although every handler has returned", what)
		}
		if want := int64(k + notes); inp.total.Load() != want {
			c.Failf("%s: the HTTP client saw %d requests, want %d", what, inp.total.Load(), want)
		}
		if err := bridge.Close(); err != nil {
			c.Failf("%s: Bridge.Close: %v", what, err)
		}
		inp.count(c)
		c.Count("h_delays_taken", int(obs.parks.Load()))
	})
	c.Eval(1)
}

// c19sendCloseRun: messages are handed to Send and Close follows at once, from the
// same goroutine, with no quiescent point in between (a client that posts a
// notification and hangs up). When Close returns, every request goroutine must be
// done: no HTTP request may start afterwards (a goroutine that has not run yet
// counts), no response body may be open.
func c19sendCloseRun(c *vt.Ctx, calls, notes int, viaClient bool) {
	ctrl := sched.New()
	what := fmt.Sprintf("%d calls and %d notifications handed to Send, then Close at once (through a jrpc2.Client: %v)", calls, notes, viaClient)
	peer.Bubble(c, ctrl, func() {
		log := peer.NewLog()
		c.Attach(func() any { return map[string]any{"scenario": what, "handler_log": log.Dump()} })
		H := peer.NewHandlers(log)
		bridge := jhttp.NewBridge(H, nil)
		inp := &c19inproc{h: bridge}
		ch := jhttp.NewChannel("http://bridge.invalid/rpc", &jhttp.ChannelOptions{Client: inp})
		var closeErr error
		if viaClient {
			cli := jrpc2.NewClient(ch, nil)
			for j := 0; j < notes; j++ {
				if err := cli.Notify(context.Background(), "i", c19tag(fmt.Sprintf("n%d", j))); err != nil {
					c.Failf("%s: Notify: %v", what, err)
				}
			}
			closeErr = cli.Close()
		} else {
			for j := 0; j < calls+notes; j++ {
				id := ""
				if j%2 == 0 && j/2 < calls || j >= 2*notes {
					id = fmt.Sprint(j + 1)
				}
				if err := ch.Send([]byte(peer.Req(id, "i", fmt.Sprintf("m%d", j)))); err != nil {
					c.Failf("%s: Send: %v", what, err)
				}
			}
			closeErr = ch.Close()
		}
		// Close has returned; nothing has been allowed to settle since
		startedAtClose := inp.started.Load()
		if closeErr != nil {
			c.Failf("%s: Close: %v", what, closeErr)
		}
		if n := inp.open.Load(); n != 0 {
			c.Failf("%s: Close has returned and %d of %d HTTP response bodies are still open", what, n, inp.total.Load())
		}
		// (a request goroutine that has done its work and signalled so may still be
		// on its way out at this instant; one that has not issued its request yet
		// shows up below as a request started after Close)
		ctrl.Settle()
		if n := inp.started.Load(); n != startedAtClose {
			c.Failf("%s: %d HTTP request(s) were started after Close had returned (%d before)", what, n-startedAtClose, startedAtClose)
		}
		if n := inp.open.Load(); n != 0 {
			c.Failf("%s: at the end %d HTTP response bodies are open", what, n)
		}
		c.Count("h_sendclose_requests_seen", int(inp.started.Load()))
		if err := bridge.Close(); err != nil {
			c.Failf("%s: Bridge.Close: %v", what, err)
		}
		ctrl.Settle()
		inp.count(c)
	})
	c.Eval(1)
}

func c19casesH(e vt.Env, yield func(vt.Case) bool) bool {
	// H/sc: Send immediately followed by Close.
	if !yield(vt.Case{ID: "H/sc", Run: func(c *vt.Ctx) {
		for calls := 0; calls <= 3; calls++ {
			for notes := 0; notes <= 3; notes++ {
				for rep := 0; rep < e.Pick(3, 20) && !c.Failed(); rep++ {
					c19sendCloseRun(c, calls, notes, false)
					if calls == 0 && notes > 0 {
						c19sendCloseRun(c, 0, notes, true)
					}
				}
				c.Distinct(fmt.Sprintf("H/sc/%d/%d", calls, notes))
			}
		}
	}}) {
		return false
	}
	// H/eq: op sequences, direct vs HTTP.
	maxLen := e.Pick(2, 3)
	for first := range c19ops {
		first := first
		id := fmt.Sprintf("H/eq/L%d/%s", maxLen, c19ops[first].name)
		if !yield(vt.Case{ID: id, Run: func(c *vt.Ctx) {
			seqs(len(c19ops), 0, maxLen-1, func(idx []int) bool {
				ops := []c19op{c19ops[first]}
				for _, k := range idx {
					ops = append(ops, c19ops[k])
				}
				c19eqRun(c, ops)
				var names []string
				for _, op := range ops {
					names = append(names, op.name)
				}
				c.Distinct("Heq:" + join(names))
				return !c.Failed()
			})
		}}) {
			return false
		}
	}
	// H/long: one long-lived channel. Whatever a Send reserves (a goroutine, a slot, a body,
	// an entry) must be given back by the operation itself, or the N-th operation over the same
	// channel behaves differently from the first: long runs of notifications (answered 204, no
	// reply ever reaches Recv), of calls, and seeded mixtures of all operations, each followed by
	// calls, compared op by op with a direct connection.
	nLong := e.Pick(160, 700)
	for _, kind := range []string{"notes", "batch-notes", "calls", "mix0", "mix1", "mix2"} {
		kind := kind
		id := fmt.Sprintf("H/long/%s/%d", kind, nLong)
		if !yield(vt.Case{ID: id, Run: func(c *vt.Ctx) {
			rng := e.Rand("C19/" + id)
			byName := func(name string) c19op {
				for _, op := range c19ops {
					if op.name == name {
						return op
					}
				}
				panic("no op " + name)
			}
			var ops []c19op
			for i := 0; i < nLong; i++ {
				switch kind {
				case "notes":
					ops = append(ops, byName([]string{"notify", "notify", "notify", "notify-unknown"}[i%4]))
				case "batch-notes":
					ops = append(ops, byName("batch-notes"))
				case "calls":
					ops = append(ops, byName([]string{"call-echo-array", "call-rpcerr", "call-unknown", "batch-mixed"}[i%4]))
				default:
					if rng.IntN(2) == 0 {
						ops = append(ops, byName([]string{"notify", "batch-notes", "notify-unknown"}[rng.IntN(3)]))
					} else {
						ops = append(ops, c19ops[rng.IntN(len(c19ops))])
					}
				}
			}
			ops = append(ops, byName("call-echo-object"), byName("batch-one-call-one-note"), byName("call-strict"))
			c19eqRun(c, ops)
			c.Count("h_long_ops", len(ops))
			c.Distinct(id)
		}}) {
			return false
		}
	}
	// H/inv: batches with statically invalid members, direct vs HTTP.
	if !c19casesInv(e, yield) || !c19casesRawInv(e, yield) {
		return false
	}
	// H/fl: in-flight calls at Close, natural and perturbed schedules.
	modes := []string{"close-first", "release-first", "partial"}
	reps := e.Pick(4, 40)
	for k := 0; k <= 4; k++ {
		for _, notes := range []int{0, 2} {
			for _, mode := range modes {
				if mode == "partial" && k < 2 {
					continue
				}
				for _, hold := range []bool{false, true} {
					f := c19flight{k: k, notes: notes, mode: mode, hold: hold}
					id := fmt.Sprintf("H/fl/k%d/n%d/%s/hold=%v", k, notes, mode, hold)
					if !yield(vt.Case{ID: id, Run: func(c *vt.Ctx) {
						rng := e.Rand("C19/" + id)
						for r := 0; r < reps && !c.Failed(); r++ {
							p := 0.0
							if r > 0 {
								p = []float64{0.03, 0.1, 0.25}[r%3]
							}
							c19flightRun(c, f, c19newObs(nil, p, rng))
							c.Distinct(fmt.Sprintf("%s/r%d", id, r))
						}
						if c.WantSample() && f.k > 0 {
							c.Sample(map[string]any{"scenario": f.String(), "repetitions": reps})
						}
					}}) {
						return false
					}
				}
			}
		}
	}
	// H/raw: the channel alone, closed with requests in flight.
	for k := 0; k <= 4; k++ {
		for r := 0; r <= k; r++ {
			id := fmt.Sprintf("H/raw/k%d/r%d", k, r)
			if !yield(vt.Case{ID: id, Run: func(c *vt.Ctx) {
				rng := e.Rand("C19/" + id)
				for rep := 0; rep < reps && !c.Failed(); rep++ {
					p := 0.0
					if rep > 0 {
						p = []float64{0.03, 0.1, 0.25}[rep%3]
					}
					c19rawRun(c, k, r, rep%3, c19newObs(nil, p, rng))
					c.Distinct(fmt.Sprintf("%s/rep%d", id, rep))
				}
				if k-r > 0 {
					prof := c19newObs(nil, 0, nil)
					c19rawRun(c, k, r, 1, prof)
					sched.DelaySets(prof.keys(), 1, func(ds []string) bool {
						if !strings.HasPrefix(ds[0], "hch.") {
							return true
						}
						c19rawRun(c, k, r, 1, c19newObs(ds, 0, nil))
						c.Distinct(id + "/" + join(ds))
						return !c.Failed()
					})
				}
			}}) {
				return false
			}
		}
	}
	// H/d: one delay at every hch.* / cli.* hook visit of the scenario.
	ks := []int{1, 2, 3}
	if e.Thorough() {
		ks = []int{1, 2, 3, 4}
	}
	runs := e.Pick(1, 3)
	for _, k := range ks {
		for _, mode := range modes {
			if mode == "partial" && k < 2 {
				continue
			}
			for _, hold := range []bool{false, true} {
				f := c19flight{k: k, notes: 1, mode: mode, hold: hold}
				id := fmt.Sprintf("H/d/k%d/%s/hold=%v", k, mode, hold)
				if !yield(vt.Case{ID: id, Run: func(c *vt.Ctx) {
					prof := c19newObs(nil, 0, nil)
					c19flightRun(c, f, prof)
					if c.Failed() {
						return
					}
					sched.DelaySets(prof.keys(), 1, func(ds []string) bool {
						for r := 0; r < runs; r++ {
							c19flightRun(c, f, c19newObs(ds, 0, nil))
						}
						c.Distinct(id + "/" + join(ds))
						if c.WantSample() && f.k > 1 {
							c.Sample(map[string]any{"scenario": f.String(), "delayed_at": ds})
						}
						return !c.Failed()
					})
				}}) {
					return false
				}
			}
		}
	}
	return true
}
