package checks

import (
	"bytes"
	"errors"
	"fmt"

	"verif/harness/vt"
)

// (W) a transport that fails during some Sends.
//
// The writer below refuses every Write issued while a chosen Send is in
// progress, returning (0, error): not one byte of that record reaches the byte
// stream, however many Writes the framing uses per record. The sender carries
// on with the following records, as a caller that retries or skips would.
//
// Oracle: the receiving end sees exactly the records whose Send returned nil,
// byte for byte and in order, then io.EOF - a record whose Send reported the
// failure is not delivered later (a channel that keeps the bytes of a failed
// Send and emits them in front of the next record duplicates or resurrects
// records), and a record whose Send reported success is not lost. A framing
// that treats the first failure as final and fails every later Send as well is
// within the oracle: those records are then not expected. What is not within
// it is a Send that fails although the writer has never failed.

var c11errWrite = errors.New("c11: injected write failure (nothing written)")

type c11faultWC struct {
	buf          bytes.Buffer
	fail         bool
	failedWrites int
	closed       bool
}

func (w *c11faultWC) Write(p []byte) (int, error) {
	if w.fail {
		w.failedWrites++
		return 0, c11errWrite
	}
	return w.buf.Write(p)
}

func (w *c11faultWC) Close() error { w.closed = true; return nil }

func c11wCases(e vt.Env, yield func(vt.Case) bool) bool {
	n := e.Pick(10, 120)
	for _, fr := range c11framings() {
		fr := fr
		for k := 0; k < n; k++ {
			id := fmt.Sprintf("W/%s/%d", fr.name, k)
			if !yield(vt.Case{ID: id, Run: func(c *vt.Ctx) { c11w(c, e, fr, id) }}) {
				return false
			}
		}
	}
	return true
}

func c11w(c *vt.Ctx, e vt.Env, fr c11fr, id string) {
	rng := e.Rand("C11/" + id)
	nrec := 2 + rng.IntN(10)
	recs := make([][]byte, nrec)
	faulted := make([]bool, nrec)
	for i := range recs {
		var n int
		switch rng.IntN(6) {
		case 0:
			n = 0
		case 1:
			n = rng.IntN(4)
		case 2:
			n = 4090 + rng.IntN(12)
		case 3:
			n = rng.IntN(70000)
		default:
			n = rng.IntN(200)
		}
		recs[i] = c11legal(fr, n, rng)
		faulted[i] = rng.IntN(3) == 0
	}
	// at least one failure, and at least one of them followed by another Send
	faulted[rng.IntN(nrec-1)] = true

	var acct c11acct
	defer acct.flush(c)
	defer func() {
		if p := recover(); p != nil {
			c.Failf("%s: panic in Send/Close over a writer that fails: %v; records %s, failing Sends %v", fr.name, p, c11showRecs(recs), faulted)
		}
	}()
	w := &c11faultWC{}
	ch := fr.f(bytes.NewReader(nil), w)
	var want [][]byte
	var outcome []string
	anyFault := false
	for i, r := range recs {
		cp := make([]byte, len(r))
		copy(cp, r)
		w.fail = faulted[i]
		before, fw := w.buf.Len(), w.failedWrites
		err := ch.Send(cp)
		w.fail = false
		switch {
		case err == nil:
			want = append(want, r)
			outcome = append(outcome, "ok")
		case !anyFault && !faulted[i]:
			c.Failf("%s: Send of legal record #%d %s failed with %q although the writer has never failed", fr.name, i, c11showBytes(r), err.Error())
			return
		default:
			outcome = append(outcome, "err")
		}
		if faulted[i] {
			anyFault = true
			c.Count("w_sends_over_failing_writer", 1)
			if w.failedWrites > fw {
				c.Count("w_writes_failed", w.failedWrites-fw)
			}
			if w.buf.Len() != before {
				panic("c11faultWC accepted bytes while failing") // harness invariant
			}
			if err != nil {
				c.Count("w_failures_reported_by_send", 1)
			}
		}
	}
	if err := ch.Close(); err != nil {
		c.Failf("%s: Close failed: %v", fr.name, err)
		return
	}
	stream := append([]byte(nil), w.buf.Bytes()...)
	where := fmt.Sprintf("%s over a writer that failed (writing nothing) during Sends %v; Send outcomes %v; records %s", fr.name, c11faultIdx(faulted), outcome, c11showRecs(recs))
	for r := 0; r < 2; r++ {
		rd := &c11cutReader{data: stream}
		if r == 1 {
			rd.cuts = c11randomCuts(len(stream), rng)
			rd.eofWithLast = rng.IntN(2) == 0
		}
		acct.add(want, stream)
		acct.cutsets++
		if !c11decode(c, fr, rd, want) {
			c.Failf("the receiver of %s does not see exactly the records whose Send succeeded (%d of %d)", where, len(want), len(recs))
			return
		}
	}
	c.Count("w_records_delivered_after_a_failure", len(want))
	c.Distinct(id)
	if c.WantSample() {
		c.Sample(map[string]any{"framing": fr.name, "records": len(recs), "failing_sends": c11faultIdx(faulted), "send_outcomes": outcome, "delivered": len(want)})
	}
}

func c11faultIdx(f []bool) []int {
	var ix []int
	for i, b := range f {
		if b {
			ix = append(ix, i)
		}
	}
	return ix
}
