package checks

import (
	"bytes"
	"fmt"

	"github.com/creachadair/jrpc2/channel"

	"verif/harness/vt"
)

// C12 (splitbyte) — Split(b) for EVERY byte value b = 0x00..0xFF decoding
// streams in which the delimiter occurs as a raw byte next to the bytes that
// spell the code point U+00<b> in UTF-8 (C2 b for 0x80..0xBF, C3 b-0x40 for
// 0xC0..0xFF; for b < 0x80 the byte itself). The reference (c12splitRef) is
// the documented format: records are the runs between occurrences of the byte
// b; the delimiter is never part of a record; nothing else is a delimiter and
// nothing else is stripped; an unterminated final run is a record cut off by
// end of stream (error; whole or not at all).
//
// Streams per b: terminated and unterminated records made of
//   - every other byte value,
//   - the UTF-8 encoding of U+00<b> alone, as the end of a record, as the end of
//     the unterminated tail, repeated (for b in 0x80..0xBF and 0xC3 the encoding
//     contains b and so is itself split: "C2" | "" ... which the reference
//     handles like any other bytes),
//   - each byte of that encoding alone, the neighbours b-1, b+1, b^0x80,
//   - empty records (runs of delimiters), a record longer than the read buffer
//     that ends in the encoding,
// each stream at every truncation point (long ones: around every record
// boundary and the buffer size) x 4 chunkings.

func c12splitByteFr(b byte) c12fr {
	return c12fr{fmt.Sprintf("Split(0x%02X)", b), channel.Split(b), c12splitRef{b}, 's', ""}
}

func c12splitByteStreams(b byte, e vt.Env, id string) (short [][]byte, long [][]byte) {
	rng := e.Rand("C12/" + id)
	d := []byte{b}
	enc := c11utf8(b)
	var all []byte
	for v := 0; v < 256; v++ {
		if byte(v) != b {
			all = append(all, byte(v))
		}
	}
	cat := func(parts ...[]byte) []byte {
		var out []byte
		for _, p := range parts {
			out = append(out, p...)
		}
		return out
	}
	nb := []byte{b - 1, b + 1, b ^ 0x80}
	txt := []byte("caf\xc3\xa9")
	short = [][]byte{
		// abc | {"id":1} | "" | text+enc | z |     then an unterminated tail ending in enc
		cat([]byte("abc"), d, []byte(`{"id":1}`), d, d, txt, enc, d, []byte("z"), d, []byte("tail "), enc),
		// enc alone as a record, twice; its bytes apart; tail = enc only
		cat(enc, d, enc, enc, d, enc[:1], d, enc[len(enc)-1:], d, d, d, enc),
		// every other byte value, terminated; neighbours; unterminated neighbours
		cat(all, d, nb, d, nb),
		// delimiters only
		cat(d, d, d),
		// UTF-8 lead and continuation bytes around the delimiter
		cat([]byte{0xC2}, d, []byte{0xC3}, d, []byte{0x80}, d, []byte{0xBF}, d, []byte{0xC2, 0xC3}, d, []byte{0xC3}),
		// the tail is one byte of the encoding / ends in a lone lead byte
		cat([]byte("x"), d, enc[:1]),
		cat([]byte("x"), d, []byte("y"), enc[len(enc)-1:]),
	}
	// seeded: records over {a, enc bytes, neighbours}, random count, tail or not
	for k := 0; k < 3; k++ {
		var s []byte
		for i, n := 0, 1+rng.IntN(5); i < n; i++ {
			for j, m := 0, rng.IntN(6); j < m; j++ {
				s = append(s, [][]byte{[]byte("a"), enc, enc[:1], enc[len(enc)-1:], nb[:1], nb[1:2], nb[2:]}[rng.IntN(7)]...)
			}
			if i < n-1 || rng.IntN(2) == 0 {
				s = append(s, b)
			}
		}
		short = append(short, s)
	}
	// longer than the 4096-byte read buffer: made of the encoding's bytes and
	// ending in the encoding, terminated / unterminated
	sp := enc
	if b >= 0x80 {
		sp = c11splitSpelling(b)
	} else {
		sp = []byte{b ^ 1, b ^ 2}
	}
	for _, n := range []int{4094, 4095, 4096, 4097, 9001} {
		body := append(bytes.Repeat(sp, n/2), sp[:n%2]...)
		long = append(long,
			cat(body, d, []byte("ab"), d),
			cat([]byte("ab"), d, body, d, body),
		)
	}
	return short, long
}

func c12splitByte(c *vt.Ctx, e vt.Env, b byte, id string) {
	fr := c12splitByteFr(b)
	a := newC12acct(c, fr, "splitbyte")
	defer a.flush()
	short, long := c12splitByteStreams(b, e, id)
	modes := []c12mode{{with: true}, {}, {max: 1}, {max: 3, with: true}}
	for _, s := range short {
		for t := 0; t <= len(s); t++ {
			if !a.input(s[:t:t], modes) {
				return
			}
		}
	}
	for _, s := range long {
		points := map[int]bool{len(s): true}
		for pos := 0; pos < len(s); {
			exp := fr.ref.next(s, pos)
			end := len(s)
			if exp.kind == c12Record {
				end = exp.next
			}
			for d := -3; d <= 3; d++ {
				points[pos+d], points[end+d] = true, true
			}
			pos = end
		}
		for _, p := range []int{4095, 4096, 4097, 8192} {
			points[p], points[len(s)-p] = true, true
		}
		for t := 0; t <= len(s); t++ {
			if points[t] && !a.input(s[:t:t], modes[:2]) {
				return
			}
		}
	}
	c.Count("split_bytes_covered", 1)
	if b >= 0x80 {
		c.Count("split_bytes_non_ascii", 1)
		c.Count("records_decoded_non_ascii_split", a.records)
		c.Count("cut_off_final_records_non_ascii_split", a.tails)
	}
}
