package checks

import (
	"context"
	"encoding/json"
	"errors"
	"fmt"
	"sort"
	"strings"
	"time"

	"github.com/creachadair/jrpc2"

	"verif/harness/peer"
	"verif/harness/sched"
	"verif/harness/vchan"
	"verif/harness/vt"
)

// C09 — server push: Notify/Callback delivery, matching, timeout, shutdown.
//
// A real push-enabled server faces a raw scripted client. Histories over
// {Callback in slot 1|2 (from outside; slot 2 with a deadline), a notification
// whose handler awaits a Callback (slot 3, dispatch parked meanwhile), Notify,
// reply / error reply to a slot (also late, duplicate, never-issued ids),
// cancel a slot's context, let the deadline pass (virtual time), a client batch
// with ids 1 and 2 — colliding with callback ids — and its release, Stop} are run with
// a settle after every operation. A sequential reference model says, after
// every operation: which Callback invocations have returned and with what
// (the token of the first reply sent for their id, *Error for an error reply,
// the context's own error, some error on stop), the exact multiset of records
// the server may have emitted (one request per push, the client call's own
// response, and nothing else — in particular nothing bearing a stale reply's
// id), and the set of outstanding callback ids (VerifSnapshot). Racing
// operations issue reply and cancel / stop without a settle in between and
// admit either outcome, once.

type c09op struct {
	kind string // cb, ncb, notify, reply, err, unk, cancel, tmo, call, rel, stop, race, racestop
	slot int
}

func (o c09op) String() string {
	if o.slot > 0 {
		return fmt.Sprintf("%s%d", o.kind, o.slot)
	}
	return o.kind
}

func c09alphabet() []c09op {
	return []c09op{
		{"cb", 1}, {"cb", 2}, {"ncb", 3}, {"notify", 0},
		{"reply", 1}, {"reply", 2}, {"reply", 3}, {"err", 1}, {"unk", 0},
		{"cancel", 1}, {"cancel", 2}, {"tmo", 0},
		{"call", 0}, {"rel", 0}, {"stop", 0},
		{"cbfail", 1}, {"burst", 0}, {"replyall", 0}, {"respell", 1},
	}
}

type c09inst struct {
	n        int
	wireID   string // learnt from the wire once the request was transmitted
	started  bool   // Callback has been invoked
	done     bool   // the model says it must have returned
	outcome  []string
	deadline bool
	cancel   context.CancelFunc
	// lingering: the request could not be transmitted; Callback has returned, but
	// the server may keep its bookkeeping entry until the caller's context ends
	lingering bool
}

type c09world struct {
	c       *vt.Ctx
	rig     *peer.ServerRig
	insts   []*c09inst
	slots   map[int]*c09inst
	expect  []string // canonical outbound records expected so far (multiset)
	tokens  int
	stopped bool
	call    struct{ sent, released, answered bool }
}

func (w *c09world) log() *peer.Log { return w.rig.Log }

func c09canon(rec []byte) string {
	ms, isArr, err := peer.Decode(rec)
	if err != nil {
		return "undecodable:" + string(rec)
	}
	var parts []string
	for _, m := range ms {
		switch {
		case m.Method != "":
			parts = append(parts, fmt.Sprintf("request id=%s method=%s", m.ID, m.Method))
		case m.Error != nil:
			parts = append(parts, fmt.Sprintf("response id=%s error=%d", m.ID, m.Error.Code))
		default:
			tok := m.ResultToken()
			if i := strings.LastIndexByte(tok, '/'); i >= 0 {
				tok = tok[:i]
			}
			parts = append(parts, fmt.Sprintf("response id=%s result=%s", m.ID, tok))
		}
	}
	s := strings.Join(parts, " | ")
	if isArr {
		s = "[" + s + "]"
	}
	return s
}

func c09describe(rsp *jrpc2.Response, err error) string {
	if err != nil {
		var je *jrpc2.Error
		switch {
		case err == context.Canceled:
			return "ctx:canceled"
		case err == context.DeadlineExceeded:
			return "ctx:deadline"
		case err == jrpc2.ErrConnClosed:
			return "connclosed"
		case err == jrpc2.ErrPushUnsupported:
			return "unsupported"
		case errors.As(err, &je):
			return fmt.Sprintf("jerr:%d:%s", je.Code, je.Message)
		default:
			return "err:" + err.Error()
		}
	}
	var s string
	if e := rsp.UnmarshalResult(&s); e != nil {
		return "badresult:" + rsp.ResultString()
	}
	return "ok:" + s
}

func (w *c09world) newInst(slot int) *c09inst {
	in := &c09inst{n: len(w.insts) + 1}
	w.insts = append(w.insts, in)
	w.slots[slot] = in
	return in
}

// learn finds the request an instance transmitted and records its wire id.
func (w *c09world) learn(in *c09inst) {
	for _, rec := range w.rig.Outbound() {
		ms, _, err := peer.Decode(rec)
		if err != nil || len(ms) != 1 || ms[0].Method != "cb" || len(ms[0].ID) == 0 {
			continue
		}
		var p struct{ N int }
		json.Unmarshal(ms[0].Params, &p)
		if p.N != in.n {
			continue
		}
		id := string(ms[0].ID)
		for _, other := range w.insts {
			if other != in && !other.done && other.wireID == id {
				w.c.Failf("callback #%d was issued with id %s, which callback #%d still has outstanding", in.n, id, other.n)
			}
		}
		in.wireID = id
		w.expect = append(w.expect, fmt.Sprintf("request id=%s method=cb", id))
		return
	}
	w.c.Failf("Callback #%d did not transmit a request with an id (records so far: %q)", in.n, w.rig.Outbound())
}

func (w *c09world) token() string { w.tokens++; return fmt.Sprintf("R%d", w.tokens) }

// progress accounts for effects that depend on dispatch progress: a queued
// callback-issuing notification starts once dispatch is free; the client call
// is answered once it has run and been released.
func (w *c09world) progress() {
	for _, in := range w.insts {
		if !in.started && w.log().Count("nc.enter", fmt.Sprint(in.n)) > 0 {
			in.started = true
			if w.stopped {
				in.done, in.outcome = true, []string{"connclosed"}
			} else {
				w.learn(in)
			}
		}
	}
	if w.call.sent && w.call.released && !w.call.answered && w.log().Count("h.exit", "clientcall") > 0 && w.log().Count("h.exit", "clientcall2") > 0 {
		const answer = "[response id=1 result=clientcall | response id=2 result=clientcall2]"
		if !w.stopped {
			w.call.answered = true
			w.expect = append(w.expect, answer)
		} else {
			// the handlers finished in the step in which the server was stopped (a
			// reply racing with Stop let the notification ahead of them return):
			// their answer may have been sent before the stop took effect, or not
			for _, rec := range w.rig.Outbound() {
				if c09canon(rec) == answer {
					w.call.answered = true
					w.expect = append(w.expect, answer)
					break
				}
			}
		}
	}
}

// check settles and compares the observable state with the model.
func (w *c09world) check(when string) {
	w.rig.Settle()
	w.progress()
	c := w.c
	for _, in := range w.insts {
		rets := w.log().Find("api.ret", fmt.Sprintf("cb#%d", in.n))
		switch {
		case len(rets) > 1:
			c.Failf("%s: Callback #%d returned %d times", when, in.n, len(rets))
		case len(rets) == 1 && !in.done:
			c.Failf("%s: Callback #%d (id %s) returned %q although neither a reply for its id, nor the end of its context, nor a stop has occurred", when, in.n, in.wireID, rets[0].Info)
		case len(rets) == 0 && in.done && in.started:
			c.Failf("%s: Callback #%d (id %s) has not returned; want one of %q", when, in.n, in.wireID, in.outcome)
		case len(rets) == 1:
			ok := false
			for _, o := range in.outcome {
				if o == rets[0].Info || (strings.HasSuffix(o, "*") && strings.HasPrefix(rets[0].Info, strings.TrimSuffix(o, "*"))) {
					ok = true
				}
			}
			if !ok {
				c.Failf("%s: Callback #%d (id %s) returned %q, want one of %q", when, in.n, in.wireID, rets[0].Info, in.outcome)
			}
		}
	}
	var got []string
	for _, rec := range w.rig.Outbound() {
		got = append(got, c09canon(rec))
	}
	want := append([]string(nil), w.expect...)
	sort.Strings(got)
	sort.Strings(want)
	if strings.Join(got, "\n") != strings.Join(want, "\n") {
		c.Failf("%s: records emitted by the server differ from what the pushes and calls account for.\n got:  %q\n want: %q", when, got, want)
	}
	if !w.stopped {
		var outst []string
		for _, in := range w.insts {
			if in.started && !in.done && in.wireID != "" {
				outst = append(outst, in.wireID)
			}
		}
		sort.Strings(outst)
		linger := 0
		for _, in := range w.insts {
			if in.lingering {
				linger++
			}
		}
		snap := w.rig.Srv.VerifSnapshot()
		have := map[string]bool{}
		for _, id := range snap.Callbacks {
			have[id] = true
		}
		missing := false
		for _, id := range outst {
			missing = missing || !have[id]
		}
		if missing || len(snap.Callbacks) < len(outst) || len(snap.Callbacks) > len(outst)+linger {
			c.Failf("%s: outstanding callback ids are %v, the model says %v (+ at most %d entries of callbacks whose request could not be sent and whose context is still live)", when, snap.Callbacks, outst, linger)
		}
	}
}

func (w *c09world) sendReply(in *c09inst, slot int, isErr bool) (tok string, hit bool) {
	id := fmt.Sprint(900 + slot)
	if in != nil && in.wireID != "" {
		id = in.wireID
	}
	tok = w.token()
	if isErr {
		if len(tok)%2 == 0 {
			// a failure reply spelt the way JSON-RPC 1.0 peers do, with an explicit null result
			w.rig.Send(fmt.Sprintf(`{"jsonrpc":"2.0","id":%s,"result":null,"error":{"code":-5,"message":%q}}`, id, tok))
		} else {
			w.rig.Send(fmt.Sprintf(`{"jsonrpc":"2.0","id":%s,"error":{"code":-5,"message":%q}}`, id, tok))
		}
	} else {
		w.rig.Send(fmt.Sprintf(`{"jsonrpc":"2.0","id":%s,"result":%q}`, id, tok))
	}
	return tok, in != nil && in.wireID != "" && in.started && !in.done && !w.stopped
}

func (w *c09world) markStopped() {
	w.stopped = true
	for _, in := range w.insts {
		if in.started && !in.done {
			in.done = true
			in.outcome = append(in.outcome, "connclosed", "err:*", "ctx:canceled")
		}
	}
}

func (w *c09world) apply(op c09op) {
	rig := w.rig
	switch op.kind {
	case "cb":
		in := w.newInst(op.slot)
		// contexts carry custom causes: Callback must still report the context's
		// own error (context.Canceled / DeadlineExceeded), not the cause
		cctx, ccancel := context.WithCancelCause(context.Background())
		ctx, cancel := context.Context(cctx), context.CancelFunc(func() { ccancel(errors.New("operator gave up")) })
		if op.slot == 2 {
			tctx, tcancel := context.WithTimeoutCause(cctx, time.Second, errors.New("prompt timed out"))
			ctx = tctx
			cancel = func() { tcancel(); ccancel(errors.New("operator gave up")) }
			in.deadline = true
		}
		in.cancel = cancel
		in.started = true
		tag := fmt.Sprintf("cb#%d", in.n)
		go func() {
			rsp, err := rig.Srv.Callback(ctx, "cb", map[string]int{"n": in.n})
			w.log().Add("api.ret", tag, c09describe(rsp, err))
		}()
		rig.Settle()
		if w.stopped {
			in.done, in.outcome = true, []string{"connclosed"}
		} else {
			w.learn(in)
		}
	case "cbfail": // a Callback whose request cannot be transmitted (the channel's Send fails once)
		in := w.newInst(op.slot)
		ctx, cancel := context.WithCancel(context.Background())
		in.cancel = cancel
		in.started = true
		if !w.stopped {
			sends, _, _ := rig.End.Counts()
			rig.End.AddFault(vchan.Fault{Op: vchan.OpSend, N: int(sends) + 1, Err: peer.ErrRigFault})
		}
		tag := fmt.Sprintf("cb#%d", in.n)
		go func() {
			rsp, err := rig.Srv.Callback(ctx, "cb", map[string]int{"n": in.n})
			w.log().Add("api.ret", tag, c09describe(rsp, err))
		}()
		rig.Settle()
		in.done = true
		if w.stopped {
			in.outcome = []string{"connclosed"}
		} else {
			in.outcome = []string{"err:*"} // the transmission error; nothing reached the wire
			in.lingering = true
		}
	case "burst": // three Notify and one Callback issued at the same moment
		if w.stopped {
			break
		}
		in := w.newInst(2)
		ctx, cancel := context.WithCancel(context.Background())
		in.cancel = cancel
		in.started = true
		tag := fmt.Sprintf("cb#%d", in.n)
		for k := 0; k < 3; k++ {
			go func() {
				if err := rig.Srv.Notify(context.Background(), "note", []int{1}); err != nil {
					w.c.Failf("concurrent Notify returned %v", err)
				}
			}()
		}
		go func() {
			rsp, err := rig.Srv.Callback(ctx, "cb", map[string]int{"n": in.n})
			w.log().Add("api.ret", tag, c09describe(rsp, err))
		}()
		rig.Settle()
		w.learn(in)
		w.expect = append(w.expect, "request id= method=note", "request id= method=note", "request id= method=note")
	case "ncb":
		if !w.stopped {
			in := w.newInst(3)
			rig.Send(fmt.Sprintf(`{"jsonrpc":"2.0","method":"nc","params":{"n":%d}}`, in.n))
		}
	case "notify":
		err := rig.Srv.Notify(context.Background(), "note", []int{1})
		if w.stopped {
			if err != jrpc2.ErrConnClosed {
				w.c.Failf("Notify after the connection ended returned %v, want ErrConnClosed", err)
			}
		} else {
			if err != nil {
				w.c.Failf("Notify returned %v", err)
			}
			w.expect = append(w.expect, "request id= method=note")
		}
	case "reply", "err":
		in := w.slots[op.slot]
		tok, hit := w.sendReply(in, op.slot, op.kind == "err")
		if hit {
			in.done = true
			if op.kind == "reply" {
				in.outcome = []string{"ok:" + tok}
			} else {
				in.outcome = []string{"jerr:-5:" + tok}
			}
		}
	case "respell":
		// a reply whose id denotes the same number as an outstanding callback's id in another
		// spelling (1.0, 1e0) or as a JSON string ("1"): ids are compared as texts, it bears no outstanding id and
		// completes nothing
		if in := w.slots[op.slot]; in != nil && in.wireID != "" {
			rig.Send(fmt.Sprintf(`[{"jsonrpc":"2.0","id":%s.0,"result":%q},{"jsonrpc":"2.0","id":%se0,"error":{"code":-5,"message":"x"}},{"jsonrpc":"2.0","id":"%s","result":%q}]`, in.wireID, w.token(), in.wireID, in.wireID, w.token()))
		}
	case "replyall":
		// one batch record answering every outstanding callback, replies side by side, with
		// a reply nobody waits for at either end
		parts := []string{fmt.Sprintf(`{"jsonrpc":"2.0","id":778,"result":%q}`, w.token())}
		for _, in := range w.insts {
			if in.wireID != "" && in.started && !in.done && !w.stopped {
				tok := w.token()
				parts = append(parts, fmt.Sprintf(`{"jsonrpc":"2.0","id":%s,"result":%q}`, in.wireID, tok))
				in.done, in.outcome = true, []string{"ok:" + tok}
			}
		}
		parts = append(parts, fmt.Sprintf(`{"jsonrpc":"2.0","id":779,"error":{"code":-5,"message":%q}}`, w.token()))
		rig.Send("[" + strings.Join(parts, ",") + "]")
	case "unk":
		rig.Send(fmt.Sprintf(`{"jsonrpc":"2.0","id":777,"result":%q}`, w.token()))
	case "cancel":
		if in := w.slots[op.slot]; in != nil && in.cancel != nil {
			in.cancel()
			in.lingering = false
			if !in.done {
				in.done, in.outcome = true, []string{"ctx:canceled"}
			}
		}
	case "tmo":
		time.Sleep(2 * time.Second) // virtual time: deadlines pass
		for _, in := range w.insts {
			if in.deadline && !in.done {
				in.done, in.outcome = true, []string{"ctx:deadline"}
			}
		}
	case "call":
		if !w.call.sent && !w.stopped {
			w.call.sent = true
			rig.Send("[" + peer.Req("1", "g", "clientcall") + "," + peer.Req("2", "g", "clientcall2") + "]")
		}
	case "rel":
		if w.call.sent && !w.call.released {
			w.call.released = true
			rig.H.Release("clientcall")
			rig.H.Release("clientcall2")
		}
	case "stop":
		rig.Srv.Stop()
		w.markStopped()
	case "race": // reply and cancel race
		in := w.slots[op.slot]
		tok, hit := w.sendReply(in, op.slot, false)
		delivered := false
		if w.rig.Ctrl.HasDelays() {
			w.rig.Ctrl.Quiesce()
			// If the server has already matched the reply to the callback (its id is no longer
			// outstanding, though Callback's goroutine may still be parked on its way out), the
			// reply came first: the cancellation that follows cannot change what Callback reports.
			if hit && !w.stopped {
				delivered = true
				for _, id := range w.rig.Srv.VerifSnapshot().Callbacks {
					if id == in.wireID {
						delivered = false
					}
				}
			}
		}
		canCancel := in != nil && in.cancel != nil
		if canCancel {
			in.cancel()
		}
		if in != nil && !in.done && (hit || canCancel) {
			in.done, in.outcome = true, nil
			if hit {
				in.outcome = append(in.outcome, "ok:"+tok)
			}
			if canCancel && !delivered {
				in.outcome = append(in.outcome, "ctx:canceled")
			}
			if delivered {
				w.c.Count("races_decided_by_delivery_before_cancel", 1)
			}
		}
	case "racestop": // reply and Stop race
		in := w.slots[op.slot]
		tok, hit := w.sendReply(in, op.slot, false)
		if hit {
			in.outcome = append(in.outcome, "ok:"+tok)
		}
		if rig.Ctrl.HasDelays() {
			rig.Ctrl.Quiesce()
		}
		rig.Srv.Stop()
		w.markStopped()
	}
}

func c09exec(c *vt.Ctx, hist []c09op, pipeLike bool, ctrl *sched.Controller) {
	peer.Bubble(c, ctrl, func() {
		w := &c09world{c: c, slots: map[int]*c09inst{}}
		w.rig = peer.NewServerRig(c, ctrl, peer.ServerOpts{AllowPush: true, Concurrency: 4, PipeLike: pipeLike})
		rig := w.rig
		rig.H.Extra = map[string]jrpc2.Handler{
			"nc": func(ctx context.Context, req *jrpc2.Request) (any, error) {
				var p struct{ N int }
				req.UnmarshalParams(&p)
				rig.Log.Add("nc.enter", fmt.Sprint(p.N), "")
				rsp, err := jrpc2.ServerFromContext(ctx).Callback(ctx, "cb", map[string]int{"n": p.N})
				rig.Log.Add("api.ret", fmt.Sprintf("cb#%d", p.N), c09describe(rsp, err))
				return nil, nil
			},
		}
		for k, op := range hist {
			w.apply(op)
			w.check(fmt.Sprintf("after op %d %s", k, op))
			if c.Failed() {
				break
			}
		}
		// teardown: end every context, open the gate, stop, then the closed-connection clause
		for _, in := range w.insts {
			if in.cancel != nil {
				in.cancel()
				in.lingering = false
				if !in.done {
					in.done, in.outcome = true, []string{"ctx:canceled"}
				}
			}
		}
		w.apply(c09op{kind: "rel"})
		if !c.Failed() {
			w.check("after cancelling every context")
		}
		rig.Srv.Stop()
		w.markStopped()
		rig.H.ReleaseAll()
		if _, ok := rig.Finish(); !ok {
			c.Failf("server did not exit")
		}
		if !c.Failed() {
			w.check("after stop")
		}
		if err := rig.Srv.Notify(context.Background(), "late", nil); err != jrpc2.ErrConnClosed {
			c.Failf("Notify after the connection ended returned %v, want ErrConnClosed", err)
		}
		if _, err := rig.Srv.Callback(context.Background(), "late", nil); err != jrpc2.ErrConnClosed {
			c.Failf("Callback after the connection ended returned %v, want ErrConnClosed", err)
		}
		for _, in := range w.insts {
			if n := rig.Log.Count("api.ret", fmt.Sprintf("cb#%d", in.n)); in.started && n != 1 {
				c.Failf("Callback #%d returned %d times by the end", in.n, n)
			}
		}
		c.Count("events", rig.Log.Len())
		c.Count("callbacks", len(w.insts))
		c.Count("records_emitted", len(rig.Outbound()))
	})
	c.Eval(1)
}

// c09nopush checks the clause for servers without AllowPush.
func c09nopush(c *vt.Ctx) {
	ctrl := sched.New()
	peer.Bubble(c, ctrl, func() {
		rig := peer.NewServerRig(c, ctrl, peer.ServerOpts{AllowPush: false})
		if err := rig.Srv.Notify(context.Background(), "x", nil); err != jrpc2.ErrPushUnsupported {
			c.Failf("Notify without AllowPush returned %v", err)
		}
		if _, err := rig.Srv.Callback(context.Background(), "x", nil); err != jrpc2.ErrPushUnsupported {
			c.Failf("Callback without AllowPush returned %v", err)
		}
		rig.Settle()
		if out := rig.Outbound(); len(out) != 0 {
			c.Failf("push without AllowPush transmitted %q", out)
		}
		rig.Finish()
		if err := rig.Srv.Notify(context.Background(), "x", nil); err != jrpc2.ErrPushUnsupported {
			c.Failf("Notify without AllowPush after stop returned %v", err)
		}
	})
	c.Eval(1)
}

func c09hsig(h []c09op) string {
	var p []string
	for _, o := range h {
		p = append(p, o.String())
	}
	return strings.Join(p, " ")
}

// non-trivial: a callback is issued and something is addressed to it afterwards
func c09nontrivial(h []c09op) bool {
	issued := false
	for _, o := range h {
		switch o.kind {
		case "cb", "ncb", "cbfail", "burst":
			issued = true
		case "reply", "err", "cancel", "tmo", "stop", "race", "racestop", "replyall":
			if issued {
				return true
			}
		}
	}
	return false
}

func init() {
	vt.Register(&vt.Check{
		Prop:  "C09",
		Level: "exploration",
		Rule: "histories over {Callback slot 1, Callback slot 2 with deadline, notification whose handler awaits a Callback (slot 3), Notify, reply/error-reply to a slot (late, duplicate, unknown ids included), cancel slot, " +
			"deadline passes, client call with id 1 and its release, Stop, a Callback whose request cannot be transmitted, a burst of three Notify and one Callback issued at once, reply||cancel, reply||Stop}: all histories up to length 3 (4 in thorough) plus seeded longer ones, settle + reference model after every operation; " +
			"delay-bounded schedules and seeded perturbation on top; R: k callbacks pending when the connection ends (Stop / peer close), the server restarted on a fresh channel the moment WaitStatus has returned (goroutines parked at the callback sites still parked), a new callback issued and answered there. distinct_nontrivial = distinct (history, channel flavour, delay set) in which a callback is issued and later addressed by a reply, cancel, deadline or stop",
		Assumptions: []string{
			"Go 1.26.8 runtime and testing/synctest (virtual time for deadlines, quiescence for absence)",
			"when the server stops with a callback outstanding any non-nil error is admissible for that Callback",
		},
		Require: map[string]int64{"callbacks": 500, "records_emitted": 500, "callbacks_pending_at_restart": 50, "restarts_with_goroutines_still_parked": 10},
		Cases:   c09cases,
	})
}

func c09cases(e vt.Env, yield func(vt.Case) bool) {
	alpha := c09alphabet()
	if !yield(vt.Case{ID: "nopush", Run: func(c *vt.Ctx) { c09nopush(c); c.Distinct("nopush") }}) {
		return
	}
	if !c09restartCases(e, yield) {
		return
	}
	exhLen := e.Pick(3, 4)
	for a := range alpha {
		for b := -1; b < len(alpha); b++ {
			a, b := a, b
			id := fmt.Sprintf("E1/%s", alpha[a])
			if b >= 0 {
				id += " " + alpha[b].String() + " *"
			}
			if !yield(vt.Case{ID: id, Run: func(c *vt.Ctx) {
				if b < 0 {
					c09exec(c, []c09op{alpha[a]}, true, sched.New())
					return
				}
				seqs(len(alpha), 0, exhLen-2, func(idx []int) bool {
					h := []c09op{alpha[a], alpha[b]}
					for _, k := range idx {
						h = append(h, alpha[k])
					}
					pipe := vt.Hash64(c09hsig(h))%2 == 0
					c09exec(c, h, pipe, sched.New())
					if c09nontrivial(h) {
						c.Distinct(c09hsig(h))
						if c.WantSample() && len(h) >= 3 {
							c.Sample(map[string]any{"history": c09hsig(h), "close_unblocks_recv": pipe})
						}
					}
					return !c.Failed()
				})
			}}) {
				return
			}
		}
	}
	// S: every history up to length 4 over a small alphabet around a Callback whose send failed
	small := []c09op{{"cbfail", 1}, {"cb", 2}, {"cb", 1}, {"cancel", 1}, {"reply", 2}, {"reply", 1}, {"burst", 0}, {"replyall", 0}, {"respell", 1}}
	for a := range small {
		a := a
		id := fmt.Sprintf("S/%s *", small[a])
		if !yield(vt.Case{ID: id, Run: func(c *vt.Ctx) {
			seqs(len(small), 0, 3, func(idx []int) bool {
				h := []c09op{small[a]}
				for _, k := range idx {
					h = append(h, small[k])
				}
				c09exec(c, h, len(idx)%2 == 0, sched.New())
				if c09nontrivial(h) {
					c.Distinct("S:" + c09hsig(h))
				}
				return !c.Failed()
			})
		}}) {
			return
		}
	}
	full := append(append([]c09op(nil), alpha...), c09op{"race", 1}, c09op{"race", 2}, c09op{"race", 3}, c09op{"racestop", 1}, c09op{"racestop", 3})
	rng := e.Rand("C09/E1x")
	for i := 0; i < e.Pick(1500, 30000); i++ {
		n := exhLen + 1 + rng.IntN(4)
		h := make([]c09op, n)
		for k := range h {
			h[k] = full[rng.IntN(len(full))]
		}
		pipe := rng.IntN(2) == 0
		id := fmt.Sprintf("E1x/%d/%v/%s", i, pipe, c09hsig(h))
		if !yield(vt.Case{ID: id, Run: func(c *vt.Ctx) {
			c09exec(c, h, pipe, sched.New())
			if c09nontrivial(h) {
				c.Distinct(id)
			}
		}}) {
			return
		}
	}
	// E2: delay-bounded schedules, racing operations included
	rng = e.Rand("C09/E2")
	d := e.Pick(1, 2)
	for i := 0; i < e.Pick(200, 800); i++ {
		n := 3 + rng.IntN(3)
		h := make([]c09op, n)
		for k := range h {
			h[k] = full[rng.IntN(len(full))]
		}
		if !c09nontrivial(h) {
			continue
		}
		dd := d
		if dd == 2 && i%6 != 0 {
			dd = 1
		}
		pipe := rng.IntN(2) == 0
		id := fmt.Sprintf("E2/%d/%v/%s/d%d", i, pipe, c09hsig(h), dd)
		if !yield(vt.Case{ID: id, Run: func(c *vt.Ctx) {
			prof := sched.New()
			c09exec(c, h, pipe, prof)
			if c.Failed() {
				return
			}
			sched.DelaySets(prof.Keys(), dd, func(ds []string) bool {
				c09exec(c, h, pipe, sched.New().WithDelays(ds...))
				c.Distinct(id + "/" + join(ds))
				return !c.Failed()
			})
		}}) {
			return
		}
	}
	rng = e.Rand("C09/E3")
	for i := 0; i < e.Pick(200, 4000); i++ {
		n := 5 + rng.IntN(10)
		h := make([]c09op, n)
		for k := range h {
			h[k] = full[rng.IntN(len(full))]
		}
		p := []float64{0.02, 0.05, 0.1, 0.2}[rng.IntN(4)]
		pipe := rng.IntN(2) == 0
		id := fmt.Sprintf("E3/%d/%v/p%.2f/%s", i, pipe, p, c09hsig(h))
		if !yield(vt.Case{ID: id, Run: func(c *vt.Ctx) {
			c09exec(c, h, pipe, sched.New().WithPerturb(p, e.Rand(id)))
			if c09nontrivial(h) {
				c.Distinct(id)
			}
		}}) {
			return
		}
	}
}
