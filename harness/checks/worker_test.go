package checks

import (
	"testing"

	"verif/harness/vt"
)

// TestWorker is the single entry point of the worker processes started by
// /verif/vcheck; the property, tier, seed and shard come from the environment.
func TestWorker(t *testing.T) { vt.RunWorker(t) }
