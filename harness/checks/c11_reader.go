package checks

import (
	"bytes"
	"fmt"
	"io"
	"strings"
)

// c11cutReader is the chunk-controlled io.Reader shared by C11 and C12: it serves
// a fixed byte stream, never crossing a cut position in one Read, optionally
// at most max bytes per Read, and reports io.EOF either together with the
// last bytes or on a separate call. It is finite: after the data it returns
// (0, io.EOF) forever; a decoder that keeps asking is stopped by a panic
// (which the caller's recover turns into a violation: "Recv does not return").
type c11cutReader struct {
	data        []byte
	pos         int
	cuts        []int // ascending, 0 < cut < len(data)
	ci          int
	max         int  // >0: upper bound on bytes per Read
	eofWithLast bool // last bytes are returned together with io.EOF
	eofs        int
}

const c11cutReaderEOFLimit = 10000

func (r *c11cutReader) Read(p []byte) (int, error) {
	if len(p) == 0 {
		return 0, nil
	}
	if r.pos >= len(r.data) {
		r.eofs++
		if r.eofs > c11cutReaderEOFLimit {
			panic("decoder keeps reading after end of stream (Recv does not return)")
		}
		return 0, io.EOF
	}
	end := len(r.data)
	for r.ci < len(r.cuts) && r.cuts[r.ci] <= r.pos {
		r.ci++
	}
	if r.ci < len(r.cuts) && r.cuts[r.ci] < end {
		end = r.cuts[r.ci]
	}
	if r.max > 0 && end-r.pos > r.max {
		end = r.pos + r.max
	}
	if end-r.pos > len(p) {
		end = r.pos + len(p)
	}
	n := copy(p, r.data[r.pos:end])
	r.pos = end
	if r.pos == len(r.data) && r.eofWithLast {
		r.eofs++
		return n, io.EOF
	}
	return n, nil
}

// c11maskCuts converts a bit mask over the n-1 interior positions of an n-byte
// stream into cut positions (bit i set = cut after byte i+1), reusing buf.
func c11maskCuts(mask uint32, n int, buf []int) []int {
	buf = buf[:0]
	for i := 0; i < n-1; i++ {
		if mask&(1<<uint(i)) != 0 {
			buf = append(buf, i+1)
		}
	}
	return buf
}

// c11nopWC is the write side of a receive-only channel.
type c11nopWC struct{}

func (c11nopWC) Write(p []byte) (int, error) { return len(p), nil }
func (c11nopWC) Close() error                { return nil }

// c11sinkWC collects what a sender writes.
type c11sinkWC struct {
	buf    bytes.Buffer
	closed bool
}

func (s *c11sinkWC) Write(p []byte) (int, error) { return s.buf.Write(p) }
func (s *c11sinkWC) Close() error                { s.closed = true; return nil }

// c11showBytes renders bytes for messages and samples: quoted, long inputs
// abbreviated around their ends.
func c11showBytes(b []byte) string {
	if len(b) <= 96 {
		return fmt.Sprintf("%q", b)
	}
	return fmt.Sprintf("%q...(%d bytes)...%q", b[:40], len(b), b[len(b)-24:])
}

func c11showCuts(cuts []int) string {
	if len(cuts) > 24 {
		return fmt.Sprintf("%v...(%d cuts)", cuts[:24], len(cuts))
	}
	return fmt.Sprint(cuts)
}

func c11showRecs(recs [][]byte) string {
	var sb strings.Builder
	sb.WriteByte('[')
	for i, r := range recs {
		if i > 0 {
			sb.WriteByte(' ')
		}
		if i >= 12 {
			fmt.Fprintf(&sb, "...(%d records)", len(recs))
			break
		}
		if len(r) <= 40 {
			fmt.Fprintf(&sb, "%q", r)
		} else {
			fmt.Fprintf(&sb, "<%d bytes %q...>", len(r), r[:12])
		}
	}
	sb.WriteByte(']')
	return sb.String()
}

// c11firstDiff returns the first offset at which a and b differ.
func c11firstDiff(a, b []byte) int {
	n := min(len(a), len(b))
	for i := 0; i < n; i++ {
		if a[i] != b[i] {
			return i
		}
	}
	return n
}
