package checks

import (
	"bytes"
	"errors"
	"fmt"
	"io"
	"math/rand/v2"
	"runtime/debug"
	"strings"

	"github.com/creachadair/jrpc2/channel"

	"verif/harness/vt"
)

// C12 — framing robustness. Every input stream is decoded by a fresh channel
// of the real framing through the chunk-controlled reader, Recv after Recv,
// next to a reference decoder written from the documentation (c12_ref.go).
//
// Oracle per stream:
//   - no panic (recovered -> violation with the input); a decoder that keeps
//     reading after end of stream is stopped by the reader (-> violation);
//   - strict phase, up to the first required error: every Recv returns exactly
//     what the reference allows (record bytes, nil error or the documented
//     *ContentTypeMismatchError; an error where the reference demands one; a
//     final record cut off by end of stream = error, data empty or complete);
//   - afterwards (the documentation does not say how a desynchronised stream
//     resynchronises) containment only: every non-empty result is a contiguous
//     piece of the stream lying after everything returned before;
//   - termination: once the stream is used up (known to the reference, or
//     claimed by the decoder through io.EOF / io.ErrUnexpectedEOF) the next two
//     Recv calls fail too; no decoder may still succeed after len(stream)+3
//     calls (every record consumes at least one byte).

type c12fr struct {
	name string
	f    channel.Framing
	ref  c12ref
	kind byte // 's', 'h', 'j'
	mime string
}

const c12mime = "m/t"
const c12lspMime = "application/vscode-jsonrpc; charset=utf-8"

func c12framings() []c12fr {
	return []c12fr{
		{"StrictHeader(m/t)", channel.StrictHeader(c12mime), c12hdrRef{mime: c12mime, strict: true}, 'h', c12mime},
		{"Header(m/t)", channel.Header(c12mime), c12hdrRef{mime: c12mime}, 'h', c12mime},
		{"LSP", channel.LSP, c12hdrRef{mime: c12lspMime}, 'h', c12lspMime},
		{"StrictHeader()", channel.StrictHeader(""), c12hdrRef{mime: "", strict: true}, 'h', ""},
		{"Line", channel.Line, c12splitRef{'\n'}, 's', ""},
		{"Split(NUL)", channel.Split(0), c12splitRef{0}, 's', ""},
		{"Split(|)", channel.Split('|'), c12splitRef{'|'}, 's', ""},
		// non-ASCII split bytes: the delimiter is a byte value, whereas the code
		// point with the same number takes two bytes in UTF-8 (C2 80; C3 83,
		// whose lead byte is the delimiter; C3 BF)
		{"Split(0x80)", channel.Split(0x80), c12splitRef{0x80}, 's', ""},
		{"Split(0xC3)", channel.Split(0xC3), c12splitRef{0xC3}, 's', ""},
		{"Split(0xFF)", channel.Split(0xFF), c12splitRef{0xFF}, 's', ""},
		{"RawJSON", channel.RawJSON, c12jsonRef{}, 'j', ""},
	}
}

func (fr c12fr) splitByte() byte { return fr.ref.(c12splitRef).split }

type c12mode struct {
	max  int
	with bool
	cuts []int
}

func (m c12mode) String() string {
	s := "whole stream in one read"
	if m.max > 0 {
		s = fmt.Sprintf("%d-byte reads", m.max)
	}
	if len(m.cuts) > 0 {
		s = "cuts " + c11showCuts(m.cuts)
	}
	if m.with {
		return s + ", EOF together with the last bytes"
	}
	return s + ", EOF on a separate read"
}

// c12stat is what one decode observed (for the evidence).
type c12stat struct {
	strictRecords int  // records verified byte for byte against the reference
	ctErrors      int  // records delivered with the documented content-type error
	errRequired   bool // the reference demanded an error and got one
	tail          bool // a cut-off final record was checked
	cutOff        bool // payload / value cut off by end of stream (error demanded)
	free          bool // the documentation left the outcome open
	lateRecords   int  // results checked for containment only
	calls         int
}

func (s c12stat) nontrivial() bool {
	return s.strictRecords > 0 || s.tail || s.cutOff
}

func c12isCT(err error) bool {
	var ct *channel.ContentTypeMismatchError
	return errors.As(err, &ct)
}

func c12eofish(err error) bool {
	return errors.Is(err, io.EOF) || errors.Is(err, io.ErrUnexpectedEOF)
}

// c12run decodes one stream under one chunking and applies the oracle.
func c12run(c *vt.Ctx, fr c12fr, stream []byte, m c12mode) (st c12stat, ok bool) {
	where := func() string {
		return fmt.Sprintf("framing %s, stream %s (%d bytes), %s", fr.name, c11showBytes(stream), len(stream), m)
	}
	defer func() {
		if p := recover(); p != nil {
			c.Failf("panic in Recv #%d: %v; %s", st.calls, p, where())
			ok = false
		}
	}()
	rd := &c11cutReader{data: stream, max: m.max, eofWithLast: m.with, cuts: m.cuts}
	ch := fr.f(rd, c11nopWC{})
	pos, lo := 0, 0
	strict := true
	exhausted := false
	maxCalls := len(stream) + 3
	contain := func(got []byte, err error) bool {
		if len(got) == 0 {
			return true
		}
		i := bytes.Index(stream[lo:], got)
		if i < 0 {
			c.Failf("Recv #%d returned %s (error %v), which is not a contiguous piece of the stream after offset %d (fabricated, reordered or repeated data); %s",
				st.calls, c11showBytes(got), err, lo, where())
			return false
		}
		lo += i + len(got)
		st.lateRecords++
		return true
	}
	for st.calls = 0; st.calls < maxCalls; st.calls++ {
		got, err := ch.Recv()
		if strict {
			exp := fr.ref.next(stream, pos)
			switch exp.kind {
			case c12Record, c12Either:
				if err == nil || c12isCT(err) {
					if !(bytes.Equal(got, exp.rec) || exp.nullOK && len(got) == 0) {
						c.Failf("Recv #%d returned %d bytes %s (error %v), the format yields the %d-byte record %s at offset %d; %s",
							st.calls, len(got), c11showBytes(got), err, len(exp.rec), c11showBytes(exp.rec), exp.next-len(exp.rec), where())
						return st, false
					}
					if err == nil && exp.ct == c12ctMust {
						c.Failf("Recv #%d returned record %s with a nil error, want *ContentTypeMismatchError (content type missing or different from %q); %s",
							st.calls, c11showBytes(got), fr.mime, where())
						return st, false
					}
					if err != nil && exp.ct == c12ctNone {
						c.Failf("Recv #%d returned record %s with error %q although the content type is acceptable for this framing; %s",
							st.calls, c11showBytes(got), err.Error(), where())
						return st, false
					}
					if err != nil {
						st.ctErrors++
					}
					st.strictRecords++
					pos, lo = exp.next, exp.next
					continue
				}
				if exp.kind == c12Record {
					c.Failf("Recv #%d returned error %q (and %d bytes), the format yields the record %s; %s",
						st.calls, err.Error(), len(got), c11showBytes(exp.rec), where())
					return st, false
				}
				st.free = true
				strict = false
				if !contain(got, err) {
					return st, false
				}
			case c12Error:
				if err == nil {
					c.Failf("Recv #%d returned %s with a nil error, want an error (%s); %s", st.calls, c11showBytes(got), exp.why, where())
					return st, false
				}
				st.errRequired = true
				st.cutOff = st.cutOff || exp.partial
				strict, exhausted = false, exp.exhausted
				if !contain(got, err) {
					return st, false
				}
			case c12Tail:
				if err == nil {
					c.Failf("Recv #%d returned %s with a nil error although the final record %s is cut off by end of stream; %s",
						st.calls, c11showBytes(got), c11showBytes(exp.rec), where())
					return st, false
				}
				if len(got) != 0 && !bytes.Equal(got, exp.rec) {
					c.Failf("Recv #%d returned the cut-off final record as %d bytes %s, the stream holds %d bytes %s (shortened or altered); %s",
						st.calls, len(got), c11showBytes(got), len(exp.rec), c11showBytes(exp.rec), where())
					return st, false
				}
				st.tail = true
				strict, exhausted = false, true
			case c12Free:
				st.free = true
				strict = false
				if !contain(got, err) {
					return st, false
				}
			}
		} else if !contain(got, err) {
			return st, false
		}
		if err != nil && (exhausted || c12eofish(err)) {
			// the stream is used up: it must keep failing
			for k := 0; k < 2; k++ {
				st.calls++
				got, err := ch.Recv()
				if err == nil {
					c.Failf("Recv #%d returned (%s, nil) after the stream was exhausted, want an error; %s", st.calls, c11showBytes(got), where())
					return st, false
				}
				if !contain(got, err) {
					return st, false
				}
			}
			return st, true
		}
		if st.calls == maxCalls-1 && err == nil {
			c.Failf("Recv still succeeds after %d calls on a %d-byte stream (every record consumes at least one byte); %s", maxCalls, len(stream), where())
			return st, false
		}
	}
	return st, true
}

// c12acct accumulates per case and flushes once.
type c12acct struct {
	c                                                    *vt.Ctx
	fr                                                   c12fr
	decodes, inputs, nontrivial                          int
	records, ctErrors, errs, tails, cutoffs, frees, late int
	calls                                                int
	family                                               string
	sampleMod                                            uint64
	sampled                                              bool
}

// input runs one stream under the given modes; false = stop the case.
func (a *c12acct) input(stream []byte, modes []c12mode) bool {
	a.inputs++
	var first c12stat
	for i, m := range modes {
		st, ok := c12run(a.c, a.fr, stream, m)
		a.decodes++
		a.records += st.strictRecords
		a.ctErrors += st.ctErrors
		a.late += st.lateRecords
		a.calls += st.calls
		if st.errRequired {
			a.errs++
		}
		if st.tail {
			a.tails++
		}
		if st.cutOff {
			a.cutoffs++
		}
		if st.free {
			a.frees++
		}
		if !ok {
			return false
		}
		if i == 0 {
			first = st
		}
	}
	if first.nontrivial() {
		a.nontrivial++
		if h := vt.Hash64(a.fr.name + "\x00" + string(stream)); a.sampleMod <= 1 || h%a.sampleMod == 0 {
			a.c.DistinctHash(h)
		}
		if !a.sampled && first.strictRecords >= 1 && (first.errRequired || first.tail) && a.c.WantSample() {
			a.sampled = true
			a.c.Sample(map[string]any{"family": a.family, "framing": a.fr.name, "stream": c11showBytes(stream),
				"records_verified": first.strictRecords, "then": map[bool]string{true: "cut-off final record", false: "error required"}[first.tail]})
		}
	}
	return true
}

func (a *c12acct) flush() {
	c := a.c
	c.Eval(a.decodes)
	c.Count("stream_decodes", a.decodes)
	c.Count("inputs", a.inputs)
	c.Count("inputs_"+a.family, a.inputs)
	c.Count("inputs_nontrivial", a.nontrivial)
	c.Count("records_decoded", a.records)
	c.Count("content_type_errors_checked", a.ctErrors)
	c.Count("required_errors_seen", a.errs)
	c.Count("cut_off_final_records", a.tails)
	c.Count("cut_off_payloads", a.cutoffs)
	c.Count("outcomes_left_open_by_doc", a.frees)
	c.Count("results_after_first_error", a.late)
	c.Count("recv_calls", a.calls)
}

func newC12acct(c *vt.Ctx, fr c12fr, family string) *c12acct {
	a := &c12acct{c: c, fr: fr, family: family}
	switch family {
	case "tok", "prod", "line", "json":
		// the exhaustive families have millions of non-trivial members; the
		// evidence keeps a deterministic 1/K hash sample of their signatures
		a.sampleMod = uint64(c.Env.Pick(8, 128))
	}
	return a
}

var (
	c12modesAll  = []c12mode{{with: true}, {}, {max: 1}, {max: 3, with: true}}
	c12modesFast = []c12mode{{with: true}, {max: 1}}
	c12modeWhole = []c12mode{{}}
)

// ---- token alphabets ----

func c12hdrTokens(fr c12fr) []string {
	mime := fr.mime
	if mime == "" {
		mime = "m/t"
	}
	return []string{"Content-Length", "content-length", "CONTENT-TYPE", "X-Other", ":", " ", "0", "3", "12", "-1", "+3", "\r\n", "\n", "abc", mime}
}

var c12jsonTokens = []string{"{", "}", "[", "]", `"`, "a", "1", ",", ":", " "}
var c12jsonValueTokens = []string{`{"a":1}`, `[1]`, `"s"`, "12", "true", "null", " ", "\n", "x", "-", "1.5e3", "]", `"é\\"`, "0"}

// c12enum runs every string over toks of length lo..hi that starts with prefix.
func c12enum(toks []string, prefix []int, lo, hi int, f func(idx []int, stream []byte) bool) {
	idx := append([]int(nil), prefix...)
	var buf []byte
	var rec func() bool
	rec = func() bool {
		if len(idx) >= lo {
			buf = buf[:0]
			for _, k := range idx {
				buf = append(buf, toks[k]...)
			}
			if !f(idx, buf) {
				return false
			}
		}
		if len(idx) >= hi {
			return true
		}
		for k := range toks {
			idx = append(idx, k)
			if !rec() {
				return false
			}
			idx = idx[:len(idx)-1]
		}
		return true
	}
	rec()
}

func init() {
	vt.Register(&vt.Check{
		Prop:  "C12",
		Level: "fault_enumeration",
		Rule: "byte streams decoded by the real Recv of StrictHeader(m/t), Header(m/t), LSP, StrictHeader(\"\"), Line, Split(NUL), Split(|), Split(0x80), Split(0xC3), Split(0xFF), RawJSON next to reference decoders written from the documentation: " +
			"(tok) every string of <= 5 (quick) / 6 (thorough) tokens over {Content-Length, content-length, CONTENT-TYPE, X-Other, ':', ' ', 0, 3, 12, -1, +3, CRLF, LF, abc, mime}, as is (whole+EOF-with-data, 1-byte reads) and followed by 'CRLF CRLF abc <valid message>'; " +
			"(prod) products of field-name variants x separators x length values x content-type lines x line ends x blank line x bodies, each followed by a valid message; " +
			"(line) every string over {a, b, split byte} of <= 10 (quick) / 12 (thorough) bytes x 4 chunkings; " +
			"(uline) for the non-ASCII split bytes every string over {a, split byte, the two bytes that spell U+00<split> in UTF-8 (a byte equal to the split byte replaced by its neighbour)} of <= 8 (quick) / 10 (thorough) bytes x 4 chunkings; " +
			"(splitbyte) Split(b) for every byte value b = 0x00..0xFF: streams of terminated and unterminated records made of all other byte values, the UTF-8 encoding of U+00<b> (alone, ending a record, ending the unterminated tail, repeated), each byte of that encoding, b-1 b+1 b^0x80, UTF-8 lead/continuation bytes, empty records, 3 seeded mixtures, " +
			"at every truncation point x 4 chunkings, and records of 4094..4097 and 9001 bytes made of and ending in those bytes, truncated around every boundary; " +
			"(json) every string of <= 5 / 7 tokens over { } [ ] \" a 1 , : space and of <= 4 / 5 value-level tokens x 3 chunkings; " +
			"(longline) header lines and split records of 4084..4108, 8180..8204, 12276..12300, 20000, 70000 bytes (for non-ASCII split bytes made of and ending in the bytes that spell U+00<split>; unknown field with a long value, also ending in text that looks like a Content-Length field); (bigbody) bodies of 4MiB-1, 4MiB, 4MiB+1, 5MiB+17 (thorough also 8 and 9 MiB) complete / cut by one byte / cut in half, each followed by a small record, x Content-Type field {absent, wrong, empty, right, right then wrong, wrong then right} before and after Content-Length, and the same sizes as split records; (absurd) Content-Length 2^31, 2^40, 2^46, 2^47, 2^62, 2^63-1, 2^63, 10^30, -1, +5, ... with a 3-byte body; " +
			"(trunc) every truncation point of 50 valid multi-record streams per framing (sampled points for streams > 600 bytes); (mut) seeded 1-3 byte mutations of valid streams. " +
			"evaluations = stream decodes. distinct_nontrivial = distinct (framing, stream) on which the reference decoder yields at least one record before the first error, " +
			"or a final record / payload / JSON value cut off by end of stream (streams whose first line is already garbage are counted only in the counter inputs); " +
			"for the exhaustive families tok/prod/line/json distinct_nontrivial holds a deterministic 1/8 (quick) / 1/128 (thorough) hash sample, the full number is the counter inputs_nontrivial",
		Assumptions: []string{
			"reference decoders (harness/checks/c12_ref.go) written from the doc comments of channel.StrictHeader/Header/Split/RawJSON, the statement of C12 and RFC 8259",
			"a bare LF ends a header line like CRLF; field values are trimmed of spaces and tabs",
			"left open by the documentation and therefore not judged (containment only): white space around a known field name, several differing Content-Length or Content-Type fields, " +
				"a '+' sign or '-0' as length, lines consisting of CR only, content types differing only in case/spacing, an empty Content-Type value on Header/LSP, a content type sent to a framing that expects none, " +
				"a top-level JSON number ended by end of stream, a number with a malformed fraction/exponent, null returned as empty or as \"null\", everything after the first error",
			"a final record cut off by end of stream may be returned whole with the error or not at all, never in part",
			"the split byte is a byte value, not a character: for every b, also >= 0x80, records are exactly the runs between occurrences of the byte b; the UTF-8 encoding of U+00<b> is payload (unless it contains b) and is never stripped, the delimiter always is",
			"64-bit int; Content-Length values that fit int64 but exceed the stream must produce an error without exhausting memory (bodies are 3 bytes)",
		},
		Require: map[string]int64{
			"records_decoded": 100000, "required_errors_seen": 100000, "cut_off_final_records": 10000,
			"cut_off_payloads": 1000, "content_type_errors_checked": 1000, "inputs_absurd": 30, "inputs_longline": 500, "inputs_trunc": 5000, "inputs_mut": 5000,
			"split_bytes_covered": 256, "split_bytes_non_ascii": 128, "records_decoded_non_ascii_split": 100000, "cut_off_final_records_non_ascii_split": 20000,
		},
		Cases: c12cases,
	})
}

func c12cases(e vt.Env, yield func(vt.Case) bool) {
	frs := c12framings()

	// (absurd) first: a fatal outcome here is the most informative one
	for _, fr := range frs {
		if fr.kind != 'h' {
			continue
		}
		fr := fr
		if !yield(vt.Case{ID: "absurd/" + fr.name, Run: func(c *vt.Ctx) { c12absurd(c, fr) }}) {
			return
		}
	}

	// (bigbody) bodies around and beyond the 4 MiB preallocation limit, complete and cut off,
	// with the Content-Type field right, wrong, absent and repeated
	for _, fr := range frs {
		if fr.kind == 'j' {
			continue
		}
		fr := fr
		if !yield(vt.Case{ID: "bigbody/" + fr.name, Run: func(c *vt.Ctx) { c12bigbody(c, e, fr) }}) {
			return
		}
	}

	// (life) channels after their end: exhausted, closed, closed twice, with successors
	for _, fr := range frs {
		fr := fr
		if !yield(vt.Case{ID: "life/" + fr.name, Run: func(c *vt.Ctx) { c12life(c, fr) }}) {
			return
		}
	}

	// (longline) header lines and split records around the 4096-byte reader buffer
	for _, fr := range frs {
		if fr.kind == 'j' {
			continue
		}
		fr := fr
		if !yield(vt.Case{ID: "longline/" + fr.name, Run: func(c *vt.Ctx) { c12longline(c, fr) }}) {
			return
		}
	}

	// (tok) header token strings
	maxTok := e.Pick(5, 6)
	for _, fr := range frs {
		if fr.kind != 'h' || fr.mime == "" {
			continue
		}
		fr := fr
		toks := c12hdrTokens(fr)
		if !yield(vt.Case{ID: "tok/" + fr.name + "/short", Run: func(c *vt.Ctx) { c12tok(c, fr, toks, nil, 0, 1) }}) {
			return
		}
		for i := range toks {
			for j := range toks {
				i, j := i, j
				id := fmt.Sprintf("tok/%s/%d-%d", fr.name, i, j)
				if !yield(vt.Case{ID: id, Run: func(c *vt.Ctx) { c12tok(c, fr, toks, []int{i, j}, 2, maxTok) }}) {
					return
				}
			}
		}
	}

	// (prod) field variants
	for _, fr := range frs {
		if fr.kind != 'h' {
			continue
		}
		fr := fr
		for si := range c12structures {
			for _, eol := range []string{"\r\n", "\n"} {
				for _, blank := range []string{"\r\n", "\n", ""} {
					si, eol, blank := si, eol, blank
					id := fmt.Sprintf("prod/%s/%s/%q/%q", fr.name, c12structures[si], eol, blank)
					if !yield(vt.Case{ID: id, Run: func(c *vt.Ctx) { c12prod(c, e, fr, si, eol, blank) }}) {
						return
					}
				}
			}
		}
	}

	// (line)
	maxLine := e.Pick(10, 12)
	for _, fr := range frs {
		if fr.kind != 's' {
			continue
		}
		fr := fr
		toks := []string{"a", "b", string([]byte{fr.splitByte()})}
		if !yield(vt.Case{ID: "line/" + fr.name + "/short", Run: func(c *vt.Ctx) { c12strings(c, fr, "line", toks, nil, 0, 2, c12modesAll) }}) {
			return
		}
		for p := 0; p < 27; p++ {
			prefix := []int{p / 9, p / 3 % 3, p % 3}
			id := fmt.Sprintf("line/%s/%v", fr.name, prefix)
			if !yield(vt.Case{ID: id, Run: func(c *vt.Ctx) { c12strings(c, fr, "line", toks, prefix, 3, maxLine, c12modesAll) }}) {
				return
			}
		}
	}

	// (uline) non-ASCII split bytes: strings over the split byte, the two bytes
	// that spell U+00<split> in UTF-8 and a letter
	maxULine := e.Pick(8, 10)
	for _, fr := range frs {
		if fr.kind != 's' || fr.splitByte() < 0x80 {
			continue
		}
		fr := fr
		sp := c11splitSpelling(fr.splitByte())
		toks := []string{"a", string([]byte{fr.splitByte()}), string(sp[:1]), string(sp[1:])}
		if !yield(vt.Case{ID: "uline/" + fr.name + "/short", Run: func(c *vt.Ctx) { c12strings(c, fr, "line", toks, nil, 0, 1, c12modesAll) }}) {
			return
		}
		for p := 0; p < 16; p++ {
			prefix := []int{p / 4, p % 4}
			id := fmt.Sprintf("uline/%s/%v", fr.name, prefix)
			if !yield(vt.Case{ID: id, Run: func(c *vt.Ctx) { c12strings(c, fr, "line", toks, prefix, 2, maxULine, c12modesAll) }}) {
				return
			}
		}
	}

	// (splitbyte) every byte value as the delimiter
	for b := 0; b < 256; b++ {
		b := byte(b)
		id := fmt.Sprintf("splitbyte/0x%02X", b)
		if !yield(vt.Case{ID: id, Run: func(c *vt.Ctx) { c12splitByte(c, e, b, id) }}) {
			return
		}
	}

	// (json)
	for _, fr := range frs {
		if fr.kind != 'j' {
			continue
		}
		fr := fr
		modes := []c12mode{{with: true}, {}, {max: 1}}
		for _, alpha := range []struct {
			name string
			toks []string
			max  int
		}{{"bytes", c12jsonTokens, e.Pick(5, 7)}, {"values", c12jsonValueTokens, e.Pick(4, 5)}} {
			alpha := alpha
			if !yield(vt.Case{ID: "json/" + alpha.name + "/short", Run: func(c *vt.Ctx) { c12strings(c, fr, "json", alpha.toks, nil, 0, 1, modes) }}) {
				return
			}
			for i := range alpha.toks {
				for j := range alpha.toks {
					prefix := []int{i, j}
					id := fmt.Sprintf("json/%s/%v", alpha.name, prefix)
					if !yield(vt.Case{ID: id, Run: func(c *vt.Ctx) { c12strings(c, fr, "json", alpha.toks, prefix, 2, alpha.max, modes) }}) {
						return
					}
				}
			}
		}
	}

	// (trunc) and (mut)
	nValid := 50
	nMut := e.Pick(1000, 20000)
	for _, fr := range frs {
		fr := fr
		for k := 0; k < nValid; k++ {
			k := k
			id := fmt.Sprintf("trunc/%s/%d", fr.name, k)
			if !yield(vt.Case{ID: id, Run: func(c *vt.Ctx) { c12trunc(c, e, fr, k, id) }}) {
				return
			}
		}
		for k := 0; k < nValid; k++ {
			k := k
			id := fmt.Sprintf("mut/%s/%d", fr.name, k)
			if !yield(vt.Case{ID: id, Run: func(c *vt.Ctx) { c12mut(c, e, fr, k, nMut, id) }}) {
				return
			}
		}
	}
}

// ---- families ----

func c12absurd(c *vt.Ctx, fr c12fr) {
	a := newC12acct(c, fr, "absurd")
	defer a.flush()
	lengths := []string{
		"2147483648", "4294967296", "1099511627776", "70368744177664", "140737488355328",
		"4611686018427387904", "9223372036854775807", "9223372036854775808", "18446744073709551616",
		"1000000000000000000000000000000", "-1", "+5", "-9223372036854775808", "-9223372036854775809",
		"4611686018427387905", "6917529027641081856", "9223372036854775806", "4194305", "8388609",
		"00000000000000000000000000000000000003", "0x10", "1e3", "3.0", "٣",
	}
	ct := ""
	if fr.mime != "" {
		ct = "Content-Type: " + fr.mime + "\r\n"
	}
	for _, l := range lengths {
		for _, body := range []string{"abc", "abcContent-Length: 1\r\n\r\nZ"} {
			for _, head := range []string{"Content-Length: " + l + "\r\n" + ct, ct + "content-length:" + l + "\n"} {
				stream := []byte(head + "\r\n" + body)
				// preceded by a good message so that a reused buffer exists
				for _, pre := range []string{"", ct + "Content-Length: 2\r\n\r\nok"} {
					if !a.input(append([]byte(pre), stream...), c12modesAll[:2]) {
						return
					}
				}
			}
		}
	}
}

// c12bigbody: records around the size above which the header framing reads the body
// incrementally (4 MiB), each followed by a small record, complete and cut off. For
// header framings every Content-Type situation is tried, because the large path and
// the type check meet there: whatever the size, a record is delivered whole, with the
// documented type error where one is due, and the next record follows.
func c12bigbody(c *vt.Ctx, e vt.Env, fr c12fr) {
	a := newC12acct(c, fr, "bigbody")
	defer a.flush()
	rng := e.Rand("C12/bigbody/" + fr.name)
	sizes := []int{4<<20 - 1, 4 << 20, 4<<20 + 1, 5<<20 + 17}
	if e.Thorough() {
		sizes = append(sizes, 8<<20, 9<<20+3)
	}
	for _, n := range sizes {
		body := make([]byte, n)
		for i := range body {
			body[i] = 'a' + byte(rng.UintN(26))
		}
		if fr.kind == 's' {
			sp := []byte{fr.splitByte()}
			whole := append(append(append([]byte("x"), sp...), body...), sp...)
			whole = append(append(whole, "ok"...), sp...)
			for _, stream := range [][]byte{whole, whole[:len(whole)/2], whole[:2+n]} {
				if !a.input(stream, c12modesAll[:2]) {
					return
				}
			}
			continue
		}
		types := []string{"", "Content-Type: text/other\r\n", "content-type:\r\n"}
		if fr.mime != "" {
			types = append(types, "Content-Type: "+fr.mime+"\r\n", "Content-Type: "+fr.mime+"\r\nContent-Type: text/other\r\n", "Content-Type: text/other\r\nContent-Type: "+fr.mime+"\r\n")
		}
		next := "Content-Length: 2\r\n\r\nok"
		if fr.mime != "" {
			next = "Content-Type: " + fr.mime + "\r\n" + next
		}
		for _, ct := range types {
			for _, head := range []string{ct + "Content-Length: " + fmt.Sprint(n) + "\r\n\r\n", "Content-Length: " + fmt.Sprint(n) + "\r\n" + ct + "\r\n"} {
				whole := append(append([]byte(head), body...), next...)
				for _, stream := range [][]byte{whole, whole[:len(head)+n-1], whole[:len(head)+n/2]} {
					if !a.input(stream, c12modesAll[:2]) {
						return
					}
				}
			}
		}
	}
	c.Count("bodies_beyond_4MiB", 1)
}

// c12life: "once the stream is exhausted it keeps failing", and what one channel does
// must not reach another: a channel that has delivered its whole stream and has been
// closed (once, twice) keeps answering Recv with an error and no data, however many
// channels of the same framing are created and used afterwards; and each of those
// delivers exactly its own stream.
func c12life(c *vt.Ctx, fr c12fr) {
	recsOf := func(k int) [][]byte {
		if fr.kind == 'j' {
			return [][]byte{[]byte(fmt.Sprintf(`{"stream":%d}`, k)), []byte(fmt.Sprintf(`[%d,%d]`, k, k)), []byte(fmt.Sprintf(`"s%d"`, k))}
		}
		return [][]byte{[]byte(fmt.Sprintf("stream-%d-first", k)), []byte(fmt.Sprintf("stream-%d-second-%s", k, strings.Repeat("x", 40*k))), []byte(fmt.Sprintf("s%d", k))}
	}
	encode := func(recs [][]byte) []byte {
		sink := &c11sinkWC{}
		ch := fr.f(bytes.NewReader(nil), sink)
		for _, r := range recs {
			if err := ch.Send(append([]byte(nil), r...)); err != nil {
				c.Failf("life %s: Send(%q): %v", fr.name, r, err)
			}
		}
		return sink.buf.Bytes()
	}
	readAll := func(what string, ch channel.Channel, want [][]byte) {
		for i, w := range want {
			got, err := ch.Recv()
			if err != nil || !bytes.Equal(got, w) {
				c.Failf("life %s: %s: Recv #%d returned (%q, %v), want %q", fr.name, what, i, got, err, w)
				return
			}
		}
	}
	mustFail := func(what string, ch channel.Channel) {
		for k := 0; k < 3; k++ {
			if got, err := ch.Recv(); err == nil || len(got) != 0 {
				c.Failf("life %s: %s: Recv returned (%q, %v); the stream was exhausted, want an error and no data", fr.name, what, got, err)
				return
			}
		}
	}
	defer func() {
		if p := recover(); p != nil {
			c.Failf("life %s: panic: %v", fr.name, p)
		}
	}()
	for closes := 0; closes <= 2; closes++ {
		old := fr.f(&c11cutReader{data: encode(recsOf(1))}, c11nopWC{})
		readAll("first channel", old, recsOf(1))
		mustFail("first channel at end of stream", old)
		for k := 0; k < closes; k++ {
			old.Close()
		}
		var later []channel.Channel
		for k := 2; k <= 4; k++ {
			later = append(later, fr.f(&c11cutReader{data: encode(recsOf(k))}, c11nopWC{}))
		}
		mustFail(fmt.Sprintf("first channel (closed %d times) after three more channels were created", closes), old)
		// the successors, interleaved
		for i := 0; i < 3; i++ {
			for k, ch := range later {
				got, err := ch.Recv()
				if w := recsOf(k + 2)[i]; err != nil || !bytes.Equal(got, w) {
					c.Failf("life %s: channel %d created after the first was closed %d times: Recv #%d returned (%q, %v), want %q", fr.name, k+2, closes, i, got, err, w)
					return
				}
			}
			mustFail(fmt.Sprintf("first channel (closed %d times) while its successors are read", closes), old)
		}
		for k, ch := range later {
			mustFail(fmt.Sprintf("channel %d at end of stream", k+2), ch)
			ch.Close()
		}
		c.Eval(4)
		c.Count("channel_lifecycles_checked", 1)
	}
	c.Distinct("life/" + fr.name)
}

// c12longline: lines longer than the decoder's internal buffer. For header
// framings an unknown field with a very long value must simply be ignored (also
// when its tail looks like a Content-Length field); for split framings long
// records must come back whole, terminated or not.
func c12longline(c *vt.Ctx, fr c12fr) {
	a := newC12acct(c, fr, "longline")
	defer a.flush()
	var sizes []int
	for _, base := range []int{4096, 8192, 12288} {
		for d := -12; d <= 12; d++ {
			sizes = append(sizes, base+d)
		}
	}
	sizes = append(sizes, 100, 1000, 5000, 20000, 70000)
	if fr.kind == 's' {
		sp := string([]byte{fr.splitByte()})
		for _, n := range sizes {
			body := strings.Repeat("r", n)
			if b := fr.splitByte(); b >= 0x80 {
				// text-like: the record is made of, and ends in, the bytes that spell U+00<split>
				u := string(c11splitSpelling(b))
				body = strings.Repeat(u, n/2) + "r"[:n%2] + u
			}
			for _, stream := range []string{body + sp + "ab" + sp, "ab" + sp + body + sp + "cd", body, "x" + sp + body} {
				if !a.input([]byte(stream), c12modesAll) {
					return
				}
			}
		}
		return
	}
	ct := ""
	if fr.mime != "" {
		ct = "Content-Type: " + fr.mime + "\r\n"
	}
	for _, n := range sizes {
		for _, name := range []string{"X-Pad: ", "x:"} {
			if n <= len(name) {
				continue
			}
			pads := []string{
				strings.Repeat("p", n-len(name)),
				strings.Repeat("p", n-len(name)) + "Content-Length: 2",    // a field name right after the buffer boundary
				strings.Repeat("p", n-len(name)-1) + ":Content-Length: 2", // and a colon just before it
			}
			for _, pad := range pads {
				long := name + pad + "\r\n"
				for _, stream := range []string{
					long + ct + "Content-Length: 3\r\n\r\nabc" + ct + "Content-Length: 2\r\n\r\nok",
					ct + "Content-Length: 3\r\n" + long + "\r\nabc" + ct + "Content-Length: 2\r\n\r\nok",
					ct + "Content-Length: 3\r\n" + strings.TrimSuffix(long, "\r\n") + "\n\r\nabc",
				} {
					if !a.input([]byte(stream), c12modesAll[:2]) {
						return
					}
				}
			}
		}
	}
}

func c12tok(c *vt.Ctx, fr c12fr, toks []string, prefix []int, lo, hi int) {
	defer debug.SetGCPercent(debug.SetGCPercent(1000))
	a := newC12acct(c, fr, "tok")
	defer a.flush()
	tail := []byte("\r\n\r\nabc" + "Content-Type: " + fr.mime + "\r\nContent-Length: 1\r\n\r\nZ")
	var ext []byte
	c12enum(toks, prefix, lo, hi, func(idx []int, stream []byte) bool {
		if !a.input(stream, c12modesFast) {
			return false
		}
		ext = append(append(ext[:0], stream...), tail...)
		return a.input(ext, c12modeWhole)
	})
}

func c12strings(c *vt.Ctx, fr c12fr, family string, toks []string, prefix []int, lo, hi int, modes []c12mode) {
	defer debug.SetGCPercent(debug.SetGCPercent(1000))
	a := newC12acct(c, fr, family)
	defer a.flush()
	c12enum(toks, prefix, lo, hi, func(idx []int, stream []byte) bool {
		return a.input(stream, modes)
	})
}

var c12structures = []string{"CL", "CT,CL", "CL,CT", "X,CL", "CL,X", "CL,CL", "CT,CT,CL", "CT", "G,CL", "none"}

func c12prod(c *vt.Ctx, e vt.Env, fr c12fr, si int, eol, blank string) {
	defer debug.SetGCPercent(debug.SetGCPercent(1000))
	a := newC12acct(c, fr, "prod")
	defer a.flush()
	full := e.Thorough()
	mime := fr.mime
	names := []string{"Content-Length", "content-length", "CONTENT-LENGTH", "cOnTeNt-LeNgTh", "Content-Length ", " Content-Length", "Content_Length", "Content-Lengt", "Content-Lengthh"}
	seps := []string{":", ": ", ":\t", ":  "}
	vals := []string{"0", "3", "03", "12", "-1", "+3", "-0", "", "3 ", "3x", "x", "3.0", "0x3", "1e1", "3\r", "9223372036854775807", "9223372036854775808", "99999999999999999999999", "٣", "3 3"}
	subNames, subSeps, subVals := names[:4], seps[:2], []string{"0", "3", "03", "-1", "+3", "", "3x", "4"}
	var clAll, clSub []string
	for _, n := range names {
		for _, s := range seps {
			for _, v := range vals {
				clAll = append(clAll, n+s+v)
			}
		}
	}
	for _, n := range subNames {
		for _, s := range subSeps {
			for _, v := range subVals {
				clSub = append(clSub, n+s+v)
			}
		}
	}
	if full {
		clSub = clAll
	}
	var cts []string
	wrong := "wrong/type"
	for _, n := range []string{"Content-Type", "content-type", "CONTENT-TYPE"} {
		for _, v := range []string{mime, wrong, "", strings.ToUpper(mime), mime + " ", "  " + mime, mime + ";x"} {
			cts = append(cts, n+": "+v)
		}
	}
	others := []string{"X-Other: 1", ":", "X:Content-Length: 9", "Content-Length-X: 9"}
	garbage := []string{"garbage", "Content-Length 3", " ", "\t"}
	bodies := []string{"", "abc", "ab", "abcd"}
	if !full {
		bodies = []string{"abc", "ab"}
	}
	tail := "Content-Length: 1\r\n\r\nZ"
	if mime != "" {
		tail = "Content-Type: " + mime + "\r\n" + tail
	}
	var sb []byte
	emit := func(lines ...string) bool {
		for _, body := range bodies {
			sb = sb[:0]
			for _, l := range lines {
				sb = append(sb, l...)
				sb = append(sb, eol...)
			}
			sb = append(sb, blank...)
			sb = append(sb, body...)
			sb = append(sb, tail...)
			if !a.input(sb, c12modesFast) {
				return false
			}
		}
		return true
	}
	switch c12structures[si] {
	case "CL":
		for _, cl := range clAll {
			if !emit(cl) {
				return
			}
		}
	case "CT,CL":
		for _, ct := range cts {
			for _, cl := range clSub {
				if !emit(ct, cl) {
					return
				}
			}
		}
	case "CL,CT":
		for _, ct := range cts {
			for _, cl := range clSub {
				if !emit(cl, ct) {
					return
				}
			}
		}
	case "X,CL":
		for _, x := range others {
			for _, cl := range clSub {
				if !emit(x, cl) {
					return
				}
			}
		}
	case "CL,X":
		for _, x := range others {
			for _, cl := range clSub {
				if !emit(cl, x) {
					return
				}
			}
		}
	case "CL,CL":
		for _, cl := range clSub {
			for _, v := range []string{"3", "0", "4", "", "x", "-1"} {
				if !emit(cl, "Content-Length: "+v) {
					return
				}
			}
		}
	case "CT,CT,CL":
		for _, c1 := range cts {
			for _, c2 := range cts {
				for _, v := range []string{"3", "0", "-1"} {
					if !emit(c1, c2, "Content-Length: "+v) {
						return
					}
				}
			}
		}
	case "CT":
		for _, ct := range cts {
			if !emit(ct) {
				return
			}
		}
	case "G,CL":
		for _, g := range garbage {
			for _, cl := range clSub {
				if !emit(g, cl) || !emit(cl, g) {
					return
				}
			}
		}
	case "none":
		emit()
	}
}

// c12valid builds the k-th valid multi-record stream of a framing.
func c12valid(fr c12fr, rng *rand.Rand, k int) (stream []byte, recs [][]byte) {
	nrec := 2 + rng.IntN(5)
	for i := 0; i < nrec; i++ {
		n := []int{0, 1, 2, 3, 5, 8, 13, 40}[rng.IntN(8)]
		if k%10 == 9 && i == nrec-1 {
			n = []int{4095, 4096, 4097, 9000}[rng.IntN(4)] // a long final record (buffer continuation)
		}
		var r []byte
		switch fr.kind {
		case 's':
			r = make([]byte, n)
			alpha := "abc\r xyz{}\"0123"
			if b := fr.splitByte(); b >= 0x80 {
				// text with the bytes that spell U+00<split> in UTF-8 and the split byte's neighbours
				sp := c11splitSpelling(b)
				alpha = string([]byte{'a', 'b', 'c', '\r', ' ', sp[0], sp[1], sp[0], sp[1], '"', b - 1, b ^ 0x80, 0xC2, 0xC3, 0xBF})
			}
			for j := range r {
				r[j] = alpha[rng.IntN(15)]
				if r[j] == fr.splitByte() {
					r[j] = '_'
				}
			}
			if b := fr.splitByte(); b >= 0x80 && n >= 2 && rng.IntN(2) == 0 {
				copy(r[n-2:], c11splitSpelling(b)) // ends in the spelling
			}
			stream = append(append(stream, r...), fr.splitByte())
		case 'j':
			if n == 0 {
				r = []byte{}
				stream = append(stream, "null\n"...)
			} else {
				r = c11json(n+2, rng)
				stream = append(stream, r...)
				if rng.IntN(3) == 0 {
					stream = append(stream, " \n\t"[rng.IntN(3)])
				}
			}
		default:
			r = make([]byte, n)
			for j := range r {
				r[j] = "abc\r\n: xyzContent-Length0123"[rng.IntN(28)]
			}
			name := []string{"Content-Length", "content-length", "CONTENT-LENGTH"}[rng.IntN(3)]
			eol := []string{"\r\n", "\n"}[rng.IntN(5)/4]
			if fr.mime != "" && (fr.name[0] == 'S' || rng.IntN(2) == 0) {
				stream = append(stream, "Content-Type: "+fr.mime+eol...)
			}
			if rng.IntN(4) == 0 {
				stream = append(stream, "X-Trace: a:b"+eol...)
			}
			stream = append(stream, fmt.Sprintf("%s: %d%s%s", name, n, eol, eol)...)
			stream = append(stream, r...)
		}
		recs = append(recs, r)
	}
	return
}

func c12trunc(c *vt.Ctx, e vt.Env, fr c12fr, k int, id string) {
	a := newC12acct(c, fr, "trunc")
	defer a.flush()
	rng := e.Rand("C12/valid/" + fr.name + fmt.Sprint(k))
	stream, recs := c12valid(fr, rng, k)
	// the untruncated stream must decode to exactly the records (sanity of the generator and of the reference)
	pos := 0
	for i, r := range recs {
		exp := fr.ref.next(stream, pos)
		if exp.kind != c12Record || !(bytes.Equal(exp.rec, r) || exp.nullOK && len(r) == 0) {
			c.Failf("harness: reference decoder disagrees with the generator on record %d of %s", i, c11showBytes(stream))
			return
		}
		pos = exp.next
	}
	points := map[int]bool{}
	if len(stream) <= 600 {
		for t := 0; t <= len(stream); t++ {
			points[t] = true
		}
	} else {
		pos = 0
		for range recs {
			exp := fr.ref.next(stream, pos)
			for d := -3; d <= 3; d++ {
				points[pos+d], points[exp.next-len(exp.rec)+d], points[exp.next+d] = true, true, true
			}
			pos = exp.next
		}
		for _, b := range []int{4095, 4096, 4097, 8191, 8192, 8193} {
			points[len(stream)-b], points[b] = true, true
		}
		for i := 0; i < 300; i++ {
			points[rng.IntN(len(stream)+1)] = true
		}
	}
	modes := []c12mode{{with: true}, {}, {max: 1}, {max: 4096, with: true}}
	for t := 0; t <= len(stream); t++ {
		if !points[t] {
			continue
		}
		if !a.input(stream[:t:t], modes) {
			return
		}
	}
}

func c12mut(c *vt.Ctx, e vt.Env, fr c12fr, k, n int, id string) {
	a := newC12acct(c, fr, "mut")
	defer a.flush()
	rng := e.Rand("C12/valid/" + fr.name + fmt.Sprint(k))
	base, _ := c12valid(fr, rng, k)
	if len(base) > 700 {
		base = base[len(base)-700:]
		if i := bytes.IndexByte(base, '\n'); fr.kind == 'h' && i >= 0 {
			base = base[i+1:]
		}
	}
	mrng := e.Rand("C12/" + id)
	interesting := []byte("0123456789\r\n: \t-+{}[]\",\\abCc|\x00")
	if fr.kind == 's' {
		interesting = append(interesting, fr.splitByte(), fr.splitByte())
	}
	per := n / 50
	for i := 0; i < per; i++ {
		s := append([]byte(nil), base...)
		for m := 1 + mrng.IntN(3); m > 0 && len(s) > 0; m-- {
			p := mrng.IntN(len(s))
			b := interesting[mrng.IntN(len(interesting))]
			switch mrng.IntN(5) {
			case 0:
				s[p] = b
			case 1:
				s = append(s[:p], s[p+1:]...)
			case 2:
				s = append(s[:p], append([]byte{b}, s[p:]...)...)
			case 3:
				s = s[:p]
			case 4:
				q := mrng.IntN(len(s))
				s[p], s[q] = s[q], s[p]
			}
		}
		if !a.input(s, c12modesFast) {
			return
		}
	}
}
