package checks

import (
	"bytes"
	"encoding/json"
	"fmt"
	"regexp"
	"strings"

	"verif/harness/oracle"
	"verif/harness/peer"
	"verif/harness/vt"
)

// A c18post is one HTTP request to the bridge.
type c18post struct {
	name   string
	method string   // HTTP method
	ctype  string   // Content-Type header ("" = header absent)
	body   string   // request body
	gates  []string // tags of the gated handlers the body starts (valid "g" calls)
}

// c18ctypeOK is the set of content types the check requires to be accepted;
// c18ctypeBad must be refused with 415. Other spellings are not exercised.
var (
	c18ctypeOK  = []string{"application/json", "application/json; charset=utf-8"}
	c18ctypeBad = []string{"", "text/plain", "application/xml", "application/json; charset=latin1",
		"application/json; charset=iso-8859-1", "application/json; charset=utf-16", "application/jsonx",
		"text/json", "application/x-www-form-urlencoded", "multipart/form-data; boundary=x", "application/json-rpc"}
)

func c18isOKType(ct string) bool {
	for _, s := range c18ctypeOK {
		if s == ct {
			return true
		}
	}
	return false
}

var c18tagRE = regexp.MustCompile(`"t":"([^"\\]*)"`)

// c18bodyTags lists every tag mentioned anywhere in a body (also in bodies
// that are not valid JSON).
func c18bodyTags(body string) []string {
	var out []string
	for _, m := range c18tagRE.FindAllStringSubmatch(body, -1) {
		out = append(out, m[1])
	}
	return out
}

// c18memberTag is the tag a handler would log for this member: params.t if
// params is an object carrying one, else "-"+method (peer.TagOf).
func c18memberTag(m oracle.Member) string {
	var p struct {
		T string `json:"t"`
	}
	if len(m.Params) > 0 {
		json.Unmarshal(m.Params, &p)
	}
	if p.T == "" {
		return "-" + m.Method
	}
	return p.T
}

// c18opt is one admissible outcome of one member of a body.
type c18opt struct {
	silent bool
	isErr  bool
	codes  []int
	id     json.RawMessage // nil = null
	runs   int             // handler invocations this outcome implies
	kind   byte            // 't' result token of tag, 'o' object result, 'a' application error of tag, 0 protocol error
	tag    string
}

func c18options(variants []oracle.Member) []c18opt {
	var out []c18opt
	for _, m := range variants {
		tag := c18memberTag(m)
		switch m.Kind {
		case oracle.Invalid:
			out = append(out, c18opt{isErr: true, codes: []int{-32700, -32600}, id: m.ID, tag: tag})
		case oracle.Call:
			switch m.Method {
			case "i", "g":
				out = append(out, c18opt{id: m.ID, runs: 1, kind: 't', tag: tag})
			case "e":
				out = append(out, c18opt{id: m.ID, runs: 1, isErr: true, codes: []int{7}, kind: 'a', tag: tag})
			case "c": // the handler's own context.Canceled: an error response like any other
				out = append(out, c18opt{id: m.ID, runs: 1, isErr: true, codes: []int{-32097}, tag: tag})
			case "d":
				out = append(out, c18opt{id: m.ID, runs: 1, isErr: true, codes: []int{-32096}, tag: tag})
			case "rpc.serverInfo":
				out = append(out, c18opt{id: m.ID, kind: 'o', tag: tag})
			default:
				out = append(out, c18opt{isErr: true, codes: []int{-32601}, id: m.ID, tag: tag})
			}
		case oracle.Note:
			runs := 0
			if m.Method == "i" || m.Method == "g" || m.Method == "e" || m.Method == "c" || m.Method == "d" {
				runs = 1
			}
			out = append(out, c18opt{silent: true, runs: runs, tag: tag})
		}
	}
	return out
}

// c18idSame compares a response id with the caller's id text: null for no
// usable id, byte for byte for numbers, as JSON values for strings.
func c18idSame(want, got json.RawMessage) bool {
	want, got = bytes.TrimSpace(want), bytes.TrimSpace(got)
	if len(want) == 0 {
		return string(got) == "null"
	}
	if want[0] == '"' {
		var x, y string
		return len(got) > 0 && got[0] == '"' && json.Unmarshal(want, &x) == nil && json.Unmarshal(got, &y) == nil && x == y
	}
	return bytes.Equal(want, got)
}

func (o c18opt) accepts(r oracle.Resp) bool {
	if o.silent || o.isErr != r.IsErr || !c18idSame(o.id, r.ID) {
		return false
	}
	if o.isErr {
		ok := false
		for _, c := range o.codes {
			ok = ok || c == r.Code
		}
		if ok && o.kind == 'a' {
			ok = r.Msg == "E:"+o.tag
		}
		return ok
	}
	switch o.kind {
	case 'o':
		return len(r.Result) > 0 && r.Result[0] == '{'
	case 't':
		var s string
		return json.Unmarshal(r.Result, &s) == nil && strings.HasPrefix(s, o.tag+"/")
	}
	return false
}

// c18match reports whether the responses (in any order) can be explained
// member by member: every member takes one admissible outcome whose handler
// count equals the observed count for its tag (a negative observed count is
// unknown), every non-silent outcome claims a different response, and no
// response is left over. It returns the handler runs implied.
func c18match(opts [][]c18opt, resps []oracle.Resp, runs func(tag string) int) (ok bool, nruns int) {
	if len(resps) > 62 {
		return false, 0
	}
	var rec func(i int, used uint64, r int) bool
	rec = func(i int, used uint64, r int) bool {
		if i == len(opts) {
			if used == uint64(1)<<len(resps)-1 {
				nruns = r
				return true
			}
			return false
		}
		for _, o := range opts[i] {
			if obs := runs(o.tag); obs >= 0 && obs != o.runs {
				continue
			}
			if o.silent {
				if rec(i+1, used, r+o.runs) {
					return true
				}
				continue
			}
			for j := range resps {
				if used&(1<<j) == 0 && o.accepts(resps[j]) {
					if rec(i+1, used|1<<j, r+o.runs) {
						return true
					}
				}
			}
		}
		return false
	}
	return rec(0, 0, 0), nruns
}

// c18verdict is what c18judge learnt about one answered POST.
type c18verdict struct {
	responses int // response objects in the HTTP body
	runs      int // handler invocations attributed to the POST
	rejected  bool
	invalid   int // statically invalid members answered
}

// c18judge compares the HTTP answer to one POST with the property. runs
// reports the number of handler invocations logged for a tag at quiescence
// (negative = not known for this tag).
func c18judge(c *vt.Ctx, what string, p c18post, status int, out []byte, runs func(tag string) int) (v c18verdict) {
	fail := func(format string, args ...any) {
		c.Failf("%s: %s %s (Content-Type %q) body %q: %s; bridge answered %d %q", what, p.method, p.name, p.ctype, p.body,
			fmt.Sprintf(format, args...), status, out)
	}
	noRuns := func(why string) {
		for _, t := range c18bodyTags(p.body) {
			if n := runs(t); n > 0 {
				fail("%s, but the handler for tag %q ran %d time(s)", why, t, n)
			}
		}
	}
	switch {
	case p.method != "POST":
		v.rejected = true
		if status != 405 {
			fail("want status 405 for a non-POST method")
		}
		noRuns("request refused (method)")
		return
	case !c18isOKType(p.ctype):
		v.rejected = true
		if status != 415 {
			fail("want status 415 for this content type")
		}
		noRuns("request refused (content type)")
		return
	}
	ref := oracle.ClassifyRecord([]byte(p.body))
	if !ref.ValidJSON {
		v.rejected = true
		if status < 400 || status > 599 {
			fail("want an error status for a body that is not valid JSON")
		}
		noRuns("body is not valid JSON")
		return
	}
	var resps []oracle.Resp
	switch status {
	case 204:
		if len(out) != 0 {
			fail("status 204 with a non-empty body")
			return
		}
	case 200:
		rs, isArr, err := oracle.ParseResponses(out)
		if err != nil {
			fail("body of the 200 answer is not a valid JSON-RPC 2.0 response or batch: %v", err)
			return
		}
		if isArr != (len(rs) >= 2) {
			fail("%d response object(s) sent as array=%v (want a single object for one, an array otherwise)", len(rs), isArr)
		}
		resps = rs
	default:
		fail("want status 200 or 204")
		return
	}
	v.responses = len(resps)
	if ref.IsArray && len(ref.Members) == 0 {
		// empty batch: nothing to answer (204) or one Invalid Request error
		if !(len(resps) == 0 || (len(resps) == 1 && resps[0].IsErr && resps[0].Code == -32600 && c18idSame(nil, resps[0].ID))) {
			fail("empty batch: want 204 or a single -32600 error object with id null")
		}
		return
	}
	opts := make([][]c18opt, len(ref.Members))
	for i, vs := range ref.Members {
		opts[i] = c18options(vs)
		if vs[0].Kind == oracle.Invalid {
			v.invalid++
		}
	}
	ok, n := c18match(opts, resps, runs)
	v.runs = n
	if !ok {
		var want []string
		for _, vs := range ref.Members {
			m := vs[0]
			id := string(m.ID)
			if id == "" {
				id = "null"
			}
			want = append(want, fmt.Sprintf("%s(id=%s method=%q tag=%q handler_runs_observed=%d %s)", m.Kind, id, m.Method, c18memberTag(m), runs(c18memberTag(m)), m.Why))
		}
		fail("the responses and handler runs are not exactly those of this body's members %v", want)
	}
	return
}

// c18runCounts counts h.enter events by tag.
func c18runCounts(log *peer.Log) map[string]int {
	m := map[string]int{}
	for _, e := range log.Events() {
		if e.Kind == "h.enter" {
			m[e.Tag]++
		}
	}
	return m
}
