package checks

import (
	"context"
	"encoding/json"
	"errors"
	"fmt"
	"strings"
	"time"

	"github.com/creachadair/jrpc2"

	"verif/harness/peer"
	"verif/harness/sched"
	"verif/harness/vt"
)

// C01, family T — request contexts that end (ServerOptions.NewContext).
//
// With the default background context a request never loses its turn: it waits for
// a handler slot as long as it takes. With a NewContext that hands out deadlines
// (a per-request time limit, a connection-scoped context) a request can give up
// while it is still waiting for a slot. What happens to *that* request is the
// library's choice (its handler may never run; a call is then answered with an
// error) — but the connection stays up, so everything the statement says keeps
// applying to every other request: one response per call, none per notification,
// batch shape, and above all later messages are still served.
//
// Scenario (virtual time): Concurrency c, NewContext = 1 s deadline per request.
// A blocker message of c stubborn calls takes every slot; the script's messages
// arrive and queue up; the clock is advanced by 2 s (every context handed out so
// far ends); the blockers are released; then all gates are opened and a probe call
// is sent. Oracle:
//
//	every call (blockers, script, probe) has exactly one response with its id, in
//	a message of the right shape; a call that had started before the clock moved
//	is answered with its handler's outcome, one that had not is answered with that
//	or with an error; no handler runs twice; no notification is answered; the probe
//	is answered with its handler's token.

var c01tAlpha = []string{"n", "c", "nc", "cn", "nn", "ncn"} // n notification, c call (both gated, deaf to the context)

func c01tCases(e vt.Env, yield func(vt.Case) bool) bool {
	ok := true
	seqs(len(c01tAlpha), 1, e.Pick(2, 3), func(idx []int) bool {
		script := make([]string, len(idx))
		for i, k := range idx {
			script[i] = c01tAlpha[k]
		}
		for _, conc := range []int{1, 2} {
			script, conc := append([]string(nil), script...), conc
			id := fmt.Sprintf("T/%s/c%d", join(script), conc)
			ok = yield(vt.Case{ID: id, Run: func(c *vt.Ctx) {
				c01tExec(c, script, conc, sched.New())
				c.Distinct(id)
				rng := e.Rand(id)
				for k := 0; k < e.Pick(1, 4) && !c.Failed(); k++ {
					c01tExec(c, script, conc, sched.New().WithPerturb(0.1, rng))
				}
				if c.WantSample() {
					c.Sample(map[string]any{"family": "T", "script": script, "concurrency": conc})
				}
			}})
			if !ok {
				return false
			}
		}
		return true
	})
	return ok
}

func c01tExec(c *vt.Ctx, script []string, conc int, ctrl *sched.Controller) {
	peer.Bubble(c, ctrl, func() {
		rig := peer.NewServerRig(c, ctrl, peer.ServerOpts{Concurrency: conc, BaseContext: func() context.Context {
			// the deadline carries an explicit cause, as an application's may
			ctx, cancel := context.WithTimeoutCause(context.Background(), time.Second, errors.New("request budget exhausted"))
			_ = cancel // the context ends by its deadline; nothing else ends it
			return ctx
		}})
		type member struct {
			note bool
			id   string
			tag  string
		}
		var msgs [][]member
		nextID := 0
		mk := func(tagPrefix string, shape string) []member {
			var ms []member
			for j, ch := range shape {
				m := member{note: ch == 'n', tag: fmt.Sprintf("%s.%d", tagPrefix, j)}
				if !m.note {
					nextID++
					m.id = fmt.Sprint(nextID)
				}
				ms = append(ms, m)
			}
			return ms
		}
		wire := func(ms []member, batch bool) string {
			var parts []string
			for _, m := range ms {
				parts = append(parts, peer.Req(m.id, "G", m.tag))
			}
			if batch {
				return "[" + strings.Join(parts, ",") + "]"
			}
			return parts[0]
		}
		// the blockers
		block := mk("blk", strings.Repeat("c", conc))
		msgs = append(msgs, block)
		rig.Send(wire(block, true))
		rig.Settle()
		for i, sym := range script {
			ms := mk(fmt.Sprintf("m%d", i), sym)
			msgs = append(msgs, ms)
			rig.Send(wire(ms, len(sym) > 1))
		}
		rig.Settle()
		startedBefore := map[string]bool{}
		for _, e := range rig.Log.Events() {
			if e.Kind == "h.enter" {
				startedBefore[e.Tag] = true
			}
		}
		time.Sleep(2 * time.Second) // virtual: every context handed out so far has ended
		rig.Settle()
		c.Count("contexts_ended_while_waiting", len(script))
		rig.H.ReleaseAll()
		rig.Settle()
		probe := mk("probe", "c")
		msgs = append(msgs, probe)
		rig.Send(wire(probe, false))
		rig.Settle()

		// ---- oracle ----
		enters := map[string]int{}
		for _, e := range rig.Log.Events() {
			if e.Kind == "h.enter" {
				enters[e.Tag]++
			}
		}
		for tag, n := range enters {
			if n > 1 {
				c.Failf("T %v c%d: handler for %s ran %d times", script, conc, tag, n)
			}
		}
		byID := map[string]member{}
		shapeOf := map[string]int{} // id -> message index
		for i, ms := range msgs {
			for _, m := range ms {
				if !m.note {
					byID[m.id] = m
					shapeOf[m.id] = i
				}
			}
		}
		answered := map[string]bool{}
		for _, rec := range rig.Outbound() {
			ms, isArr, err := peer.Decode(rec)
			if err != nil {
				c.Failf("T %v c%d: undecodable outbound record %q: %v", script, conc, rec, err)
				continue
			}
			first := -1
			for _, m := range ms {
				id := string(m.ID)
				mem, ok := byID[id]
				if !ok {
					c.Failf("T %v c%d: response with id %s, which no call bears: %q", script, conc, id, rec)
					continue
				}
				if answered[id] {
					c.Failf("T %v c%d: call %s (%s) answered twice", script, conc, id, mem.tag)
				}
				answered[id] = true
				if first < 0 {
					first = shapeOf[id]
				} else if shapeOf[id] != first {
					c.Failf("T %v c%d: one outbound message answers calls of two inbound messages: %q", script, conc, rec)
				}
				if m.Error == nil {
					if tok := m.ResultToken(); !strings.HasPrefix(tok, mem.tag+"/") || enters[mem.tag] != 1 {
						c.Failf("T %v c%d: call %s (%s) answered with result %q; its handler ran %d times", script, conc, id, mem.tag, tok, enters[mem.tag])
					}
				} else if startedBefore[mem.tag] || strings.HasPrefix(mem.tag, "probe") {
					c.Failf("T %v c%d: call %s (%s), whose handler was %s, answered with error %d %q", script, conc, id, mem.tag,
						map[bool]string{true: "already running when the clock moved", false: "invoked with a live context"}[startedBefore[mem.tag]], m.Error.Code, m.Error.Message)
				} else {
					// it gave up waiting for a slot: a cancellation error (the context's own:
					// deadline exceeded or cancelled, not its cause), and its handler never ran
					if m.Error.Code != int(jrpc2.DeadlineExceeded) && m.Error.Code != int(jrpc2.Cancelled) {
						c.Failf("T %v c%d: call %s (%s), whose context ended while it waited for a slot, answered with error %d %q; want a cancellation error (%d or %d)",
							script, conc, id, mem.tag, m.Error.Code, m.Error.Message, jrpc2.DeadlineExceeded, jrpc2.Cancelled)
					}
					if enters[mem.tag] != 0 {
						c.Failf("T %v c%d: call %s (%s) answered with a cancellation error although its handler ran", script, conc, id, mem.tag)
					}
					c.Count("calls_answered_with_context_error", 1)
				}
			}
			if first >= 0 {
				wantArr := len(msgs[first]) > 1 || first == 0
				if isArr != wantArr {
					c.Failf("T %v c%d: reply %q is an array: %v, the request message was: %v", script, conc, rec, isArr, wantArr)
				}
			}
		}
		for id, mem := range byID {
			if !answered[id] {
				c.Failf("T %v c%d: call %s (%s) was never answered (handler runs: %d, started before the clock moved: %v); outbound: %s",
					script, conc, id, mem.tag, enters[mem.tag], startedBefore[mem.tag], c13clipAll(rig.Outbound()))
			}
		}
		if _, ok := rig.Finish(); !ok {
			c.Failf("T %v c%d: server did not exit after the peer closed", script, conc)
		}
		c.Count("events", rig.Log.Len())
		c.Count("handler_runs", int(rig.H.Invocations()))
		c.Count("outbound_records", len(rig.Outbound()))
	})
	c.Eval(1)
}

var _ = json.Valid
