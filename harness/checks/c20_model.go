package checks

import (
	"fmt"
	"strings"
)

// Script language and reference model of the C20 check (server.Loop).
//
// A script is a sequence of steps; a step is one event, or (only in the
// seeded E3 scripts) two events applied back to back without a quiescent
// point in between. Events:
//
//	K      the accepter is offered a new connection (service initialises fine)
//	F      the same, but the service's Assigner method reports an error
//	g<k>   the client of connection k sends a call to a gated handler
//	i<k>   the client of connection k sends a call to an instant handler
//	c<k>   the client of connection k closes its end
//	r<tag> the gate of the gated call <tag> is released
//	X      the context given to Loop is cancelled
//	A      the accepter fails with a "closing" error (wraps channel.ErrClosed or net.ErrClosed)
//	E      the accepter fails with some other error
//
// The model below is written from the documentation of server.Loop and
// jrpc2.Server (what stops a server, when a stopped server has exited); it
// predicts, for every quiescent point, which servers have exited, with which
// status, and whether Loop has returned with which value.

const (
	c20CtxIgnore  = 0 // Accept ignores the end of its context
	c20CtxClosing = 1 // Accept returns a closing error when its context ends (like NetAccepter)
	c20CtxErr     = 2 // Accept returns ctx.Err() when its context ends
)

// c20var holds the per-execution variant flags.
type c20var struct {
	CtxMode  int
	Pipe     bool // the server end's Close unblocks its own Recv (socket-like)
	Stubborn bool // gated handlers ignore their context (method G instead of g)
	NetErr   bool // closing errors wrap net.ErrClosed instead of channel.ErrClosed
	PrioCtx  bool // the accepter looks at its context before its queue
}

func (v c20var) String() string {
	b := func(x bool) int {
		if x {
			return 1
		}
		return 0
	}
	return fmt.Sprintf("ctx%d.pipe%d.stub%d.net%d.prio%d", v.CtxMode, b(v.Pipe), b(v.Stubborn), b(v.NetErr), b(v.PrioCtx))
}

type c20ev struct {
	Op  byte
	K   int
	Tag string
}

func (e c20ev) String() string {
	switch e.Op {
	case 'g', 'i', 'c':
		return fmt.Sprintf("%c%d", e.Op, e.K)
	case 'r':
		return "r" + e.Tag
	}
	return string(e.Op)
}

// c20step is one or two events; two events race (no settle in between).
type c20step []c20ev

func (s c20step) String() string {
	if len(s) == 1 {
		return s[0].String()
	}
	var p []string
	for _, e := range s {
		p = append(p, e.String())
	}
	return "(" + strings.Join(p, "|") + ")"
}

type c20script []c20step

func (s c20script) String() string {
	var p []string
	for _, st := range s {
		p = append(p, st.String())
	}
	if len(p) == 0 {
		return "-"
	}
	return strings.Join(p, ",")
}

func c20single(evs []c20ev) c20script {
	out := make(c20script, len(evs))
	for i, e := range evs {
		out[i] = c20step{e}
	}
	return out
}

func (s c20script) hasConn() bool {
	for _, st := range s {
		for _, e := range st {
			if e.Op == 'K' || e.Op == 'F' {
				return true
			}
		}
	}
	return false
}

// Causes of a server's stop.
const (
	c20Closed  = "closed"  // its client closed the connection
	c20Stopped = "stopped" // Loop stopped it because the context ended
	c20Either  = "either"  // both happened in the same racing step
)

type c20mconn struct {
	fail         bool
	absent       bool // offered in a racing step but never accepted (observed)
	clientClosed bool
	readerDone   bool
	cause        string
	running      []string // gated handlers that must be running
	calls        int
	gated        int
	instants     int
}

// exited reports whether the connection's server must have exited: it has
// been told to stop, no handler is still running, and its reader is gone.
func (mc *c20mconn) exited() bool {
	return !mc.fail && !mc.absent && mc.cause != "" && len(mc.running) == 0 && mc.readerDone
}

type c20model struct {
	v         c20var
	conns     []*c20mconn
	cancelled bool
	accDead   []byte // causes that may have made Accept fail: 'A', 'E', 'X' (more than one only after a racing step)
	gated     int
}

func (m *c20model) clone() *c20model {
	cp := *m
	cp.conns = nil
	for _, mc := range m.conns {
		c := *mc
		c.running = append([]string(nil), mc.running...)
		cp.conns = append(cp.conns, &c)
	}
	cp.accDead = append([]byte(nil), m.accDead...)
	return &cp
}

func (m *c20model) accFailed() bool { return len(m.accDead) > 0 }

func (m *c20model) loopReturned() bool {
	if !m.accFailed() {
		return false
	}
	for _, mc := range m.conns {
		if !mc.fail && !mc.absent && !mc.exited() {
			return false
		}
	}
	return true
}

func (m *c20model) stopServer(mc *c20mconn, cause string) {
	if mc.fail || mc.absent || mc.cause != "" {
		return
	}
	mc.cause = cause
	if !m.v.Stubborn {
		mc.running = nil // gated handlers return when their context ends
	}
}

func (m *c20model) apply(e c20ev) {
	switch e.Op {
	case 'K', 'F':
		mc := &c20mconn{fail: e.Op == 'F'}
		m.conns = append(m.conns, mc)
		if m.cancelled {
			m.stopServer(mc, c20Stopped)
			mc.readerDone = m.v.Pipe
		}
	case 'g':
		mc := m.conns[e.K]
		mc.running = append(mc.running, e.Tag)
		mc.calls++
		mc.gated++
		m.gated++
	case 'i':
		mc := m.conns[e.K]
		mc.calls++
		mc.instants++
	case 'c':
		mc := m.conns[e.K]
		mc.clientClosed = true
		m.stopServer(mc, c20Closed)
		mc.readerDone = true
	case 'r':
		for _, mc := range m.conns {
			for i, t := range mc.running {
				if t == e.Tag {
					mc.running = append(append([]string(nil), mc.running[:i]...), mc.running[i+1:]...)
					break
				}
			}
		}
	case 'X':
		m.cancelled = true
		for _, mc := range m.conns {
			if !mc.fail && !mc.absent && mc.cause == "" {
				m.stopServer(mc, c20Stopped)
				mc.readerDone = m.v.Pipe
			}
		}
		if !m.accFailed() && m.v.CtxMode != c20CtxIgnore {
			m.accDead = []byte{'X'}
		}
	case 'A', 'E':
		if !m.accFailed() {
			m.accDead = []byte{e.Op}
		}
	}
}

type c20lim struct {
	maxConns     int
	maxGated     int // gated calls per script
	maxInstant   int // instant calls per connection
	closeFailed  bool
	afterReturn  bool // allow events after Loop has returned
	gatedPerConn int
}

// enabled lists the events that make sense in the model's current state.
func (m *c20model) enabled(l c20lim) []c20ev {
	var out []c20ev
	if m.loopReturned() && !l.afterReturn {
		return nil
	}
	if !m.accFailed() && len(m.conns) < l.maxConns {
		out = append(out, c20ev{Op: 'K'}, c20ev{Op: 'F'})
	}
	for k, mc := range m.conns {
		if mc.absent {
			continue
		}
		if mc.fail {
			if l.closeFailed && !mc.clientClosed {
				out = append(out, c20ev{Op: 'c', K: k})
			}
			continue
		}
		if mc.cause == "" {
			tag := fmt.Sprintf("%d.%d", k, mc.calls)
			if m.gated < l.maxGated && mc.gated < l.gatedPerConn {
				out = append(out, c20ev{Op: 'g', K: k, Tag: tag})
			}
			if mc.instants < l.maxInstant {
				out = append(out, c20ev{Op: 'i', K: k, Tag: tag})
			}
		}
		if !mc.clientClosed {
			out = append(out, c20ev{Op: 'c', K: k})
		}
		for _, t := range mc.running {
			out = append(out, c20ev{Op: 'r', K: k, Tag: t})
		}
	}
	if !m.cancelled {
		out = append(out, c20ev{Op: 'X'})
	}
	if !m.accFailed() {
		out = append(out, c20ev{Op: 'A'}, c20ev{Op: 'E'})
	}
	return out
}

// teardown returns the events that end the scenario in an orderly way from
// the model's current state: release every gate, close every client, cancel
// the context, and fail the accepter with a closing error if it is still
// accepting. The model is advanced.
func (m *c20model) teardown() []c20ev {
	var out []c20ev
	add := func(e c20ev) { out = append(out, e); m.apply(e) }
	for k, mc := range m.conns {
		for _, t := range append([]string(nil), mc.running...) {
			add(c20ev{Op: 'r', K: k, Tag: t})
		}
	}
	for k, mc := range m.conns {
		if !mc.absent && !mc.clientClosed {
			add(c20ev{Op: 'c', K: k})
		}
	}
	if !m.cancelled {
		add(c20ev{Op: 'X'})
	}
	if !m.accFailed() {
		add(c20ev{Op: 'A'})
	}
	return out
}

// c20enum enumerates every script of exactly n single-event steps that makes
// sense for variant v under the limits l.
func c20enum(v c20var, l c20lim, n int, yield func([]c20ev) bool) bool {
	var rec func(prefix []c20ev) bool
	rec = func(prefix []c20ev) bool {
		if len(prefix) == n {
			return yield(append([]c20ev(nil), prefix...))
		}
		m := &c20model{v: v}
		for _, e := range prefix {
			m.apply(e)
		}
		for _, e := range m.enabled(l) {
			if !rec(append(prefix, e)) {
				return false
			}
		}
		return true
	}
	return rec(nil)
}
