package checks

import (
	"context"
	"encoding/json"
	"fmt"
	"strings"
	"sync"
	"sync/atomic"

	"github.com/creachadair/jrpc2"

	"verif/harness/peer"
	"verif/harness/sched"
	"verif/harness/vt"
)

// C03 — a notification completes before any later-arriving request starts,
// and running calls never delay later requests (up to the concurrency limit).
//
// Oracle, evaluated on the handler enter/exit log at every quiescent point of
// every execution:
//
//	(i)  for every notification n of message i and request r of message j > i:
//	     exit(n) < enter(r);
//	(ii) let "released" be the messages all of whose predecessors'
//	     notifications have exited; the number of handlers entered and not yet
//	     exited equals min(Concurrency, number of requests of released
//	     messages that have not exited), and no request of an unreleased
//	     message has entered.

type c03member struct {
	note    bool
	builtin bool // a call to rpc.serverInfo: no harness handler, observed through its reply
	nullID  bool // a notification spelled with an explicit "id":null
	tag     string
	id      int
}

type c03msg struct {
	members []c03member
	batch   bool
}

var c03alphabet = []string{"N", "C", "NC", "NN", "CC", "CNC", "CN", "B", "Z", "ZC"}

func c03build(script []string) (msgs []c03msg, tags []string) {
	id := 0
	for i, sym := range script {
		var m c03msg
		m.batch = len(sym) > 1
		for j, ch := range sym {
			mem := c03member{note: ch == 'N' || ch == 'Z', nullID: ch == 'Z', builtin: ch == 'B', tag: fmt.Sprintf("m%d.%d", i, j)}
			if !mem.note {
				id++
				mem.id = id
			}
			m.members = append(m.members, mem)
			if !mem.builtin {
				tags = append(tags, mem.tag)
			}
		}
		msgs = append(msgs, m)
	}
	return
}

func (m c03msg) wire() string { return m.wireWith("g") }

// wireWith renders the message with the given handler kind for notifications
// ("g" gated, "G" gated and deaf to its context).
func (m c03msg) wireWith(noteMethod string) string {
	var parts []string
	for _, mem := range m.members {
		id := ""
		if !mem.note {
			id = fmt.Sprint(mem.id)
		}
		if mem.builtin {
			parts = append(parts, peer.Req(id, "rpc.serverInfo", ""))
			continue
		}
		if mem.nullID {
			id = "null"
		}
		if mem.note {
			parts = append(parts, peer.Req(id, noteMethod, mem.tag))
		} else {
			parts = append(parts, peer.Req(id, "g", mem.tag))
		}
	}
	if m.batch {
		return "[" + strings.Join(parts, ",") + "]"
	}
	return parts[0]
}

// c03state checks clause (ii) and the state form of clause (i).
func c03state(c *vt.Ctx, rig *peer.ServerRig, msgs []c03msg, conc int, when string) {
	log := rig.Log
	entered, exited := map[string]int64{}, map[string]int64{}
	// a built-in call has run iff its reply is on the wire
	answered := map[string]bool{}
	for _, rec := range rig.Outbound() {
		if ms, _, err := peer.Decode(rec); err == nil {
			for _, m := range ms {
				answered[string(m.ID)] = true
			}
		}
	}
	for _, e := range log.Events() {
		switch e.Kind {
		case "h.enter":
			if _, dup := entered[e.Tag]; dup {
				c.Failf("%s: handler for %s entered twice", when, e.Tag)
			}
			entered[e.Tag] = e.T
		case "h.exit":
			exited[e.Tag] = e.T
		}
	}
	released := true
	pending, running := 0, 0
	for i, m := range msgs {
		for _, mem := range m.members {
			_, en := entered[mem.tag]
			_, ex := exited[mem.tag]
			if mem.builtin {
				en = answered[fmt.Sprint(mem.id)]
				ex = en
				if released && !en && conc > 1 {
					// a released built-in call only waits for a slot; with a free slot it must have run
				}
			}
			if en && !released {
				c.Failf("%s: request %s of message %d entered although an earlier notification has not returned", when, mem.tag, i)
			}
			if released && !ex && !mem.builtin {
				pending++
			}
			if en && !ex {
				running++
			}
		}
		// later messages are released only if all notifications so far exited
		for _, mem := range m.members {
			if _, ex := exited[mem.tag]; mem.note && !ex {
				released = false
			}
		}
	}
	want := min(conc, pending)
	if running != want {
		c.Failf("%s: %d handlers running, want min(concurrency %d, %d dispatchable requests) = %d (not work-conserving or over limit)",
			when, running, conc, pending, want)
	}
}

// c03final checks clause (i) on timestamps and that every request ran once.
func c03final(c *vt.Ctx, log *peer.Log, msgs []c03msg) {
	enter, exit := map[string]int64{}, map[string]int64{}
	for _, e := range log.Events() {
		switch e.Kind {
		case "h.enter":
			enter[e.Tag] = e.T
		case "h.exit":
			exit[e.Tag] = e.T
		}
	}
	for i, m := range msgs {
		for _, mem := range m.members {
			if mem.builtin {
				continue
			}
			if _, ok := enter[mem.tag]; !ok {
				c.Failf("final: request %s never ran", mem.tag)
			}
			if _, ok := exit[mem.tag]; !ok {
				c.Failf("final: request %s never returned", mem.tag)
			}
			if !mem.note {
				continue
			}
			for j := i + 1; j < len(msgs); j++ {
				for _, later := range msgs[j].members {
					if en, ok := enter[later.tag]; ok && en < exit[mem.tag] {
						c.Failf("final: %s (message %d) entered at t=%d before notification %s (message %d) returned at t=%d",
							later.tag, j, en, mem.tag, i, exit[mem.tag])
					}
				}
			}
		}
	}
}

type c03run struct {
	script []string
	conc   int
	order  []string
	ctrl   *sched.Controller
	stopAt int // Stop() is called before the stopAt-th release (0 = right after arrival); -1 = never
	// E4 variants
	kcb    bool // every notification handler first performs Server.Callback with its own context and waits for the reply
	ctxEnd bool // ServerOptions.NewContext hands out cancellable contexts; those of the running notifications are ended after arrival
}

type c03ctxKey struct{}

// c03orderOnly checks clause (i) on timestamps for whatever has run, and that
// every notification ran exactly once (after a stop, calls may be dropped).
func c03afterStop(c *vt.Ctx, log *peer.Log, msgs []c03msg, when string, final bool) {
	enter, exit := map[string]int64{}, map[string]int64{}
	for _, e := range log.Events() {
		switch e.Kind {
		case "h.enter":
			if _, dup := enter[e.Tag]; dup {
				c.Failf("%s: handler for %s entered twice", when, e.Tag)
			}
			enter[e.Tag] = e.T
		case "h.exit":
			exit[e.Tag] = e.T
		}
	}
	for i, m := range msgs {
		for _, mem := range m.members {
			if !mem.note {
				continue
			}
			if final && exit[mem.tag] == 0 {
				c.Failf("%s: notification %s (received before the stop) never completed", when, mem.tag)
			}
			for j := i + 1; j < len(msgs); j++ {
				for _, later := range msgs[j].members {
					en, started := enter[later.tag]
					if !started {
						continue
					}
					if ex, done := exit[mem.tag]; !done || en < ex {
						c.Failf("%s: %s (message %d) entered at t=%d although notification %s (message %d) had not returned", when, later.tag, j, en, mem.tag, i)
					}
				}
			}
		}
	}
}

// c03slowNamer is an assigner whose Names() takes as long as the harness wants (a
// registry behind a lock, a remote lookup): rpc.serverInfo, which calls it, is then a
// call that is still running - it must not delay the requests that arrive after it.
type c03slowNamer struct {
	*peer.Handlers
	gate chan struct{}
	log  *peer.Log
}

func (n c03slowNamer) Names() []string {
	n.log.Add("names.enter", "", "")
	<-n.gate
	n.log.Add("names.exit", "", "")
	return n.Handlers.Names()
}

func c03infoExec(c *vt.Ctx, conc int) {
	ctrl := sched.New()
	peer.Bubble(c, ctrl, func() {
		gate := make(chan struct{})
		log := peer.NewLog()
		h := peer.NewHandlers(log)
		rig := peer.NewServerRig(c, ctrl, peer.ServerOpts{Concurrency: conc, Assigner: c03slowNamer{h, gate, log}})
		rig.H = h
		what := fmt.Sprintf("rpc.serverInfo with a slow Names(), Concurrency %d", conc)
		rig.Send(peer.Req("1", "rpc.serverInfo", ""))
		peer.SettleOrStuck(ctrl)
		if log.Count("names.enter", "*") != 1 {
			c.Failf("%s: the built-in has not asked the assigner for its names", what)
		}
		// the built-in is running (inside Names); two more requests arrive
		rig.Send(peer.Req("2", "i", "after1"))
		rig.Send(peer.Req("", "i", "after2"))
		stuck := peer.SettleOrStuck(ctrl)
		if n := log.Count("h.exit", "after1") + log.Count("h.exit", "after2"); n != 2 {
			msg := ""
			if stuck != nil {
				msg = fmt.Sprintf("; nothing can move: %d goroutine(s) wait for the server's mutex, first:\n%.1200s", len(stuck), stuck[0])
			}
			c.Failf("%s: %d of the 2 requests that arrived while the built-in call was still running have been served, want 2 (a running call never delays later requests)%s", what, n, msg)
		}
		close(gate)
		rig.Settle()
		if got := len(rig.Outbound()); got != 2 {
			c.Failf("%s: %d replies, want 2", what, got)
		}
		if _, ok := rig.Finish(); !ok {
			c.Failf("%s: server did not exit after the peer closed", what)
		}
		c.Count("events", log.Len())
		c.Count("handler_runs", int(h.Invocations()))
		c.Count("slow_namer_runs", 1)
	})
	c.Eval(1)
}

// c03growingNamer is an assigner whose method list grows when the harness says so: the
// effect of a notification ("register this method") that a later rpc.serverInfo must see.
type c03growingNamer struct {
	*peer.Handlers
	grown *atomic.Bool
}

func (n c03growingNamer) Names() []string {
	names := n.Handlers.Names()
	if n.grown.Load() {
		names = append(names, "zz.registered")
	}
	return names
}

// c03freshExec: rpc.serverInfo arrives while a notification is still running; the effect
// the notification has before it returns must be in the answer (the built-in is a request
// like any other: it starts - looks at the server and the assigner - only after the
// notifications received before it have completed). Judged on the reply alone.
func c03freshExec(c *vt.Ctx, conc int, company bool) {
	ctrl := sched.New()
	peer.Bubble(c, ctrl, func() {
		var grown atomic.Bool
		log := peer.NewLog()
		h := peer.NewHandlers(log)
		rig := peer.NewServerRig(c, ctrl, peer.ServerOpts{Concurrency: conc, Assigner: c03growingNamer{h, &grown}})
		rig.H = h
		what := fmt.Sprintf("rpc.serverInfo behind a running notification, Concurrency %d, other requests queued = %v", conc, company)
		rig.Send(peer.Req("", "g", "n1"))
		rig.Settle()
		if log.Count("h.enter", "n1") != 1 {
			c.Failf("%s: the notification has not started", what)
		}
		if company {
			rig.Send(peer.Req("7", "i", "before"))
		}
		rig.Send(peer.Req("1", "rpc.serverInfo", ""))
		if company {
			rig.Send(peer.Req("8", "i", "after"))
		}
		rig.Settle()
		if n := len(rig.Outbound()); n != 0 {
			c.Failf("%s: %d replies although the notification has not returned", what, n)
		}
		grown.Store(true) // what the notification does before it returns
		h.Release("n1")
		rig.Settle()
		found := false
		for _, rec := range rig.Outbound() {
			var rsp struct {
				ID     json.RawMessage `json:"id"`
				Result struct {
					Methods []string `json:"methods"`
				} `json:"result"`
			}
			if json.Unmarshal(rec, &rsp) != nil || string(rsp.ID) != "1" {
				continue
			}
			found = true
			has := false
			for _, m := range rsp.Result.Methods {
				has = has || m == "zz.registered"
			}
			if !has {
				c.Failf("%s: the answer lists the methods %q - the state from before the notification returned (it registered \"zz.registered\" before returning, and the request arrived after it)", what, rsp.Result.Methods)
			}
		}
		if !found {
			c.Failf("%s: no reply to rpc.serverInfo among %q", what, rig.Outbound())
		}
		if _, ok := rig.Finish(); !ok {
			c.Failf("%s: server did not exit after the peer closed", what)
		}
		c.Count("events", log.Len())
		c.Count("handler_runs", int(h.Invocations()))
		c.Count("fresh_info_runs", 1)
	})
	c.Eval(1)
}

func c03exec(c *vt.Ctx, r c03run) {
	msgs, _ := c03build(r.script)
	effConc := r.conc
	peer.Bubble(c, r.ctrl, func() {
		opts := peer.ServerOpts{Concurrency: r.conc, AllowPush: r.kcb}
		var cmu sync.Mutex
		cancelOf := map[string]context.CancelFunc{} // by tag, registered by the handler itself
		if r.ctxEnd {
			opts.BaseContext = func() context.Context {
				ctx, cancel := context.WithCancel(context.Background())
				return context.WithValue(ctx, c03ctxKey{}, cancel)
			}
		}
		rig := peer.NewServerRig(c, r.ctrl, opts)
		if r.kcb || r.ctxEnd {
			rig.H.OnEnter = func(ctx context.Context, tag string, req *jrpc2.Request) {
				if cancel, ok := ctx.Value(c03ctxKey{}).(context.CancelFunc); ok && req.IsNotification() {
					cmu.Lock()
					cancelOf[tag] = cancel
					cmu.Unlock()
				}
				if r.kcb && req.IsNotification() {
					rsp, err := jrpc2.ServerFromContext(ctx).Callback(ctx, "cb", map[string]string{"t": tag})
					rig.Log.Add("cb.ret", tag, peer.DescribeResp(rsp, err))
				}
			}
		}
		noteMethod := "g"
		if r.ctxEnd {
			noteMethod = "G"
		}
		for _, m := range msgs {
			rig.Send(m.wireWith(noteMethod))
		}
		rig.Settle()
		c03state(c, rig, msgs, effConc, "after arrival")
		if r.ctxEnd {
			cmu.Lock()
			n := len(cancelOf)
			for _, cancel := range cancelOf {
				cancel()
			}
			cmu.Unlock()
			rig.Settle()
			c03state(c, rig, msgs, effConc, fmt.Sprintf("after the contexts of the %d running notifications ended", n))
			c.Count("notification_contexts_ended", n)
		}
		isNote := map[string]bool{}
		for _, m := range msgs {
			for _, mem := range m.members {
				isNote[mem.tag] = mem.note
			}
		}
		stopped := false
		releasedTag, answeredCB := map[string]bool{}, map[string]bool{}
		for k, tag := range r.order {
			if r.stopAt == k {
				rig.Srv.Stop()
				rig.Settle()
				stopped = true
			}
			releasedTag[tag] = true
			rig.H.Release(tag)
			rig.Settle()
			if r.kcb {
				// answer the callbacks of every released notification as they appear on the wire
				// (a notification released before its turn issues its callback later)
				for progress := true; progress; {
					progress = false
					for _, rec := range rig.Outbound() {
						var req struct {
							ID     json.RawMessage `json:"id"`
							Method string          `json:"method"`
							Params struct {
								T string `json:"t"`
							} `json:"params"`
						}
						if json.Unmarshal(rec, &req) == nil && req.Method == "cb" && releasedTag[req.Params.T] && !answeredCB[req.Params.T] {
							answeredCB[req.Params.T] = true
							rig.Send(`{"jsonrpc":"2.0","id":` + string(req.ID) + `,"result":"r"}`)
							rig.Settle()
							c.Count("callbacks_from_notifications_answered", 1)
							progress = true
						}
					}
				}
			}
			if stopped {
				c03afterStop(c, rig.Log, msgs, fmt.Sprintf("after Stop and release %d (%s)", k, tag), false)
			} else {
				c03state(c, rig, msgs, effConc, fmt.Sprintf("after release %d (%s)", k, tag))
			}
		}
		if _, ok := rig.Finish(); !ok {
			c.Failf("server did not exit after the peer closed")
		}
		if stopped {
			c03afterStop(c, rig.Log, msgs, "final (stopped)", true)
		} else {
			c03final(c, rig.Log, msgs)
		}
		c.Count("events", rig.Log.Len())
		c.Count("handler_runs", int(rig.H.Invocations()))
	})
	c.Eval(1)
}

func init() {
	vt.Register(&vt.Check{
		Prop:  "C03",
		Level: "exploration",
		Rule: "scripts = all sequences (length<=L) of gated messages over {N,C,[N,C],[N,N],[C,C],[C,N,C],[C,N], built-in call rpc.serverInfo, notification spelled with \"id\":null, [null-id notification, C]}, also with Stop() issued while later messages are still queued (retained notifications must keep arrival order) sent back to back to a real server, " +
			"x Concurrency {1,2,8} x every release order of the gates (<=4 gates; seeded orders beyond), oracle at every quiescent point; " +
			"plus delay-bounded schedules (every single hook visit parked, pairs in thorough) and seeded perturbation; " +
			"E4: scripts over {N,C,[N,C],[C,N],[N,N]} in which every notification handler waits in Server.Callback with its own context until the peer answers, or runs (deaf to its context) while the context ServerOptions.NewContext gave it is ended. " +
			"I: rpc.serverInfo over an assigner whose Names() is slow (a running built-in never delays the requests that arrive after it), and rpc.serverInfo arriving behind a running notification whose effect (a method registered before it returns) must be in the answer, Concurrency {1,2,8}, alone and amid queued calls. " +
			"distinct_nontrivial = distinct (script, concurrency, release order, delay set) executions that contained at least one notification followed by a later message",
		Assumptions: []string{
			"Go 1.26.8 standard library and testing/synctest (quiescence = all bubble goroutines durably blocked)",
			"between hook points goroutines are scheduled by the Go runtime (schedules are recorded, not replayed bit for bit)",
		},
		Require: map[string]int64{"handler_runs": 100, "events": 1000, "notification_contexts_ended": 50, "callbacks_from_notifications_answered": 50, "slow_namer_runs": 2, "fresh_info_runs": 6},
		Cases:   c03cases,
	})
}

func c03nontrivial(script []string) bool {
	for i, s := range script {
		if (strings.Contains(s, "N") || strings.Contains(s, "Z")) && i < len(script)-1 {
			return true
		}
	}
	return false
}

func c03cases(e vt.Env, yield func(vt.Case) bool) {
	maxLen := e.Pick(3, 4)
	concs := []int{1, 2, 8}
	// E1: all scripts x concurrency, all release orders, no forced delays.
	ok := true
	seqs(len(c03alphabet), 1, maxLen, func(idx []int) bool {
		script := make([]string, len(idx))
		for i, k := range idx {
			script[i] = c03alphabet[k]
		}
		for ci, conc := range concs {
			if !e.Thorough() && len(idx) >= 3 && int(vt.Hash64(join(script))%3) != ci {
				continue // quick: one concurrency setting per three-message script
			}
			script, conc := append([]string(nil), script...), conc
			id := fmt.Sprintf("E1/%s/c%d", join(script), conc)
			ok = yield(vt.Case{ID: id, Run: func(c *vt.Ctx) {
				_, tags := c03build(script)
				rng := e.Rand(id)
				for _, ord := range orders(tags, 4, e.Pick(6, 12), rng) {
					c03exec(c, c03run{script: script, conc: conc, order: ord, ctrl: sched.New(), stopAt: -1})
					if c03nontrivial(script) {
						c.Distinct(id + "/" + join(ord))
					}
					if c.WantSample() && c03nontrivial(script) {
						c.Sample(map[string]any{"script": script, "concurrency": conc, "release_order": ord})
					}
					if c.Failed() {
						return
					}
				}
				// Stop with messages still queued behind a running notification: the
				// notifications retained at shutdown must still run in arrival order
				if len(script) >= 2 && c03nontrivial(script) {
					for _, stopAt := range []int{0, 1} {
						if stopAt >= len(tags) {
							continue
						}
						c03exec(c, c03run{script: script, conc: conc, order: tags, ctrl: sched.New(), stopAt: stopAt})
						c.Distinct(fmt.Sprintf("%s/stop%d", id, stopAt))
						if c.Failed() {
							return
						}
					}
				}
			}})
			if !ok {
				return false
			}
		}
		return true
	})
	if !ok {
		return
	}
	// E2: delay-bounded schedules on short scripts.
	e2Len := e.Pick(2, 3)
	d := e.Pick(1, 2)
	seqs(len(c03alphabet), 1, e2Len, func(idx []int) bool {
		script := make([]string, len(idx))
		for i, k := range idx {
			script[i] = c03alphabet[k]
		}
		if !c03nontrivial(script) {
			return true
		}
		if d == 2 && len(script) > 2 {
			return true // pairs only on the shortest scripts
		}
		for _, conc := range []int{1, 2} {
			script, conc := append([]string(nil), script...), conc
			id := fmt.Sprintf("E2/%s/c%d/d%d", join(script), conc, d)
			ok = yield(vt.Case{ID: id, Run: func(c *vt.Ctx) {
				_, tags := c03build(script)
				rev := append([]string(nil), tags...)
				for i, j := 0, len(rev)-1; i < j; i, j = i+1, j-1 {
					rev[i], rev[j] = rev[j], rev[i]
				}
				for oi, ord := range [][]string{tags, rev} {
					prof := sched.New()
					c03exec(c, c03run{script: script, conc: conc, order: ord, ctrl: prof, stopAt: -1})
					if c.Failed() {
						return
					}
					sched.DelaySets(prof.Keys(), d, func(ds []string) bool {
						c03exec(c, c03run{script: script, conc: conc, order: ord, ctrl: sched.New().WithDelays(ds...), stopAt: -1})
						c.Distinct(fmt.Sprintf("%s/o%d/%s", id, oi, join(ds)))
						if c.WantSample() {
							c.Sample(map[string]any{"script": script, "concurrency": conc, "release_order": ord, "parked_at": ds})
						}
						return !c.Failed()
					})
				}
			}})
			if !ok {
				return false
			}
		}
		return true
	})
	if !ok {
		return
	}
	// E4: notifications whose handlers wait in Server.Callback (their own context), and
	// notifications whose context (ServerOptions.NewContext) ends while they run: neither
	// may let a later request start early.
	e4alpha := []string{"N", "C", "NC", "CN", "NN"}
	seqs(len(e4alpha), 2, e.Pick(2, 3), func(idx []int) bool {
		script := make([]string, len(idx))
		for i, k := range idx {
			script[i] = e4alpha[k]
		}
		if !c03nontrivial(script) {
			return true
		}
		for _, variant := range []string{"kcb", "ctxend"} {
			for _, conc := range []int{1, 2, 8} {
				if variant == "kcb" && conc == 1 {
					continue
				}
				script, conc, variant := append([]string(nil), script...), conc, variant
				id := fmt.Sprintf("E4/%s/%s/c%d", variant, join(script), conc)
				ok = yield(vt.Case{ID: id, Run: func(c *vt.Ctx) {
					_, tags := c03build(script)
					rev := append([]string(nil), tags...)
					for i, j := 0, len(rev)-1; i < j; i, j = i+1, j-1 {
						rev[i], rev[j] = rev[j], rev[i]
					}
					rng := e.Rand(id)
					for oi, ord := range [][]string{tags, rev} {
						for _, ctrl := range []*sched.Controller{sched.New(), sched.New().WithPerturb(0.1, rng)} {
							c03exec(c, c03run{script: script, conc: conc, order: ord, ctrl: ctrl, stopAt: -1, kcb: variant == "kcb", ctxEnd: variant == "ctxend"})
							if c.Failed() {
								return
							}
						}
						c.Distinct(fmt.Sprintf("%s/o%d", id, oi))
					}
				}})
				if !ok {
					return false
				}
			}
		}
		return true
	})
	if !ok {
		return
	}
	// I: the built-in rpc.serverInfo as the call that is still running
	for _, conc := range []int{2, 8} {
		conc := conc
		id := fmt.Sprintf("I/slow-names/c%d", conc)
		if !yield(vt.Case{ID: id, Run: func(c *vt.Ctx) { c03infoExec(c, conc); c.Distinct(id) }}) {
			return
		}
	}
	for _, conc := range []int{1, 2, 8} {
		for _, company := range []bool{false, true} {
			conc, company := conc, company
			id := fmt.Sprintf("I/fresh/c%d/%v", conc, company)
			if !yield(vt.Case{ID: id, Run: func(c *vt.Ctx) { c03freshExec(c, conc, company); c.Distinct(id) }}) {
				return
			}
		}
	}
	// E3: seeded perturbation on longer random scripts.
	n := e.Pick(60, 600)
	rng := e.Rand("C03/E3")
	for i := 0; i < n; i++ {
		ln := 3 + rng.IntN(4)
		script := make([]string, ln)
		for k := range script {
			script[k] = c03alphabet[rng.IntN(len(c03alphabet))]
		}
		conc := concs[rng.IntN(len(concs))]
		p := []float64{0.02, 0.05, 0.1, 0.2, 0.3}[rng.IntN(5)]
		s1, s2 := rng.Uint64(), rng.Uint64()
		id := fmt.Sprintf("E3/%d/%s/c%d/p%.2f", i, join(script), conc, p)
		if !yield(vt.Case{ID: id, Run: func(c *vt.Ctx) {
			_, tags := c03build(script)
			r := e.Rand(fmt.Sprint(id, s1, s2))
			ord := append([]string(nil), tags...)
			r.Shuffle(len(ord), func(a, b int) { ord[a], ord[b] = ord[b], ord[a] })
			c03exec(c, c03run{script: script, conc: conc, order: ord, ctrl: sched.New().WithPerturb(p, r), stopAt: r.IntN(len(ord)+2) - 1})
			if c03nontrivial(script) {
				c.Distinct(id)
			}
		}}) {
			return
		}
	}
}
