package checks

import (
	"bytes"
	"fmt"
	"io"

	"github.com/creachadair/jrpc2/channel"

	"verif/harness/vt"
)

// C11, family X — a channel in company.
//
// The other families run one channel, one direction at a time. A jrpc2 peer never
// does: its reader sits in Recv while its writers Send on the same channel, and a
// process holds many channels made by the same Framing value (channel.LSP is a
// package variable). The statement quantifies over the records and the transport's
// chunking, not over what else the process is doing, so none of that may change
// what a Recv returns or what a Send writes.
//
// Each scenario suspends one operation inside its transport call (the Write of a
// Send after k bytes, or the Read of a Recv at stream offset k — a slow pipe), runs
// complete operations elsewhere meanwhile, resumes it, and applies the usual oracle:
//
//	sib-send    Send on A suspended; sibling B (same Framing value) sends two records
//	sib-recv    Recv on A suspended; sibling B receives two records
//	sib-hold    A has received a record and not yet asked for the next (the record is
//	            valid until then); sibling B receives two records; A's record is compared after that
//	dup-recv    Recv on ch suspended; ch itself sends two records
//	dup-send    Send on ch suspended; ch itself receives two records
//
// The suspended operation runs on its own goroutine and the handshake is by
// channels, so the order of events is fixed: a deterministic two-thread schedule.

type c11gate struct {
	armed   bool
	at      int // absolute offset in the guarded stream
	reached chan struct{}
	resume  chan struct{}
}

func newC11gate() *c11gate {
	return &c11gate{reached: make(chan struct{}), resume: make(chan struct{})}
}

func (g *c11gate) hit() {
	g.armed = false
	g.reached <- struct{}{}
	<-g.resume
}

// c11gatedWC collects what a sender writes and can suspend a Write part-way.
type c11gatedWC struct {
	buf    bytes.Buffer
	closed bool
	g      *c11gate
}

func (w *c11gatedWC) Write(p []byte) (int, error) {
	if w.g != nil && w.g.armed && w.buf.Len()+len(p) > w.g.at {
		k := max(0, w.g.at-w.buf.Len())
		w.buf.Write(p[:k])
		w.g.hit()
		w.buf.Write(p[k:])
		return len(p), nil
	}
	return w.buf.Write(p)
}
func (w *c11gatedWC) Close() error { w.closed = true; return nil }

// c11gatedReader serves a fixed stream and can suspend the Read that would cross
// a given offset (serving the bytes before it first).
type c11gatedReader struct {
	data []byte
	pos  int
	g    *c11gate
	eofs int
}

func (r *c11gatedReader) Read(p []byte) (int, error) {
	if len(p) == 0 {
		return 0, nil
	}
	if r.g != nil && r.g.armed && r.pos >= r.g.at {
		r.g.hit()
	}
	if r.pos >= len(r.data) {
		r.eofs++
		if r.eofs > c11cutReaderEOFLimit {
			panic("decoder keeps reading after end of stream (Recv does not return)")
		}
		return 0, io.EOF
	}
	end := len(r.data)
	if r.g != nil && r.g.armed && r.g.at > r.pos && r.g.at < end {
		end = r.g.at
	}
	n := copy(p, r.data[r.pos:end])
	r.pos += n
	return n, nil
}

// c11suspend runs first on its own goroutine until it reaches the armed gate, then
// second, then lets first finish. It reports whether the gate was reached (if not,
// second simply ran after first).
func c11suspend(c *vt.Ctx, what string, g *c11gate, first, second func()) bool {
	done := make(chan struct{})
	go func() {
		defer close(done)
		defer func() {
			if p := recover(); p != nil {
				c.Failf("%s: panic in the suspended operation: %v", what, p)
			}
		}()
		first()
	}()
	select {
	case <-g.reached:
		func() {
			defer func() {
				if p := recover(); p != nil {
					c.Failf("%s: panic in an operation run while another was suspended: %v", what, p)
				}
			}()
			second()
		}()
		g.resume <- struct{}{}
		<-done
		return true
	case <-done:
		g.armed = false
		second()
		return false
	}
}

func c11xSizes(e vt.Env) (paused, other []int) {
	if e.Thorough() {
		return []int{3, 200, 5000, 70000, 1 << 20, 5<<20 + 3}, []int{2, 4100, 66000, 5<<20 + 17}
	}
	return []int{3, 900, 5000, 70000, 5<<20 + 3}, []int{2, 1500, 6000, 5<<20 + 17}
}

func c11xCases(e vt.Env, yield func(vt.Case) bool) bool {
	for _, fr := range c11framings() {
		for _, kind := range []string{"sib-send", "sib-recv", "sib-hold", "dup-recv", "dup-send"} {
			fr, kind := fr, kind
			id := "X/" + kind + "/" + fr.name
			if !yield(vt.Case{ID: id, Run: func(c *vt.Ctx) { c11x(c, e, fr, kind, id) }}) {
				return false
			}
		}
	}
	return true
}

// c11checkRecv compares one Recv result at once.
func c11checkRecv(c *vt.Ctx, what string, ch channel.Channel, i int, want []byte) bool {
	got, err := ch.Recv()
	if err != nil {
		c.Failf("%s: Recv #%d returned error %q (and %d bytes), want record %s", what, i, err.Error(), len(got), c11showBytes(want))
		return false
	}
	if !bytes.Equal(got, want) {
		c.Failf("%s: Recv #%d returned %d bytes %s, want %d bytes %s (first difference at offset %d)",
			what, i, len(got), c11showBytes(got), len(want), c11showBytes(want), c11firstDiff(got, want))
		return false
	}
	return true
}

func c11checkEOF(c *vt.Ctx, what string, ch channel.Channel) {
	got, err := ch.Recv()
	if err != io.EOF || len(got) != 0 {
		c.Failf("%s: Recv after the last record returned (%s, %v), want (empty, io.EOF)", what, c11showBytes(got), err)
	}
}

func c11sendCopy(c *vt.Ctx, what string, ch channel.Channel, r []byte) {
	cp := make([]byte, len(r))
	copy(cp, r)
	if err := ch.Send(cp); err != nil {
		c.Failf("%s: Send of legal record %s failed: %v", what, c11showBytes(r), err)
	}
}

// c11checkSink decodes what was written to a sink with a fresh channel.
func c11checkSink(c *vt.Ctx, what string, fr c11fr, w *c11gatedWC, want [][]byte) {
	ch := fr.f(&c11cutReader{data: w.buf.Bytes()}, c11nopWC{})
	for i, r := range want {
		if !c11checkRecv(c, what+", decoding what was written", ch, i, r) {
			return
		}
	}
	c11checkEOF(c, what+", decoding what was written", ch)
}

func c11x(c *vt.Ctx, e vt.Env, fr c11fr, kind, id string) {
	rng := e.Rand("C11/" + id)
	pausedSizes, otherSizes := c11xSizes(e)
	recOf := map[int][2][]byte{}
	get := func(n, k int) []byte {
		if _, ok := recOf[n]; !ok {
			recOf[n] = [2][]byte{c11legal(fr, n, rng), c11legal(fr, n+1, rng)}
		}
		return recOf[n][k]
	}
	var reached, runs int
	for _, ps := range pausedSizes {
		for _, os := range otherSizes {
			p1, p2 := get(ps, 0), get(ps, 1) // records of the suspended side
			o1, o2 := get(os, 0), get(os, 1) // records moved meanwhile
			encP, ok := c11encode(c, fr, [][]byte{p1, p2})
			if !ok {
				return
			}
			encO, ok := c11encode(c, fr, [][]byte{o1, o2})
			if !ok {
				return
			}
			firstLen := len(encP) - len(p2) // a little beyond the first record's image; clipped below
			offs := []int{0, 1, len(p1) / 2, len(p1)}
			if kind == "sib-recv" || kind == "dup-recv" {
				offs = []int{1, len(p1) / 2, min(len(p1), firstLen-1), len(p1) + 1}
			}
			seen := map[int]bool{}
			for _, off := range offs {
				if seen[off] {
					continue
				}
				seen[off] = true
				what := fmt.Sprintf("%s %s: suspended side's records of %d and %d bytes, other side's of %d and %d bytes, suspended at byte %d of its transport call",
					fr.name, kind, len(p1), len(p2), len(o1), len(o2), off)
				runs++
				g := newC11gate()
				g.armed, g.at = true, off
				hit := false
				switch kind {
				case "sib-send":
					wa, wb := &c11gatedWC{g: g}, &c11gatedWC{}
					a, b := fr.f(bytes.NewReader(nil), wa), fr.f(bytes.NewReader(nil), wb)
					hit = c11suspend(c, what, g,
						func() { c11sendCopy(c, what+" (A)", a, p1) },
						func() { c11sendCopy(c, what+" (B)", b, o1); c11sendCopy(c, what+" (B)", b, o2) })
					c11sendCopy(c, what+" (A)", a, p2)
					a.Close()
					b.Close()
					c11checkSink(c, what+" (A)", fr, wa, [][]byte{p1, p2})
					c11checkSink(c, what+" (B)", fr, wb, [][]byte{o1, o2})
				case "sib-recv":
					a := fr.f(&c11gatedReader{data: encP, g: g}, c11nopWC{})
					b := fr.f(&c11gatedReader{data: encO}, c11nopWC{})
					hit = c11suspend(c, what, g,
						func() { c11checkRecv(c, what+" (A)", a, 0, p1) },
						func() {
							if c11checkRecv(c, what+" (B)", b, 0, o1) && c11checkRecv(c, what+" (B)", b, 1, o2) {
								c11checkEOF(c, what+" (B)", b)
							}
						})
					if !c.Failed() && c11checkRecv(c, what+" (A)", a, 1, p2) {
						c11checkEOF(c, what+" (A)", a)
					}
				case "sib-hold":
					g.armed = false
					a := fr.f(&c11gatedReader{data: encP}, c11nopWC{})
					b := fr.f(&c11gatedReader{data: encO}, c11nopWC{})
					held, err := a.Recv()
					if err != nil {
						c.Failf("%s (A): Recv #0 returned error %v", what, err)
					}
					if c11checkRecv(c, what+" (B)", b, 0, o1) && c11checkRecv(c, what+" (B)", b, 1, o2) {
						c11checkEOF(c, what+" (B)", b)
					}
					if !bytes.Equal(held, p1) {
						c.Failf("%s (A): the record A received, still valid because A has not called Recv again, reads %s after the sibling channel received its records; it was %s (first difference at offset %d)",
							what, c11showBytes(held), c11showBytes(p1), c11firstDiff(held, p1))
					}
					hit = true
					if !c.Failed() && c11checkRecv(c, what+" (A)", a, 1, p2) {
						c11checkEOF(c, what+" (A)", a)
					}
				case "dup-recv":
					w := &c11gatedWC{}
					ch := fr.f(&c11gatedReader{data: encP, g: g}, w)
					hit = c11suspend(c, what, g,
						func() { c11checkRecv(c, what, ch, 0, p1) },
						func() { c11sendCopy(c, what, ch, o1); c11sendCopy(c, what, ch, o2) })
					if !c.Failed() && c11checkRecv(c, what, ch, 1, p2) {
						c11checkEOF(c, what, ch)
					}
					ch.Close()
					c11checkSink(c, what, fr, w, [][]byte{o1, o2})
				case "dup-send":
					w := &c11gatedWC{g: g}
					ch := fr.f(&c11gatedReader{data: encO}, w)
					hit = c11suspend(c, what, g,
						func() { c11sendCopy(c, what, ch, p1) },
						func() {
							if c11checkRecv(c, what, ch, 0, o1) && c11checkRecv(c, what, ch, 1, o2) {
								c11checkEOF(c, what, ch)
							}
						})
					c11sendCopy(c, what, ch, p2)
					ch.Close()
					c11checkSink(c, what, fr, w, [][]byte{p1, p2})
				}
				if hit {
					reached++
					c.Distinct(fmt.Sprintf("X/%s/%s/%d/%d/%d", fr.name, kind, ps, os, off))
				}
				if c.Failed() {
					return
				}
			}
		}
	}
	c.Eval(runs)
	c.Count("interleavings_reached", reached)
	c.Count("stream_decodes", runs*2)
	c.Count("records_received", runs*4)
	if c.WantSample() {
		c.Sample(map[string]any{"case": id, "scenarios": runs, "suspension_reached": reached})
	}
}
