package checks

import (
	"context"
	"encoding/json"
	"fmt"
	"math/rand/v2"
	"sort"
	"strings"
	"sync"
	"time"
	"unicode/utf8"

	"github.com/creachadair/jrpc2"
	"github.com/creachadair/jrpc2/channel"
	"github.com/creachadair/jrpc2/handler"

	"verif/harness/peer"
	"verif/harness/vchan"
	"verif/harness/vt"
)

// C17 — method dispatch: exact names, first-dot service split, reserved rpc.*.
//
// A configuration is a tree of handler.ServiceMap nodes (nesting depth <= 3)
// over handler.Map leaves; every node is wrapped in a recording assigner and
// every leaf handler returns its own identity tag. The tree is installed in a
// real jrpc2.Server (DisableBuiltin false / true) and probed by a real
// jrpc2.Client with method names over the DESIGN.md alphabet. For each call
// the outcome is compared with a reference resolver written from the
// documentation:
//
//	builtin enabled and name begins with "rpc.":  never shown to the assigner;
//	    "rpc.serverInfo" answers {methods: sorted Names(), metrics, startTime},
//	    every other such name is method-not-found (-32601);
//	otherwise Map: exact lookup of the whole name; ServiceMap: split at the
//	    first '.', no dot or unknown service fails, the remainder goes to the
//	    service's assigner; failure is method-not-found, success is the result
//	    of exactly that handler, run once.
//
// The recording assigners check that every Assign call sees
// InboundRequest(ctx) describing the complete request and receives exactly
// the remainder the reference predicts for that node; the handler checks
// InboundRequest(ctx) and ServerFromContext(ctx). Names() of the root is
// compared with the reference list (sorted, complete).
//
// Block B (c17_batch.go) sends the requests in batches (same name repeated,
// mixed names, notifications) through a root assigner whose choice depends
// on InboundRequest(ctx): every request of a batch must be shown to the
// assigners itself and run the handler built for it.
//
// Leniencies: the empty method name cannot be expressed by the client (it
// sends no "method" member); only "an error, no handler run" is required for
// it and it is not counted as a distinct case. How often Assign is called for
// one request is not restricted (only never for withheld names, at least once
// otherwise). Duplicates in Names() are neither required nor forbidden.
// InboundRequest(ctx) in the handler is compared by content, not by pointer.

var c17syms = []string{"a", "A", ".", "rpc", "RPC", "rpc.", "serverInfo", "é"}

var (
	c17uniOnce sync.Once
	c17uni     []string
)

// c17universe returns all distinct non-empty concatenations of at most four
// alphabet symbols, sorted.
func c17universe() []string {
	c17uniOnce.Do(func() {
		seen := map[string]bool{}
		seqs(len(c17syms), 1, 4, func(idx []int) bool {
			var sb strings.Builder
			for _, k := range idx {
				sb.WriteString(c17syms[k])
			}
			seen[sb.String()] = true
			return true
		})
		for s := range seen {
			c17uni = append(c17uni, s)
		}
		sort.Strings(c17uni)
	})
	return c17uni
}

// c17asg is the harness's description of one assigner node.
type c17asg struct {
	id   string             // path of service names from the root
	keys map[string]string  // Map: key -> identity tag of its handler
	subs map[string]*c17asg // ServiceMap: service -> assigner
	svc  bool
}

func c17map(id string, keys []string) *c17asg {
	a := &c17asg{id: id, keys: map[string]string{}}
	for _, k := range keys {
		a.keys[k] = id + "#" + k
	}
	return a
}

func c17svc(id string) *c17asg { return &c17asg{id: id, svc: true, subs: map[string]*c17asg{}} }

func (a *c17asg) add(service string, mk func(id string) *c17asg) *c17asg {
	a.subs[service] = mk(a.id + "/" + service)
	return a
}

func (a *c17asg) depth() int {
	d := 0
	for _, s := range a.subs {
		d = max(d, 1+s.depth())
	}
	if a.svc && d == 0 {
		d = 1
	}
	return d
}

type c17step struct{ node, method string }

// c17res is what the reference resolver predicts for one name.
type c17res struct {
	tag   string // identity tag of the handler, "" if none
	why   string // found | nokey | nodot | nosvc
	level int    // number of ServiceMap levels traversed
	path  []c17step
	dots  bool // the remainder handed to a service assigner contained a '.'
}

// resolve is the reference resolver (documentation of handler.Map and
// handler.ServiceMap): whole-name lookup; split at the first '.' only.
func (a *c17asg) resolve(name string) c17res {
	var r c17res
	cur := a
	for {
		r.path = append(r.path, c17step{cur.id, name})
		if !cur.svc {
			if tag, ok := cur.keys[name]; ok {
				r.tag, r.why = tag, "found"
			} else {
				r.why = "nokey"
			}
			return r
		}
		i := strings.IndexByte(name, '.')
		if i < 0 {
			r.why = "nodot"
			return r
		}
		sub, ok := cur.subs[name[:i]]
		if !ok {
			r.why = "nosvc"
			return r
		}
		name = name[i+1:]
		if strings.Contains(name, ".") {
			r.dots = true
		}
		cur = sub
		r.level++
	}
}

// names is the reference for Names(): Map -> its keys; ServiceMap ->
// Service.Method for every method of every service.
func (a *c17asg) names() []string {
	var out []string
	if !a.svc {
		for k := range a.keys {
			out = append(out, k)
		}
	} else {
		for s, sub := range a.subs {
			for _, n := range sub.names() {
				out = append(out, s+"."+n)
			}
		}
	}
	sort.Strings(out)
	return out
}

// ---- recording ----

type c17assignRec struct {
	node, method string
	inNil        bool
	inMethod     string
	inID         string // InboundRequest(ctx).ID() ("" for a notification)
	inNote       bool
}

type c17runRec struct {
	tag       string
	reqMethod string
	inNil     bool
	inMethod  string
	inID      string
	reqID     string
	inParams  string
	reqParams string
	srvOK     bool
	panicked  string
}

type c17state struct {
	srv *jrpc2.Server

	mu      sync.Mutex
	assigns map[string][]c17assignRec // by request tag
	runs    map[string][]c17runRec    // by request tag
	orphans []c17assignRec            // Assign calls without an attributable inbound request
	bounds  map[string][]c17bound     // batch cases: what the request-dependent assigner bound the run handler to, by request tag
}

func c17tagOf(req *jrpc2.Request) string {
	if req == nil || !req.HasParams() {
		return ""
	}
	var p struct {
		T string `json:"t"`
	}
	json.Unmarshal([]byte(req.ParamString()), &p)
	return p.T
}

type c17namer interface {
	jrpc2.Assigner
	jrpc2.Namer
}

// c17rec wraps an assigner node; it never blocks (Assign runs under the
// server's lock).
type c17rec struct {
	st    *c17state
	id    string
	inner c17namer
}

func (r *c17rec) Assign(ctx context.Context, method string) jrpc2.Handler {
	in := jrpc2.InboundRequest(ctx)
	rec := c17assignRec{node: r.id, method: method, inNil: in == nil}
	tag := ""
	if in != nil {
		rec.inMethod, rec.inID, rec.inNote = in.Method(), in.ID(), in.IsNotification()
		tag = c17tagOf(in)
	}
	r.st.mu.Lock()
	if tag == "" {
		r.st.orphans = append(r.st.orphans, rec)
	} else {
		r.st.assigns[tag] = append(r.st.assigns[tag], rec)
	}
	r.st.mu.Unlock()
	return r.inner.Assign(ctx, method)
}

func (r *c17rec) Names() []string { return r.inner.Names() }

func (st *c17state) handler(tag string) jrpc2.Handler {
	return func(ctx context.Context, req *jrpc2.Request) (res any, err error) {
		rec := c17runRec{tag: tag, reqMethod: req.Method(), reqID: req.ID(), reqParams: req.ParamString()}
		func() {
			defer func() {
				if p := recover(); p != nil {
					rec.panicked = fmt.Sprint(p)
				}
			}()
			in := jrpc2.InboundRequest(ctx)
			rec.inNil = in == nil
			if in != nil {
				rec.inMethod, rec.inID, rec.inParams = in.Method(), in.ID(), in.ParamString()
			}
			rec.srvOK = jrpc2.ServerFromContext(ctx) == st.srv
		}()
		qt := c17tagOf(req)
		st.mu.Lock()
		st.runs[qt] = append(st.runs[qt], rec)
		st.mu.Unlock()
		return tag, nil
	}
}

// build constructs the real assigner tree for a.
func (a *c17asg) build(st *c17state) *c17rec {
	if !a.svc {
		m := handler.Map{}
		for k, tag := range a.keys {
			m[k] = st.handler(tag)
		}
		return &c17rec{st: st, id: a.id, inner: m}
	}
	sm := handler.ServiceMap{}
	for s, sub := range a.subs {
		sm[s] = sub.build(st)
	}
	return &c17rec{st: st, id: a.id, inner: sm}
}

func c17sameSet(a, b []string) (onlyA, onlyB string, ok bool) {
	sa, sb := map[string]bool{}, map[string]bool{}
	for _, x := range a {
		sa[x] = true
	}
	for _, x := range b {
		sb[x] = true
	}
	for x := range sa {
		if !sb[x] {
			return x, "", false
		}
	}
	for x := range sb {
		if !sa[x] {
			return "", x, false
		}
	}
	return "", "", true
}

func c17equalStrings(a, b []string) bool {
	if len(a) != len(b) {
		return false
	}
	for i := range a {
		if a[i] != b[i] {
			return false
		}
	}
	return true
}

func c17errCode(err error) (jrpc2.Code, bool) {
	e, ok := err.(*jrpc2.Error)
	if !ok || e == nil {
		return 0, false
	}
	return e.Code, true
}

// c17exec installs tree in a live server and probes it.
func c17exec(c *vt.Ctx, cfg string, tree *c17asg, disableBuiltin bool, probes []string) {
	c17execSpelled(c, cfg, tree, disableBuiltin, probes, 0)
}

// c17execSpelled is c17exec with the method member of every request re-spelt on
// its way to the server (mode 0: as the client writes it); see c17_spell.go.
func c17execSpelled(c *vt.Ctx, cfg string, tree *c17asg, disableBuiltin bool, probes []string, spelling int) {
	st := &c17state{assigns: map[string][]c17assignRec{}, runs: map[string][]c17runRec{}}
	root := tree.build(st)
	desc := fmt.Sprintf("config %s DisableBuiltin=%v", cfg, disableBuiltin)

	// Names(): sorted and complete.
	refNames := tree.names()
	gotNames := root.Names()
	if !sort.StringsAreSorted(gotNames) {
		c.Failf("%s: Names() is not sorted: %q", desc, c17clip(gotNames))
	}
	if a, b, ok := c17sameSet(gotNames, refNames); !ok {
		c.Failf("%s: Names() differs from the methods of the tree: only in Names() %q, missing from Names() %q", desc, a, b)
	}
	c.Count("names_lists_checked", 1)
	c.Count("names_entries_checked", len(refNames))
	if c.Failed() {
		return
	}

	t0 := time.Now()
	mon := &peer.Mon{C: c, Log: peer.NewLog()}
	cliEnd, srvEnd := vchan.NewPair("cli", "srv", mon)
	st.srv = jrpc2.NewServer(root, &jrpc2.ServerOptions{DisableBuiltin: disableBuiltin})
	st.srv.Start(srvEnd)
	var cliCh channel.Channel = cliEnd
	var respell *c17respell
	if spelling != 0 {
		respell = &c17respell{Channel: cliEnd, mode: spelling}
		cliCh = respell
	}
	cli := jrpc2.NewClient(cliCh, nil)
	type result struct {
		rsp *jrpc2.Response
		err error
	}
	results := make([]result, len(probes))
	const callers = 4
	var wg sync.WaitGroup
	for g := 0; g < callers; g++ {
		wg.Add(1)
		go func() {
			defer wg.Done()
			for i := g; i < len(probes); i += callers {
				rsp, err := cli.Call(context.Background(), probes[i], map[string]string{"t": fmt.Sprintf("q%d", i)})
				results[i] = result{rsp, err}
			}
		}()
	}
	wg.Wait()
	t1 := time.Now()
	info := st.srv.ServerInfo()
	cli.Close()
	st.srv.WaitStatus()
	c.Count("channel_ops", int(mon.Ops.Load()))
	if respell != nil {
		c.Count("requests_with_respelt_method", respell.changed)
	}

	if len(st.orphans) > 0 {
		o := st.orphans[0]
		// The only request without a tag is the one for the empty name, which
		// must not reach an assigner at all.
		c.Failf("%s: %d Assign call(s) whose context carried no attributable InboundRequest; first: node %q method %q InboundRequest(ctx)==nil:%v",
			desc, len(st.orphans), o.node, o.method, o.inNil)
		return
	}

	for i, name := range probes {
		qt := fmt.Sprintf("q%d", i)
		rsp, err := results[i].rsp, results[i].err
		assigns, runs := st.assigns[qt], st.runs[qt]
		c.Eval(1)
		where := fmt.Sprintf("%s method %q", desc, name)

		if name == "" {
			// not a request in the JSON-RPC sense; see the leniency note.
			if err == nil || len(runs) != 0 {
				c.Failf("%s: empty method name: err=%v, handlers run=%d; want an error and no handler", where, err, len(runs))
			}
			c.Count("empty_name_probes", 1)
			continue
		}

		reserved := !disableBuiltin && strings.HasPrefix(name, "rpc.")
		if reserved {
			if len(assigns) != 0 {
				c.Failf("%s: reserved name was shown to the assigner (node %q, method %q)", where, assigns[0].node, assigns[0].method)
			}
			if len(runs) != 0 {
				c.Failf("%s: reserved name ran harness handler %q", where, runs[0].tag)
			}
			if name == "rpc.serverInfo" {
				c17serverInfo(c, where, rsp, err, root.Names(), refNames, info, t0, t1)
				c.Count("serverinfo_answers_checked", 1)
				c.Distinct(fmt.Sprintf("%v|%s|serverInfo", disableBuiltin, name))
			} else {
				if code, ok := c17errCode(err); !ok || code != jrpc2.MethodNotFound {
					c.Failf("%s: reserved name: got result %s err %v, want method-not-found (-32601)", where, c17result(rsp), err)
				}
				c.Count("reserved_names_withheld", 1)
				c.Distinct(fmt.Sprintf("%v|%s|reserved", disableBuiltin, name))
			}
			continue
		}

		ref := tree.resolve(name)
		// what the assigners saw
		if len(assigns) == 0 {
			c.Failf("%s: the assigner was never consulted", where)
		}
		want := map[c17step]bool{}
		for _, s := range ref.path {
			want[s] = true
		}
		seen := map[c17step]bool{}
		for _, a := range assigns {
			if a.inNil || a.inMethod != name {
				c.Failf("%s: Assign(node %q, %q) saw InboundRequest(ctx) nil:%v method %q, want the complete request", where, a.node, a.method, a.inNil, a.inMethod)
			}
			s := c17step{a.node, a.method}
			seen[s] = true
			if !want[s] {
				c.Failf("%s: assigner node %q was asked for %q; the reference path is %v", where, a.node, a.method, ref.path)
			}
		}
		for _, s := range ref.path {
			if !seen[s] {
				c.Failf("%s: assigner node %q was never asked for %q (reference path %v, seen %v)", where, s.node, s.method, ref.path, assigns)
			}
		}
		c.Count("assign_calls_checked", len(assigns))
		if strings.HasPrefix(name, "rpc.") {
			c.Count("rpc_names_dispatched_with_builtin_disabled", 1)
		}

		if ref.tag == "" {
			if code, ok := c17errCode(err); !ok || code != jrpc2.MethodNotFound {
				c.Failf("%s: no handler is mapped (%s); got result %s err %v, want method-not-found (-32601)", where, ref.why, c17result(rsp), err)
			}
			if len(runs) != 0 {
				c.Failf("%s: no handler is mapped (%s) but handler %q ran", where, ref.why, runs[0].tag)
			}
			c.Count("not_found_"+ref.why, 1)
			c.Distinct(fmt.Sprintf("%v|%s|%s@%d", disableBuiltin, name, ref.why, ref.level))
			continue
		}

		// a handler is mapped
		if err != nil {
			c.Failf("%s: mapped to handler %q but the call failed: %v", where, ref.tag, err)
			continue
		}
		var got string
		if uerr := rsp.UnmarshalResult(&got); uerr != nil || got != ref.tag {
			c.Failf("%s: result %s, want the tag of handler %q", where, c17result(rsp), ref.tag)
		}
		if len(runs) != 1 {
			c.Failf("%s: %d handler runs recorded (%v), want exactly one of %q", where, len(runs), runs, ref.tag)
			continue
		}
		h := runs[0]
		switch {
		case h.tag != ref.tag:
			c.Failf("%s: handler %q ran, want %q", where, h.tag, ref.tag)
		case h.panicked != "":
			c.Failf("%s: InboundRequest/ServerFromContext panicked in the handler: %s", where, h.panicked)
		case h.reqMethod != name:
			c.Failf("%s: handler's request has method %q", where, h.reqMethod)
		case h.inNil:
			c.Failf("%s: InboundRequest(ctx) is nil in the handler", where)
		case h.inMethod != name || h.inID != h.reqID || h.inParams != h.reqParams:
			c.Failf("%s: InboundRequest(ctx) in the handler is (method %q id %s params %s), the request is (%q, %s, %s)", where, h.inMethod, h.inID, h.inParams, h.reqMethod, h.reqID, h.reqParams)
		case h.reqID != rsp.ID():
			c.Failf("%s: handler saw request id %s, the response has id %s", where, h.reqID, rsp.ID())
		case !h.srvOK:
			c.Failf("%s: ServerFromContext(ctx) is not the server running the handler", where)
		}
		c.Count("handler_runs_checked", 1)
		if ref.level > 0 {
			c.Count("resolved_through_servicemap", 1)
		}
		if ref.dots {
			c.Count("resolved_with_dots_after_first", 1)
		}
		c.Distinct(fmt.Sprintf("%v|%s|found@%d", disableBuiltin, name, ref.level))
		if c.WantSample() && ref.level >= 2 && ref.dots {
			c.Sample(map[string]any{"config": cfg, "DisableBuiltin": disableBuiltin, "method": name, "handler": ref.tag, "assign_path": fmt.Sprint(ref.path)})
		}
	}
}

func c17clip(xs []string) []string {
	if len(xs) > 12 {
		return append(append([]string(nil), xs[:12]...), "...")
	}
	return xs
}

func c17result(rsp *jrpc2.Response) string {
	if rsp == nil {
		return "<none>"
	}
	s := rsp.ResultString()
	if len(s) > 120 {
		s = s[:120] + "..."
	}
	return s
}

// c17serverInfo checks the answer of rpc.serverInfo.
func c17serverInfo(c *vt.Ctx, where string, rsp *jrpc2.Response, err error, names, refNames []string, info *jrpc2.ServerInfo, t0, t1 time.Time) {
	if err != nil {
		c.Failf("%s: rpc.serverInfo failed: %v", where, err)
		return
	}
	var raw map[string]json.RawMessage
	if uerr := rsp.UnmarshalResult(&raw); uerr != nil {
		c.Failf("%s: rpc.serverInfo result %s is not an object: %v", where, c17result(rsp), uerr)
		return
	}
	var methods []string
	if m, ok := raw["methods"]; ok {
		if uerr := json.Unmarshal(m, &methods); uerr != nil {
			c.Failf("%s: rpc.serverInfo methods %s: %v", where, m, uerr)
			return
		}
	} else if len(refNames) != 0 {
		c.Failf("%s: rpc.serverInfo has no methods member: %s", where, c17result(rsp))
		return
	}
	if !sort.StringsAreSorted(methods) {
		c.Failf("%s: rpc.serverInfo methods are not sorted: %q", where, c17clip(methods))
	}
	if a, b, ok := c17sameSet(methods, refNames); !ok {
		c.Failf("%s: rpc.serverInfo methods differ from the tree: extra %q missing %q", where, a, b)
	}
	if !c17equalStrings(methods, names) {
		c.Failf("%s: rpc.serverInfo methods %q differ from Names() %q", where, c17clip(methods), c17clip(names))
	}
	if m, ok := raw["metrics"]; !ok || len(m) == 0 || m[0] != '{' {
		c.Failf("%s: rpc.serverInfo metrics missing or not an object: %s", where, c17result(rsp))
	}
	var st time.Time
	if s, ok := raw["startTime"]; !ok {
		c.Failf("%s: rpc.serverInfo has no startTime: %s", where, c17result(rsp))
	} else if uerr := json.Unmarshal(s, &st); uerr != nil {
		c.Failf("%s: rpc.serverInfo startTime %s: %v", where, s, uerr)
	} else {
		if !st.Equal(info.StartTime.Round(0)) {
			c.Failf("%s: rpc.serverInfo startTime %v differs from Server.ServerInfo().StartTime %v", where, st, info.StartTime)
		}
		// generous slack: only a grossly wrong time (zero value, another epoch) is rejected
		if st.Before(t0.Add(-time.Minute)) || st.After(t1.Add(time.Minute)) {
			c.Failf("%s: rpc.serverInfo startTime %v is not when the server started (between %v and %v)", where, st, t0, t1)
		}
	}
}

// ---- configurations and probe sets ----

var c17hotKeys = []string{
	"a", "A", "rpc", "rpc.", "rpc.a", "rpc.serverInfo", "RPC.a", "rpca", "serverInfo", "a.a", "a.A", "a..a", ".a", "a.", ".", "..",
	"é", "é.é", "a.rpc.a", "rpc.rpc.serverInfo", "A.a", "", "a.a.a", "a.a.a.a",
}

var c17hotServices = []string{"a", "A", "rpc", "RPC", "é", "serverInfo", "aa", "aA", "rpca", "", "a", "rpc", "a.", ".", "rpc.", "a.a"}

func c17randKeys(r *rand.Rand, n int) []string {
	u := c17universe()
	var out []string
	for i := 0; i < n; i++ {
		if r.IntN(2) == 0 {
			out = append(out, c17hotKeys[r.IntN(len(c17hotKeys))])
		} else {
			out = append(out, u[r.IntN(len(u))])
		}
	}
	return out
}

func c17randTree(r *rand.Rand, id string, depth int) *c17asg {
	if depth <= 0 {
		return c17map(id, c17randKeys(r, 2+r.IntN(10)))
	}
	a := c17svc(id)
	n := 1 + r.IntN(4)
	for i := 0; i < n; i++ {
		var s string
		if r.IntN(5) == 0 {
			u := c17universe()
			s = u[r.IntN(len(u))]
		} else {
			s = c17hotServices[r.IntN(len(c17hotServices))]
		}
		d := depth - 1
		if i > 0 && d > 0 && r.IntN(3) == 0 {
			d = r.IntN(d) // siblings of different depth
		}
		a.add(s, func(id string) *c17asg { return c17randTree(r, id, d) })
	}
	return a
}

func c17flipCase(s string) string {
	for i, ch := range s {
		switch {
		case ch >= 'a' && ch <= 'z':
			return s[:i] + strings.ToUpper(string(ch)) + s[i+1:]
		case ch >= 'A' && ch <= 'Z':
			return s[:i] + strings.ToLower(string(ch)) + s[i+1:]
		}
	}
	return s
}

// c17neighbours returns names on the boundary of name.
func c17neighbours(name string) []string {
	out := []string{name + ".", "." + name, name + ".a", "rpc." + name, "a." + name, c17flipCase(name), name + "a"}
	if i := strings.IndexByte(name, '.'); i >= 0 {
		out = append(out, name[:i]+".."+name[i+1:], name[:i]+name[i+1:], name[i+1:], name[:i])
		if j := strings.LastIndexByte(name, '.'); j != i {
			out = append(out, name[:j], name[:j]+name[j+1:])
		}
	}
	if name != "" {
		_, sz := utf8.DecodeLastRuneInString(name)
		out = append(out, name[:len(name)-sz])
	}
	return out
}

func c17dedupe(xs []string) []string {
	seen := map[string]bool{}
	var out []string
	for _, x := range xs {
		if !utf8.ValidString(x) {
			panic("harness bug: probe name is not valid UTF-8")
		}
		if !seen[x] && len(x) < 200 {
			seen[x] = true
			out = append(out, x)
		}
	}
	return out
}

func c17cases(e vt.Env, yield func(vt.Case) bool) {
	u := c17universe()
	ok := true
	both := func(id string, run func(c *vt.Ctx, disable bool)) {
		for _, dis := range []bool{false, true} {
			if !ok {
				return
			}
			cid := fmt.Sprintf("%s/DisableBuiltin=%v", id, dis)
			ok = yield(vt.Case{ID: cid, Run: func(c *vt.Ctx) { run(c, dis) }})
		}
	}

	// X0: one Map holding every universe string as a key, probed with every
	// universe string (and the empty name): exhaustive for whole-name lookup
	// and the reserved-prefix gate within the alphabet bound.
	both("X0/map-of-universe", func(c *vt.Ctx, dis bool) {
		c17exec(c, "Map{all universe strings}", c17map("R", u), dis, append([]string{""}, u...))
	})
	// X0s: a sparse Map (every 7th universe string) so that most probes miss.
	both("X0/sparse-map", func(c *vt.Ctx, dis bool) {
		var keys []string
		for i := 0; i < len(u); i += 7 {
			keys = append(keys, u[i])
		}
		c17exec(c, "Map{every 7th universe string}", c17map("R", keys), dis, u)
	})

	// X1: ServiceMap{s: Map{all universe strings}, ...}: every universe
	// string as a method name and every s.<universe string>.
	services := []string{"a", "rpc", "RPC", "é", "", "rpca", "a.", "rpc."}
	if e.Thorough() {
		services = append(services, "A", "serverInfo", "aa", ".")
		seen := map[string]bool{}
		for _, s := range services {
			seen[s] = true
		}
		seqs(len(c17syms), 1, 2, func(idx []int) bool {
			var sb strings.Builder
			for _, k := range idx {
				sb.WriteString(c17syms[k])
			}
			if s := sb.String(); !seen[s] {
				seen[s] = true
				services = append(services, s)
			}
			return true
		})
	}
	for _, s := range services {
		both(fmt.Sprintf("X1/service=%q", s), func(c *vt.Ctx, dis bool) {
			tree := c17svc("R").add(s, func(id string) *c17asg { return c17map(id, u) })
			if s != "A" {
				tree.add("A", func(id string) *c17asg { return c17map(id, []string{"a", "a.a", "", "rpc.serverInfo"}) })
			}
			probes := []string{""}
			for k := 0; k < len(u); k += e.Pick(2, 1) {
				probes = append(probes, u[k]) // X0 already has the whole universe at the root
			}
			for _, x := range u {
				probes = append(probes, s+"."+x)
			}
			probes = append(probes, "A.a", "A.a.a", "A.", "A", "A..a", "A.rpc.serverInfo", "a.A.a")
			c17exec(c, fmt.Sprintf("ServiceMap{%q: Map{all universe strings}, \"A\": Map{4 keys}}", s), tree, dis, c17dedupe(probes))
		})
	}

	// X2/X3: fixed nesting of depth 2 and 3 whose inner Map holds the whole
	// universe, probed with the fully qualified names.
	for depth := 2; depth <= 3; depth++ {
		chains := [][]string{{"a", "a", "a"}, {"rpc", "a", "rpc"}, {"a", "rpc", ""}, {"é", "A", "serverInfo"}}
		for _, chain := range chains[:e.Pick(2, 4)] {
			chain := chain[:depth]
			both(fmt.Sprintf("X%d/chain=%s", depth, strings.Join(chain, ",")), func(c *vt.Ctx, dis bool) {
				var mk func(i int) func(id string) *c17asg
				mk = func(i int) func(id string) *c17asg {
					return func(id string) *c17asg {
						if i == len(chain) {
							return c17map(id, u)
						}
						return c17svc(id).add(chain[i], mk(i+1)).add("A", func(id string) *c17asg { return c17map(id, []string{"a", "a.a"}) })
					}
				}
				tree := mk(0)("R")
				prefix := strings.Join(chain, ".") + "."
				var probes []string
				for _, x := range u {
					probes = append(probes, prefix+x)
				}
				// and the universe against every proper prefix of the chain
				for i := 0; i < len(chain); i++ {
					p := strings.Join(chain[:i], ".")
					if p != "" {
						p += "."
					}
					for k := i; k < len(u); k += 5 {
						probes = append(probes, p+u[k])
					}
				}
				c17exec(c, fmt.Sprintf("nested ServiceMap chain %q over Map{all universe strings}", chain), tree, dis, c17dedupe(probes))
			})
		}
	}

	// R: seeded random trees, probed with their own names, the boundary
	// neighbours of those names and a sample of the universe.
	n := e.Pick(40, 1200)
	for i := 0; i < n && ok; i++ {
		id := fmt.Sprintf("R/%d", i)
		both(id, func(c *vt.Ctx, dis bool) {
			r := c.Env.Rand(id) // same tree for both settings
			tree := c17randTree(r, "R", r.IntN(4))
			var probes []string
			for _, nm := range tree.names() {
				probes = append(probes, nm)
				probes = append(probes, c17neighbours(nm)...)
			}
			for k := 0; k < 600; k++ {
				probes = append(probes, u[r.IntN(len(u))])
			}
			probes = append(probes, c17hotKeys...)
			probes = c17dedupe(probes)
			r.Shuffle(len(probes), func(a, b int) { probes[a], probes[b] = probes[b], probes[a] })
			c17exec(c, fmt.Sprintf("random tree %s depth %d: %v", id, tree.depth(), c17clip(tree.names())), tree, dis, probes)
		})
	}

	// B: batches through a request-dependent root assigner (c17_batch.go)
	if ok {
		c17batchCases(e, u, both)
	}
	// S, D: other spellings of the method name; an assigner that changes (c17_spell.go)
	if ok {
		c17spellCases(e, u, both)
	}
}

func init() {
	vt.Register(&vt.Check{
		Prop:  "C17",
		Level: "exploration",
		Rule: "universe U = all distinct strings of <=4 symbols over {a,A,.,rpc,RPC,rpc.,serverInfo,é}; configurations x DisableBuiltin {false,true}, each a live Server probed by a live Client (4 concurrent callers, -race): " +
			"X0 Map with all of U as keys probed with all of U; X1 ServiceMap{s: Map{U}} for 8 service names (thorough: all strings of <=2 symbols) probed with U and s.U; " +
			"X2/X3 fixed chains of nesting depth 2 and 3 over Map{U} probed with the qualified names; R seeded random trees (depth 0..3, 1-4 services per level, hot and random keys) probed with their names, boundary neighbours and a universe sample. " +
			"B seeded random trees behind a root assigner whose returned handler is bound to the InboundRequest(ctx) of that Assign call (params tag, params variant, id, notification flag), driven by Client.Batch with 160 batches per tree of 1..8 specs: one name k times / ABAB / draws with replacement from three names / independent names, names from the tree (3 of 5), its boundary neighbours, hot keys and a universe sample, each spec a notification with probability 1/4; " +
			"per request of a batch: recording nodes saw this very request (tag, method, id, notification flag) along exactly the reference path, the leaf its name selects ran once with this request as InboundRequest, and the handler that ran is the one the root assigner built for this request (result {leaf, tag, id, variant} for calls, harness record for notifications); withheld names as before. " +
			"S the same oracle with the method member of every request re-spelt on its way to the server (every character as \\uXXXX incl. surrogate pairs / short escapes incl. \\/ / a per-character mixture) over a Map and a 6-service ServiceMap holding names with '/', astral characters, quotes, backslashes, controls, U+2028, composed and decomposed é, and over the universe; " +
			"D an assigner that is modified while the server runs (5 rounds of add / replace / remove): rpc.serverInfo and Server.ServerInfo() report the current sorted list also after a caller overwrote the list it was given, every pool name is dispatched according to the current mapping. " +
			"Oracle: reference resolver from the documentation; recording assigner at every node; identity tag per handler. " +
			"distinct_nontrivial = distinct (DisableBuiltin, non-empty method name, expected outcome class {handler at level k, not-found by reason and level, reserved, serverInfo}) triples actually called and compared, plus for block B distinct (DisableBuiltin, name, class, notification?, name already occurred earlier in the same batch?) tuples compared",
		Assumptions: []string{
			"the empty method name is outside the domain of dispatch (the client cannot express it); only 'error, no handler' is required",
			"method names are valid UTF-8 strings of the alphabet; names are probed through Client.Call with a unique params tag that attributes Assign calls and handler runs to requests",
			"method-not-found = error code -32601 (JSON-RPC 2.0)",
			"Go 1.26.8 standard library; vchan in-memory channel",
			"block B: Client.Batch returns the responses in spec order without notifications (positions cross-checked with the ids the handlers saw); a call sent after all batches is answered only after earlier notifications' handlers returned (used to wait for notification handlers before reading the records); ids are the client's own numeric ids",
		},
		Require: map[string]int64{
			"handler_runs_checked": 20000, "resolved_through_servicemap": 10000, "resolved_with_dots_after_first": 3000,
			"not_found_nokey": 5000, "not_found_nodot": 2000, "not_found_nosvc": 2000,
			"reserved_names_withheld": 2000, "rpc_names_dispatched_with_builtin_disabled": 2000,
			"serverinfo_answers_checked": 20, "names_lists_checked": 40, "assign_calls_checked": 50000,
			"batches_checked": 4000, "batches_with_repeated_method_names": 2500, "batch_requests_checked": 15000, "batch_repeated_name_requests_checked": 7000,
			"batch_repeated_name_runs_checked": 2500, "batch_handler_runs_checked": 5000, "batch_notifications_run_checked": 1000, "batch_not_found": 4000,
			"batch_reserved_names_withheld": 500, "batch_assign_calls_checked": 20000,
			"requests_with_respelt_method": 5000, "serverinfo_after_change_checked": 30, "dynamic_dispatch_checked": 1000,
		},
		Exhaustive: func(e vt.Env) bool { return false },
		Cases:      c17cases,
	})
}
