package checks

import (
	"context"
	"encoding/json"
	"fmt"
	"io"
	"strings"

	"github.com/creachadair/jrpc2"
	"github.com/creachadair/jrpc2/channel"

	"verif/harness/peer"
	"verif/harness/sched"
	"verif/harness/vt"
)

// Family D of C04 and C05 — a client on a rendezvous transport with a single-threaded peer.
//
// The rigs' in-memory channel never blocks a sender, so nothing there shows what the
// client does when both directions exert back-pressure at once. channel.Direct (what
// server.NewLocal and the bridge use) is unbuffered in both directions: a Send returns
// only when the other side is inside Recv. The peer here is one goroutine running a
// script - bursts of records written without reading in between (replies nobody waits
// for, notifications), then reads - as a simple single-threaded server would behave. The
// client has k callers in Call at the same time.
//
// The client must keep receiving whatever its callers are doing: a reader that waits
// for the client's mutex, or for a bounded pool of delivery goroutines, while a caller
// holds that mutex inside Send closes a cycle (caller waits for the peer to read, the
// peer waits for the client to read, the reader waits for the caller). Such a cycle
// involves a mutex, which testing/synctest does not see as a deadlock; peer.SettleOrStuck
// does. Oracle: no deadlock; every call returns exactly once with the reply the peer
// sent for its id; OnNotify saw every notification.

type c05dstep struct {
	kind byte // 'u' unknown-id replies, 'n' notifications, 'b' a batch of three unknown-id replies, 'r' read one request, 'a' answer what was read
	n    int
}

func (s c05dstep) String() string { return fmt.Sprintf("%c%d", s.kind, s.n) }

func c05directScripts(e vt.Env) [][]c05dstep {
	scripts := [][]c05dstep{
		{{'u', 40}},
		{{'n', 2}},
		{{'n', 40}},
		{{'b', 14}},
		{{'r', 1}, {'n', 3}, {'a', 0}, {'u', 40}},
		{{'u', 1}, {'r', 1}, {'u', 35}, {'a', 0}, {'n', 35}},
		{{'r', 1}, {'a', 0}, {'n', 1}, {'u', 1}},
	}
	if e.Thorough() {
		rng := e.Rand("C05/D/scripts")
		for i := 0; i < 60; i++ {
			var sc []c05dstep
			for k := 0; k < 2+rng.IntN(5); k++ {
				sc = append(sc, c05dstep{"unbra"[rng.IntN(5)], []int{1, 2, 33, 40, 70}[rng.IntN(5)]})
			}
			scripts = append(scripts, sc)
		}
	}
	return scripts
}

func c05directCases(prop string, e vt.Env, yield func(vt.Case) bool) bool {
	for si, sc := range c05directScripts(e) {
		for _, callers := range []int{1, 3} {
			sc, callers := sc, callers
			var names []string
			for _, s := range sc {
				names = append(names, s.String())
			}
			id := fmt.Sprintf("D/%d/%s/callers=%d", si, strings.Join(names, ","), callers)
			if !yield(vt.Case{ID: id, Run: func(c *vt.Ctx) {
				c05direct(c, id, sc, callers)
				c.Distinct(id)
			}}) {
				return false
			}
		}
	}
	return true
}

func c05direct(c *vt.Ctx, what string, script []c05dstep, callers int) {
	ctrl := sched.New()
	peer.Bubble(c, ctrl, func() {
		cliCh, srvCh := channel.Direct()
		log := peer.NewLog()
		c.Attach(func() any { return map[string]any{"scenario": what, "log": log.Dump()} })
		cli := jrpc2.NewClient(cliCh, &jrpc2.ClientOptions{
			OnNotify: func(req *jrpc2.Request) { log.Add("onnotify", req.Method(), "") },
		})
		type outcome struct {
			i    int
			info string
		}
		results := make(chan outcome, callers)
		for i := 0; i < callers; i++ {
			i := i
			go func() {
				rsp, err := cli.Call(context.Background(), "m", []int{i})
				results <- outcome{i, peer.DescribeResp(rsp, err)}
			}()
		}
		notesSent := 0
		for _, st := range script {
			if st.kind == 'n' {
				notesSent += st.n
			}
		}
		peerDone := make(chan struct{})
		go func() { // the single-threaded peer
			defer close(peerDone)
			defer srvCh.Close() // it hangs up when the client has (a Direct channel's own Close does not wake its reader)
			var unanswered []json.RawMessage // params of requests read and not yet answered, with their ids
			type req struct {
				ID     json.RawMessage `json:"id"`
				Params []int           `json:"params"`
			}
			var pending []req
			readBudget := callers
			send := func(rec string) { srvCh.Send([]byte(rec)) }
			recvOne := func() bool {
				rec, err := srvCh.Recv()
				if err != nil {
					return false
				}
				var one req
				var many []req
				if json.Unmarshal(rec, &one) == nil && one.ID != nil {
					pending = append(pending, one)
				} else if json.Unmarshal(rec, &many) == nil {
					pending = append(pending, many...)
				}
				return true
			}
			answer := func() {
				for _, r := range pending {
					if len(r.Params) == 1 {
						send(fmt.Sprintf(`{"jsonrpc":"2.0","id":%s,"result":"answer-%d"}`, r.ID, r.Params[0]))
					}
				}
				pending = nil
			}
			_ = unanswered
			for _, st := range script {
				switch st.kind {
				case 'u':
					for k := 0; k < st.n; k++ {
						send(fmt.Sprintf(`{"jsonrpc":"2.0","id":%d,"result":"nobody asked"}`, 700000+k))
					}
				case 'n':
					for k := 0; k < st.n; k++ {
						send(`{"jsonrpc":"2.0","method":"srvnote","params":[1]}`)
					}
				case 'b':
					for k := 0; k < st.n; k++ {
						send(fmt.Sprintf(`[{"jsonrpc":"2.0","id":%d,"result":1},{"jsonrpc":"2.0","id":%d,"result":2},{"jsonrpc":"2.0","id":%d,"error":{"code":-5,"message":"x"}}]`, 800000+3*k, 800001+3*k, 800002+3*k))
					}
				case 'r':
					// never wait for more requests than there are callers
					for k := 0; k < st.n && readBudget > 0; k++ {
						readBudget--
						if !recvOne() {
							return
						}
					}
				case 'a':
					answer()
				}
			}
			// drain: answer what has been read, then read and answer until the client hangs up
			answer()
			for recvOne() {
				answer()
			}
		}()
		if stuck := peer.SettleOrStuck(ctrl); stuck != nil {
			c.Failf("%s: the client stopped receiving: %d goroutine(s) wait for its mutex for good while a caller is inside Send (the peer, single-threaded, is writing and will read only afterwards); first:\n%.1800s", what, len(stuck), stuck[0])
			c.Flush()
			// unwedge: hang up on the client so that the bubble can end
			srvCh.Close()
			go func() {
				for {
					if _, err := srvCh.Recv(); err != nil {
						return
					}
				}
			}()
			return
		}
		got := map[int]string{}
		for len(results) > 0 {
			o := <-results
			if prev, dup := got[o.i]; dup {
				c.Failf("%s: call %d returned twice (%q, %q)", what, o.i, prev, o.info)
			}
			got[o.i] = o.info
		}
		for i := 0; i < callers; i++ {
			if want := fmt.Sprintf("ok:answer-%d", i); got[i] != want {
				c.Failf("%s: call %d returned %q at quiescence, want %q (the peer answers every request it reads)", what, i, got[i], want)
			}
		}
		if n := log.Count("onnotify", "*"); n != notesSent {
			c.Failf("%s: OnNotify ran %d times for %d notifications", what, n, notesSent)
		}
		if err := cli.Close(); err != nil && err != io.EOF {
			c.Failf("%s: Close: %v", what, err)
		}
		ctrl.Settle()
		<-peerDone
		c.Count("direct_calls_checked", callers)
		c.Count("direct_records_from_peer", notesSent)
	})
	c.Eval(1)
}
