package checks

import (
	"context"
	"encoding/json"
	"fmt"
	"sort"
	"strconv"
	"strings"

	"verif/harness/peer"
	"verif/harness/sched"
	"verif/harness/vt"
)

// C01 — exactly one correlated response per call, none per notification;
// one outbound message per inbound message, array iff array, request order,
// only after all of the message's handlers returned; nothing for a message
// with nothing to report.
//
// Oracle. Every request carries a unique tag and a unique id; every handler
// invocation returns the unique token tag/seq. A reference calculator (from the
// JSON-RPC spec / README, not from server.go) predicts for every inbound
// message the exact outbound message (ordered member list + array flag). Then:
//
//	at every quiescent point: every outbound record equals the prediction of
//	  exactly one inbound message (consumed at most once), and all runnable
//	  members of that message have exited (nothing early); no handler tag
//	  entered twice; no handler ran for an invalid or unknown member;
//	at the final quiescent point (all gates open): the multiset of outbound
//	  records equals the multiset of non-empty predictions (nothing lost,
//	  nothing extra), every runnable member entered and exited exactly once.

type c01kind int

const (
	c01gc c01kind = iota // gated call
	c01ic                // instant call
	c01ec                // erroring call
	c01gn                // gated notification
	c01in                // instant notification
	c01uc                // unknown-method call
	c01un                // unknown-method notification
	c01vi                // invalid member with id
	c01vn                // invalid member without id
	c01rc                // call whose handler returns an error with code InvalidRequest
	c01rn                // notification whose handler returns an error with code InvalidRequest
	c01pn                // notification whose handler returns an error with code ParseError
	c01xc                // call whose handler returns a pre-encoded multi-line json.RawMessage
	c01bc                // call whose handler returns an *Error whose Data is not valid JSON (it cannot be encoded as it is)
	c01numKinds
)

var c01names = [...]string{"gc", "ic", "ec", "gn", "in", "uc", "un", "vi", "vn", "rc", "rn", "pn", "xc", "bc"}

// c01unknownName is a method nobody handles: an ordinary unknown name or, for every other
// member, an unknown name in the reserved rpc. space - both are method-not-found for a
// call and silence for a notification.
func c01unknownName(tag string) string {
	if vt.Hash64("c01unknown/"+tag)%2 == 0 {
		return "rpc.nosuch"
	}
	return "nosuch"
}

const c01bcBase = 9000

// c01isBC recognises the ids c01build gives to c01bc members.
func c01isBC(id string) bool {
	if strings.HasPrefix(id, `"b`) {
		return true
	}
	n, err := strconv.Atoi(id)
	return err == nil && n >= c01bcBase
}

type c01member struct {
	kind c01kind
	tag  string
	id   string // raw JSON id, "" for none
}

func (m c01member) runnable() bool { return m.kind <= c01in || m.kind >= c01rc }
func (m c01member) gated() bool    { return m.kind == c01gc || m.kind == c01gn }

func (m c01member) wire() string {
	switch m.kind {
	case c01gc:
		return peer.Req(m.id, "g", m.tag)
	case c01ic:
		return peer.Req(m.id, "i", m.tag)
	case c01ec:
		return peer.Req(m.id, "e", m.tag)
	case c01gn:
		return peer.Req("", "g", m.tag)
	case c01in:
		return peer.Req("", "i", m.tag)
	case c01uc:
		return peer.Req(m.id, c01unknownName(m.tag), m.tag)
	case c01un:
		return peer.Req("", c01unknownName(m.tag), m.tag)
	case c01vi:
		return fmt.Sprintf(`{"jsonrpc":"1.0","id":%s,"method":"i","params":{"t":%q}}`, m.id, m.tag)
	case c01vn:
		return fmt.Sprintf(`{"jsonrpc":"2.0","method":"i","params":{"t":%q},"bogus":1}`, m.tag)
	case c01rc:
		return peer.Req(m.id, "r", m.tag)
	case c01rn:
		return peer.Req("", "r", m.tag)
	case c01pn:
		return peer.Req("", "p", m.tag)
	case c01xc:
		return peer.Req(m.id, "x", m.tag)
	case c01bc:
		return peer.Req(m.id, "b", m.tag)
	}
	panic("kind")
}

type c01msg struct {
	members []c01member
	batch   bool
}

func (m c01msg) wire() string {
	var parts []string
	for _, mem := range m.members {
		parts = append(parts, mem.wire())
	}
	if m.batch {
		return "[" + strings.Join(parts, ",") + "]"
	}
	return parts[0]
}

// shape of a message: "gc" single, "[gc,in]" batch
type c01shape struct {
	kinds []c01kind
	batch bool
}

func (s c01shape) String() string {
	var p []string
	for _, k := range s.kinds {
		p = append(p, c01names[k])
	}
	if s.batch {
		return "[" + strings.Join(p, " ") + "]"
	}
	return p[0]
}

func c01shapes(maxBatch int) []c01shape {
	var out []c01shape
	for k := c01kind(0); k < c01numKinds; k++ {
		out = append(out, c01shape{kinds: []c01kind{k}})
	}
	for n := 1; n <= maxBatch; n++ {
		seqs(int(c01numKinds), n, n, func(idx []int) bool {
			ks := make([]c01kind, n)
			for i, v := range idx {
				ks[i] = c01kind(v)
			}
			out = append(out, c01shape{kinds: ks, batch: true})
			return true
		})
	}
	return out
}

func c01build(shapes []c01shape) (msgs []c01msg, gates []string) {
	n := 0
	for i, sh := range shapes {
		m := c01msg{batch: sh.batch}
		for j, k := range sh.kinds {
			mem := c01member{kind: k, tag: fmt.Sprintf("m%d.%d", i, j)}
			switch k {
			case c01gc, c01ic, c01ec, c01uc, c01vi, c01rc, c01xc:
				n++
				if n%2 == 0 {
					mem.id = fmt.Sprintf(`"s%d"`, n)
				} else {
					mem.id = fmt.Sprint(n)
				}
			case c01bc:
				// ids of these calls are recognisable: their handler's error cannot be
				// sent as it is, and which error the server reports instead is its choice
				n++
				if n%2 == 0 {
					mem.id = fmt.Sprintf(`"b%d"`, n)
				} else {
					mem.id = fmt.Sprint(c01bcBase + n)
				}
			}
			if mem.gated() {
				gates = append(gates, mem.tag)
			}
			m.members = append(m.members, mem)
		}
		msgs = append(msgs, m)
	}
	return
}

// c01predict returns the canonical signature of the outbound message that
// must answer m ("" if none), given the invocation sequence numbers seen.
func c01predict(m c01msg, seq map[string]string) string {
	var parts []string
	for _, mem := range m.members {
		switch mem.kind {
		case c01gc, c01ic:
			parts = append(parts, fmt.Sprintf("id=%s result=%s/%s", mem.id, mem.tag, seq[mem.tag]))
		case c01ec:
			parts = append(parts, fmt.Sprintf("id=%s error=7:E:%s", mem.id, mem.tag))
		case c01rc:
			parts = append(parts, fmt.Sprintf("id=%s error=-32600", mem.id))
		case c01xc:
			parts = append(parts, fmt.Sprintf(`id=%s result={"t":%q,"a":[1,2]}`, mem.id, mem.tag))
		case c01bc:
			parts = append(parts, fmt.Sprintf("id=%s error=ANY", mem.id))
		case c01uc:
			parts = append(parts, fmt.Sprintf("id=%s error=-32601", mem.id))
		case c01vi:
			parts = append(parts, fmt.Sprintf("id=%s error=-32600", mem.id))
		case c01vn:
			parts = append(parts, "id=null error=-32600")
		}
	}
	if len(parts) == 0 {
		return ""
	}
	if m.batch {
		return "[" + strings.Join(parts, " | ") + "]"
	}
	return strings.Join(parts, " | ")
}

// c01actual renders an outbound record in the same canonical form and checks
// the envelope of each member (version, exactly one of result / error).
func c01actual(c *vt.Ctx, rec []byte) string {
	var raws []json.RawMessage
	isArr := false
	for _, b := range rec {
		if b == ' ' || b == '\n' || b == '\t' || b == '\r' {
			continue
		}
		isArr = b == '['
		break
	}
	if isArr {
		if err := json.Unmarshal(rec, &raws); err != nil {
			c.Failf("outbound record is not valid JSON: %q: %v", rec, err)
			return "invalid"
		}
		if len(raws) == 0 {
			c.Failf("outbound record is an empty array")
		}
	} else {
		raws = []json.RawMessage{rec}
	}
	var parts []string
	for _, raw := range raws {
		var obj map[string]json.RawMessage
		if err := json.Unmarshal(raw, &obj); err != nil {
			c.Failf("outbound member is not a JSON object: %q", raw)
			return "invalid"
		}
		if string(obj["jsonrpc"]) != `"2.0"` {
			c.Failf("outbound member without version 2.0: %q", raw)
		}
		_, hasR := obj["result"]
		_, hasE := obj["error"]
		_, hasM := obj["method"]
		if hasR == hasE || hasM {
			c.Failf("outbound member is not a response with exactly one of result/error: %q", raw)
		}
		id := string(obj["id"])
		if hasR {
			var s string
			if json.Unmarshal(obj["result"], &s) != nil {
				s = string(obj["result"])
			}
			parts = append(parts, fmt.Sprintf("id=%s result=%s", id, s))
		} else {
			var e struct {
				Code    int    `json:"code"`
				Message string `json:"message"`
			}
			json.Unmarshal(obj["error"], &e)
			if c01isBC(id) {
				parts = append(parts, fmt.Sprintf("id=%s error=ANY", id))
			} else if e.Code == 7 {
				parts = append(parts, fmt.Sprintf("id=%s error=7:%s", id, e.Message))
			} else {
				parts = append(parts, fmt.Sprintf("id=%s error=%d", id, e.Code))
			}
		}
	}
	if isArr {
		return "[" + strings.Join(parts, " | ") + "]"
	}
	return strings.Join(parts, " | ")
}

// c01check judges the outbound records against the predictions.
func c01check(c *vt.Ctx, rig *peer.ServerRig, msgs []c01msg, final bool, when string) {
	enter, exit := map[string]int{}, map[string]int{}
	seq := map[string]string{}
	for _, e := range rig.Log.Events() {
		switch e.Kind {
		case "h.enter":
			enter[e.Tag]++
			var s string
			fmt.Sscanf(e.Info, "seq=%s", &s)
			seq[e.Tag] = s
		case "h.exit":
			exit[e.Tag]++
		}
	}
	known := map[string]bool{}
	for _, m := range msgs {
		for _, mem := range m.members {
			known[mem.tag] = true
			if enter[mem.tag] > 1 || exit[mem.tag] > 1 {
				c.Failf("%s: handler of %s ran %d times (exits %d)", when, mem.tag, enter[mem.tag], exit[mem.tag])
			}
			if !mem.runnable() && enter[mem.tag] > 0 {
				c.Failf("%s: a handler ran for %s member %s", when, c01names[mem.kind], mem.tag)
			}
			if final && mem.runnable() && (enter[mem.tag] != 1 || exit[mem.tag] != 1) {
				c.Failf("%s: handler of %s entered %d times, exited %d times; want exactly once", when, mem.tag, enter[mem.tag], exit[mem.tag])
			}
		}
	}
	for tag := range enter {
		if !known[tag] {
			c.Failf("%s: handler ran with unknown tag %q", when, tag)
		}
	}
	// predictions, and whether each message is complete
	type pred struct {
		sig      string
		complete bool
		used     bool
		idx      int
	}
	var preds []*pred
	for i, m := range msgs {
		p := &pred{sig: c01predict(m, seq), complete: true, idx: i}
		for _, mem := range m.members {
			if mem.runnable() && exit[mem.tag] == 0 {
				p.complete = false
			}
		}
		preds = append(preds, p)
	}
	for _, rec := range rig.Outbound() {
		if ms, _, err := peer.Decode(rec); err == nil && len(ms) == 1 && ms[0].Method == "cb" {
			continue // a pushed callback request of the push variant, not a response
		}
		sig := c01actual(c, rec)
		var hit *pred
		for _, p := range preds {
			if !p.used && p.sig != "" && p.sig == sig {
				hit = p
				break
			}
		}
		if hit == nil {
			c.Failf("%s: outbound message %s answers no inbound message (unpredicted, duplicated or malformed): %s", when, sig, rec)
			continue
		}
		hit.used = true
		if !hit.complete {
			c.Failf("%s: response to message %d sent before all of its handlers returned: %s", when, hit.idx, rec)
		}
	}
	if final {
		for _, p := range preds {
			if p.sig != "" && !p.used {
				c.Failf("%s: no response was sent for message %d; expected %s", when, p.idx, p.sig)
			}
		}
	}
}

type c01run struct {
	shapes []c01shape
	conc   int
	order  []string
	ctrl   *sched.Controller
	push   int // server callbacks left pending throughout (their ids 1..push collide with request ids)
}

func c01exec(c *vt.Ctx, r c01run) {
	msgs, _ := c01build(r.shapes)
	peer.Bubble(c, r.ctrl, func() {
		rig := peer.NewServerRig(c, r.ctrl, peer.ServerOpts{Concurrency: r.conc, AllowPush: r.push > 0, RejectLF: true})
		cbctx, cbcancel := context.WithCancel(context.Background())
		defer cbcancel()
		for k := 0; k < r.push; k++ {
			go rig.Srv.Callback(cbctx, "cb", nil)
		}
		if r.push > 0 {
			rig.Settle()
		}
		for i, m := range msgs {
			// JSON whitespace around a record is part of the record: a third of the
			// scripts wrap every message in some (space, tab, CR, LF before; CR LF after)
			w := m.wire()
			if h := vt.Hash64(c01sig(r.shapes)); h%3 == 0 {
				w = []string{" ", "\r\n", "\t\r", "\n \r"}[(h/3+uint64(i))%4] + w + []string{"", "\r\n"}[(h/12)%2]
			}
			rig.Send(w)
		}
		rig.Settle()
		c01check(c, rig, msgs, false, "after arrival")
		for k, tag := range r.order {
			rig.H.Release(tag)
			rig.Settle()
			c01check(c, rig, msgs, k == len(r.order)-1, fmt.Sprintf("after release %d (%s)", k, tag))
		}
		if len(r.order) == 0 {
			c01check(c, rig, msgs, true, "final")
		}
		cbcancel()
		rig.Settle()
		if _, ok := rig.Finish(); !ok {
			c.Failf("server did not exit after the peer closed")
		}
		c01check(c, rig, msgs, true, "after shutdown")
		c.Count("events", rig.Log.Len())
		c.Count("handler_runs", int(rig.H.Invocations()))
		c.Count("outbound_records", len(rig.Outbound()))
	})
	c.Eval(1)
}

func c01sig(shapes []c01shape) string {
	var p []string
	for _, s := range shapes {
		p = append(p, s.String())
	}
	return strings.Join(p, ";")
}

func c01nontrivial(shapes []c01shape) bool {
	// at least one call and (two members in total or two messages)
	calls, total := 0, 0
	for _, s := range shapes {
		for _, k := range s.kinds {
			total++
			if k == c01gc || k == c01ic || k == c01ec {
				calls++
			}
		}
	}
	return calls >= 1 && total >= 2
}

func init() {
	vt.Register(&vt.Check{
		Prop:  "C01",
		Level: "exploration",
		Rule: "scripts = sequences of inbound messages (single or batch) over member kinds {gated call, instant call, erroring call, gated notification, instant notification, unknown-method call, " +
			"unknown-method notification, invalid member with id, invalid member without id, call / notification whose handler fails with the codes -32600 / -32700, call returning pre-encoded multi-line JSON, call whose handler's error carries data that are not JSON (any error response is accepted for it)} with unique ids/tags, all sent before any gate opens (one message: every shape with batches up to 3 members; two messages: every ordered pair of shapes with batches up to 2 members — a seeded 40% of the pairs in the quick tier; three messages: seeded), x every release order of the gates (<=4; seeded beyond) " +
			"x Concurrency in {1,2,16}; reference response calculator compared at every quiescent point; plus delay-bounded schedules and seeded perturbation; " +
			"T: ServerOptions.NewContext hands every request a 1 s deadline, all slots are taken by stubborn calls, scripts over {n,c,[n,c],[c,n],[n,n],[n,c,n]} queue up, virtual time advances 2 s, then everything is released and a probe call follows: every call answered exactly once in a message of the right shape (an error is accepted only for calls that had not started when their context ended), no handler twice, the probe served. " +
			"distinct_nontrivial = distinct (script, concurrency, release order, delay set) with at least one call and at least two members",
		Assumptions: []string{
			"Go 1.26.8 runtime and testing/synctest quiescence; harness channel vchan",
			"ids are unique within a script (id reuse is C07's subject)",
		},
		Require: map[string]int64{"handler_runs": 200, "outbound_records": 200, "contexts_ended_while_waiting": 50, "calls_answered_with_context_error": 20},
		Cases:   c01cases,
	})
}

func c01cases(e vt.Env, yield func(vt.Case) bool) {
	// T: request contexts that end while requests wait for a slot (c01_timeout.go)
	if !c01tCases(e, yield) {
		return
	}
	shapes2 := c01shapes(2) // 9 + 9 + 81 = 99
	concs := []int{1, 2, 16}
	pickConc := func(sig string) []int {
		if e.Thorough() {
			return concs
		}
		return []int{concs[vt.Hash64(sig)%3]}
	}
	runOrders := func(c *vt.Ctx, id string, shapes []c01shape, conc int) {
		_, gates := c01build(shapes)
		rng := e.Rand(id)
		// every third script runs on a push-enabled server with two callbacks pending
		// (callback ids 1 and 2 collide with the script's request ids)
		push := 0
		if vt.Hash64(id)%3 == 0 {
			push = 2
		}
		for _, ord := range orders(gates, 4, e.Pick(4, 10), rng) {
			c01exec(c, c01run{shapes: shapes, conc: conc, order: ord, ctrl: sched.New(), push: push})
			if c01nontrivial(shapes) {
				c.Distinct(id + "/" + join(ord))
				if c.WantSample() {
					msgs, _ := c01build(shapes)
					var w []string
					for _, m := range msgs {
						w = append(w, m.wire())
					}
					c.Sample(map[string]any{"inbound": w, "concurrency": conc, "release_order": ord})
				}
			}
			if c.Failed() {
				return
			}
		}
	}
	// E1a: one message, every shape with batches up to 3 members
	for _, sh := range c01shapes(3) {
		sh := sh
		for _, conc := range pickConc(sh.String()) {
			conc := conc
			id := fmt.Sprintf("E1/%s/c%d", sh.String(), conc)
			if !yield(vt.Case{ID: id, Run: func(c *vt.Ctx) { runOrders(c, id, []c01shape{sh}, conc) }}) {
				return
			}
		}
	}
	// E1b: two messages, shapes with batches up to 2 members (99 x 99)
	for _, a := range shapes2 {
		a := a
		id0 := fmt.Sprintf("E1/%s;*", a.String())
		// one case per first shape x concurrency: runs all second shapes
		for _, conc := range pickConc(id0) {
			conc := conc
			id := fmt.Sprintf("%s/c%d", id0, conc)
			if !yield(vt.Case{ID: id, Run: func(c *vt.Ctx) {
				for _, b := range shapes2 {
					shapes := []c01shape{a, b}
					if !e.Thorough() && vt.Hash64(fmt.Sprint(e.Seed, c01sig(shapes)))%5 >= 2 {
						continue // quick: a seeded 40% of the ordered pairs of shapes
					}
					runOrders(c, fmt.Sprintf("E1/%s/c%d", c01sig(shapes), conc), shapes, conc)
					if c.Failed() {
						return
					}
				}
			}}) {
				return
			}
		}
	}
	// E1c: three messages, seeded sample over shapes up to 3 members
	shapes3 := c01shapes(3)
	rng := e.Rand("C01/E1c")
	for i := 0; i < e.Pick(300, 6000); i++ {
		shapes := []c01shape{shapes3[rng.IntN(len(shapes3))], shapes3[rng.IntN(len(shapes3))], shapes3[rng.IntN(len(shapes3))]}
		conc := concs[rng.IntN(3)]
		id := fmt.Sprintf("E1c/%d/%s/c%d", i, c01sig(shapes), conc)
		if !yield(vt.Case{ID: id, Run: func(c *vt.Ctx) { runOrders(c, id, shapes, conc) }}) {
			return
		}
	}
	// E2: delay-bounded schedules on seeded two-message scripts
	rng = e.Rand("C01/E2")
	d := e.Pick(1, 2)
	for i := 0; i < e.Pick(40, 200); i++ {
		shapes := []c01shape{shapes2[rng.IntN(len(shapes2))], shapes2[rng.IntN(len(shapes2))]}
		if !c01nontrivial(shapes) {
			continue
		}
		conc := concs[rng.IntN(3)]
		dd := d
		if dd == 2 && i%4 != 0 {
			dd = 1
		}
		id := fmt.Sprintf("E2/%d/%s/c%d/d%d", i, c01sig(shapes), conc, dd)
		if !yield(vt.Case{ID: id, Run: func(c *vt.Ctx) {
			_, gates := c01build(shapes)
			prof := sched.New()
			c01exec(c, c01run{shapes: shapes, conc: conc, order: gates, ctrl: prof})
			if c.Failed() {
				return
			}
			keys := prof.Keys()
			sort.Strings(keys)
			sched.DelaySets(keys, dd, func(ds []string) bool {
				c01exec(c, c01run{shapes: shapes, conc: conc, order: gates, ctrl: sched.New().WithDelays(ds...)})
				c.Distinct(id + "/" + join(ds))
				return !c.Failed()
			})
		}}) {
			return
		}
	}
	// E3: seeded perturbation on longer scripts
	rng = e.Rand("C01/E3")
	for i := 0; i < e.Pick(100, 3000); i++ {
		n := 2 + rng.IntN(4)
		shapes := make([]c01shape, n)
		for k := range shapes {
			shapes[k] = shapes3[rng.IntN(len(shapes3))]
		}
		conc := concs[rng.IntN(3)]
		p := []float64{0.02, 0.05, 0.1, 0.2, 0.3}[rng.IntN(5)]
		id := fmt.Sprintf("E3/%d/%s/c%d/p%.2f", i, c01sig(shapes), conc, p)
		if !yield(vt.Case{ID: id, Run: func(c *vt.Ctx) {
			_, gates := c01build(shapes)
			r := e.Rand(id)
			ord := append([]string(nil), gates...)
			r.Shuffle(len(ord), func(a, b int) { ord[a], ord[b] = ord[b], ord[a] })
			c01exec(c, c01run{shapes: shapes, conc: conc, order: ord, ctrl: sched.New().WithPerturb(p, r)})
			if c01nontrivial(shapes) {
				c.Distinct(id)
			}
		}}) {
			return
		}
	}
}
