package checks

import (
	"context"
	"encoding/json"
	"fmt"
	"hash/fnv"
	"sort"
	"strings"
	"sync"
	"time"

	"github.com/creachadair/jrpc2"
	"github.com/creachadair/jrpc2/channel"
	"github.com/creachadair/jrpc2/handler"

	"verif/harness/peer"
	"verif/harness/vchan"
	"verif/harness/vt"
)

// C17, blocks S and D.
//
// S — spelling. "Its exact method name" is the string the JSON text denotes, and a
// JSON string has many spellings: every character may be written as \uXXXX (astral
// ones as a surrogate pair), '/' as \/, quotes, backslash and controls with their
// short escapes. jrpc2's own client always uses one spelling, so the other blocks
// never show the server any other; clients written in other languages do (PHP
// escapes '/', Python escapes everything beyond ASCII). Here the real client's
// outgoing records pass through a channel wrapper that re-spells the method member
// — the JSON value is unchanged — and the whole oracle of c17exec applies as
// before: same handler, same reserved-name gate, same InboundRequest.
//
// D — an assigner that changes. NewServer allows the assigner to be modified while
// the server runs if it is safe for concurrent use. Dispatch and the method list
// reported by rpc.serverInfo / Server.ServerInfo must follow such changes, and a
// caller scribbling over the list it was given must not change later answers.

// c17spell renders name as a JSON string in the given mode.
func c17spell(name string, mode int) string {
	h := fnv.New32a()
	h.Write([]byte(name))
	seed := h.Sum32()
	next := func() uint32 { seed = seed*1664525 + 1013904223; return seed >> 16 }
	var sb strings.Builder
	sb.WriteByte('"')
	u16 := func(c rune, upper bool) {
		f := `\u%04x`
		if upper {
			f = `\u%04X`
		}
		if c >= 0x10000 {
			c -= 0x10000
			fmt.Fprintf(&sb, f+f, 0xD800+(c>>10), 0xDC00+(c&0x3FF))
		} else {
			fmt.Fprintf(&sb, f, c)
		}
	}
	short := map[rune]string{'"': `\"`, '\\': `\\`, '/': `\/`, '\b': `\b`, '\f': `\f`, '\n': `\n`, '\r': `\r`, '\t': `\t`}
	for _, c := range name {
		must := c < 0x20 || c == '"' || c == '\\'
		switch mode {
		case 1: // everything as \uXXXX
			u16(c, false)
		case 2: // short escapes wherever one exists (notably \/), the rest raw
			if s, ok := short[c]; ok {
				sb.WriteString(s)
			} else if must {
				u16(c, true)
			} else {
				sb.WriteRune(c)
			}
		default: // a mixture chosen per character
			k := next() % 4
			s, hasShort := short[c]
			switch {
			case k == 0 && hasShort:
				sb.WriteString(s)
			case k == 1:
				u16(c, true)
			case k == 2:
				u16(c, false)
			case must && hasShort:
				sb.WriteString(s)
			case must:
				u16(c, false)
			default:
				sb.WriteRune(c)
			}
		}
	}
	sb.WriteByte('"')
	out := sb.String()
	var back string
	if err := json.Unmarshal([]byte(out), &back); err != nil || back != name {
		panic(fmt.Sprintf("harness bug: spelling %s of %q decodes to %q (%v)", out, name, back, err))
	}
	return out
}

// c17respell is a channel whose Send re-spells the method member of every request.
type c17respell struct {
	channel.Channel
	mode int

	mu      sync.Mutex
	changed int
}

func (r *c17respell) one(raw json.RawMessage) []byte {
	var obj map[string]json.RawMessage
	if err := json.Unmarshal(raw, &obj); err != nil {
		return raw
	}
	m, ok := obj["method"]
	var name string
	if !ok || json.Unmarshal(m, &name) != nil {
		return raw
	}
	sp := c17spell(name, r.mode)
	if sp != string(m) {
		r.mu.Lock()
		r.changed++
		r.mu.Unlock()
	}
	var sb strings.Builder
	sb.WriteString(`{"jsonrpc":` + string(obj["jsonrpc"]))
	if id, ok := obj["id"]; ok {
		sb.WriteString(`,"id":` + string(id))
	}
	sb.WriteString(`,"method":` + sp)
	if p, ok := obj["params"]; ok {
		sb.WriteString(`,"params":` + string(p))
	}
	sb.WriteByte('}')
	return []byte(sb.String())
}

func (r *c17respell) Send(rec []byte) error {
	t := strings.TrimSpace(string(rec))
	if strings.HasPrefix(t, "[") {
		var ms []json.RawMessage
		if json.Unmarshal(rec, &ms) == nil {
			parts := make([]string, len(ms))
			for i, m := range ms {
				parts[i] = string(r.one(m))
			}
			return r.Channel.Send([]byte("[" + strings.Join(parts, ",") + "]"))
		}
		return r.Channel.Send(rec)
	}
	return r.Channel.Send(r.one(rec))
}

var c17wideKeys = []string{
	"a/b", "/", "a/", "/a", "math/v1.add", "a.b/c", "rpc/serverInfo", "rpc./", "rpc.a/b",
	"\U0001F600", "\U0001F600.ping", "a\U0001F600b", "rpc.\U0001F600", "\U0001D4B3.\U0001D4B4", "\U0010FFFF",
	`q"q`, `b\s`, `\`, `"`, `\u0041`, `\/`, `a\/b`,
	" ", "x\u0001y", "\t", "\n.\r", "\u007f", "<>&", "\u00e9", "e\u0301", "\u00e9.\u00e9", "\ufeffa", "a\u200d", "\u2028",
}

func c17spellCases(e vt.Env, u []string, both func(id string, run func(c *vt.Ctx, disable bool))) {
	keys := append(append([]string{}, c17wideKeys...), c17hotKeys...)
	for mode := 1; mode <= 3; mode++ {
		mode := mode
		both(fmt.Sprintf("S/map/spelling%d", mode), func(c *vt.Ctx, dis bool) {
			probes := append([]string{}, keys...)
			for _, k := range c17wideKeys {
				probes = append(probes, c17neighbours(k)...)
			}
			for i := mode; i < len(u); i += e.Pick(9, 2) {
				probes = append(probes, u[i])
			}
			c17execSpelled(c, fmt.Sprintf("Map{wide and hot keys}, method names re-spelt in mode %d", mode), c17map("R", keys), dis, c17dedupe(probes), mode)
		})
		both(fmt.Sprintf("S/services/spelling%d", mode), func(c *vt.Ctx, dis bool) {
			tree := c17svc("R")
			var probes []string
			for _, s := range []string{"\U0001F600", "a/b", "a", "rpc", `q"q`, "\u00e9"} {
				tree.add(s, func(id string) *c17asg { return c17map(id, keys) })
				for _, k := range keys {
					probes = append(probes, s+"."+k)
				}
				probes = append(probes, s, s+".", s+"..a")
			}
			probes = append(probes, keys...)
			for i := mode; i < len(u); i += e.Pick(19, 4) {
				probes = append(probes, u[i])
			}
			c17execSpelled(c, fmt.Sprintf("ServiceMap{6 services: Map{wide and hot keys}}, method names re-spelt in mode %d", mode), tree, dis, c17dedupe(probes), mode)
		})
	}
	// the whole universe at the root, re-spelt (the reserved-prefix gate must act on the decoded name)
	both("S/map-of-universe/spelling3", func(c *vt.Ctx, dis bool) {
		var probes []string
		for i := 0; i < len(u); i += e.Pick(3, 1) {
			probes = append(probes, u[i])
		}
		c17execSpelled(c, "Map{all universe strings}, method names re-spelt in mode 3", c17map("R", u), dis, probes, 3)
	})
	both("S/map-of-universe/spelling1", func(c *vt.Ctx, dis bool) {
		var probes []string
		for i := 1; i < len(u); i += e.Pick(3, 1) {
			probes = append(probes, u[i])
		}
		c17execSpelled(c, "Map{all universe strings}, method names re-spelt in mode 1", c17map("R", u), dis, probes, 1)
	})
	for i := 0; i < e.Pick(3, 40); i++ {
		id := fmt.Sprintf("D/%d", i)
		both(id, func(c *vt.Ctx, dis bool) { c17dynamic(c, id, dis) })
	}
}

// ---- D: an assigner that changes while the server runs ----

type c17mutable struct {
	mu  sync.Mutex
	m   map[string]string // method -> tag
	ran map[string]int
}

func (d *c17mutable) Assign(ctx context.Context, method string) jrpc2.Handler {
	d.mu.Lock()
	defer d.mu.Unlock()
	tag, ok := d.m[method]
	if !ok {
		return nil
	}
	return func(ctx context.Context, req *jrpc2.Request) (any, error) {
		d.mu.Lock()
		d.ran[tag]++
		d.mu.Unlock()
		return tag, nil
	}
}

func (d *c17mutable) Names() []string { // a fresh slice each time
	d.mu.Lock()
	defer d.mu.Unlock()
	out := make([]string, 0, len(d.m))
	for k := range d.m {
		out = append(out, k)
	}
	sort.Strings(out)
	return out
}

func c17dynamic(c *vt.Ctx, id string, dis bool) {
	r := c.Env.Rand(id)
	d := &c17mutable{m: map[string]string{}, ran: map[string]int{}}
	pool := append(append([]string{}, c17hotKeys...), c17wideKeys...)
	gen := 0
	put := func(k string) {
		if k == "" {
			k = "a"
		}
		gen++
		d.mu.Lock()
		d.m[k] = fmt.Sprintf("%s@%d", k, gen)
		d.mu.Unlock()
	}
	for i := 0; i < 3+r.IntN(5); i++ {
		put(pool[r.IntN(len(pool))])
	}
	mon := &peer.Mon{C: c, Log: peer.NewLog()}
	cliEnd, srvEnd := vchan.NewPair("cli", "srv", mon)
	// a configured start time is what rpc.serverInfo reports, in every session of the server
	startTime := time.Date(2020, 5, 17, 9, 30, 0, 0, time.UTC).Add(time.Duration(r.IntN(100000)) * time.Second)
	srv := jrpc2.NewServer(d, &jrpc2.ServerOptions{DisableBuiltin: dis, StartTime: startTime})
	srv.Start(srvEnd)
	cli := jrpc2.NewClient(cliEnd, nil)
	defer func() { cli.Close(); srv.WaitStatus() }()
	ctx := context.Background()
	desc := fmt.Sprintf("%s DisableBuiltin=%v", id, dis)

	checkInfo := func(when string) {
		want := d.Names()
		if st := srv.ServerInfo().StartTime; !st.Equal(startTime) {
			c.Failf("%s, %s: Server.ServerInfo().StartTime is %v, ServerOptions.StartTime was %v", desc, when, st, startTime)
		}
		got := srv.ServerInfo().Methods
		if !c17equalStrings(got, want) {
			c.Failf("%s, %s: Server.ServerInfo().Methods is %q, the assigner's methods are %q", desc, when, c17clip(got), c17clip(want))
		}
		if !dis {
			var info struct {
				Methods   []string  `json:"methods"`
				StartTime time.Time `json:"startTime"`
			}
			if err := cli.CallResult(ctx, "rpc.serverInfo", nil, &info); err != nil {
				c.Failf("%s, %s: rpc.serverInfo failed: %v", desc, when, err)
			} else if !c17equalStrings(info.Methods, want) {
				c.Failf("%s, %s: rpc.serverInfo reports methods %q, the assigner's methods are %q", desc, when, c17clip(info.Methods), c17clip(want))
			} else if !info.StartTime.Equal(startTime) {
				c.Failf("%s, %s: rpc.serverInfo reports start time %v, ServerOptions.StartTime was %v", desc, when, info.StartTime, startTime)
			}
		}
		c.Count("serverinfo_after_change_checked", 1)
		c.Eval(1)
	}
	checkDispatch := func(when string) {
		d.mu.Lock()
		cur := map[string]string{}
		for k, v := range d.m {
			cur[k] = v
		}
		d.mu.Unlock()
		for _, k := range pool {
			if k == "" || (!dis && strings.HasPrefix(k, "rpc.")) {
				continue
			}
			var got string
			err := cli.CallResult(ctx, k, nil, &got)
			tag, mapped := cur[k]
			switch {
			case mapped && (err != nil || got != tag):
				c.Failf("%s, %s: method %q is mapped to handler %q now; the call returned %q, %v", desc, when, k, tag, got, err)
			case !mapped:
				if code, ok := c17errCode(err); !ok || code != jrpc2.MethodNotFound {
					c.Failf("%s, %s: method %q is not mapped now; the call returned %q, %v, want method-not-found", desc, when, k, got, err)
				}
			}
			c.Count("dynamic_dispatch_checked", 1)
			c.Eval(1)
		}
	}
	checkInfo("at the start")
	for round := 0; round < 5 && !c.Failed(); round++ {
		when := fmt.Sprintf("after change %d", round+1)
		// a caller scribbles over the list it was given
		lst := srv.ServerInfo().Methods
		for i := range lst {
			lst[i] = "zzz-scribbled"
		}
		_ = append(lst[:0], "zzz-appended")
		checkInfo(when + " (a caller overwrote the list it got from ServerInfo)")
		// the assigner changes: add, replace, remove
		switch r.IntN(3) {
		case 0:
			put(pool[r.IntN(len(pool))])
		case 1:
			if names := d.Names(); len(names) > 0 {
				d.mu.Lock()
				delete(d.m, names[r.IntN(len(names))])
				d.mu.Unlock()
			}
			put(pool[r.IntN(len(pool))])
		case 2:
			if names := d.Names(); len(names) > 1 {
				d.mu.Lock()
				delete(d.m, names[r.IntN(len(names))])
				d.mu.Unlock()
			}
		}
		checkInfo(when)
		checkDispatch(when)
		c.Distinct(fmt.Sprintf("D|%v|%s|%d|%v", dis, id, round, d.Names()))
		if round == 2 && !c.Failed() {
			// the connection ends and the same server is started on a new one: same
			// assigner, same configured start time, same dispatch
			cli.Close()
			srv.WaitStatus()
			cliEnd, srvEnd = vchan.NewPair("cli", "srv", mon)
			srv.Start(srvEnd)
			cli = jrpc2.NewClient(cliEnd, nil)
			checkInfo(when + " and a restart on a fresh channel")
			checkDispatch(when + " and a restart on a fresh channel")
			c.Count("serverinfo_after_restart_checked", 1)
		}
	}
}

var _ = handler.Map{}
