package checks

import (
	"context"
	"encoding/json"
	"errors"
	"fmt"
	"io"
	"strings"
	"sync/atomic"

	"github.com/creachadair/jrpc2"
	"github.com/creachadair/jrpc2/channel"

	"verif/harness/peer"
	"verif/harness/sched"
	"verif/harness/vchan"
	"verif/harness/vt"
)

// C08 — clean, crash-free, restartable shutdown for every stop cause/timing.
//
// A scenario = pre-stop traffic (settled) + a stop cause + optional inbound
// record after the stop + teardown + restart on a fresh channel. Stop causes:
// Stop(), peer close, and — fault enumeration — a failure injected at every
// Recv and Send the server performs in the scenario (error, io.EOF, a final
// record together with io.EOF, a record together with an error), on channels
// whose Close does / does not unblock Recv. Monitors: worker death (panic,
// race, deadlock) via the journal; WaitStatus must have returned at quiescence
// after the peer closed, stamped after every handler exit, with the status of
// the first cause; call handlers in flight saw their context cancelled; every
// valid notification received before the stop reached its handler; pending
// callbacks returned; no goroutine left; servers_active restored; the same
// server restarted on a fresh channel answers a probe.

type c08scenario struct {
	name    string
	push    bool
	basectx bool // the server's NewContext hands out a context the scenario ends with "@endbase"
	// pre-stop traffic; each step is followed by a settle
	steps []string // raw records, or "@callback"
}

var c08invalidNote = `{"jsonrpc":"2.0","method":"i","params":5}`

var c08scenarios = []c08scenario{
	{name: "idle"},
	{name: "call", steps: []string{peer.Req("1", "g", "c1")}},
	{name: "parked", steps: []string{
		peer.Req("", "G", "n1"),  // stubborn notification: parks the dispatcher
		peer.Req("1", "g", "c1"), // dequeued, waits at the barrier
		peer.Req("", "i", "n2"),  // queued notification
		peer.Req("2", "i", "c2"), // queued call
		c08invalidNote,           // queued id-less invalid member
		"[" + peer.Req("", "i", "n3") + "," + peer.Req("3", "i", "c3") + "]",
	}},
	{name: "notebatch", steps: []string{
		"[" + peer.Req("", "G", "n1") + "," + peer.Req("", "i", "n2") + "]", // the slow notification is not the last of its batch
		"[" + peer.Req("", "i", "n3") + "," + peer.Req("", "G", "n4") + "," + peer.Req("", "G", "n5") + "]",
	}},
	{name: "basectx", basectx: true, steps: []string{
		peer.Req("", "i", "n1"), peer.Req("1", "g", "c1"),
		"@endbase", // the application's base context ends (shutdown in progress)
		peer.Req("", "i", "n2"), peer.Req("2", "i", "c2"), "[" + peer.Req("", "i", "n3") + "," + peer.Req("3", "i", "c3") + "]",
	}},
	{name: "callback", push: true, steps: []string{"@callback", peer.Req("1", "g", "c1")}},
	{name: "mixed", push: true, steps: []string{
		peer.Req("1", "g", "c1"), "@callback",
		"[" + peer.Req("2", "g", "c2") + "," + peer.Req("3", "i", "c3") + "," + peer.Req("", "G", "n1") + "]",
		peer.Req("", "i", "n2"), peer.Req("4", "G", "c4"),
	}},
}

var c08post = map[string]string{
	"none":        "",
	"call":        peer.Req("77", "i", "post-call"),
	"note":        peer.Req("", "i", "post-note"),
	"invalidnote": c08invalidNote,
	"malformed":   `garbage`,
	"emptybatch":  `[]`,
}
var c08postNames = []string{"none", "call", "note", "invalidnote", "malformed", "emptybatch"}

var errC08 = errors.New("c08: injected transport failure")

type c08cause struct {
	kind string // stop | peerclose | recv-err | recv-eof | recv-data-eof | recv-data-err | send-err | recv-closing
	k    int    // operation index for faults
}

func (c c08cause) String() string {
	if c.k > 0 {
		return fmt.Sprintf("%s@%d", c.kind, c.k)
	}
	return c.kind
}

type c08run struct {
	sc       c08scenario
	cause    c08cause
	pipeLike bool
	post     string
	ctrl     *sched.Controller
	race     bool // do not settle between the stop cause and the post-stop record
	racePre  bool // do not settle between the last pre-stop record and the stop cause either
}

type c08profile struct{ recvs, sends int }

func c08exec(c *vt.Ctx, r c08run) (prof c08profile) {
	finalNote := peer.Req("", "i", "final")
	peer.Bubble(c, r.ctrl, func() {
		active0 := jrpc2.ServerMetrics().Get("servers_active").String()
		var faults []vchan.Fault
		switch r.cause.kind {
		case "recv-err":
			faults = append(faults, vchan.Fault{Op: vchan.OpRecv, N: r.cause.k, Err: errC08, Sticky: true})
		case "recv-eof":
			faults = append(faults, vchan.Fault{Op: vchan.OpRecv, N: r.cause.k, Err: io.EOF, Sticky: true})
		case "recv-closing":
			faults = append(faults, vchan.Fault{Op: vchan.OpRecv, N: r.cause.k, Err: fmt.Errorf("wrapped: %w", channel.ErrClosed), Sticky: true})
		case "recv-data-eof":
			faults = append(faults, vchan.Fault{Op: vchan.OpRecv, N: r.cause.k, Err: io.EOF, Data: []byte(finalNote), Sticky: true})
		case "recv-data-err":
			faults = append(faults, vchan.Fault{Op: vchan.OpRecv, N: r.cause.k, Err: errC08, Data: []byte(finalNote), Sticky: true})
		case "send-err":
			faults = append(faults, vchan.Fault{Op: vchan.OpSend, N: r.cause.k, Err: errC08})
		}
		// in a third of the scenarios the channel's Close reports an error of its own (a reset
		// socket, a failed final flush): that is not the cause the server stopped for
		if vt.Hash64(fmt.Sprint("closeerr", r.sc.name, r.cause, r.post, r.pipeLike))%3 == 0 {
			faults = append(faults, vchan.Fault{Op: vchan.OpClose, N: 1, Err: errors.New("c08: close: connection reset by peer")})
			c.Count("sessions_whose_close_fails", 1)
		}
		// every other scenario hands the server its channel as a non-comparable struct value
		// (as channel.RawJSON's is) instead of a pointer
		byValue := vt.Hash64(fmt.Sprint(r.sc.name, r.cause, r.post, r.pipeLike))%2 == 0
		opts := peer.ServerOpts{Concurrency: 4, AllowPush: r.sc.push, PipeLike: r.pipeLike, Faults: faults, ChannelByValue: byValue}
		if byValue {
			c.Count("sessions_on_a_non_comparable_channel_value", 1)
		}
		var base atomic.Pointer[context.Context]
		var endBase context.CancelFunc = func() {}
		if r.sc.basectx {
			bctx, cancel := context.WithCancel(context.Background())
			base.Store(&bctx)
			endBase = cancel
			opts.BaseContext = func() context.Context { return *base.Load() }
		}
		defer func() { endBase() }()
		rig := peer.NewServerRig(c, r.ctrl, opts)
		log := rig.Log
		callbacks := 0
		for si, st := range r.sc.steps {
			if st == "@endbase" {
				log.Add("basectx.end", "", "")
				endBase()
			} else if st == "@callback" {
				callbacks++
				n := callbacks
				go func() {
					_, err := rig.Srv.Callback(context.Background(), "cb", nil)
					log.Add("api.ret", fmt.Sprintf("cb%d", n), fmt.Sprint(err))
				}()
			} else {
				rig.Send(st)
			}
			if r.racePre && si == len(r.sc.steps)-1 {
				// the stop cause races with the processing of this record; under a
				// delay set the server goroutines run up to their parked sites first
				if r.ctrl.HasDelays() {
					r.ctrl.Quiesce()
				}
				break
			}
			rig.Settle()
			log.Add("settled.pre", "", "")
		}
		// the explicit stop cause
		switch r.cause.kind {
		case "stop":
			log.Add("cause", "stop", "")
			rig.Srv.Stop()
		case "peerclose":
			log.Add("cause", "peerclose", "")
			rig.Peer.CloseQuiet()
		}
		// WaitStatus is called as soon as the cause has been issued: it must not
		// return while any handler is still running, however long that takes.
		statusCh := make(chan jrpc2.ServerStatus, 1)
		go func() {
			st := rig.Srv.WaitStatus()
			log.Add("waitstatus.ret", "", fmt.Sprintf("%+v", st))
			statusCh <- st
		}()
		if !r.race {
			rig.Settle()
			log.Add("settled", "", "")
		} else if r.ctrl.HasDelays() {
			r.ctrl.Quiesce()
		}
		if p := c08post[r.post]; p != "" {
			rig.Send(p)
			rig.Settle()
			log.Add("settled", "", "")
		}
		// teardown: let stubborn handlers go, close the peer end, wait
		rig.H.ReleaseAll()
		rig.Settle()
		// If WaitStatus has already returned, the old session is over: its peer stays
		// silent until the server has been restarted, and closes (after one more
		// record) only then — late events on the old channel must not reach the new session.
		var st jrpc2.ServerStatus
		ok := false
		select {
		case st = <-statusCh:
			ok = true
		default:
		}
		oldPeer := rig.Peer
		lateOldPeer := ok
		if !ok {
			log.Add("cause", "teardown-peerclose", "")
			rig.Peer.CloseQuiet()
			rig.Settle()
			select {
			case st = <-statusCh:
				ok = true
			default:
			}
		}
		s, rcv, _ := rig.End.Counts()
		prof = c08profile{recvs: int(rcv), sends: int(s)}
		if !ok {
			c.Failf("WaitStatus had not returned at quiescence after the peer closed")
			rig.Srv.Stop()
			return
		}
		c08judge(c, r, rig, st, callbacks)
		if got := jrpc2.ServerMetrics().Get("servers_active").String(); got != active0 {
			c.Failf("servers_active is %s after shutdown, was %s before start", got, active0)
		}
		// restart on a fresh channel (with a live base context again)
		if r.sc.basectx {
			bctx, cancel := context.WithCancel(context.Background())
			base.Store(&bctx)
			old := endBase
			endBase = func() { old(); cancel() }
		}
		rig.Srv.Stop() // the server has exited: nothing to stop, and nothing to remember
		rig.Peer, rig.End = vchan.NewPair("cli", "srv", rig.Mon)
		rig.End.PipeLike = r.pipeLike
		rig.Srv.Start(rig.Chan())
		if lateOldPeer {
			oldPeer.Inject([]byte(peer.Req("", "i", "ghost")))
			oldPeer.CloseQuiet()
			rig.Settle()
			if rig.Log.Count("h.enter", "ghost") != 0 {
				c.Failf("a record sent on the previous channel after the restart was served by the restarted server")
			}
		}
		n0 := len(rig.Outbound())
		rig.Send(peer.Req(`"again"`, "i", "again"))
		rig.Settle()
		got := rig.OutboundFrom(n0)
		good := len(got) == 1
		if good {
			ms, _, err := peer.Decode(got[0])
			good = err == nil && len(ms) == 1 && ms[0].Error == nil && strings.HasPrefix(ms[0].ResultToken(), "again/")
		}
		if !good {
			c.Failf("restarted server does not serve: probe answered with %q", got)
		}
		// the new session is a session like the first: its handlers get live contexts
		for _, e := range rig.Log.Find("h.enter", "again") {
			if !strings.Contains(e.Info, "ctxerr=<nil>") {
				c.Failf("after the restart the handler of a fresh call was handed a context that had already ended: %s", e.Info)
			}
		}
		if vt.Hash64(fmt.Sprint("second", r.sc.name, r.cause, r.post, r.pipeLike))%2 == 0 {
			// The second session is ended by Stop - and it is a session like the first one,
			// whatever was called on the stopped server in between (a Stop with nothing to
			// stop): the call in flight is cancelled, WaitStatus reports Stopped, the channel
			// is closed exactly once.
			rig.H.Rearm()
			rig.Send(peer.Req(`"held"`, "g", "held2"))
			rig.Settle()
			if rig.Log.Count("h.enter", "held2") != 1 || rig.Log.Count("h.exit", "held2") != 0 {
				c.Failf("second session: a gated call is not running (entered %d, returned %d)", rig.Log.Count("h.enter", "held2"), rig.Log.Count("h.exit", "held2"))
			}
			rig.Srv.Stop()
			st2, ok := rig.AwaitStatus()
			if !ok && !r.pipeLike {
				// a channel whose Close does not wake its reader: the reader leaves when the peer hangs up
				rig.Peer.CloseQuiet()
				st2, ok = rig.AwaitStatus()
			}
			switch {
			case !ok:
				c.Failf("second session: WaitStatus has not returned at quiescence after Stop (a call was in flight)")
				rig.H.ReleaseAll()
				rig.Peer.CloseQuiet()
				rig.Settle()
			case !st2.Stopped || st2.Err != nil || st2.Closed:
				c.Failf("second session: exit status %+v after Stop, want Stopped", st2)
			}
			if es := rig.Log.Find("h.exit", "held2"); len(es) != 1 || strings.Contains(es[0].Info, "ctxerr=<nil>") {
				c.Failf("second session: the call in flight at Stop did not leave with a cancelled context: %v", es)
			}
			rig.Peer.CloseQuiet()
			rig.Settle()
			c.Count("second_sessions_ended_by_stop", 1)
		} else if st2, ok := rig.Finish(); !ok {
			c.Failf("restarted server did not exit after its peer closed")
			rig.Srv.Stop()
		} else if !st2.Closed || st2.Err != nil || st2.Stopped {
			c.Failf("restarted server exit status %+v, want Closed", st2)
		}
		if _, _, closes := rig.End.Counts(); closes != 1 {
			c.Failf("second session: the server closed its channel %d times, want exactly 1", closes)
		}
		if got := jrpc2.ServerMetrics().Get("servers_active").String(); got != active0 {
			c.Failf("servers_active is %s after the second shutdown, was %s before start", got, active0)
		}
		c.Count("events", log.Len())
		c.Count("handler_runs", int(rig.H.Invocations()))
		c.Count("shutdowns", 2)
	})
	c.Eval(1)
	return prof
}

func c08judge(c *vt.Ctx, r c08run, rig *peer.ServerRig, st jrpc2.ServerStatus, callbacks int) {
	evs := rig.Log.Events()
	// first cause: the earliest of {explicit cause, a fired recv fault}
	var tCause int64 = -1
	var first string
	var retT int64
	var tSettled int64 = 1 << 62 // first quiescent point after the stop cause
	for _, e := range evs {
		switch {
		case e.Kind == "cause" || (e.Kind == "wire.srv" && e.Tag == "fault.recv"):
			if tCause < 0 {
				tCause = e.T
				first = e.Tag
				if e.Kind == "cause" {
					first = e.Tag
				} else {
					first = r.cause.kind
				}
			}
		case e.Kind == "settled" && tCause >= 0 && e.T < tSettled:
			tSettled = e.T
		case e.Kind == "waitstatus.ret":
			if retT == 0 {
				retT = e.T
			}
		}
	}
	flags := 0
	if st.Stopped {
		flags++
	}
	if st.Closed {
		flags++
	}
	if flags > 1 || (flags == 1 && st.Err != nil) {
		c.Failf("status %+v has more than one of Stopped / Closed / Err", st)
	}
	want := ""
	switch first {
	case "stop":
		want = "stopped"
	case "peerclose", "teardown-peerclose", "recv-eof", "recv-data-eof", "recv-closing":
		want = "closed"
	case "recv-err", "recv-data-err":
		want = "err"
	}
	got := "err"
	if st.Stopped {
		got = "stopped"
	} else if st.Closed {
		got = "closed"
	} else if st.Err == nil {
		got = "none"
	}
	if r.race && r.post != "none" && first == "stop" {
		// Stop raced with nothing that could end the server differently: still stopped
	}
	if want != got {
		c.Failf("exit status %+v (%s), but the first stop cause was %q (want %s)", st, got, first, want)
	}
	if want == "err" && !errors.Is(st.Err, errC08) {
		c.Failf("exit status error %v is not the channel's error %v", st.Err, errC08)
	}
	// handlers
	type inv struct {
		enter, exit int64
		note        bool
		exitInfo    string
	}
	invs := map[string]*inv{}
	for _, e := range evs {
		switch e.Kind {
		case "h.enter":
			if invs[e.Tag] != nil && e.Tag != "-i" {
				c.Failf("handler %s ran twice", e.Tag)
			}
			invs[e.Tag] = &inv{enter: e.T, note: strings.Contains(e.Info, "note=true")}
		case "h.exit":
			if v := invs[e.Tag]; v != nil {
				v.exit = e.T
				v.exitInfo = e.Info
			}
		}
	}
	for tag, v := range invs {
		if v.exit == 0 {
			c.Failf("handler %s never returned", tag)
			continue
		}
		if retT != 0 && v.exit > retT && tag != "again" {
			c.Failf("WaitStatus returned (t=%d) before handler %s returned (t=%d)", retT, tag, v.exit)
		}
		// Gates are opened only at teardown, i.e. after the first quiescent point
		// that follows the stop cause (if the run had one): a call handler that
		// was running when the cause occurred can only have left cancelled.
		if tSettled < 1<<62 && !v.note && tag != "again" && !strings.Contains(v.exitInfo, "ctxerr=context canceled") {
			// still running at the first quiescent point after the stop: it can only
			// have been woken by cancellation or by the teardown's gate release, and
			// in both cases must see the cancelled context (a handler that finishes
			// on its own between the cause and the stop taking effect is not judged)
			if v.enter < tCause && v.exit > tSettled {
				c.Failf("call handler %s was in flight when the server stopped but left with %s", tag, v.exitInfo)
			} else if v.enter > tSettled {
				// it started after a quiescent point that followed the stop: the server was
				// long stopped, and the call had been received (dequeued) before
				c.Failf("call handler %s was started (t=%d) on a stopped server (stop cause t=%d, quiescent at t=%d) with a live context and left with %s", tag, v.enter, tCause, tSettled, v.exitInfo)
			}
		}
	}
	// notifications received before the stop must have been handed to their handler
	// (unless the application's base context had already ended: a request whose
	// context is done is not started, as for a call cancelled while waiting for a slot)
	var tBaseEnd int64 = 1 << 62
	for _, e := range evs {
		if e.Kind == "basectx.end" {
			tBaseEnd = e.T
		}
	}
	tNoteLimit := tCause
	if r.racePre {
		// the last record raced with the stop: only what was received before the
		// last quiescent point is known to have been received before the stop
		tNoteLimit = 0
		for _, e := range evs {
			if e.Kind == "settled.pre" && e.T < tCause {
				tNoteLimit = e.T
			}
		}
	}
	for _, e := range evs {
		if e.Kind != "wire.srv" || e.Tag != "recv.exit" || e.Info == "" || e.T > tNoteLimit || e.T > tBaseEnd {
			continue
		}
		ms, _, err := peer.Decode([]byte(e.Info))
		if err != nil {
			continue
		}
		for _, m := range ms {
			if m.Method == "" || len(m.ID) != 0 || m.V != "2.0" {
				continue
			}
			var p struct {
				T string `json:"t"`
			}
			if len(m.Params) == 0 || m.Params[0] != '{' {
				continue // not a valid tagged notification (e.g. the invalid one)
			}
			json.Unmarshal(m.Params, &p)
			if p.T != "" && invs[p.T] == nil {
				c.Failf("notification %s was received (t=%d) before the stop (t=%d) but never reached its handler", p.T, e.T, tCause)
			}
		}
	}
	if r.cause.kind == "recv-data-eof" && first == "recv-data-eof" && invs["final"] == nil && tCause < tBaseEnd {
		c.Failf("a final notification delivered together with io.EOF never reached its handler")
	}
	// callbacks must have returned
	for n := 1; n <= callbacks; n++ {
		if rig.Log.Count("api.ret", fmt.Sprintf("cb%d", n)) != 1 {
			c.Failf("Callback %d had not returned after the server exited", n)
		}
	}
	if snap := rig.Srv.VerifSnapshot(); snap.Running || len(snap.Reserved) != 0 || snap.QueueLen != 0 || len(snap.Callbacks) != 0 {
		c.Failf("server state after exit: %+v", snap)
	}
	if _, _, closes := rig.End.Counts(); closes != 1 {
		c.Failf("server closed its channel %d times", closes)
	}
}

func init() {
	vt.Register(&vt.Check{
		Prop:  "C08",
		Level: "fault_enumeration",
		Rule: "scenarios {idle, one gated call, batches queued behind a parked notification incl. an invalid id-less member, notification-only batches whose slow member is not the last, outstanding callback, mixed} x stop cause {Stop(), peer close, and a failure injected at EVERY Recv and Send " +
			"the server performs in the scenario: error / io.EOF / closing error / final record + io.EOF / record + error / Send error} x channel whose Close does / does not unblock Recv x inbound record after the stop " +
			"{none, valid call, valid notification, invalid notification, malformed, []} (settled or racing the stop) x restart on a fresh channel; plus delay-bounded schedules on the racing variants. " +
			"distinct_nontrivial = distinct (scenario, cause@position, flavour, post-stop record, delay set) other than idle+Stop+none",
		Assumptions: []string{
			"Go 1.26.8 runtime and testing/synctest quiescence; a dead worker process is attributed to the journalled case",
			"records sent without a settle before the stop may or may not be processed; a Send error alone need not stop the server",
			"the peer closes its end at teardown (a reader blocked in Recv on a channel whose Close does not unblock it needs that to exit)",
		},
		Require: map[string]int64{"shutdowns": 1000, "handler_runs": 500},
		Cases:   c08cases,
	})
}

func c08cases(e vt.Env, yield func(vt.Case) bool) {
	faultKinds := []string{"recv-err", "recv-eof", "recv-closing", "recv-data-eof", "recv-data-err", "send-err"}
	for _, sc := range c08scenarios {
		for _, pipeLike := range []bool{true, false} {
			sc, pipeLike := sc, pipeLike
			// explicit causes x post-stop records x settled/racing
			for _, cause := range []string{"stop", "peerclose"} {
				cause := cause
				id := fmt.Sprintf("E1/%s/%s/pipe=%v", sc.name, cause, pipeLike)
				if !yield(vt.Case{ID: id, Run: func(c *vt.Ctx) {
					for _, post := range c08postNames {
						for _, race := range []bool{false, true} {
							if race && post == "none" || cause == "peerclose" && post != "none" {
								continue // a peer that has closed sends nothing more
							}
							c08exec(c, c08run{sc: sc, cause: c08cause{kind: cause}, pipeLike: pipeLike, post: post, race: race, ctrl: sched.New()})
							c.Distinct(fmt.Sprintf("%s/%s/race=%v", id, post, race))
							if c.WantSample() && sc.name == "parked" {
								c.Sample(map[string]any{"scenario": sc.name, "traffic": sc.steps, "cause": cause, "close_unblocks_recv": pipeLike, "after_stop": c08post[post], "racing": race})
							}
							if c.Failed() {
								return
							}
						}
					}
				}}) {
					return
				}
			}
			// fault enumeration: one case per fault kind; positions from a profiling run
			for _, fk := range faultKinds {
				fk := fk
				id := fmt.Sprintf("E5/%s/%s/pipe=%v", sc.name, fk, pipeLike)
				if !yield(vt.Case{ID: id, Run: func(c *vt.Ctx) {
					prof := c08exec(c, c08run{sc: sc, cause: c08cause{kind: "peerclose"}, pipeLike: pipeLike, post: "none", ctrl: sched.New()})
					if c.Failed() {
						return
					}
					n := prof.recvs + 1
					if fk == "send-err" {
						n = prof.sends + 1
					}
					posts := []string{"none", "note"}
					if e.Thorough() {
						posts = c08postNames
					}
					for k := 1; k <= n; k++ {
						for _, post := range posts {
							c08exec(c, c08run{sc: sc, cause: c08cause{kind: fk, k: k}, pipeLike: pipeLike, post: post, ctrl: sched.New()})
							c.Distinct(fmt.Sprintf("%s/k%d/%s", id, k, post))
							if c.WantSample() && k == 2 {
								c.Sample(map[string]any{"scenario": sc.name, "traffic": sc.steps, "cause": fmt.Sprintf("%s at the server's operation #%d", fk, k), "close_unblocks_recv": pipeLike, "after_stop": c08post[post]})
							}
							if c.Failed() {
								return
							}
						}
					}
				}}) {
					return
				}
			}
		}
	}
	// E2: delay-bounded schedules where traffic races the stop
	d := e.Pick(1, 2)
	for _, sc := range c08scenarios {
		if sc.name == "idle" {
			continue
		}
		for _, pipeLike := range []bool{true, false} {
			for _, post := range []string{"note", "call", "malformed", "invalidnote"} {
				sc, pipeLike, post := sc, pipeLike, post
				dd := d
				if dd == 2 && sc.name != "call" {
					dd = 1
				}
				id := fmt.Sprintf("E2/%s/stop/pipe=%v/%s/d%d", sc.name, pipeLike, post, dd)
				if !yield(vt.Case{ID: id, Run: func(c *vt.Ctx) {
					base := c08run{sc: sc, cause: c08cause{kind: "stop"}, pipeLike: pipeLike, post: post, race: true, racePre: post == "note" || post == "invalidnote"}
					prof := sched.New()
					base.ctrl = prof
					c08exec(c, base)
					if c.Failed() {
						return
					}
					sched.DelaySets(prof.Keys(), dd, func(ds []string) bool {
						run := base
						run.ctrl = sched.New().WithDelays(ds...)
						c08exec(c, run)
						c.Distinct(id + "/" + join(ds))
						return !c.Failed()
					})
				}}) {
					return
				}
			}
		}
	}
	// E3: seeded perturbation over everything
	rng := e.Rand("C08/E3")
	causes := append([]string{"stop", "peerclose"}, faultKinds...)
	for i := 0; i < e.Pick(150, 3000); i++ {
		sc := c08scenarios[rng.IntN(len(c08scenarios))]
		cause := c08cause{kind: causes[rng.IntN(len(causes))]}
		if cause.kind != "stop" && cause.kind != "peerclose" {
			cause.k = 1 + rng.IntN(len(sc.steps)+2)
		}
		run := c08run{sc: sc, cause: cause, pipeLike: rng.IntN(2) == 0, post: c08postNames[rng.IntN(len(c08postNames))], race: rng.IntN(2) == 0, racePre: rng.IntN(3) == 0}
		if cause.kind == "peerclose" {
			run.post = "none"
		}
		p := []float64{0.02, 0.05, 0.1, 0.2}[rng.IntN(4)]
		id := fmt.Sprintf("E3/%d/%s/%s/pipe=%v/%s/race=%v/p%.2f", i, sc.name, cause, run.pipeLike, run.post, run.race, p)
		if !yield(vt.Case{ID: id, Run: func(c *vt.Ctx) {
			run.ctrl = sched.New().WithPerturb(p, e.Rand(id))
			c08exec(c, run)
			c.Distinct(id)
		}}) {
			return
		}
	}
}
