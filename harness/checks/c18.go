package checks

import (
	"fmt"
	"strings"

	"verif/harness/sched"
	"verif/harness/vt"
)

// C18 — HTTP bridge: each caller gets exactly its own responses with its own
// ids.
//
// The real jhttp.Bridge (real Server and Client inside, joined by
// channel.Direct) is driven in-process through Bridge.ServeHTTP with
// httptest requests and recorders. Every request member carries a unique tag
// in its params; the harness handlers echo the tag in their result and log
// every invocation. For each POST the HTTP status, the shape of the body and
// the set of response objects are compared with what an independent reference
// classifier (oracle.ClassifyRecord, written from the JSON-RPC 2.0
// specification) says about the members of that POST's own body:
//
//   - statically invalid member -> its own error object (-32600/-32700), id
//     echoed when it is a string or number, else null; handler not run;
//   - valid call -> the result (token starting with the tag THIS caller sent
//     under that id) or application error ("E:<tag>") of its own invocation,
//     unknown method -> -32601; handler run exactly once;
//   - valid notification -> no response object; handler run exactly once;
//   - each response bears the caller's id: numbers byte for byte, strings as
//     JSON values;
//   - one response -> 200 + object, two or more -> 200 + array, none -> 204 +
//     empty body;
//   - non-POST -> 405, other content types -> 415, invalid JSON -> status >=
//     400, none of them runs a handler.
//
// Phases: E0 sequential member product and special bodies; E1 G concurrent
// POSTs with identical ids, all blocked in gated handlers at once, every
// release order; E2 one (thorough: two) forced delay at every cli.*/srv.* hook
// visit; E3 the method / content-type gate, alone and next to a caller in
// flight; E4 real-time stress under the race detector.

func init() {
	vt.Register(&vt.Check{
		Prop:  "C18",
		Level: "exploration",
		Rule: "E0: every combination of per-field variants of a request member (version 6 x id 18 x method 10 x params 6 x extra member 5; quick: all members with at most one defective field plus a seeded 20% of the rest) " +
			"in the containers {m, [m], [m,call id 1], [call,m], [notification,m,call id 1]} plus hand-picked non-request bodies, posted one by one to a live bridge; " +
			"E1: G in {1,2,3,4,16} concurrent POSTs sharing one bridge, bodies from 21 shapes of gated/instant/error/unknown calls, notifications and invalid members, all callers drawing the SAME ids in the same order (alternately: id lists shifted by one per caller, overlapping but different) (13 id sets incl. 1, \"1\", 1.0, 1e0, -0, \"a<b>&\", \"\", 99999999999999999999999), " +
			"every caller blocked in its gated handlers at once, then every release order of the gates (<=4 gates: all permutations; else identity, reverse, seeded), oracle at every quiescent point (all pairs of shapes for G=2; seeded tuples for G=3,4,16); " +
			"E2: the G=2 scenarios re-run with one goroutine delayed at each single cli.*/srv.* hook visit (pairs of visits on the two smallest scenarios in thorough); " +
			"E3: non-POST methods, refused content types and invalid JSON, alone and concurrent with a caller in flight; E4: 16 goroutines posting seeded random bodies with colliding ids in real time under the race detector; " +
			"E5: 1-3 callers blocked in gated calls with string ids while one more caller, whose id texts are the numbers 1..n (the ids the bridge's shared client assigns internally), abandons its HTTP request - the bystanders' handlers must keep running and their answers be their own; handlers failing with the codes -32097 / -32096 are ordinary error responses. " +
			"distinct_nontrivial = distinct (set of bodies, concurrency, release order, delay set) executions other than a lone POST holding one plain valid call",
		Assumptions: []string{
			"Go 1.26.8 standard library, net/http/httptest and testing/synctest (quiescence = all bubble goroutines durably blocked)",
			"encoding/json decides what is syntactically valid JSON; members with duplicate keys are judged under last-key-wins and first-key-wins, either admissible",
			"leniencies: order of the objects inside a response array is not checked; an empty batch [] may be answered 204 or with one -32600 error object; string ids are compared as JSON values (the bridge HTML-escapes <, >, &), numeric ids byte for byte",
			"content types exercised: accepted {application/json, application/json; charset=utf-8}; refused: absent, other media types, other charsets (upper-case charset spellings are not exercised)",
			"forced delays are processor yields (not virtual-time sleeps) because channel.Direct blocks a sender under its mutex",
			"E4 counts handler runs after a final barrier call: the server completes earlier notifications before a later request starts (property C03)",
		},
		Require: map[string]int64{"posts": 2000, "responses_checked": 2000, "handler_runs": 2000, "concurrent_overlaps_observed": 200,
			"http_rejections_checked": 50, "invalid_members_answered": 300},
		Exhaustive: func(e vt.Env) bool { return false },
		Cases:      c18cases,
	})
}

var (
	c18versions = []string{"", `"jsonrpc":"2.0"`, `"jsonrpc":"1.0"`, `"jsonrpc":2.0`, `"jsonrpc":null`, `"jsonrpc":false`}
	c18ids      = []string{"", `"id":1`, `"id":"a"`, `"id":null`, `"id":1.5`, `"id":-0`, `"id":1e3`, `"id":"1"`, `"id":"` + "\\" + `u0031"`, `"id":true`, `"id":[]`, `"id":{}`,
		`"id":1.0`, `"id":1e0`, `"id":"a<b>&"`, `"id":""`, `"id":99999999999999999999999`, `"id":1.50`}
	c18methods = []string{"", `"method":"i"`, `"method":"nosuch"`, `"method":"rpc.x"`, `"method":"rpc.serverInfo"`, `"method":""`, `"method":5`, `"method":null`, `"method":[false]`, `"method":"e"`}
	c18params  = []string{"T", "", `"params":[]`, `"params":null`, `"params":5`, `"params":"s"`}
	c18extras  = []string{"", `"x":1`, `"result":1`, `"error":{"code":1,"message":"m"}`, `"id":2`}
	c18base    = [5]int{1, 1, 1, 0, 0}
)

func c18member(v, i, m, p, x int, tag string) string {
	par := c18params[p]
	if par == "T" {
		par = `"params":{"t":"` + tag + `"}`
	}
	var parts []string
	for _, s := range []string{c18versions[v], c18ids[i], c18methods[m], par, c18extras[x]} {
		if s != "" {
			parts = append(parts, s)
		}
	}
	return "{" + strings.Join(parts, ",") + "}"
}

const c18nContainers = 5

// c18container wraps member m (already tagged with tag) in container k.
func c18container(k int, m, tag string) string {
	ok1 := `{"jsonrpc":"2.0","id":1,"method":"i","params":{"t":"` + tag + `.ok"}}`
	okS := `{"jsonrpc":"2.0","id":"okid","method":"e","params":{"t":"` + tag + `.ok"}}`
	note := `{"jsonrpc":"2.0","method":"i","params":{"t":"` + tag + `.n"}}`
	switch k {
	case 0:
		return m
	case 1:
		return "[" + m + "]"
	case 2:
		return "[" + m + "," + ok1 + "]"
	case 3:
		return "[" + okS + "," + m + "]"
	default:
		return "[" + note + "," + m + "," + ok1 + "]"
	}
}

const c18plain = `{"jsonrpc":"2.0","id":1,"method":"i","params":{"t":"sp"}}`

var c18special = []string{``, ` `, `garbage`, `{`, `[`, `[]`, ` [ ] `, `[[]]`, `[1]`, `["s"]`, `[null]`, `[true]`, `[{}]`, `{}`, `1`, `"s"`, `null`, `true`,
	`[1,2,3]`, `[` + c18plain + `,1]`, `[1,` + c18plain + `]`, c18plain + ` trailing`, c18plain + c18plain, "\xff\xfe", `[` + c18plain + `,]`, `[` + c18plain,
	`{"jsonrpc":"2.0","id":1,"method":"i\u0000"}`, `{"JSONRPC":"2.0","id":1,"method":"i","params":{"t":"sq"}}`, `{"jsonrpc":"2.0","ID":1,"method":"i","params":{"t":"sr"}}`,
	`{"jsonrpc":"2.0","id":123456789012345678901234567890,"method":"i","params":{"t":"ss"}}`, `{"jsonrpc":"2.0","id":1e999,"method":"i","params":{"t":"st"}}`,
	` ` + c18plain + ` `, "\n[\n" + c18plain + "\n]\n", `{"jsonrpc":"2.0","id": 1.50 ,"method":"e","params":{"t":"su"}}`,
	`[{"jsonrpc":"2.0","method":"i","params":{"t":"sv"}},{"jsonrpc":"2.0","method":"e","params":{"t":"sw"}}]`,
	`{"jsonrpc":"2.0"}`, `{"jsonrpc":"2.0","method":""}`, `{"jsonrpc":"2.0","id":null}`, `{"jsonrpc":"2.0","result":1}`, `{"jsonrpc":"2.0","params":[]}`,
	`[{"jsonrpc":"2.0"},{"jsonrpc":"2.0","id":1,"method":"i","params":{"t":"sx"}}]`,
	`[{"jsonrpc":"2.0","method":"i","params":{"t":"sy"}},{"jsonrpc":"2.0","params":{"t":"sz"}}]`,
	// handlers that fail with the context codes: ordinary error responses, alone, next to others, next to invalid members
	`{"jsonrpc":"2.0","id":1,"method":"c","params":{"t":"ka"}}`, `{"jsonrpc":"2.0","id":"d","method":"d","params":{"t":"kb"}}`,
	`[{"jsonrpc":"2.0","id":1,"method":"c","params":{"t":"kc"}}]`, `[{"jsonrpc":"2.0","id":2,"method":"d","params":{"t":"kd"}},{"jsonrpc":"2.0","id":3,"method":"i","params":{"t":"ke"}}]`,
	`[{"jsonrpc":"1.0","id":4,"method":"i","params":{"t":"kf"}},{"jsonrpc":"2.0","id":5,"method":"c","params":{"t":"kg"}}]`,
	`[{"jsonrpc":"2.0","id":6,"method":"d","params":{"t":"kh"}},7,{"jsonrpc":"2.0","method":"c","params":{"t":"ki"}}]`,
	`{"jsonrpc":"2.0","method":"c","params":{"t":"kj"}}`, `[{"jsonrpc":"2.0","id":8,"method":"c","params":{"t":"kk"}},{"jsonrpc":"2.0","id":9,"method":"d","params":{"t":"kl"}}]`,
}

// c18sampled names the cases that contribute a sample to the evidence file.
var c18sampled = map[string]bool{"E0/special/1": true, "E1/g2/[NC]+[Cc]": true, "E1/g2/[CNCXE]+[nCxcN]": true,
	"E1/g16/pure/C": true, "E2/d1/[XC]+[Cc]": true, "E3/concurrent/GET/application/json": true, "E4/stress/0": true}

func c18nontrivial(posts []c18post) bool {
	if len(posts) != 1 {
		return true
	}
	b := posts[0].body
	return strings.HasPrefix(b, "[") || strings.Count(b, `"method":"`) != 1 || !strings.Contains(b, `"id":1,`) || posts[0].method != "POST"
}

func c18cases(e vt.Env, yield func(vt.Case) bool) {
	if !c18e0(e, yield) {
		return
	}
	if !c18e1(e, yield) {
		return
	}
	if !c18e2(e, yield) {
		return
	}
	if !c18e3(e, yield) {
		return
	}
	if !c18e5(e, yield) {
		return
	}
	c18e4(e, yield)
}

// ---- E0 ---------------------------------------------------------------------

func c18e0(e vt.Env, yield func(vt.Case) bool) bool {
	const block = 100
	var buf []c18post
	nblock := 0
	flush := func(prefix string) bool {
		if len(buf) == 0 {
			return true
		}
		nblock++
		posts := append([]c18post(nil), buf...)
		buf = buf[:0]
		id := fmt.Sprintf("%s/%d", prefix, nblock)
		return yield(vt.Case{ID: id, Run: func(c *vt.Ctx) {
			c18sequential(c, id, posts)
			for _, p := range posts {
				if c18nontrivial([]c18post{p}) {
					c.DistinctHash(vt.Hash64("E0|" + p.body))
				}
			}
			if c18sampled[id] {
				c.Sample(map[string]any{"phase": "E0 sequential", "posts": c18describe(posts[len(posts)-min(5, len(posts)):])})
			}
		}})
	}
	add := func(body string) {
		buf = append(buf, c18post{name: fmt.Sprintf("b%d", len(buf)), method: "POST", ctype: c18ctypeOK[len(buf)%7/6], body: body})
	}
	for _, s := range c18special {
		add(s)
	}
	if !flush("E0/special") {
		return false
	}
	for v := range c18versions {
		for i := range c18ids {
			for m := range c18methods {
				for p := range c18params {
					for x := range c18extras {
						idx := [5]int{v, i, m, p, x}
						defects := 0
						for k := range idx {
							if idx[k] != c18base[k] {
								defects++
							}
						}
						if !e.Thorough() && defects > 1 {
							if vt.Hash64(fmt.Sprint(e.Seed, idx))%5 != 0 {
								continue
							}
						}
						for k := 0; k < c18nContainers; k++ {
							tag := fmt.Sprintf("b%d", len(buf))
							add(c18container(k, c18member(v, i, m, p, x, tag), tag))
						}
						if len(buf) >= block {
							if !flush("E0/product") {
								return false
							}
						}
					}
				}
			}
		}
	}
	return flush("E0/product")
}

// ---- E1 ---------------------------------------------------------------------

// c18scenario builds the POSTs of one concurrent scenario: caller k posts
// shapes[k]; all callers draw their ids from the same id set (identical ids
// in different POSTs), or with spread from id sets shifted by one per caller
// (overlapping but different ids, so that an id taken from another caller's
// list shows).
func c18scenario(shapes []string, idset int, spread bool) (posts []c18post, gates []string) {
	for k, sh := range shapes {
		ids := c18idset(idset)
		if spread {
			ids = c18idset(idset + k)
		}
		p := c18build(fmt.Sprintf("p%d", k), sh, ids, false)
		if k%5 == 4 {
			p.ctype = c18ctypeOK[1]
		}
		posts = append(posts, p)
		gates = append(gates, p.gates...)
	}
	return
}

// c18e1case runs one tuple of shapes over id sets and release orders.
func c18e1case(e vt.Env, id string, shapes []string, nIdsets, nOrders int) vt.Case {
	shapes = append([]string(nil), shapes...)
	return vt.Case{ID: id, Run: func(c *vt.Ctx) {
		rng := e.Rand("C18/" + id)
		first := int(vt.Hash64(fmt.Sprint(e.Seed, id)) % c18nIdsets)
		for s := 0; s < nIdsets; s++ {
			idset := (first + s*5) % c18nIdsets
			spread := s%2 == 1
			posts, gates := c18scenario(shapes, idset, spread)
			for oi, ord := range orders(gates, 4, nOrders, rng) {
				what := fmt.Sprintf("%s idset %d spread=%v release order [%s]", id, idset, spread, join(ord))
				c18exec(c, what, posts, ord, nil)
				if c18nontrivial(posts) {
					c.Distinct(what)
				}
				if c18sampled[id] && s == 0 && oi == 1 {
					c.Sample(map[string]any{"phase": "E1 concurrent", "concurrency": len(posts), "posts": c18describe(posts), "release_order": ord})
				}
				if c.Failed() {
					return
				}
			}
		}
	}}
}

func c18e1(e vt.Env, yield func(vt.Case) bool) bool {
	nIds := e.Pick(4, c18nIdsets)
	// G = 1: every shape, every id set
	for _, sh := range c18shapes {
		if !yield(c18e1case(e, "E1/g1/"+sh, []string{sh}, c18nIdsets, 4)) {
			return false
		}
	}
	// G = 2: all ordered pairs
	for _, a := range c18shapes {
		for _, b := range c18shapes {
			if !yield(c18e1case(e, "E1/g2/"+a+"+"+b, []string{a, b}, nIds, 4)) {
				return false
			}
		}
	}
	// G = 3, 4: seeded tuples
	rng := e.Rand("C18/E1/tuples")
	for _, g := range []int{3, 4} {
		for n := 0; n < e.Pick(300, 6000); n++ {
			shapes := make([]string, g)
			for k := range shapes {
				shapes[k] = c18shapes[rng.IntN(len(c18shapes))]
			}
			if !yield(c18e1case(e, fmt.Sprintf("E1/g%d/%d/%s", g, n, strings.Join(shapes, "+")), shapes, 2, e.Pick(4, 10))) {
				return false
			}
		}
	}
	// G = 16, pure: every caller is one gated call with the same id
	for _, sh := range []string{"C", "[C]"} {
		shapes := make([]string, 16)
		for k := range shapes {
			shapes[k] = sh
		}
		if !yield(c18e1case(e, "E1/g16/pure/"+sh, shapes, e.Pick(4, c18nIdsets), e.Pick(3, 10))) {
			return false
		}
	}
	// G = 16, mixed: at most 12 gated calls so that instant members find a slot
	var ungated []string
	for _, sh := range c18shapes {
		if c18gatesIn(sh) == 0 {
			ungated = append(ungated, sh)
		}
	}
	for n := 0; n < e.Pick(60, 1200); n++ {
		shapes := make([]string, 16)
		gates := 0
		for k := range shapes {
			sh := c18shapes[rng.IntN(len(c18shapes))]
			if gates+c18gatesIn(sh) > 12 {
				sh = ungated[rng.IntN(len(ungated))]
			}
			gates += c18gatesIn(sh)
			shapes[k] = sh
		}
		if !yield(c18e1case(e, fmt.Sprintf("E1/g16/mixed/%d", n), shapes, 2, e.Pick(2, 6))) {
			return false
		}
	}
	return true
}

// ---- E2 ---------------------------------------------------------------------

func c18e2(e vt.Env, yield func(vt.Case) bool) bool {
	small := []string{"C", "[NC]", "[XC]", "[Cc]", "[MC]", "[CNCXE]"}
	if e.Thorough() {
		small = append(small, "[CC]", "[nCxcN]", "N", "[IENU]")
	}
	for ai, a := range small {
		for bi, b := range small {
			_, _ = ai, bi
			id := "E2/d1/" + a + "+" + b
			if !yield(vt.Case{ID: id, Run: func(c *vt.Ctx) {
				h := vt.Hash64(fmt.Sprint(e.Seed, id))
				idset := int(h % c18nIdsets)
				posts, gates := c18scenario([]string{a, b}, idset, h/16%2 == 1)
				rev := append([]string(nil), gates...)
				for i, j := 0, len(rev)-1; i < j; i, j = i+1, j-1 {
					rev[i], rev[j] = rev[j], rev[i]
				}
				for oi, ord := range [][]string{gates, rev} {
					prof := c18newObs(nil)
					c18exec(c, id, posts, ord, prof)
					if c.Failed() {
						return
					}
					sched.DelaySets(prof.keys(), 1, func(ds []string) bool {
						c18exec(c, fmt.Sprintf("%s idset %d order %d", id, idset, oi), posts, ord, c18newObs(ds))
						c.Distinct(fmt.Sprintf("%s/%d/o%d/%s", id, idset, oi, join(ds)))
						if c18sampled[id] && oi == 0 && ds[0] == "cli.send.beforeLock#1" {
							c.Sample(map[string]any{"phase": "E2 delay", "posts": c18describe(posts), "release_order": ord, "delayed_at": ds})
						}
						return !c.Failed()
					})
				}
			}}) {
				return false
			}
		}
	}
	if e.Thorough() {
		// pairs of delays on the smallest colliding scenarios, split into 16 cases each
		for si, sc := range [][]string{{"C", "C"}, {"[NC]", "[XC]"}} {
			for part := 0; part < 16; part++ {
				id := fmt.Sprintf("E2/d2/%s/part%d", strings.Join(sc, "+"), part)
				if !yield(vt.Case{ID: id, Run: func(c *vt.Ctx) {
					posts, gates := c18scenario(sc, 12-9*si, si == 1)
					prof := c18newObs(nil)
					c18exec(c, id, posts, gates, prof)
					n := 0
					sched.DelaySets(prof.keys(), 2, func(ds []string) bool {
						if len(ds) != 2 {
							return true
						}
						n++
						if n%16 != part {
							return true
						}
						c18exec(c, id, posts, gates, c18newObs(ds))
						c.Distinct(id + "/" + join(ds))
						return !c.Failed()
					})
				}}) {
					return false
				}
			}
		}
	}
	return true
}

// ---- E3 ---------------------------------------------------------------------

func c18e3(e vt.Env, yield func(vt.Case) bool) bool {
	bodies := []string{"I", "[NC]", "N", "[IENU]", "[XC]"}
	type variant struct{ method, ctype string }
	var vs []variant
	for _, m := range []string{"GET", "PUT", "DELETE", "HEAD", "PATCH", "OPTIONS"} {
		vs = append(vs, variant{m, "application/json"})
	}
	for _, ct := range c18ctypeBad {
		vs = append(vs, variant{"POST", ct})
	}
	for _, ct := range c18ctypeOK {
		vs = append(vs, variant{"POST", ct})
	}
	// sequential: every variant x body, instant handlers
	if !yield(vt.Case{ID: "E3/sequential", Run: func(c *vt.Ctx) {
		var posts []c18post
		for _, sh := range bodies {
			for _, v := range vs {
				p := c18build(fmt.Sprintf("r%d", len(posts)), sh, c18idset(len(posts)), true)
				p.method, p.ctype = v.method, v.ctype
				posts = append(posts, p)
			}
			for _, bad := range []string{"x", "}", ","} {
				p := c18build(fmt.Sprintf("r%d", len(posts)), sh, c18idset(len(posts)), true)
				p.body += bad
				posts = append(posts, p)
			}
		}
		c18sequential(c, "E3/sequential", posts)
		for _, p := range posts {
			c.DistinctHash(vt.Hash64("E3|" + p.method + p.ctype + p.body))
		}
	}}) {
		return false
	}
	// concurrent: a refused request next to a caller in flight using the same ids
	for vi, v := range vs {
		id := fmt.Sprintf("E3/concurrent/%s/%s", v.method, v.ctype)
		if !yield(vt.Case{ID: id, Run: func(c *vt.Ctx) {
			for bi, sh := range []string{"C", "[NC]", "[CX]"} {
				posts, gates := c18scenario([]string{"[CN]", sh, "[NCI]"}, vi+bi, bi == 1)
				posts[1].method, posts[1].ctype = v.method, v.ctype
				if v.method != "POST" || !c18isOKType(v.ctype) {
					// the refused caller starts no handler
					var g2 []string
					for _, g := range gates {
						if !strings.HasPrefix(g, "p1.") {
							g2 = append(g2, g)
						}
					}
					gates = g2
					posts[1].gates = nil
				}
				rng := e.Rand("C18/" + id)
				for _, ord := range orders(gates, 3, 2, rng) {
					what := fmt.Sprintf("%s body %s release order [%s]", id, sh, join(ord))
					c18exec(c, what, posts, ord, nil)
					c.Distinct(what)
					if c18sampled[id] && bi == 1 && len(ord) > 1 && ord[0] == gates[0] {
						c.Sample(map[string]any{"phase": "E3 refused request next to callers in flight", "posts": c18describe(posts), "release_order": ord})
					}
					if c.Failed() {
						return
					}
				}
			}
		}}) {
			return false
		}
	}
	return true
}

// ---- E4 ---------------------------------------------------------------------

func c18e4(e vt.Env, yield func(vt.Case) bool) bool {
	const callers, per = 16, 25
	rounds := e.Pick(2000, 50000) / (callers * per)
	for r := 0; r < rounds; r++ {
		id := fmt.Sprintf("E4/stress/%d", r)
		if !yield(vt.Case{ID: id, Run: func(c *vt.Ctx) {
			c18stress(c, e, id, callers, per)
			c.Distinct(id)
		}}) {
			return false
		}
	}
	return true
}
