package checks

import (
	"fmt"
	"math/rand/v2"
	"reflect"
	"strings"

	"github.com/creachadair/jrpc2"
	"github.com/creachadair/jrpc2/handler"

	"verif/harness/vt"
)

// C15, several handlers out of ONE FuncInfo.
//
// SetStrict and AllowArray "set the flag on fi that determines whether the
// wrapper it generates" is strict / takes arrays: a handler has the settings
// that were in force when Wrap produced it. Programs build several wrappers
// from one FuncInfo (Check once, then Wrap under different settings), so a
// handler must keep behaving as configured whatever is done to the FuncInfo
// afterwards. The oracle is c15oracle with the settings recorded at Wrap time.
//
//	fi := Check(f)
//	for each of 6 seeded settings covering all four (strict, array) pairs:
//	    apply the setting (seeded setter order, sometimes only the changed flag), h[i] = fi.Wrap()
//	phase A: fi still holds the last setting; every h[i] is run on every params text
//	phase B: before h[i] is run, fi is set to the exact opposite of h[i]'s setting
//	phase C: handlers are run alternately while fi is flipped between every two calls

type c15built struct {
	strict, array bool
	h             jrpc2.Handler
}

func c15boolOpt(strict, array bool, note string) c15opt {
	o := c15opt{strict: 2, array: 2, note: note}
	if strict {
		o.strict = 1
	}
	if array {
		o.array = 1
	}
	return o
}

func c15runRewrap(c *vt.Ctx, X reflect.Type, idx int, r *rand.Rand) {
	shapes := c15shapes()
	s := c15makeSig(X, shapes[8+idx%6])
	params := c15paramsFor(X, r)
	var st c15stats
	defer st.flush(c)
	differing := 0
	defer func() { c.Count("calls_after_funcinfo_changed", differing) }()

	fi, err := handler.Check(s.fn)
	if err != nil {
		c.Failf("%s: a documented signature was refused: %v", s.name, err)
		return
	}
	curStrict, curArray := false, true // documented defaults
	set := func(strict, array bool) {
		switch r.IntN(4) {
		case 0:
			fi.SetStrict(strict).AllowArray(array)
		case 1:
			fi.AllowArray(array).SetStrict(strict)
		case 2: // only what changes
			if strict != curStrict {
				fi.SetStrict(strict)
			}
			if array != curArray {
				fi.AllowArray(array)
			}
		default: // through the opposite value
			fi.SetStrict(!strict).AllowArray(!array).SetStrict(strict).AllowArray(array)
		}
		curStrict, curArray = strict, array
	}
	combos := [][2]bool{{true, true}, {true, false}, {false, true}, {false, false}}
	r.Shuffle(len(combos), func(i, j int) { combos[i], combos[j] = combos[j], combos[i] })
	combos = append(combos, combos[r.IntN(4)], combos[r.IntN(4)])
	var hs []c15built
	for i, cb := range combos {
		if i == 0 && r.IntN(2) == 0 && cb == [2]bool{false, true} {
			// the defaults, no setter called at all
		} else {
			set(cb[0], cb[1])
		}
		var h jrpc2.Handler
		if p := func() (p any) {
			defer func() { p = recover() }()
			h = fi.Wrap()
			return nil
		}(); p != nil {
			c.Failf("%s: Wrap panicked after SetStrict(%v) AllowArray(%v): %v", s.name, cb[0], cb[1], p)
			return
		}
		hs = append(hs, c15built{cb[0], cb[1], h})
	}

	k := 0
	run := func(b c15built, i int, p string, phase string) bool {
		note := fmt.Sprintf(" [handler %d of one FuncInfo, built with SetStrict(%v) AllowArray(%v); phase %s: the FuncInfo now has SetStrict(%v) AllowArray(%v)]",
			i, b.strict, b.array, phase, curStrict, curArray)
		o := c15boolOpt(b.strict, b.array, note)
		w := c15oracle(X, b.strict, b.array, p)
		for _, em := range []bool{false, true} {
			k++
			if !c15eval(c, s, o, b.h, p, w, k, em, &st) {
				return false
			}
			if b.strict != curStrict || b.array != curArray {
				differing++
			}
		}
		if p != "" && p != "null" {
			c.Distinct(fmt.Sprintf("W|%s|%v/%v|now %v/%v|%s", s.name, b.strict, b.array, curStrict, curArray, p))
			if (w.arrayForm || w.strictHit) && k%97 == 0 && c.WantSample() {
				c.Sample(map[string]any{"signature": s.name, "built_with": fmt.Sprintf("strict=%v array=%v", b.strict, b.array),
					"funcinfo_now": fmt.Sprintf("strict=%v array=%v", curStrict, curArray), "params": p,
					"oracle": []string{"call", "refuse", "unspecified"}[w.v], "array_form": w.arrayForm, "refused_for_unknown_field": w.strictHit})
			}
		}
		return true
	}
	// phase A
	for i, b := range hs {
		for _, p := range params {
			if !run(b, i, p, "A") {
				return
			}
		}
	}
	// phase B
	for i, b := range hs {
		set(!b.strict, !b.array)
		for pi, p := range params {
			if pi%2 == i%2 {
				if !run(b, i, p, "B") {
					return
				}
			}
		}
	}
	// phase C
	for pi, p := range params {
		if pi%3 != 0 {
			continue
		}
		i := r.IntN(len(hs))
		set(r.IntN(2) == 0, r.IntN(2) == 0)
		if !run(hs[i], i, p, "C") {
			return
		}
	}
}

// c15rewrapCases: the struct zoo (value and pointer), a few non-struct types
// (the options must have no effect there, whenever they are changed) and
// seeded generated structs.
func c15rewrapCases(e vt.Env, yield func(vt.Case) bool) bool {
	var types []reflect.Type
	for _, t := range c15structZoo() {
		types = append(types, t, reflect.PointerTo(t))
	}
	types = append(types, c15T[int](), c15T[[]int](), c15T[map[string]any](), c15T[*int](), c15T[any](), c15T[**c15S2](), c15T[[]c15StrictV]())
	for i, X := range types {
		i, X := i, X
		id := strings.ReplaceAll(fmt.Sprintf("W/%d/%s", i, X), " ", "")
		if len(id) > 80 {
			id = id[:80]
		}
		if !yield(vt.Case{ID: id, Run: func(c *vt.Ctx) { c15runRewrap(c, X, i, e.Rand(id)) }}) {
			return false
		}
	}
	n := e.Pick(60, 1500)
	for i := 0; i < n; i++ {
		i := i
		id := fmt.Sprintf("WG/%d", i)
		if !yield(vt.Case{ID: id, Run: func(c *vt.Ctx) {
			r := e.Rand(id)
			S := c15genStruct(r)
			X := S
			if r.IntN(2) == 0 {
				X = reflect.PointerTo(S)
			}
			c15runRewrap(c, X, i, r)
		}}) {
			return false
		}
	}
	return true
}
