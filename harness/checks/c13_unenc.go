package checks

import (
	"context"
	"encoding/json"
	"errors"
	"fmt"
	"math"
	"net/http/httptest"
	"strings"

	"github.com/creachadair/jrpc2"
	"github.com/creachadair/jrpc2/handler"
	"github.com/creachadair/jrpc2/jhttp"

	"verif/harness/oracle"
	"verif/harness/peer"
	"verif/harness/sched"
	"verif/harness/vt"
)

// C13, family U — values that cannot be encoded.
//
// The W paths hand the library marshalable values and compare what comes back. The
// first clause of the statement is unconditional, though: *every* message the
// library emits is one line of valid JSON-RPC. What the library does with a value
// it cannot encode (a handler result that json.Marshal rejects, an error whose
// data are not JSON, a Marshaler that fails or returns garbage) is its own
// business — answer with an error, answer nothing — but whatever reaches the wire
// must still be a well-formed message, and the neighbours of such a value in a
// batch must not be damaged by it.
//
// Oracle per emitted record: the byte-level clauses (c13bytes); it parses as
// response(s) / request(s) of the right kind; response ids are ids that were
// asked, each at most once; a response for a member whose value *was* encodable
// carries exactly that value.

type c13badMarshaler struct{ mode int }

func (b c13badMarshaler) MarshalJSON() ([]byte, error) {
	switch b.mode {
	case 0:
		return nil, errors.New("cannot marshal this")
	case 1:
		return []byte(`{"unterminated":`), nil
	default:
		return []byte("[1,\n2]x"), nil
	}
}

// c13uKinds are the handler behaviours of the U scenarios.
var c13uKinds = []struct {
	name string
	good bool
	run  func(tok string) (any, error)
}{
	{"ok", true, func(tok string) (any, error) { return tok, nil }},
	{"err", true, func(tok string) (any, error) {
		return nil, (&jrpc2.Error{Code: -32050, Message: "declined " + tok}).WithData(tok)
	}},
	{"bad-errdata", false, func(tok string) (any, error) {
		return nil, &jrpc2.Error{Code: -32051, Message: "bad data " + tok, Data: json.RawMessage(`{"k":`)}
	}},
	{"bad-errdata-lf", false, func(tok string) (any, error) {
		return nil, &jrpc2.Error{Code: -32052, Message: "bad data " + tok, Data: json.RawMessage("[1,\n2]]")}
	}},
	{"bad-result-chan", false, func(tok string) (any, error) { return make(chan int), nil }},
	{"bad-result-inf", false, func(tok string) (any, error) { return map[string]any{"v": math.Inf(1), "t": tok}, nil }},
	{"bad-result-raw", false, func(tok string) (any, error) { return json.RawMessage(`{"a":1,}`), nil }},
	{"bad-marshaler-err", false, func(tok string) (any, error) { return c13badMarshaler{0}, nil }},
	{"bad-marshaler-cut", false, func(tok string) (any, error) { return []any{tok, c13badMarshaler{1}}, nil }},
	{"bad-marshaler-junk", false, func(tok string) (any, error) { return c13badMarshaler{2}, nil }},
}

func c13uMap() handler.Map {
	m := handler.Map{}
	for _, k := range c13uKinds {
		k := k
		m[k.name] = func(ctx context.Context, req *jrpc2.Request) (any, error) {
			var tok []string
			req.UnmarshalParams(&tok)
			if len(tok) == 0 {
				tok = []string{"?"}
			}
			return k.run(tok[0])
		}
	}
	return m
}

type c13uMember struct {
	kind int
	note bool
	id   string
	tok  string
}

func (m c13uMember) text() string {
	s := fmt.Sprintf(`{"jsonrpc":"2.0","method":%q,"params":[%q]`, c13uKinds[m.kind].name, m.tok)
	if !m.note {
		s += `,"id":` + m.id
	}
	return s + "}"
}

// c13uShapes enumerates the member-kind sequences of one block: all of length 1
// and 2, and those of length 3 that contain at least one unencodable kind and one
// other member (seeded sample in quick).
func c13uShapes(e vt.Env) [][]int {
	n := len(c13uKinds)
	var out [][]int
	for a := 0; a < n; a++ {
		out = append(out, []int{a})
		for b := 0; b < n; b++ {
			out = append(out, []int{a, b})
		}
	}
	rng := e.Rand("C13/U/shapes")
	for a := 0; a < n; a++ {
		for b := 0; b < n; b++ {
			for d := 0; d < n; d++ {
				bad := !c13uKinds[a].good || !c13uKinds[b].good || !c13uKinds[d].good
				good := c13uKinds[a].good || c13uKinds[b].good || c13uKinds[d].good
				if bad && good && (e.Thorough() || rng.IntN(3) == 0) {
					out = append(out, []int{a, b, d})
				}
			}
		}
	}
	return out
}

const c13uBlock = 40

func c13uCases(e vt.Env, yield func(vt.Case) bool) bool {
	shapes := c13uShapes(e)
	for _, path := range []string{"server", "cbreply", "bridge", "emit"} {
		for lo := 0; lo < len(shapes); lo += c13uBlock {
			path, blk := path, shapes[lo:min(len(shapes), lo+c13uBlock)]
			id := fmt.Sprintf("U/%s/%d", path, lo/c13uBlock)
			if !yield(vt.Case{ID: id, Run: func(c *vt.Ctx) { c13runU(c, path, id, blk) }}) {
				return false
			}
			if path == "emit" {
				break // one case: it does not depend on the shapes
			}
		}
	}
	return true
}

func c13runU(c *vt.Ctx, path, id string, shapes [][]int) {
	ctrl := sched.New()
	peer.Bubble(c, ctrl, func() {
		if path == "emit" {
			c13uEmit(c, ctrl)
			return
		}
		rng := c.Env.Rand("C13/" + id)
		for si, shape := range shapes {
			// the members: ids alternate between number and string spellings; every
			// third scenario turns one good member into a notification
			var ms []c13uMember
			for i, k := range shape {
				m := c13uMember{kind: k, tok: fmt.Sprintf("t%d.%d", si, i)}
				if i%2 == 0 {
					m.id = fmt.Sprint(100*si + i + 1)
				} else {
					m.id = fmt.Sprintf(`"s%d.%d"`, si, i)
				}
				if len(shape) > 1 && rng.IntN(6) == 0 {
					m.note = true
				}
				ms = append(ms, m)
			}
			texts := make([]string, len(ms))
			for i, m := range ms {
				texts[i] = m.text()
			}
			rec := texts[0]
			if len(ms) > 1 || rng.IntN(2) == 0 {
				rec = "[" + strings.Join(texts, ",") + "]"
			}
			var got [][]byte
			switch path {
			case "server":
				rig := peer.NewServerRig(c, ctrl, peer.ServerOpts{Assigner: c13uMap(), DisableBuiltin: true, Concurrency: 4})
				rig.Send(rec)
				rig.Settle()
				got = rig.Outbound()
				rig.Finish()
			case "cbreply":
				rig := peer.NewClientRig(c, ctrl, peer.ClientOpts{PipeLike: true})
				rig.H.Extra = c13uMap()
				rig.Reply(rec)
				rig.Settle()
				got = rig.Sent()
				rig.Cli.Close()
				rig.Settle()
			case "bridge":
				bridge := jhttp.NewBridge(c13uMap(), nil)
				req := httptest.NewRequest("POST", "http://bridge.invalid/rpc", strings.NewReader(rec))
				req.Header.Set("Content-Type", "application/json")
				rr := httptest.NewRecorder()
				bridge.ServeHTTP(rr, req)
				ctrl.Settle()
				if rr.Body.Len() > 0 {
					got = [][]byte{rr.Body.Bytes()}
				}
				bridge.Close()
				ctrl.Settle()
			}
			c13uJudge(c, "U/"+path, rec, ms, got)
			c.Eval(1)
			c.Count("unencodable_scenarios", 1)
			c.Distinct(fmt.Sprintf("U/%s/%v/%s", path, shape, rec[:1]))
			if c.Failed() {
				return
			}
		}
	})
}

func c13uJudge(c *vt.Ctx, path, rec string, ms []c13uMember, got [][]byte) {
	byID := map[string]*c13uMember{}
	for i := range ms {
		if !ms[i].note {
			byID[ms[i].id] = &ms[i]
		}
	}
	answered := map[string]bool{}
	for _, g := range got {
		if why := c13bytes(g); why != "" {
			c.Failf("%s: in answer to %s the library emitted %s: %s", path, c13short(rec), c13clip(g), why)
			return
		}
		rs, _, err := oracle.ParseResponsesLoose(g)
		if err != nil {
			c.Failf("%s: in answer to %s the library emitted %s, which is not a well-formed response record: %v", path, c13short(rec), c13clip(g), err)
			return
		}
		for _, r := range rs {
			var m *c13uMember
			for id, cand := range byID {
				if oracle.IDEqual(json.RawMessage(id), r.ID) {
					m = cand
				}
			}
			if m == nil {
				c.Failf("%s: in answer to %s the library emitted a response with id %s, which no call of the record bears: %s", path, c13short(rec), r.ID, c13clip(g))
				return
			}
			if answered[m.id] {
				c.Failf("%s: in answer to %s the call with id %s was answered twice: %s", path, c13short(rec), m.id, c13clipAll(got))
				return
			}
			answered[m.id] = true
			k := c13uKinds[m.kind]
			switch {
			case k.name == "ok":
				var s string
				if r.IsErr || json.Unmarshal(r.Result, &s) != nil || s != m.tok {
					c.Failf("%s: in answer to %s the call with id %s (encodable result %q) was answered %s", path, c13short(rec), m.id, m.tok, c13clip(g))
				}
			case k.name == "err":
				var s string
				if !r.IsErr || r.Code != -32050 || r.Msg != "declined "+m.tok || json.Unmarshal(r.Data, &s) != nil || s != m.tok {
					c.Failf("%s: in answer to %s the call with id %s (encodable error -32050 with data %q) was answered %s", path, c13short(rec), m.id, m.tok, c13clip(g))
				}
			default:
				if !r.IsErr {
					c.Failf("%s: in answer to %s the call with id %s, whose handler's value cannot be encoded (%s), was answered with a result: %s", path, c13short(rec), m.id, k.name, c13clip(g))
				}
			}
		}
	}
	c.Count("unencodable_records_judged", len(got))
}

// c13uEmit: the emitting APIs given values that cannot be encoded must either
// refuse (an error, nothing sent) or send a well-formed message.
func c13uEmit(c *vt.Ctx, ctrl *sched.Controller) {
	bads := []struct {
		name string
		v    any
	}{
		{"chan", make(chan int)},
		{"inf", []float64{math.Inf(-1)}},
		{"raw-cut", json.RawMessage(`{"a":`)},
		{"raw-junk", json.RawMessage("[1]\n]")},
		{"marshaler-err", c13badMarshaler{0}},
		{"marshaler-cut", []any{c13badMarshaler{1}}},
		{"marshaler-junk", map[string]any{"k": c13badMarshaler{2}}},
	}
	good := []any{[]int{1}, map[string]string{"k": "v"}}
	ctx, cancel := context.WithCancel(context.Background())
	defer cancel()
	checkReqs := func(what string, recs [][]byte) {
		for _, g := range recs {
			if why := c13bytes(g); why != "" {
				c.Failf("U/emit %s: emitted %s: %s", what, c13clip(g), why)
				return
			}
			r := oracle.ClassifyRecord(g)
			if !r.ValidJSON || len(r.Members) == 0 {
				c.Failf("U/emit %s: emitted %s, which is not a request record", what, c13clip(g))
				return
			}
			for _, readings := range r.Members {
				valid := false
				for _, m := range readings {
					valid = valid || m.Kind != oracle.Invalid
				}
				if !valid {
					c.Failf("U/emit %s: emitted %s, which holds a member that is not a valid request: %s", what, c13clip(g), readings[0].Why)
					return
				}
			}
		}
		c.Count("unencodable_records_judged", len(recs))
	}
	// client: Call, Notify, Batch with one bad member among good ones
	for bi, b := range bads {
		for variant := 0; variant < 4; variant++ {
			rig := peer.NewClientRig(c, ctrl, peer.ClientOpts{PipeLike: true})
			what := fmt.Sprintf("client variant %d with %s params", variant, b.name)
			switch variant {
			case 0:
				rig.GoCall("a", ctx, "m", b.v)
			case 1:
				rig.GoNotify("a", ctx, "m", b.v)
			case 2:
				rig.GoBatch("a", ctx, []jrpc2.Spec{{Method: "g1", Params: good[0]}, {Method: "bad", Params: b.v}, {Method: "g2", Params: good[1], Notify: true}})
			case 3:
				rig.GoBatch("a", ctx, []jrpc2.Spec{{Method: "bad", Params: b.v, Notify: true}, {Method: "g1", Params: good[bi%2]}})
			}
			rig.Settle()
			checkReqs(what, rig.Sent())
			rig.Cli.Close()
			rig.Settle()
			c.Eval(1)
			c.Count("unencodable_scenarios", 1)
			c.Distinct("U/emit/client/" + what)
			if c.Failed() {
				return
			}
		}
		// server push
		for variant := 0; variant < 2; variant++ {
			rig := peer.NewServerRig(c, ctrl, peer.ServerOpts{AllowPush: true, DisableBuiltin: true})
			what := fmt.Sprintf("server push variant %d with %s params", variant, b.name)
			if variant == 0 {
				rig.Srv.Notify(ctx, "m", b.v)
			} else {
				cctx, ccancel := context.WithCancel(ctx)
				done := make(chan struct{})
				go func() { defer close(done); rig.Srv.Callback(cctx, "m", b.v) }()
				rig.Settle()
				ccancel()
				rig.Settle()
				<-done
			}
			rig.Settle()
			checkReqs(what, rig.Outbound())
			rig.Finish()
			c.Eval(1)
			c.Count("unencodable_scenarios", 1)
			c.Distinct("U/emit/push/" + what)
			if c.Failed() {
				return
			}
		}
	}
}
