package checks

import (
	"context"
	"encoding/json"
	"errors"
	"fmt"
	"github.com/creachadair/jrpc2/channel"
	"net"
	"sort"
	"strings"
	"time"

	"github.com/creachadair/jrpc2"

	"verif/harness/peer"
	"verif/harness/sched"
	"verif/harness/vchan"
	"verif/harness/vt"
)

// C05 — every client operation completes exactly once under cancel, Close and
// failure; OnCancel / OnStop accounting; Close waits for callback handlers;
// nothing left behind.
//
// A real client faces a raw scripted peer. Histories over {issue Call 1
// (cancellable), Call 2 (deadline), a late Call 3, Notify, reply / error reply
// to 1|2, cancel 1|2, deadline passes (virtual time), Close, peer EOF, transport
// failure, malformed record, server callback with a stubborn handler and its
// release} and racing pairs of those run with a settle after every operation.
// Fault enumeration: for every history the k-th Send and the k-th Recv of the
// client's channel is made to fail, for every k. A reference model keeps the
// SET of states the statement admits (races admit both orders) and is filtered
// after every operation by what is observed: which API calls have returned and
// with what, how many records were transmitted, OnStop count and cause, whether
// Close has returned, the client's pending set. At the end: every call returned
// exactly once, OnCancel ran once for each request that was pending and ended
// without a reply and never otherwise, OnStop ran once with the first cause,
// the callback handler returned before Close did, no goroutine is left.

type c05req struct {
	St      int    // 0 not issued, 1 outstanding, 2 done
	Out     string // outcome when done: "ok:T", "jerr:..", "ctx:canceled", "ctx:deadline", "anyerror", "fault"
	Pending bool   // it was transmitted and registered (OnCancel applies if it ends without a reply)
	Replied bool   // completed by a reply from the peer
	Lenient bool   // completed by a malformed reply bearing its id: OnCancel may or may not run
	Fresh   bool   // its context ended in the current step: the watcher may still lose to a stop in this step
}

type c05state struct {
	Stopped     bool
	Cause       string // close | eof | fault | malformed
	Reqs        map[string]c05req
	Cb          int // 0 none, 1 running, 2 returned
	CbReleased  bool
	Armed       bool   // the reader's next Recv is the one that fails; it fires within this step
	BatchErr    string // "" | "anyerror" | "fault": the Batch call itself failed before transmitting
	CloseCalled bool
	Sends       int               // Send calls made by the client so far (successful or not)
	Sent        int               // records actually transmitted
	Recvs       int               // records the client's reader has received
	Notes       map[string]string // notify tag -> expected return
}

func (s c05state) clone() c05state {
	n := s
	n.Reqs = map[string]c05req{}
	for k, v := range s.Reqs {
		n.Reqs[k] = v
	}
	n.Notes = map[string]string{}
	for k, v := range s.Notes {
		n.Notes[k] = v
	}
	return n
}

func (s c05state) key() string { b, _ := json.Marshal(s); return string(b) }

type c05faults struct{ sendK, recvK int }

// stop marks the client stopped with cause (first cause wins).
func (s *c05state) stop(cause string) {
	if s.Stopped {
		return
	}
	s.Stopped, s.Cause = true, cause
	for k, r := range s.Reqs {
		if r.St == 1 {
			r.St, r.Out = 2, "anyerror"
			s.Reqs[k] = r
		} else if r.St == 2 && r.Fresh && strings.HasPrefix(r.Out, "ctx:") {
			// the context ended in this very step; its watcher goroutine may find the
			// client already stopped and report the stop instead of the context error
			r.Out = "or-anyerror:" + r.Out
			s.Reqs[k] = r
		}
	}
}

// trySend models one Send call by the client; ok is false if it fails.
func (s *c05state) trySend(f c05faults) bool {
	s.Sends++
	if s.Sends == f.sendK {
		return false
	}
	s.Sent++
	return true
}

// c05step applies one atomic event to a deterministic state and returns the
// admissible successor states.
func c05step(s c05state, ev string, f c05faults, tok string) []c05state {
	n := s.clone()
	issue := func(tag string) {
		if n.Reqs[tag].St != 0 {
			return
		}
		switch {
		case n.Stopped:
			n.Reqs[tag] = c05req{St: 2, Out: "anyerror"}
		case !n.trySend(f):
			n.Reqs[tag] = c05req{St: 2, Out: "fault"}
		default:
			n.Reqs[tag] = c05req{St: 1, Pending: true}
		}
	}
	// received delivers one inbound record to the reader; the Recv that follows may be the faulty one
	received := func(deliver func(st *c05state, send bool)) []c05state {
		if n.Stopped {
			return []c05state{n} // the reader is gone
		}
		n.Recvs++
		if f.recvK > 0 && n.Recvs == f.recvK-1 {
			// The reader's next Recv fails. That failure happens within this step,
			// after the record was received; the record's delivery goroutine races
			// with whatever stops the client in this step.
			a := n.clone()
			deliver(&a, true)
			a.Armed = true
			b := n.clone()
			b.Armed = true
			c := n.clone()
			deliver(&c, false) // delivered, but a response it triggers is discarded by the stop
			c.Armed = true
			return []c05state{a, b, c}
		}
		deliver(&n, true)
		return []c05state{n}
	}
	reply := func(tag, out string) []c05state {
		return received(func(st *c05state, _ bool) {
			if r := st.Reqs[tag]; r.St == 1 {
				r.St, r.Out, r.Replied = 2, out, true
				st.Reqs[tag] = r
			}
		})
	}
	switch ev {
	case "call1", "call2", "call3":
		issue("r" + ev[4:])
	case "batch": // one Batch of two calls (r5, r6), answered member by member
		if n.Reqs["r5"].St == 0 && n.BatchErr == "" {
			switch {
			case n.Stopped:
				n.BatchErr = "anyerror"
			case !n.trySend(f):
				n.BatchErr = "fault"
			default:
				n.Reqs["r5"] = c05req{St: 1, Pending: true}
				n.Reqs["r6"] = c05req{St: 1, Pending: true}
			}
		}
	case "reply5", "reply6":
		return reply("r"+ev[5:], "ok:"+tok)
	case "cancelb":
		for _, tag := range []string{"r5", "r6"} {
			if r := n.Reqs[tag]; r.St == 1 {
				r.St, r.Out, r.Fresh = 2, "ctx:canceled", true
				n.Reqs[tag] = r
			}
		}
	case "callc": // a call whose context has already ended when it is issued
		issue("r4")
		if r := n.Reqs["r4"]; r.St == 1 {
			r.St, r.Out, r.Fresh = 2, "ctx:canceled", true
			n.Reqs["r4"] = r
		}
	case "mal1": // a malformed member bearing request 1's id
		return received(func(st *c05state, _ bool) {
			if r := st.Reqs["r1"]; r.St == 1 {
				r.St, r.Out, r.Replied, r.Lenient = 2, "anyerror", true, true
				st.Reqs["r1"] = r
			}
		})
	case "notify":
		tag := fmt.Sprintf("n%d", len(n.Notes)+1)
		switch {
		case n.Stopped:
			n.Notes[tag] = "anyerror"
		case !n.trySend(f):
			n.Notes[tag] = "fault"
		default:
			n.Notes[tag] = "nil"
		}
	case "reply1", "reply2":
		return reply("r"+ev[5:], "ok:"+tok)
	case "err1":
		return reply("r1", "jerr:-7:"+tok)
	case "cancel1", "cancel2", "cancel3":
		tag := "r" + ev[6:]
		if r := n.Reqs[tag]; r.St == 1 {
			r.St, r.Out, r.Fresh = 2, "ctx:canceled", true
			n.Reqs[tag] = r
		}
	case "tmo":
		if r := n.Reqs["r2"]; r.St == 1 {
			r.St, r.Out, r.Fresh = 2, "ctx:deadline", true
			n.Reqs["r2"] = r
		}
	case "close":
		n.CloseCalled = true
		n.stop("close")
	case "eof":
		if !n.Stopped {
			n.stop("eof")
		}
	case "fail":
		if !n.Stopped {
			n.stop("fault")
		}
	case "malformed":
		return received(func(st *c05state, _ bool) { st.stop("malformed") })
	case "cbstart":
		return received(func(st *c05state, send bool) {
			if st.Cb == 0 && !st.Stopped {
				st.Cb = 1
				if st.CbReleased { // the gate is already open: the handler returns at once
					st.Cb = 2
					if send {
						st.trySend(f)
					}
				}
			}
		})
	case "cbrel":
		n.CbReleased = true
		if n.Cb == 1 {
			n.Cb = 2
			if !n.Stopped {
				n.trySend(f) // the callback's response
			}
		}
	}
	return []c05state{n}
}

// c05apply applies a (possibly racing "a||b") event to a set of states.
func c05apply(states []c05state, ev string, f c05faults, tok string) []c05state {
	seen := map[string]bool{}
	var out []c05state
	add := func(ss []c05state) {
		for _, s := range ss {
			if k := s.key(); !seen[k] {
				seen[k] = true
				out = append(out, s)
			}
		}
	}
	fire := func(s c05state) c05state {
		n := s.clone()
		n.Armed = false
		n.stop("fault")
		return n
	}
	seq := func(s c05state, evs ...string) []c05state {
		cur := []c05state{s}
		for i, e := range evs {
			var nx []c05state
			for _, c := range cur {
				for _, r := range c05step(c, e, f, tok) {
					if !r.Armed {
						nx = append(nx, r)
						continue
					}
					nx = append(nx, fire(r)) // the failing Recv happens now ...
					if i < len(evs)-1 {
						nx = append(nx, r) // ... or after the next event of this step
					}
				}
			}
			cur = nx
		}
		return cur
	}
	for _, s := range states {
		s = s.clone()
		for k, r := range s.Reqs {
			if r.Fresh {
				r.Fresh = false
				s.Reqs[k] = r
			}
		}
		if a, b, ok := strings.Cut(ev, "||"); ok {
			add(seq(s, a, b))
			add(seq(s, b, a))
		} else {
			add(seq(s, ev))
		}
	}
	return out
}

type c05world struct {
	c       *vt.Ctx
	rig     *peer.ClientRig
	cancels map[string]context.CancelFunc
	ids     map[string]string // request tag -> wire id
	notes   int
	tokens  int
	cbSent  bool
	closed  bool
}

// do performs the atomic event against the real client (no settle).
func (w *c05world) do(ev string, tok string) {
	rig := w.rig
	issue := func(tag string, ctx context.Context, cancel context.CancelFunc) {
		if _, dup := w.cancels[tag]; dup {
			cancel()
			return
		}
		w.cancels[tag] = cancel
		rig.GoCall(tag, ctx, "m", []string{tag})
	}
	idOf := func(tag string, unknown int) string {
		if id, ok := w.ids[tag]; ok {
			return id
		}
		return fmt.Sprint(unknown)
	}
	// The callers' contexts carry explicit causes, as an application's may: an operation
	// whose context ended must still report the context's own error (context.Canceled /
	// context.DeadlineExceeded), not the cause.
	withCause := func(why string) (context.Context, context.CancelFunc) {
		ctx, cancel := context.WithCancelCause(context.Background())
		return ctx, func() { cancel(errors.New(why)) }
	}
	switch ev {
	case "call1":
		ctx, cancel := withCause("the user lost interest")
		issue("r1", ctx, cancel)
	case "call2":
		ctx, cancel := context.WithTimeoutCause(context.Background(), time.Second, errors.New("the budget ran out"))
		issue("r2", ctx, cancel)
	case "call3":
		ctx, cancel := context.WithCancel(context.Background())
		issue("r3", ctx, cancel)
	case "callc":
		ctx, cancel := context.WithCancel(context.Background())
		cancel()
		issue("r4", ctx, cancel)
	case "batch":
		if _, dup := w.cancels["b1"]; !dup {
			ctx, cancel := withCause("the batch was abandoned")
			w.cancels["b1"] = cancel
			rig.GoBatch("b1", ctx, []jrpc2.Spec{{Method: "m", Params: []string{"r5"}}, {Method: "note", Notify: true}, {Method: "m", Params: []string{"r6"}}})
		}
	case "reply5", "reply6":
		rig.Reply(fmt.Sprintf(`{"jsonrpc":"2.0","id":%s,"result":%q}`, idOf("r"+ev[5:], 9005), tok))
	case "cancelb":
		if cancel := w.cancels["b1"]; cancel != nil {
			cancel()
		}
	case "mal1":
		rig.Reply(fmt.Sprintf(`{"jsonrpc":"2.0","id":%s,"result":"x","bogus":true}`, idOf("r1", 9003)))
	case "notify":
		w.notes++
		rig.GoNotify(fmt.Sprintf("n%d", w.notes), context.Background(), "note", nil)
	case "reply1", "reply2":
		rig.Reply(fmt.Sprintf(`{"jsonrpc":"2.0","id":%s,"result":%q}`, idOf("r"+ev[5:], 9000), tok))
	case "err1":
		rig.Reply(fmt.Sprintf(`{"jsonrpc":"2.0","id":%s,"error":{"code":-7,"message":%q}}`, idOf("r1", 9001), tok))
	case "cancel1", "cancel2", "cancel3":
		if cancel := w.cancels["r"+ev[6:]]; cancel != nil {
			cancel()
		}
	case "tmo":
		time.Sleep(2 * time.Second)
	case "close":
		if !w.closed {
			w.closed = true
			rig.GoClose()
		}
	case "eof":
		rig.Peer.CloseQuiet()
	case "fail":
		rig.Peer.InjectFail(fmt.Errorf("%w: %w", peer.ErrRigFault, net.ErrClosed))
	case "malformed":
		rig.Reply(`this is not JSON`)
	case "cbstart":
		if !w.cbSent {
			w.cbSent = true
			rig.Reply(`{"jsonrpc":"2.0","id":4242,"method":"G","params":{"t":"cb"}}`)
		} else {
			rig.Reply(`{"jsonrpc":"2.0","id":31337,"result":"ignored"}`)
		}
	case "cbrel":
		rig.H.Release("cb")
	}
}

// learnIDs maps request tags to wire ids from the transmitted records.
func (w *c05world) learnIDs() {
	for _, rec := range w.rig.Sent() {
		ms, _, err := peer.Decode(rec)
		if err != nil {
			continue
		}
		for _, m := range ms {
			var p []string
			if m.Method == "m" && json.Unmarshal(m.Params, &p) == nil && len(p) == 1 {
				w.ids[p[0]] = string(m.ID)
			}
		}
	}
}

// reqInfo returns how request tag ended as seen through the API: for r5/r6 it
// is taken from the return of the Batch they belong to.
func (w *c05world) reqInfo(tag string) (info string, n int) {
	if tag != "r5" && tag != "r6" {
		return w.rig.Returned(tag)
	}
	binfo, bn := w.rig.Returned("b1")
	if bn == 0 {
		return "", 0
	}
	if strings.HasPrefix(binfo, "batcherr:") {
		return binfo, bn
	}
	parts := strings.Split(binfo, " | ")
	idx := map[string]int{"r5": 0, "r6": 1}[tag]
	if len(parts) != 2 || !strings.Contains(parts[idx], "=") {
		return "malformed-batch-return:" + binfo, bn
	}
	g := parts[idx][strings.Index(parts[idx], "=")+1:]
	switch {
	case strings.HasPrefix(g, "rsperr:-32097:"):
		g = "ctx:canceled"
	case strings.HasPrefix(g, "rsperr:-32096:"):
		g = "ctx:deadline"
	case strings.HasPrefix(g, "rsperr:"):
		g = "jerr:" + strings.TrimPrefix(g, "rsperr:")
	}
	return g, bn
}

func c05outcomeOK(want, got string) bool {
	if rest, ok := strings.CutPrefix(want, "or-anyerror:"); ok {
		return got == rest || c05outcomeOK("anyerror", got)
	}
	if want == "anyerror" {
		return got != "nil" && !strings.HasPrefix(got, "ok:") && got != "" && !strings.Contains(got, "+stray-result=") && !strings.Contains(got, "+marshals-with")
	}
	return want == got
}

// consistent reports whether deterministic state s explains the observation.
func (w *c05world) consistent(s c05state, transmitted int, onstop []peer.Event, closeRet int) (bool, string) {
	if s.BatchErr != "" {
		info, n := w.rig.Returned("b1")
		want := "batcherr:fault"
		if n != 1 || !strings.HasPrefix(info, "batcherr:") || (s.BatchErr == "fault" && info != want) {
			return false, fmt.Sprintf("Batch returned %q x%d, want an error before transmitting (%s)", info, n, s.BatchErr)
		}
	}
	for tag, r := range s.Reqs {
		info, n := w.reqInfo(tag)
		if tag == "r5" || tag == "r6" {
			other := s.Reqs[map[string]string{"r5": "r6", "r6": "r5"}[tag]]
			if other.St == 1 || r.St == 1 {
				// the Batch returns only when all its members have ended
				if n != 0 {
					return false, fmt.Sprintf("Batch returned %q although a member has not ended", info)
				}
				continue
			}
		}
		switch {
		case n > 1:
			return false, fmt.Sprintf("%s returned %d times", tag, n)
		case r.St == 1 && n != 0:
			return false, fmt.Sprintf("%s returned %q but nothing has ended it", tag, info)
		case r.St == 2 && n == 0:
			return false, fmt.Sprintf("%s has not returned; want %s", tag, r.Out)
		case r.St == 2 && !c05outcomeOK(r.Out, info):
			return false, fmt.Sprintf("%s returned %q, want %s", tag, info, r.Out)
		}
	}
	for tag, want := range s.Notes {
		info, n := w.rig.Returned(tag)
		if n != 1 || !c05outcomeOK(want, info) {
			return false, fmt.Sprintf("Notify %s returned %q x%d, want %s", tag, info, n, want)
		}
	}
	if transmitted != s.Sent {
		return false, fmt.Sprintf("%d records transmitted, want %d", transmitted, s.Sent)
	}
	// OnStop runs when the stop is processed; for Close that is when Close
	// returns (after the reader and the callback handlers are done).
	wantStops := 0
	if s.Stopped && (s.Cause != "close" || s.Cb != 1) {
		wantStops = 1
	}
	if len(onstop) != wantStops {
		return false, fmt.Sprintf("OnStop ran %d times, want %d", len(onstop), wantStops)
	}
	if wantStops == 1 {
		got := onstop[0].Info
		ok := false
		switch s.Cause {
		case "eof":
			ok = got == "eof"
		case "fault":
			ok = got == "fault"
		case "close":
			ok = strings.HasPrefix(got, "err:") && !strings.Contains(got, "JSON")
		case "malformed":
			ok = got != "nil" && got != "eof" && got != "fault"
		}
		if !ok {
			return false, fmt.Sprintf("OnStop cause %q, first cause was %s", got, s.Cause)
		}
	}
	wantClose := 0
	if s.CloseCalled && s.Cb != 1 {
		wantClose = 1
	}
	if closeRet != wantClose {
		return false, fmt.Sprintf("Close returned %d times, want %d (callback handler state %d)", closeRet, wantClose, s.Cb)
	}
	enters, exits := w.rig.Log.Count("h.enter", "cb"), w.rig.Log.Count("h.exit", "cb")
	if (s.Cb >= 1) != (enters == 1) || (s.Cb == 2) != (exits == 1) {
		return false, fmt.Sprintf("callback handler entered %d exited %d, model state %d", enters, exits, s.Cb)
	}
	if !s.Stopped {
		var want []string
		for tag, r := range s.Reqs {
			if r.St == 1 {
				want = append(want, w.ids[tag])
			}
		}
		sort.Strings(want)
		if got := w.rig.Cli.VerifSnapshot().Pending; strings.Join(got, ",") != strings.Join(want, ",") {
			return false, fmt.Sprintf("pending set %v, want %v", got, want)
		}
	}
	return true, ""
}

func c05exec(c *vt.Ctx, hist []string, f c05faults, pipeLike bool, ctrl *sched.Controller) (sends, recvs int) {
	peer.Bubble(c, ctrl, func() {
		var faults []vchan.Fault
		if f.sendK > 0 {
			faults = append(faults, vchan.Fault{Op: vchan.OpSend, N: f.sendK, Err: peer.ErrRigFault})
		}
		if f.recvK > 0 {
			// the failure comes in the flavours a transport reports: a plain error, or one that
			// (also) says "closed" - the connection under the channel was closed by someone else
			rerr := error(peer.ErrRigFault)
			switch (f.recvK + len(hist)) % 3 {
			case 1:
				rerr = fmt.Errorf("%w: %w", peer.ErrRigFault, net.ErrClosed)
			case 2:
				rerr = fmt.Errorf("%w: %w", peer.ErrRigFault, channel.ErrClosed)
			}
			faults = append(faults, vchan.Fault{Op: vchan.OpRecv, N: f.recvK, Err: rerr, Sticky: true})
		}
		rig := peer.NewClientRig(c, ctrl, peer.ClientOpts{PipeLike: pipeLike, Faults: faults})
		w := &c05world{c: c, rig: rig, cancels: map[string]context.CancelFunc{}, ids: map[string]string{}}
		// like a proxy (jhttp.Bridge), relabel every answered response — with the id
		// another request of this client may be using at that moment
		rig.Relabel = func(tag string) string {
			return map[string]string{"r1": "2", "r2": "1", "r3": "1", "r4": "2"}[tag]
		}
		states := []c05state{{Reqs: map[string]c05req{}, Notes: map[string]string{}}}
		if f.recvK == 1 {
			states[0].stop("fault")
		}
		rig.Settle() // the reader is in its first Recv (or has already failed) before the first event
		step := func(ev string) bool {
			w.tokens++
			tok := fmt.Sprintf("T%d", w.tokens)
			replyFirst := false
			if a, b, ok := strings.Cut(ev, "||"); ok {
				w.do(a, tok)
				if ctrl.HasDelays() {
					ctrl.Quiesce() // the library runs up to its parked sites before the second event
					// If a is a reply for r1 and the client has already matched it (r1 is no longer
					// pending, though its caller may still be parked on its way out), the reply came
					// first: cancelling r1's context now cannot change what the call reports.
					if id, known := w.ids["r1"]; known && (a == "reply1" || a == "err1" || a == "mal1") && b == "cancel1" {
						replyFirst = true
						for _, p := range rig.Cli.VerifSnapshot().Pending {
							if p == id {
								replyFirst = false
							}
						}
					}
				}
				w.do(b, tok)
				if replyFirst {
					states = c05apply(c05apply(states, a, f, tok), b, f, tok)
					c.Count("races_decided_by_delivery_before_cancel", 1)
				}
			} else {
				w.do(ev, tok)
			}
			if !replyFirst {
				states = c05apply(states, ev, f, tok)
			}
			rig.Settle()
			if rig.Peer.PeerClosed() {
				// a well-behaved peer closes its end once it has seen the client's EOF
				rig.Peer.CloseQuiet()
				rig.Settle()
			}
			w.learnIDs()
			transmitted := len(rig.Sent())
			onstop := rig.Log.Find("onstop", "*")
			_, closeRet := rig.Returned("close")
			var keep []c05state
			var why []string
			for _, s := range states {
				if ok, msg := w.consistent(s, transmitted, onstop, closeRet); ok {
					keep = append(keep, s)
				} else if len(why) < 3 {
					why = append(why, msg)
				}
			}
			if len(keep) == 0 {
				c.Failf("after %q: no admissible state explains the observation: %s", ev, strings.Join(why, " / or: "))
				return false
			}
			states = keep
			c.Count("model_states", len(keep))
			return true
		}
		ok := true
		for _, ev := range hist {
			if ok = step(ev); !ok {
				break
			}
		}
		// teardown: end every context, let the callback go, close, peer closes
		for _, ev := range []string{"cancel1", "cancel2", "cancel3", "cancelb", "cbrel", "close"} {
			if !ok {
				break
			}
			ok = step(ev)
		}
		for _, cancel := range w.cancels {
			cancel()
		}
		rig.H.ReleaseAll()
		if !w.closed {
			w.closed = true
			rig.GoClose()
		}
		rig.Peer.CloseQuiet()
		rig.Settle()
		if ok {
			// final accounting
			if _, n := rig.Returned("close"); n != 1 {
				c.Failf("Close returned %d times by the end", n)
			}
			if n := rig.Log.Count("onstop", "*"); n != 1 {
				c.Failf("OnStop ran %d times for one client", n)
			}
			s := states[0]
			for tag, r := range s.Reqs {
				info, n := w.reqInfo(tag)
				if n != 1 {
					c.Failf("%s returned %d times by the end", tag, n)
					continue
				}
				id := w.ids[tag]
				hooks := 0
				if id != "" {
					hooks = rig.Log.Count("oncancel", id)
				}
				// admissible OnCancel counts over the states still standing
				okCount := map[int]bool{}
				for _, st := range states {
					sr := st.Reqs[tag]
					switch {
					case sr.Lenient:
						okCount[0], okCount[1] = true, true
					case sr.Replied:
						okCount[0] = true
					case sr.Pending:
						okCount[1] = true
					default:
						okCount[0] = true
					}
				}
				_ = r
				if !okCount[hooks] {
					c.Failf("OnCancel ran %d times for %s (id %s), which ended with %q (answered by the peer: %v, was pending: %v)", hooks, tag, id, info, states[0].Reqs[tag].Replied, states[0].Reqs[tag].Pending)
				}
			}
			if ex := rig.Log.Find("h.exit", "cb"); len(ex) == 1 {
				if ret := rig.Log.Find("api.ret", "close"); len(ret) == 1 && ret[0].T < ex[0].T {
					c.Failf("Close returned (t=%d) before the callback handler returned (t=%d)", ret[0].T, ex[0].T)
				}
			}
		}
		s, r, _ := rig.End.Counts()
		sends, recvs = int(s), int(r)
		c.Count("events", rig.Log.Len())
		c.Count("api_calls", rig.Log.Count("api.call", "*"))
		c.Count("api_returns", rig.Log.Count("api.ret", "*"))
	})
	c.Eval(1)
	return
}

func c05alphabet() []string {
	return []string{"call2", "call3", "callc", "batch", "reply5", "reply6", "cancelb", "mal1", "notify", "reply1", "reply2", "err1", "cancel1", "cancel2", "tmo", "close", "eof", "fail", "malformed", "cbstart", "cbrel"}
}

var c05races = []string{"reply5||reply6", "reply5||cancelb", "batch||close", "callc||close", "callc||reply1", "mal1||cancel1", "reply1||cancel1", "err1||cancel1", "reply1||close", "cancel1||close", "eof||close", "reply1||eof", "call3||close", "reply2||tmo", "cbrel||close", "reply1||fail", "notify||close", "malformed||reply1"}

func c05nontrivial(h []string) bool {
	ends := 0
	for _, e := range h {
		for _, part := range strings.Split(e, "||") {
			switch part {
			case "reply1", "reply2", "err1", "cancel1", "cancel2", "tmo", "close", "eof", "fail", "malformed":
				ends++
			}
		}
	}
	return ends >= 2
}

func init() {
	vt.Register(&vt.Check{
		Prop:  "C05",
		Level: "fault_enumeration",
		Rule: "histories 'call1' + up to 3 (4 in thorough) events over {call2 (deadline), call3, a call issued with an already-ended context, a Batch of two calls and a notification answered member by member or cancelled, notify, malformed member bearing a pending id, reply1, reply2, error reply, cancel1, cancel2, deadline passes, Close, peer EOF, transport failure, malformed record, " +
			"server callback with stubborn handler, its release} and racing pairs (reply||cancel, reply||Close, cancel||Close, EOF||Close, ...), settle + state-set reference model after every event; " +
			"fault enumeration: for every history of length <= 3 the k-th Send and the k-th Recv of the client's channel fail, for every k up to the number the fault-free run performed; channels whose Close does / does not unblock Recv; " +
			"delay-bounded schedules on the racing histories; the callers' contexts carry explicit causes (WithCancelCause / WithTimeoutCause), the context's own error must be reported. distinct_nontrivial = distinct (history, fault, flavour, delay set) containing at least two ending events",
		Assumptions: []string{
			"Go 1.26.8 runtime and testing/synctest (virtual time for deadlines, quiescence for 'has not returned')",
			"the peer closes its end after the client closed (teardown)",
			"a request that ends because the client stopped may report any non-nil error",
		},
		Require: map[string]int64{"api_calls": 2000, "api_returns": 2000},
		Cases:   c05cases,
	})
}

func c05cases(e vt.Env, yield func(vt.Case) bool) {
	// D: a rendezvous transport with a single-threaded peer (c05_direct.go)
	if !c05directCases("C05", e, yield) {
		return
	}
	alpha := c05alphabet()
	exh := e.Pick(3, 4)
	// E1: exhaustive histories, both channel flavours by hash
	for a := range alpha {
		for b := -1; b < len(alpha); b++ {
			a, b := a, b
			id := "E1/call1 " + alpha[a]
			if b >= 0 {
				id += " " + alpha[b] + " *"
			}
			if !yield(vt.Case{ID: id, Run: func(c *vt.Ctx) {
				if b < 0 {
					c05exec(c, []string{"call1", alpha[a]}, c05faults{}, true, sched.New())
					return
				}
				seqs(len(alpha), 0, exh-2, func(idx []int) bool {
					h := []string{"call1", alpha[a], alpha[b]}
					for _, k := range idx {
						h = append(h, alpha[k])
					}
					sig := strings.Join(h, " ")
					c05exec(c, h, c05faults{}, vt.Hash64(sig)%2 == 0, sched.New())
					if c05nontrivial(h) {
						c.Distinct(sig)
						if c.WantSample() {
							c.Sample(map[string]any{"history": h})
						}
					}
					return !c.Failed()
				})
			}}) {
				return
			}
		}
	}
	// E5: fault enumeration over every history of length <= 2 (3 in thorough) after call1, plus racing ones
	flen := e.Pick(2, 3)
	var fhists [][]string
	seqs(len(alpha), 1, flen, func(idx []int) bool {
		h := []string{"call1"}
		for _, k := range idx {
			h = append(h, alpha[k])
		}
		fhists = append(fhists, h)
		return true
	})
	for _, r := range c05races {
		fhists = append(fhists, []string{"call1", "call2", r}, []string{"call1", "cbstart", r})
	}
	for i, h := range fhists {
		h := h
		id := fmt.Sprintf("E5/%d/%s", i, strings.Join(h, " "))
		if !yield(vt.Case{ID: id, Run: func(c *vt.Ctx) {
			pipe := i%2 == 0
			sends, recvs := c05exec(c, h, c05faults{}, pipe, sched.New())
			if c.Failed() {
				return
			}
			for k := 1; k <= sends+1; k++ {
				c05exec(c, h, c05faults{sendK: k}, pipe, sched.New())
				c.Distinct(fmt.Sprintf("%s/send@%d", id, k))
				if c.Failed() {
					return
				}
			}
			for k := 1; k <= recvs+1; k++ {
				c05exec(c, h, c05faults{recvK: k}, pipe, sched.New())
				c.Distinct(fmt.Sprintf("%s/recv@%d", id, k))
				if c.WantSample() && k == 2 {
					c.Sample(map[string]any{"history": h, "fault": fmt.Sprintf("the client's Recv #%d fails", k)})
				}
				if c.Failed() {
					return
				}
			}
		}}) {
			return
		}
	}
	// E1r + E2: racing histories, with delay-bounded schedules
	d := e.Pick(1, 2)
	rng := e.Rand("C05/E2")
	for i := 0; i < e.Pick(60, 400); i++ {
		h := []string{"call1"}
		for k := 0; k < 1+rng.IntN(3); k++ {
			if rng.IntN(2) == 0 {
				h = append(h, c05races[rng.IntN(len(c05races))])
			} else {
				h = append(h, alpha[rng.IntN(len(alpha))])
			}
		}
		dd := d
		if dd == 2 && i%6 != 0 {
			dd = 1
		}
		pipe := rng.IntN(2) == 0
		id := fmt.Sprintf("E2/%d/%v/%s/d%d", i, pipe, strings.Join(h, " "), dd)
		if !yield(vt.Case{ID: id, Run: func(c *vt.Ctx) {
			prof := sched.New()
			c05exec(c, h, c05faults{}, pipe, prof)
			if c.Failed() {
				return
			}
			sched.DelaySets(prof.Keys(), dd, func(ds []string) bool {
				c05exec(c, h, c05faults{}, pipe, sched.New().WithDelays(ds...))
				c.Distinct(id + "/" + join(ds))
				return !c.Failed()
			})
		}}) {
			return
		}
	}
	// E3: long seeded histories with races, faults and perturbation
	rng = e.Rand("C05/E3")
	for i := 0; i < e.Pick(300, 5000); i++ {
		h := []string{"call1"}
		for k := 0; k < 3+rng.IntN(8); k++ {
			if rng.IntN(3) == 0 {
				h = append(h, c05races[rng.IntN(len(c05races))])
			} else {
				h = append(h, alpha[rng.IntN(len(alpha))])
			}
		}
		var f c05faults
		switch rng.IntN(4) {
		case 0:
			f.sendK = 1 + rng.IntN(4)
		case 1:
			f.recvK = 1 + rng.IntN(5)
		}
		p := []float64{0, 0.02, 0.05, 0.1, 0.2}[rng.IntN(5)]
		pipe := rng.IntN(2) == 0
		id := fmt.Sprintf("E3/%d/%v/s%d/r%d/p%.2f/%s", i, pipe, f.sendK, f.recvK, p, strings.Join(h, " "))
		if !yield(vt.Case{ID: id, Run: func(c *vt.Ctx) {
			c05exec(c, h, f, pipe, sched.New().WithPerturb(p, e.Rand(id)))
			if c05nontrivial(h) {
				c.Distinct(id)
			}
		}}) {
			return
		}
	}
}
