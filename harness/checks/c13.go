package checks

import (
	"context"
	"encoding/json"
	"fmt"
	"net/http"
	"net/http/httptest"
	"strings"

	"github.com/creachadair/jrpc2"
	"github.com/creachadair/jrpc2/handler"
	"github.com/creachadair/jrpc2/jhttp"

	"verif/harness/peer"
	"verif/harness/sched"
	"verif/harness/vt"
)

// C13 — wire encoding: emitted messages are one-line valid JSON-RPC that parse
// back; ParseRequests is total and flags exactly the invalid members.
//
// Half W (c13_gen.go, c13_wire.go, this file): a seeded generator draws
// workload values (method name, parameters, result or error object). Every
// value is driven through five emission paths of the real library, each in a
// synctest bubble with sound quiescence points:
//
//	W/client   Client.Call / CallResult / Notify / Batch -> raw server peer
//	W/server   raw client peer -> real Server with a handler.Map built from the generated names
//	W/push     Server.Notify / Server.Callback (AllowPush) -> raw client peer
//	W/cbreply  raw server peer -> Client OnCallback -> reply
//	W/bridge   HTTP POST -> jhttp.Bridge -> response body
//
// and every captured record is judged by c13judgeRequests / c13judgeResponses.
//
// Half P (c13_parse.go): jrpc2.ParseRequests against the reference classifier
// over the C02 product, hand-picked envelopes and seeded mutations, with a
// differential run of a stratified sample against a live Server.

const c13block = 250 // workload values per W block

func init() {
	vt.Register(&vt.Check{
		Prop:  "C13",
		Level: "exploration",
		Rule: "W: seeded workload values (method name over all of Unicode incl. quotes, backslash, U+0000-U+001F, DEL, C1, <>&, U+2028/9, noncharacters, astral plane, up to 70k runes; " +
			"params/result trees of depth <= 6 with the same strings as values and keys, integers beyond 2^53 as int64/uint64/*big.Int/json.Number, decimal and exponent forms beyond float64, float64 from random bits, booleans, null; " +
			"each node handed to the library as a native Go value, as json.RawMessage / json.Marshaler text with arbitrary inner whitespace and newlines and escape variants; error objects with int32 codes, generated messages and data) in blocks of 250, " +
			"every value driven through Client.Call/CallResult/Notify/Batch, a real Server answering a raw peer (singles and batches, plus unknown-method and extra-member requests), Server.Notify/Callback, client OnCallback replies and jhttp.Bridge response bodies; " +
			"each captured record is checked bytewise (UTF-8, no byte < 0x20, json.Valid), for its member set and version, and parsed back with jrpc2.ParseRequests + ToRequest (requests) and two independent decoders against the generated values. " +
			"P: the C02 product of per-field request variants in 4 containers (quick: all members with at most one defective field + seeded 10%; thorough: all 90720), hand-picked envelopes, seeded byte mutations; " +
			"ParseRequests compared with the reference classifier, and for a stratified sample (all hand-picked, all single-defect, 1/8 of the rest) with what a live Server answers to the same record. " +
			"distinct_nontrivial = distinct (path, method, payload) triples whose method or payload contains a non-[A-Za-z0-9._] character, a number beyond small integers or a pre-encoded part (W) + distinct P inputs other than one plain valid call",
		Assumptions: []string{
			"domain: method names, error messages and string ids are valid UTF-8 and method names are non-empty and do not start with \"rpc.\"; request parameters are arrays, objects or absent; handler error Data is valid JSON; ids are the library's own (client, server push) or valid JSON string/number ids (raw peer)",
			"encoding/json (json.Valid, Decoder.Token, UseNumber decoding), math/big and strconv.ParseFloat are the trusted base of the reference decoders; float64 values are compared by strconv.ParseFloat of the emitted text, all other numbers as exact decimals",
			"an error object whose message is empty may omit the message member; null error data may be omitted; a nil value of a typed Go container as parameters may be sent as \"params\":null or omitted; a one-element batch may be sent as a single object",
			"a plain Go error from a handler is answered with code -32603 or -32098 (C14 pins which); the text and data of errors the library generates itself (-32601, -32600) are not compared, only their code and id",
			"P: members with duplicate keys are judged under last-key-wins and first-key-wins, either admissible; the differential run accepts -32600 for members that share an id within one record (duplicate request id, not a structural defect) and ignores the server's answer to an empty batch",
			"P: a member carrying a null-valued \"error\" key is judged with and without that key, either admissible (null means no error for the parser as for the server); " +
				"jmessage.parseJSON ranges over a Go map and reports the first failing key, so a member with several defects of different kinds may be flagged -32700 or -32600 from one run to the next: " +
				"the differential run demands the server's very code only for members with at most one defective field and either structural code otherwise",
			"ParsedRequest.ToRequest: nil exactly for flagged entries; for the others ID(), Method() and ParamString() equal the entry's fields; IsNotification() of the converted request is not asserted (the statement does not speak about it)",
			"testing/synctest quiescence (Controller.Settle) marks the points at which everything has been emitted",
		},
		Require: map[string]int64{
			"client_requests": 14000, "server_responses": 11000, "pushes": 14000, "callback_replies": 11000, "bridge_bodies": 8000,
			"raw_preencoded_values": 40000, "methods_with_control_chars": 20000, "methods_beyond_bmp": 10000,
			"parse_inputs": 12000, "parse_members_flagged": 7000, "parse_members_valid": 3000, "parse_toplevel_errors": 1500,
			"differential_checked": 1600, "differential_exact_code": 200,
		},
		Exhaustive: func(e vt.Env) bool { return false },
		Cases:      c13cases,
	})
}

func c13cases(e vt.Env, yield func(vt.Case) bool) {
	nblocks := e.Pick(20000, 500000) / c13block
	for b := 0; b < nblocks; b++ {
		for _, path := range []string{"client", "server", "push", "cbreply", "bridge"} {
			label := fmt.Sprintf("W/%s/%d", path, b)
			blk := fmt.Sprintf("C13/W/%d", b)
			path := path
			if !yield(vt.Case{ID: label, Run: func(c *vt.Ctx) { c13runW(c, path, blk) }}) {
				return
			}
		}
	}
	if !c13uCases(e, yield) {
		return
	}
	c13parseCases(e, yield)
}

// c13prepared is an item with the Go values handed to the library fixed in
// advance (handlers run on library goroutines; the PRNG is not shared).
type c13prepared struct {
	*c13item
	goParams any
	nullOK   bool
	goResult any
	goErr    error
	id       string // raw id used by the harness's peer
	reqText  string // the request the raw peer sends for this item (a call)
	noteText string // ... as a notification
}

func c13prepare(c *vt.Ctx, g c13gen, items []*c13item) []*c13prepared {
	out := make([]*c13prepared, len(items))
	raws, nctl, nastral := 0, 0, 0
	for i, it := range items {
		p := &c13prepared{c13item: it}
		used := false
		if it.params != nil {
			p.goParams = g.goValue(it.params, true, &used)
		} else if g.rng.IntN(4) == 0 {
			p.nullOK = true
			p.goParams = []any{map[string]any(nil), []string(nil), json.RawMessage("null"), (*struct{})(nil)}[g.rng.IntN(4)]
		}
		if it.err != nil {
			p.goErr = g.goError(it.err, &used)
		} else if it.result != nil {
			p.goResult = g.goValue(it.result, true, &used)
		}
		if used {
			raws++
		}
		p.id = g.rawID(i)
		ctl, astral := false, false
		for _, r := range it.method {
			ctl = ctl || r < 0x20 || r == 0x7f
			astral = astral || r > 0xFFFF
		}
		if ctl {
			nctl++
		}
		if astral {
			nastral++
		}
		var sb strings.Builder
		sb.WriteString(`{"jsonrpc":"2.0","method":`)
		g.renderString(&sb, it.method, g.rng.IntN(3) != 0)
		if it.params != nil {
			sb.WriteString(`,"params":`)
			if g.rng.IntN(3) == 0 {
				sb.WriteString(g.raw(it.params)) // the peer's own record may span lines; what the library emits may not
			} else {
				sb.WriteString(g.plain(it.params))
			}
		}
		if it.broken {
			sb.WriteString(`,"zz":1`)
		}
		body := sb.String()
		p.noteText = body + "}"
		p.reqText = body + `,"id":` + p.id + "}"
		out[i] = p
	}
	c.Count("raw_preencoded_values", raws)
	c.Count("methods_with_control_chars", nctl)
	c.Count("methods_beyond_bmp", nastral)
	return out
}

// handlerMap builds the handler.Map of the block: one handler per generated
// method name (except the names meant to be unknown).
func c13handlerMap(ps []*c13prepared) handler.Map {
	m := handler.Map{}
	for _, p := range ps {
		if p.unknown {
			continue
		}
		p := p
		m[p.method] = func(ctx context.Context, req *jrpc2.Request) (any, error) {
			if p.goErr != nil {
				return nil, p.goErr
			}
			return p.goResult, nil
		}
	}
	return m
}

// responseWant is what the answer to a call for p must parse back to.
func (p *c13prepared) responseWant() c13want {
	w := c13want{it: p.c13item, id: p.id, method: p.method}
	switch {
	case p.broken:
		w.codes = []int{-32600, -32700}
	case p.unknown:
		w.codes = []int{-32601}
	case p.err != nil:
		w.err = p.err
	default:
		w.result = p.result
	}
	return w
}

func c13runW(c *vt.Ctx, path, blk string) {
	g := c13gen{c.Env.Rand(blk)}
	items := g.items(c13block)
	ps := c13prepare(c, g, items)
	if c.WantSample() {
		it := ps[c.Index%len(ps)]
		c.Sample(map[string]any{"path": path, "generated": c13describe(c13want{it: it.c13item, method: it.method, params: it.params, result: it.result, err: it.err}), "raw_request": c13short(it.reqText)})
	}
	ctrl := sched.New()
	peer.Bubble(c, ctrl, func() {
		switch path {
		case "client":
			c13pathClient(c, ctrl, g, ps)
		case "server":
			c13pathServer(c, ctrl, g, ps)
		case "push":
			c13pathPush(c, ctrl, g, ps)
		case "cbreply":
			c13pathCallbackReply(c, ctrl, g, ps)
		case "bridge":
			c13pathBridge(c, ctrl, g, ps)
		}
	})
}

// groups splits the block into operations of 1 (mostly) to 5 values.
func c13groups(g c13gen, ps []*c13prepared) [][]*c13prepared {
	var out [][]*c13prepared
	for i := 0; i < len(ps); {
		n := 1
		if g.rng.IntN(4) == 0 {
			n = 1 + g.rng.IntN(5)
		}
		n = min(n, len(ps)-i)
		out = append(out, ps[i:i+n])
		i += n
	}
	return out
}

// W/client: the real client emits calls, notifications and batches.
func c13pathClient(c *vt.Ctx, ctrl *sched.Controller, g c13gen, ps []*c13prepared) {
	rig := peer.NewClientRig(c, ctrl, peer.ClientOpts{NoCallback: true, PipeLike: true})
	ctx, cancel := context.WithCancel(context.Background())
	defer cancel()
	seen := map[string]bool{}
	sent := 0
	for _, grp := range c13groups(g, ps) {
		var wants []c13want
		api := ""
		if len(grp) == 1 && g.rng.IntN(5) != 0 {
			p := grp[0]
			w := c13want{it: p.c13item, method: p.method, params: p.params, nullOK: p.nullOK}
			switch g.rng.IntN(4) {
			case 0:
				api, w.note = "Notify", true
				go rig.Cli.Notify(ctx, p.method, p.goParams)
			case 1:
				api = "CallResult"
				go func() {
					var out json.RawMessage
					rig.Cli.CallResult(ctx, p.method, p.goParams, &out)
				}()
			default:
				api = "Call"
				go rig.Cli.Call(ctx, p.method, p.goParams)
			}
			wants = append(wants, w)
		} else {
			api = "Batch"
			var specs []jrpc2.Spec
			for _, p := range grp {
				note := g.rng.IntN(3) == 0
				specs = append(specs, jrpc2.Spec{Method: p.method, Params: p.goParams, Notify: note})
				wants = append(wants, c13want{it: p.c13item, method: p.method, params: p.params, nullOK: p.nullOK, note: note})
			}
			go rig.Cli.Batch(ctx, specs)
		}
		rig.Settle()
		recs := rig.Sent()[sent:]
		sent += len(recs)
		if len(recs) != 1 {
			c.Failf("W/client: %s of %d request(s) emitted %d records, want 1: %s; generated: %s", api, len(wants), len(recs), c13clipAll(recs), c13describe(wants[0]))
			break
		}
		c13judgeRequests(c, "W/client "+api, recs[0], wants, seen)
		c.Count("client_requests", len(wants))
		if c.Failed() {
			break
		}
	}
	if err := rig.Cli.Close(); err != nil {
		c.Failf("W/client: Client.Close: %v", err)
	}
	rig.Settle()
}

// W/server: a real server with the generated handler map answers a raw peer.
func c13pathServer(c *vt.Ctx, ctrl *sched.Controller, g c13gen, ps []*c13prepared) {
	rig := peer.NewServerRig(c, ctrl, peer.ServerOpts{Assigner: c13handlerMap(ps), DisableBuiltin: true, Concurrency: 4})
	sent := 0
	for _, grp := range c13groups(g, ps) {
		var wants []c13want
		var members []string
		for _, p := range grp {
			if g.rng.IntN(6) == 0 && !p.broken {
				members = append(members, p.noteText)
			} else {
				members = append(members, p.reqText)
				wants = append(wants, p.responseWant())
			}
		}
		rec := members[0]
		if len(members) > 1 || g.rng.IntN(8) == 0 {
			rec = "[" + strings.Join(members, ",") + "]"
		}
		rig.Send(rec)
		rig.Settle()
		recs := rig.OutboundFrom(sent)
		sent += len(recs)
		if len(wants) == 0 && len(recs) != 0 || len(wants) > 0 && len(recs) != 1 {
			c.Failf("W/server: the server emitted %d records in answer to %s (%d calls): %s", len(recs), c13short(rec), len(wants), c13clipAll(recs))
			break
		}
		if len(wants) > 0 {
			c13judgeResponses(c, "W/server", recs, wants)
			c.Count("server_responses", len(wants))
		}
		if c.Failed() {
			break
		}
	}
	if _, ok := rig.Finish(); !ok {
		c.Failf("W/server: the server did not exit after the peer closed")
	}
}

// W/push: the real server emits notifications and callbacks.
func c13pathPush(c *vt.Ctx, ctrl *sched.Controller, g c13gen, ps []*c13prepared) {
	rig := peer.NewServerRig(c, ctrl, peer.ServerOpts{AllowPush: true, DisableBuiltin: true})
	ctx, cancel := context.WithCancel(context.Background())
	seen := map[string]bool{}
	sent := 0
	for _, p := range ps {
		p := p
		w := c13want{it: p.c13item, method: p.method, params: p.params, nullOK: p.nullOK}
		api := "Callback"
		if g.rng.IntN(2) == 0 {
			api, w.note = "Notify", true
			if err := rig.Srv.Notify(ctx, p.method, p.goParams); err != nil {
				c.Failf("W/push: Server.Notify(%s): %v", c13describe(w), err)
				break
			}
		} else {
			go rig.Srv.Callback(ctx, p.method, p.goParams)
		}
		rig.Settle()
		recs := rig.OutboundFrom(sent)
		sent += len(recs)
		if len(recs) != 1 {
			c.Failf("W/push: Server.%s emitted %d records, want 1: %s; generated: %s", api, len(recs), c13clipAll(recs), c13describe(w))
			break
		}
		ids := c13judgeRequests(c, "W/push Server."+api, recs[0], []c13want{w}, seen)
		c.Count("pushes", 1)
		if c.Failed() {
			break
		}
		if !w.note && g.rng.IntN(2) == 0 {
			// answer half of the callbacks; the others end with the context
			rig.Send(`{"jsonrpc":"2.0","id":` + string(ids[0]) + `,"result":null}`)
		}
	}
	cancel()
	rig.Settle()
	if n := len(rig.OutboundFrom(sent)); n != 0 {
		c.Failf("W/push: %d unexpected records at the end: %s", n, c13clipAll(rig.OutboundFrom(sent)))
	}
	if _, ok := rig.Finish(); !ok {
		c.Failf("W/push: the server did not exit after the peer closed")
	}
}

// W/cbreply: the real client answers callbacks pushed by a raw server peer.
func c13pathCallbackReply(c *vt.Ctx, ctrl *sched.Controller, g c13gen, ps []*c13prepared) {
	rig := peer.NewClientRig(c, ctrl, peer.ClientOpts{PipeLike: true})
	rig.H.Extra = c13handlerMap(ps)
	sent := 0
	for _, grp := range c13groups(g, ps) {
		var wants []c13want
		var members []string
		for _, p := range grp {
			if p.unknown && rig.H.Assign(context.Background(), p.method) != nil {
				continue // the rig's own built-in callback names
			}
			text := p.reqText
			if p.broken {
				// what a client does with a malformed pushed request is not this property's business
				text = strings.Replace(text, `,"zz":1`, ``, 1)
			}
			if g.rng.IntN(8) == 0 {
				members = append(members, strings.Replace(p.noteText, `,"zz":1`, ``, 1))
				continue
			}
			members = append(members, text)
			w := p.responseWant()
			if p.broken {
				w.codes = nil
				w.err, w.result = p.err, p.result
			}
			wants = append(wants, w)
		}
		if len(members) == 0 {
			continue
		}
		rec := members[0]
		if len(members) > 1 {
			rec = "[" + strings.Join(members, ",") + "]"
		}
		rig.Reply(rec)
		rig.Settle()
		recs := rig.Sent()[sent:]
		sent += len(recs)
		if len(recs) != len(wants) {
			c.Failf("W/cbreply: the client emitted %d records in answer to %s (%d callbacks): %s", len(recs), c13short(rec), len(wants), c13clipAll(recs))
			break
		}
		if len(wants) > 0 {
			c13judgeResponses(c, "W/cbreply", recs, wants)
			c.Count("callback_replies", len(wants))
		}
		if c.Failed() {
			break
		}
	}
	if err := rig.Cli.Close(); err != nil {
		c.Failf("W/cbreply: Client.Close: %v", err)
	}
	rig.Settle()
}

// W/bridge: HTTP response bodies of jhttp.Bridge.
func c13pathBridge(c *vt.Ctx, ctrl *sched.Controller, g c13gen, ps []*c13prepared) {
	bridge := jhttp.NewBridge(c13handlerMap(ps), nil)
	for _, grp := range c13groups(g, ps) {
		var wants []c13want
		var members []string
		for _, p := range grp {
			if g.rng.IntN(6) == 0 && !p.broken {
				members = append(members, p.noteText)
			} else {
				members = append(members, p.reqText)
				wants = append(wants, p.responseWant())
			}
		}
		body := members[0]
		if len(members) > 1 || g.rng.IntN(8) == 0 {
			body = "[" + strings.Join(members, ",") + "]"
		}
		req := httptest.NewRequest("POST", "http://bridge.invalid/rpc", strings.NewReader(body))
		req.Header.Set("Content-Type", "application/json")
		rec := httptest.NewRecorder()
		bridge.ServeHTTP(rec, req)
		ctrl.Settle()
		got := rec.Body.Bytes()
		switch {
		case len(wants) == 0:
			if rec.Code != http.StatusNoContent || len(got) != 0 {
				c.Failf("W/bridge: notifications only (%s): status %d body %s, want 204 without body", c13short(body), rec.Code, c13clip(got))
			}
		case rec.Code != http.StatusOK:
			c.Failf("W/bridge: POST %s: status %d body %s, want 200; generated: %s", c13short(body), rec.Code, c13clip(got), c13describe(wants[0]))
		default:
			c13judgeResponses(c, "W/bridge", [][]byte{got}, wants)
			c.Count("bridge_bodies", 1)
			c.Count("bridge_responses", len(wants))
		}
		if c.Failed() {
			break
		}
	}
	if err := bridge.Close(); err != nil {
		c.Failf("W/bridge: Bridge.Close: %v", err)
	}
	ctrl.Settle()
}
