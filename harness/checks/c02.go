package checks

import (
	"context"
	"encoding/json"
	"fmt"
	"math/rand/v2"
	"strings"
	"unicode/utf8"

	"github.com/creachadair/jrpc2"

	"verif/harness/oracle"
	"verif/harness/peer"
	"verif/harness/sched"
	"verif/harness/vt"
)

// C02 — JSON-RPC 2.0 conformance and survival on arbitrary inbound records.
//
// One long-lived real server per block of inputs (push disabled or enabled).
// For each input record: send it, wait for quiescence, compare everything the
// server emitted with the set of outcomes the independent reference classifier
// (oracle.ClassifyRecord, written from the spec and README) admits, compare
// the number of handler invocations with the number of valid resolvable
// requests, then send a probe call and require its answer (still serving).
// Every emitted record must itself be a valid JSON-RPC 2.0 response.

// c02assigner exposes exactly two harness methods: "i" (instant, returns a
// token) and "e" (instant, returns an error).
type c02assigner struct{ h *peer.Handlers }

func (a c02assigner) Assign(ctx context.Context, m string) jrpc2.Handler {
	if m == "i" || m == "e" {
		return a.h.Assign(ctx, m)
	}
	return nil
}
func (a c02assigner) Names() []string { return []string{"e", "i"} }

// an admissible outcome of one member
type c02opt struct {
	silent bool
	isErr  bool
	codes  []int
	id     json.RawMessage // nil = null
	runs   int             // harness handler invocations this outcome implies
	object bool            // result must be a JSON object (rpc.serverInfo)
	appErr bool            // error produced by handler "e" (code 7)
}

func c02options(variants []oracle.Member, push bool) []c02opt {
	var out []c02opt
	for _, m := range variants {
		switch m.Kind {
		case oracle.Invalid:
			out = append(out, c02opt{isErr: true, codes: []int{-32700, -32600}, id: m.ID})
			if push && m.ReplyShaped {
				out = append(out, c02opt{silent: true})
			}
		case oracle.Call:
			switch {
			case m.Method == "i":
				out = append(out, c02opt{id: m.ID, runs: 1})
			case m.Method == "e":
				out = append(out, c02opt{id: m.ID, runs: 1, isErr: true, codes: []int{7}, appErr: true})
			case m.Method == "rpc.serverInfo":
				out = append(out, c02opt{id: m.ID, object: true})
			default:
				out = append(out, c02opt{isErr: true, codes: []int{-32601}, id: m.ID})
			}
		case oracle.Note:
			runs := 0
			if m.Method == "i" || m.Method == "e" {
				runs = 1
			}
			out = append(out, c02opt{silent: true, runs: runs})
		}
	}
	return out
}

func (o c02opt) accepts(r oracle.Resp) bool {
	if o.silent || o.isErr != r.IsErr || !oracle.IDEqual(o.id, r.ID) {
		return false
	}
	if o.isErr {
		for _, c := range o.codes {
			if c == r.Code {
				return true
			}
		}
		return false
	}
	if o.object {
		return len(r.Result) > 0 && r.Result[0] == '{'
	}
	var s string
	return json.Unmarshal(r.Result, &s) == nil && strings.Contains(s, "/")
}

// c02match reports whether resps can be explained member by member, in order,
// with exactly `runs` handler invocations.
func c02match(opts [][]c02opt, resps []oracle.Resp, runs int) bool {
	var rec func(i, j, r int) bool
	rec = func(i, j, r int) bool {
		if i == len(opts) {
			return j == len(resps) && r == runs
		}
		for _, o := range opts[i] {
			if o.silent {
				if rec(i+1, j, r+o.runs) {
					return true
				}
			} else if j < len(resps) && o.accepts(resps[j]) {
				if rec(i+1, j+1, r+o.runs) {
					return true
				}
			}
		}
		return false
	}
	return rec(0, 0, 0)
}

// c02judge compares what the server emitted for one input with the reference.
func c02judge(c *vt.Ctx, input string, out [][]byte, runs int, push bool) {
	fail := func(format string, args ...any) {
		c.Failf("input %q (push=%v): %s; server emitted %q", input, push, fmt.Sprintf(format, args...), out)
	}
	var all [][]oracle.Resp
	var arrs []bool
	for _, rec := range out {
		parse := oracle.ParseResponses
		if !utf8.ValidString(input) {
			parse = oracle.ParseResponsesLoose // ids are echoed byte for byte: garbage in, garbage out
		}
		rs, isArr, err := parse(rec)
		if err != nil {
			fail("emitted record is not a valid JSON-RPC 2.0 response: %v", err)
			return
		}
		all = append(all, rs)
		arrs = append(arrs, isArr)
	}
	ref := oracle.ClassifyRecord([]byte(input))
	single := func(code int) {
		if len(all) != 1 || arrs[0] || len(all[0]) != 1 || !all[0][0].IsErr || all[0][0].Code != code || !oracle.IDEqual(nil, all[0][0].ID) {
			fail("want exactly one error object with id null and code %d", code)
		}
		if runs != 0 {
			fail("%d handler invocations for an input without any valid request", runs)
		}
	}
	switch {
	case !ref.ValidJSON:
		single(-32700)
		return
	case ref.IsArray && len(ref.Members) == 0:
		single(-32600)
		return
	}
	opts := make([][]c02opt, len(ref.Members))
	for i, v := range ref.Members {
		opts[i] = c02options(v, push)
	}
	// Members of one record that carry the same id: the library compares id
	// texts; both members fail with -32600 (duplicate request ID). Ids that are
	// equal as values but spelled differently may or may not be treated so.
	for i := range ref.Members {
		for j := range ref.Members {
			if i == j {
				continue
			}
			for _, a := range ref.Members[i] {
				for _, b := range ref.Members[j] {
					if a.ID == nil || b.ID == nil || !oracle.IDEqual(a.ID, b.ID) {
						continue
					}
					dup := c02opt{isErr: true, codes: []int{-32600}, id: a.ID}
					if string(a.ID) == string(b.ID) && len(ref.Members[i]) == 1 && len(ref.Members[j]) == 1 && a.Kind == oracle.Call {
						opts[i] = []c02opt{dup}
					} else {
						opts[i] = append(opts[i], dup)
					}
				}
			}
		}
	}
	var resps []oracle.Resp
	switch len(all) {
	case 0:
	case 1:
		resps = all[0]
		if arrs[0] != ref.IsArray {
			fail("response is an array: %v, request was an array: %v", arrs[0], ref.IsArray)
		}
	default:
		fail("%d outbound records for one inbound record", len(all))
		return
	}
	if !c02match(opts, resps, runs) {
		var want []string
		for _, v := range ref.Members {
			m := v[0]
			want = append(want, fmt.Sprintf("%s(id=%s method=%q %s)", m.Kind, m.ID, m.Method, m.Why))
		}
		fail("responses / %d handler invocation(s) not admissible for members %v", runs, want)
	}
}

type c02server struct {
	rig    *peer.ServerRig
	push   bool
	probes int
}

// feed sends one input to the live server and judges the outcome, then probes.
func (s *c02server) feed(c *vt.Ctx, input string) {
	rig := s.rig
	n0 := len(rig.Outbound())
	r0 := rig.H.Invocations()
	rig.Send(input)
	rig.Settle()
	c02judge(c, input, rig.OutboundFrom(n0), int(rig.H.Invocations()-r0), s.push)
	// liveness probe
	s.probes++
	n1 := len(rig.Outbound())
	tag := fmt.Sprintf("probe%d", s.probes)
	rig.Send(peer.Req(`"`+tag+`"`, "i", tag))
	rig.Settle()
	got := rig.OutboundFrom(n1)
	ok := len(got) == 1
	if ok {
		ms, isArr, err := peer.Decode(got[0])
		ok = err == nil && !isArr && len(ms) == 1 && ms[0].Error == nil && strings.HasPrefix(ms[0].ResultToken(), tag+"/")
	}
	if !ok {
		c.Failf("after input %q (push=%v) the server no longer answers a probe call correctly: got %q", input, s.push, got)
	}
	c.Eval(1)
}

func init() {
	vt.Register(&vt.Check{
		Prop:  "C02",
		Level: "exploration",
		Rule: "every combination of per-field variants of a request object (version 6 x id 12 x method 9 x params 7 x extra member 5) in containers {single, [m], [m,ok], [ok,m]} " +
			"(thorough: the whole product of 90720 records on a push-disabled and a push-enabled server; quick: all members with at most one defective field plus a seeded 10% of the product), " +
			"non-object members, single / batch / empty-batch records wrapped in every string of <= 2 JSON whitespace characters (space, tab, LF, CR) with whitespace inside the brackets, then seeded byte-level mutations of valid records; each record goes to a live server and the emitted bytes and handler-invocation count are compared with an independent reference classifier, " +
			"followed by a probe call. distinct_nontrivial = distinct input records that are not a single plain valid call",
		Assumptions: []string{
			"encoding/json decides what is syntactically valid JSON (json.Valid) for the reference as for the library",
			"members with duplicate keys are judged under last-key-wins and first-key-wins, either admissible",
			"on a push-enabled server a member with a result/error key and no usable method may be dropped or answered as invalid",
		},
		Require:    map[string]int64{"records_sent": 2000, "responses_checked": 2000, "handler_runs": 500},
		Exhaustive: func(e vt.Env) bool { return false },
		Cases:      c02cases,
	})
}

var (
	c02versions = []string{"", `"jsonrpc":"2.0"`, `"jsonrpc":"1.0"`, `"jsonrpc":2.0`, `"jsonrpc":null`, `"jsonrpc":false`}
	c02ids      = []string{"", `"id":1`, `"id":"a"`, `"id":null`, `"id":1.5`, `"id":-0`, `"id":1e3`, `"id":"1"`, `"id":"\u0031"`, `"id":true`, `"id":[]`, `"id":{}`}
	c02methods  = []string{"", `"method":"i"`, `"method":"nosuch"`, `"method":"rpc.x"`, `"method":"rpc.serverInfo"`, `"method":""`, `"method":5`, `"method":null`, `"method":[false]`}
	c02params   = []string{"", `"params":[]`, `"params":{}`, `"params":null`, `"params":5`, `"params":"s"`, `"params":true`}
	c02extras   = []string{"", `"x":1`, `"result":1`, `"error":{"code":1,"message":"m"}`, `"id":2`}
	// indices of the valid baseline per field
	c02base = [5]int{1, 1, 1, 0, 0}
)

func c02member(v, i, m, p, x int) string {
	var parts []string
	for _, s := range []string{c02versions[v], c02ids[i], c02methods[m], c02params[p], c02extras[x]} {
		if s != "" {
			parts = append(parts, s)
		}
	}
	return "{" + strings.Join(parts, ",") + "}"
}

const c02ok = `{"jsonrpc":"2.0","id":"okid","method":"i","params":{"t":"ok"}}`

// c02whitespaced wraps a single record, a two-member batch, a one-member batch
// and the empty batch in every string of at most two JSON whitespace characters
// (before) and four trailers (after), and puts whitespace inside the brackets.
func c02whitespaced() []string {
	ws := []string{" ", "\t", "\n", "\r"}
	pres := []string{""}
	for _, a := range ws {
		pres = append(pres, a)
		for _, b := range ws {
			pres = append(pres, a+b)
		}
	}
	posts := []string{"", " ", "\r\n", "\t\r"}
	other := `{"jsonrpc":"2.0","id":7,"method":"nosuch"}`
	var out []string
	for _, pre := range pres {
		for _, post := range posts {
			out = append(out,
				pre+c02ok+post,
				pre+"["+c02ok+","+other+"]"+post,
				pre+"["+pre+c02ok+post+","+pre+other+post+"]"+post,
				pre+"["+post+"]"+post,
			)
		}
	}
	return out
}

func c02containers(m string) []string {
	return []string{m, "[" + m + "]", "[" + m + "," + c02ok + "]", "[" + c02ok + "," + m + "]"}
}

func c02run(c *vt.Ctx, inputs []string, push bool) {
	ctrl := sched.New()
	peer.Bubble(c, ctrl, func() {
		log := peer.NewLog()
		h := peer.NewHandlers(log)
		rig := peer.NewServerRig(c, ctrl, peer.ServerOpts{AllowPush: push, Concurrency: 4, Assigner: c02assigner{h}})
		rig.H = h // invocations are counted on the handlers actually installed
		srv := &c02server{rig: rig, push: push}
		for _, in := range inputs {
			srv.feed(c, in)
			c.Count("records_sent", 1)
			if c.Failed() {
				break
			}
		}
		c.Count("responses_checked", len(rig.Outbound()))
		c.Count("handler_runs", int(h.Invocations()))
		c.Count("events", rig.Log.Len()+log.Len())
		if _, ok := rig.Finish(); !ok {
			c.Failf("server did not exit after the peer closed")
		}
	})
}

func c02cases(e vt.Env, yield func(vt.Case) bool) {
	const block = 100
	emit := func(id string, inputs []string, push bool) bool {
		inputs = append([]string(nil), inputs...)
		return yield(vt.Case{ID: id, Run: func(c *vt.Ctx) {
			c02run(c, inputs, push)
			for _, in := range inputs {
				if in != c02ok {
					c.DistinctHash(vt.Hash64(fmt.Sprint(push, in)))
				}
			}
			if c.WantSample() {
				c.Sample(map[string]any{"push": push, "inputs": inputs[:min(4, len(inputs))]})
			}
		}})
	}
	var buf []string
	nblock := 0
	flush := func(prefix string, push bool) bool {
		if len(buf) == 0 {
			return true
		}
		nblock++
		ok := emit(fmt.Sprintf("%s/%d/push=%v", prefix, nblock, push), buf, push)
		buf = buf[:0]
		return ok
	}
	// P0: hand-picked non-object members and envelopes
	special := []string{``, ` `, `garbage`, `{`, `[`, `[]`, ` [ ] `, `[[]]`, `[1]`, `["s"]`, `[null]`, `[true]`, `[{}]`, `{}`, `1`, `"s"`, `null`, `true`,
		`[1,2,3]`, `[` + c02ok + `,1]`, `[1,` + c02ok + `]`, `{"jsonrpc":"2.0","method":"i"} trailing`, c02ok + c02ok, "\xff\xfe", `{"jsonrpc":"2.0","id":1,"method":"i\u0000"}`,
		`{"jsonrpc":"2.0","id":1,"method":"i"}`, `{"jsonrpc":"2.0","id":1,"method":"i"}`, `{"JSONRPC":"2.0","id":1,"method":"i"}`, `{"jsonrpc":"2.0","ID":1,"method":"i"}`,
		`{"jsonrpc":"2.0","id":1,"method":"e"}`, `{"jsonrpc":"2.0","method":"e"}`, `[{"jsonrpc":"2.0","method":"i"},{"jsonrpc":"2.0","method":"e"}]`,
		`{"jsonrpc":"2.0","id":123456789012345678901234567890,"method":"i"}`, `{"jsonrpc":"2.0","id":1e999,"method":"i"}`, `{"jsonrpc":"2.0","id":"","method":"i"}`,
		` {"jsonrpc":"2.0","id":1,"method":"i"} `, "\n[\n" + c02ok + "\n]\n",
	}
	for _, push := range []bool{false, true} {
		buf = append(buf[:0], special...)
		if !flush("P0", push) {
			return
		}
		// W: JSON whitespace (space, tab, LF, CR) around and inside single and batch records
		buf = append(buf[:0], c02whitespaced()...)
		if !flush("W", push) {
			return
		}
	}
	// P1: the product of field variants
	for _, push := range []bool{false, true} {
		for v := range c02versions {
			for i := range c02ids {
				for m := range c02methods {
					for p := range c02params {
						for x := range c02extras {
							idx := [5]int{v, i, m, p, x}
							defects := 0
							for k := range idx {
								if idx[k] != c02base[k] {
									defects++
								}
							}
							mem := c02member(v, i, m, p, x)
							if !e.Thorough() && defects > 1 {
								// seeded 10% of the multi-defect product; the push setting alternates by hash
								h := vt.Hash64(fmt.Sprint(e.Seed, mem))
								if h%10 != 0 || (h/10%2 == 0) != push {
									continue
								}
							}
							buf = append(buf, c02containers(mem)...)
							if len(buf) >= block {
								if !flush("P1", push) {
									return
								}
							}
						}
					}
				}
			}
		}
		if !flush("P1", push) {
			return
		}
	}
	// P2: seeded mutations of valid records
	seeds := []string{
		c02ok, `{"jsonrpc":"2.0","method":"i","params":[1,2,3]}`, `[` + c02ok + `,{"jsonrpc":"2.0","id":7,"method":"nosuch"}]`,
		`{"jsonrpc":"2.0","id":3,"result":{"a":[1,2,{"b":null}]}}`, `{"jsonrpc":"2.0","id":"x","error":{"code":-5,"message":"boom","data":[true]}}`,
		`[{"jsonrpc":"2.0","id":1,"method":"i","params":{"t":"a","n":1.5e3}},{"jsonrpc":"2.0","method":"e"},{"jsonrpc":"2.0","id":"s","method":"rpc.serverInfo"}]`,
		`{"jsonrpc":"2.0","id":-12.5,"method":"i","params":{"t":"éé😀","x":"<>&"}}`,
	}
	rng := e.Rand("C02/P2")
	total := e.Pick(6000, 400000)
	for _, push := range []bool{false, true} {
		for k := 0; k < total/2; k++ {
			buf = append(buf, c02mutate(rng, seeds[rng.IntN(len(seeds))]))
			if len(buf) >= block {
				if !flush("P2", push) {
					return
				}
			}
		}
		if !flush("P2", push) {
			return
		}
	}
}

func c02mutate(rng *rand.Rand, s string) string {
	b := []byte(s)
	for n := 1 + rng.IntN(3); n > 0 && len(b) > 0; n-- {
		i := rng.IntN(len(b))
		switch rng.IntN(12) {
		case 0:
			b[i] ^= 1 << rng.IntN(8)
		case 1:
			b = append(b[:i], b[i+1:]...)
		case 2:
			b = append(b[:i], append([]byte{byte(rng.IntN(256))}, b[i:]...)...)
		case 3:
			b = b[:i]
		case 4:
			j := i + rng.IntN(len(b)-i)
			b = append(b[:j], append(append([]byte(nil), b[i:j]...), b[j:]...)...)
		case 5:
			ws := []string{" ", "\n", "\t", "\r"}[rng.IntN(4)]
			b = append(b[:i], append([]byte(ws), b[i:]...)...)
		case 6:
			tok := []string{`"`, `\`, `,`, `:`, `{`, `}`, `[`, `]`, `null`, `true`, `1e400`, `-`, `\u0000`, `\ud800`, "\xc3", "\xff"}[rng.IntN(16)]
			b = append(b[:i], append([]byte(tok), b[i:]...)...)
		case 7:
			depth := []int{3, 50, 12000}[rng.IntN(3)]
			b = []byte(strings.Repeat("[", depth) + string(b) + strings.Repeat("]", depth))
		case 8:
			b = []byte(strings.Replace(string(b), `"id":`, `"id":`+[]string{"[1]", "{}", "true", "1.0", `"1"`, "99999999999999999999"}[rng.IntN(6)]+`,"id2":`, 1))
		case 9:
			b = []byte(strings.Replace(string(b), `"jsonrpc":"2.0"`, []string{`"jsonrpc":"2.00"`, `"jsonrpc":2`, `"jsonrpc":"2.0","jsonrpc":"1.0"`, `"jsonrpc":"1.0","jsonrpc":"2.0"`}[rng.IntN(4)], 1))
		case 10:
			b = []byte(strings.Replace(string(b), `"method":"i"`, []string{`"method":"i","method":"nosuch"`, `"method":"nosuch","method":"i"`, `"method":"rpc.serverInfo"`, `"method":"rpc."`, `"method":"I"`}[rng.IntN(5)], 1))
		case 11:
			j := rng.IntN(len(b))
			b[i], b[j] = b[j], b[i]
		}
	}
	return string(b)
}
