package checks

import (
	"context"
	"encoding/json"
	"fmt"
	"sync"

	"github.com/creachadair/jrpc2"
	"github.com/creachadair/jrpc2/handler"

	"verif/harness/vt"
)

// Concurrent use of ONE handler value (C15: handler.New, C16: handler.NewPos).
// The statements say each call gets exactly the arguments decoded from ITS OWN
// params; handlers are shared by all in-flight requests of a server, so the
// claim must hold when calls overlap. Every call carries a unique number k in
// every argument; the function returns what it received; any mixture of two
// requests' values is a violation.

func concReq(params string) *jrpc2.Request {
	member := `,"params":` + params
	if params == "" {
		member = ""
	}
	rs, err := jrpc2.ParseRequests([]byte(`{"jsonrpc":"2.0","id":1,"method":"m"` + member + `}`))
	if err != nil || len(rs) != 1 || rs[0].Error != nil {
		panic(fmt.Sprintf("bad test params %s: %v", params, err))
	}
	return rs[0].ToRequest()
}

type concArgs struct {
	A int             `json:"a"`
	B string          `json:"b"`
	C []int           `json:"c"`
	D map[string]int  `json:"d"`
	E *concInner      `json:"e"`
	F json.RawMessage `json:"f"`
}

type concInner struct {
	X int `json:"x"`
}

func concWant(k int) string {
	return fmt.Sprintf(`%d|s%d|[%d %d]|map[k:%d]|%d|%d|ctx%d`, k, k, k, k+1, k, k, k, k)
}

type concCtxKey struct{}

// concCtx renders the number the call's own context carries.
func concCtx(ctx context.Context) string {
	k, _ := ctx.Value(concCtxKey{}).(int)
	return fmt.Sprintf("|ctx%d", k)
}

func concGot(a int, b string, c []int, d map[string]int, e *concInner, f json.RawMessage) string {
	x := -1
	if e != nil {
		x = e.X
	}
	return fmt.Sprintf(`%d|%s|%v|%v|%d|%s`, a, b, c, d, x, f)
}

func concRun(c *vt.Ctx, what string, h jrpc2.Handler, mkParams func(k int) string, goroutines, perG int) {
	var wg sync.WaitGroup
	var mu sync.Mutex
	bad := 0
	for g := 0; g < goroutines; g++ {
		wg.Add(1)
		go func(g int) {
			defer wg.Done()
			defer func() {
				if p := recover(); p != nil {
					c.Failf("%s: handler panicked under concurrent use: %v", what, p)
				}
			}()
			for i := 0; i < perG; i++ {
				k := g*1000000 + i
				v, err := h(context.WithValue(context.Background(), concCtxKey{}, k), concReq(mkParams(k)))
				got, _ := v.(string)
				if err != nil || got != concWant(k) {
					mu.Lock()
					bad++
					if bad <= 3 {
						c.Failf("%s: call with k=%d (params %s) made the function see %q (err %v); want %q — arguments of concurrent calls were mixed", what, k, mkParams(k), got, err, concWant(k))
					}
					mu.Unlock()
				}
			}
		}(g)
	}
	wg.Wait()
	c.Eval(goroutines * perG)
	c.Count("concurrent_calls", goroutines*perG)
}

func concArrayParams(k int) string {
	return fmt.Sprintf(`[%d,"s%d",[%d,%d],{"k":%d},{"x":%d},%d]`, k, k, k, k+1, k, k, k)
}

func concObjectParams(k int) string {
	return fmt.Sprintf(`{"a":%d,"b":"s%d","c":[%d,%d],"d":{"k":%d},"e":{"x":%d},"f":%d}`, k, k, k, k+1, k, k, k)
}

// c16picky is an argument type with its own UnmarshalJSON, which refuses one value with an
// error that carries a JSON-RPC code of its own: to the caller of the handler that is
// still "the params could not be decoded" - InvalidParams, function not called.
type c16picky string

func (p *c16picky) UnmarshalJSON(b []byte) error {
	var s string
	if err := json.Unmarshal(b, &s); err != nil {
		return err
	}
	if s == "mallory" {
		return jrpc2.Errorf(1404, "no such user %q", s)
	}
	*p = c16picky(s)
	return nil
}

type c16recv struct{ tag string }

func (r *c16recv) M(ctx context.Context, a int, b string) (string, error) {
	return fmt.Sprintf("%s:%d:%s", r.tag, a, b), nil
}

// c16siblings: function values that share their code - closures made by one function
// literal, one method bound to several receivers - are different functions; a handler
// built from one of them calls that one.
func c16siblings(c *vt.Ctx) {
	defer func() {
		if p := recover(); p != nil {
			c.Failf("siblings: panic: %v", p)
		}
	}()
	mk := func(tag string, calls *int) func(context.Context, int, string) (string, error) {
		return func(ctx context.Context, a int, b string) (string, error) {
			*calls++
			return fmt.Sprintf("%s:%d:%s", tag, a, b), nil
		}
	}
	const n = 4
	calls := make([]int, n)
	var hs []jrpc2.Handler
	for i := 0; i < n; i++ {
		hs = append(hs, handler.NewPos(mk(fmt.Sprintf("f%d", i), &calls[i]), "a", "b"))
	}
	for i := 0; i < n; i++ {
		hs = append(hs, handler.NewPos((&c16recv{tag: fmt.Sprintf("r%d", i)}).M, "a", "b"))
	}
	for round := 0; round < 2; round++ {
		for i, h := range hs {
			want := fmt.Sprintf("f%d:%d:x", i, i+10)
			if i >= n {
				want = fmt.Sprintf("r%d:%d:x", i-n, i+10)
			}
			for _, params := range []string{fmt.Sprintf(`[%d,"x"]`, i+10), fmt.Sprintf(`{"a":%d,"b":"x"}`, i+10)} {
				v, err := h(context.Background(), concReq(params))
				if got, _ := v.(string); err != nil || got != want {
					c.Failf("siblings: handler %d built from its own function value, params %s: got (%v, %v), want %q - another function value with the same code was called", i, params, v, err, want)
				}
				c.Eval(1)
			}
		}
	}
	for i := 0; i < n; i++ {
		if calls[i] != 4 {
			c.Failf("siblings: closure %d was called %d times, want 4", i, calls[i])
		}
	}
	// the picky argument type
	called := 0
	ph := handler.NewPos(func(ctx context.Context, who c16picky, k int) (string, error) {
		called++
		return string(who), nil
	}, "who", "k")
	for _, params := range []string{`["mallory",1]`, `{"who":"mallory","k":1}`, `{"who":"mallory"}`} {
		v, err := ph(context.Background(), concReq(params))
		if err == nil || jrpc2.ErrorCode(err) != jrpc2.InvalidParams {
			c.Failf("siblings: params %s, which the argument's own UnmarshalJSON refuses: got (%v, %v), want an InvalidParams error", params, v, err)
		}
		c.Eval(1)
	}
	if v, err := ph(context.Background(), concReq(`["alice",2]`)); err != nil || v != "alice" {
		c.Failf("siblings: params [\"alice\",2]: got (%v, %v)", v, err)
	}
	if called != 1 {
		c.Failf("siblings: the function with the picky argument was called %d times, want 1", called)
	}
	c.Distinct("siblings")
	c.Count("sibling_function_values_checked", 2*n)
}

func concCases(prop string) func(e vt.Env, yield func(vt.Case) bool) {
	return func(e vt.Env, yield func(vt.Case) bool) {
		gor, per := 8, e.Pick(1500, 20000)
		posFn := func(ctx context.Context, a int, b string, cc []int, d map[string]int, ee *concInner, f json.RawMessage) (string, error) {
			return concGot(a, b, cc, d, ee, f) + concCtx(ctx), nil
		}
		structFn := func(ctx context.Context, v concArgs) (string, error) {
			return concGot(v.A, v.B, v.C, v.D, v.E, v.F) + concCtx(ctx), nil
		}
		ptrFn := func(ctx context.Context, v *concArgs) (string, error) {
			return concGot(v.A, v.B, v.C, v.D, v.E, v.F) + concCtx(ctx), nil
		}
		// the signatures without a decoded argument: the function learns everything from its context / the request
		ctxOnlyFn := func(ctx context.Context) (string, error) {
			k, _ := ctx.Value(concCtxKey{}).(int)
			return concWant(k)[:len(concWant(k))-len(concCtx(ctx))] + concCtx(ctx), nil
		}
		reqFn := func(ctx context.Context, req *jrpc2.Request) (string, error) {
			var v concArgs
			if err := req.UnmarshalParams(&v); err != nil {
				return "", err
			}
			return concGot(v.A, v.B, v.C, v.D, v.E, v.F) + concCtx(ctx), nil
		}
		type item struct {
			id string
			h  func() jrpc2.Handler
			p  func(int) string
		}
		var items []item
		if prop == "C16" {
			items = []item{
				{"conc/NewPos/array", func() jrpc2.Handler { return handler.NewPos(posFn, "a", "b", "c", "d", "e", "f") }, concArrayParams},
				{"conc/NewPos/object", func() jrpc2.Handler { return handler.NewPos(posFn, "a", "b", "c", "d", "e", "f") }, concObjectParams},
			}
		} else {
			items = []item{
				{"conc/New/struct/object", func() jrpc2.Handler { return handler.New(structFn) }, concObjectParams},
				{"conc/New/struct/array", func() jrpc2.Handler { return handler.New(structFn) }, concArrayParams},
				{"conc/New/pointer/object", func() jrpc2.Handler { return handler.New(ptrFn) }, concObjectParams},
				{"conc/New/pointer/array", func() jrpc2.Handler { return handler.New(ptrFn) }, concArrayParams},
				{"conc/New/context-only", func() jrpc2.Handler { return handler.New(ctxOnlyFn) }, func(int) string { return "" }},
				{"conc/New/request", func() jrpc2.Handler { return handler.New(reqFn) }, concObjectParams},
			}
		}
		if prop == "C16" {
			if !yield(vt.Case{ID: "siblings/NewPos", Run: c16siblings}) {
				return
			}
		}
		for _, it := range items {
			it := it
			if !yield(vt.Case{ID: it.id, Run: func(c *vt.Ctx) {
				concRun(c, it.id, it.h(), it.p, gor, per)
				c.Distinct(it.id)
			}}) {
				return
			}
		}
	}
}

func init() {
	for _, prop := range []string{"C15", "C16"} {
		chk := vt.Lookup(prop)
		if chk == nil {
			panic("c16_conc.go must be initialised after " + prop)
		}
		old, extra := chk.Cases, concCases(prop)
		chk.Cases = func(e vt.Env, yield func(vt.Case) bool) {
			ok := true
			old(e, func(cs vt.Case) bool { ok = yield(cs); return ok })
			if ok {
				extra(e, yield)
			}
		}
		chk.Rule += "; plus concurrent use of one handler value: 8 goroutines x thousands of overlapping calls with a unique number in every argument (a mixture of two requests' values is a violation)"
		if chk.Require == nil {
			chk.Require = map[string]int64{}
		}
		chk.Require["concurrent_calls"] = 10000
	}
}
