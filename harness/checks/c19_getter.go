package checks

import (
	"bytes"
	"context"
	"encoding/json"
	"errors"
	"fmt"
	"net/http"
	"net/http/httptest"
	"sort"
	"strings"

	"github.com/creachadair/jrpc2"
	"github.com/creachadair/jrpc2/handler"
	"github.com/creachadair/jrpc2/jhttp"

	"verif/harness/peer"
	"verif/harness/sched"
	"verif/harness/vt"
)

// ---------------------------------------------------------------------------
// G: live Getter. Status mapping by cause:
//
//	200 + JSON result           the call succeeded
//	400 + JSON error object     the URL / query cannot be parsed
//	404 + JSON error object     method not found
//	500 + JSON                  any other failure
//
// The body is valid JSON in every case.
// ---------------------------------------------------------------------------

// c19assigner serves the Getter (and the equality workload of H): every
// method name is an echo of its parameters, except the few special names.
type c19assigner struct{}

type c19strictArg struct {
	X int `json:"x"`
}

var c19special = map[string]jrpc2.Handler{
	"missing": nil,
	"fail": func(context.Context, *jrpc2.Request) (any, error) {
		return nil, errors.New("plain failure <&>")
	},
	"rpcerr": func(_ context.Context, req *jrpc2.Request) (any, error) {
		return nil, (&jrpc2.Error{Code: 7, Message: "coded failure"}).WithData(map[string]any{"why": "<because>", "n": 1.50})
	},
	"inv": func(context.Context, *jrpc2.Request) (any, error) {
		return nil, jrpc2.Errorf(jrpc2.InvalidParams, "handler rejects its parameters")
	},
	"strict": handler.New(func(_ context.Context, a c19strictArg) (int, error) { return a.X + 1, nil }),
	"unmarshalable": func(context.Context, *jrpc2.Request) (any, error) {
		return peer.UnmarshalableResult{}, nil
	},
	"value": func(context.Context, *jrpc2.Request) (any, error) {
		return map[string]any{"s": "<a&b> é", "n": []any{1, 2.5, nil, true}, "o": map[string]any{}}, nil
	},
}

func c19echo(_ context.Context, req *jrpc2.Request) (any, error) {
	if !req.HasParams() {
		return nil, nil
	}
	return json.RawMessage(req.ParamString()), nil
}

func (c19assigner) Assign(_ context.Context, method string) jrpc2.Handler {
	if h, ok := c19special[method]; ok {
		return h
	}
	return c19echo
}

// c19do sends one request through the getter and checks what holds for
// every response: a status of the documented set and a JSON body.
func c19do(c *vt.Ctx, t c19tally, g http.Handler, req *http.Request, what string) (status int, body []byte, ok bool) {
	rec := httptest.NewRecorder()
	func() {
		defer func() {
			if p := recover(); p != nil {
				c.Failf("Getter.ServeHTTP panicked on %s: %v", what, p)
			}
		}()
		g.ServeHTTP(rec, req)
	}()
	c.Eval(1)
	t["getter_requests"]++
	status, body = rec.Code, rec.Body.Bytes()
	t[fmt.Sprintf("getter_status_%d", status)]++
	switch status {
	case 200, 400, 404, 500:
	default:
		c.Failf("Getter answered %s with status %d; the documented statuses are 200, 400, 404, 500", what, status)
		return status, body, false
	}
	if !json.Valid(body) {
		c.Failf("Getter answered %s with status %d and a body that is not valid JSON: %q", what, status, body)
		return status, body, false
	}
	return status, body, !c.Failed()
}

type c19errObj struct {
	Code    *int64          `json:"code"`
	Message *string         `json:"message"`
	Data    json.RawMessage `json:"data"`
}

// c19errorBody checks that body is a JSON-RPC error object and returns it.
func c19errorBody(c *vt.Ctx, body []byte, status int, what string) (c19errObj, bool) {
	var eo c19errObj
	dec := json.NewDecoder(bytes.NewReader(body))
	dec.DisallowUnknownFields()
	if err := dec.Decode(&eo); err != nil || eo.Code == nil {
		c.Failf("Getter answered %s with status %d; the body %q is not a JSON-RPC error object (code, message, data)", what, status, body)
		return eo, false
	}
	return eo, true
}

// c19getQ runs a Q input through a Getter that parses with ParseQuery and
// compares status and body with the reference verdict.
func c19getQ(c *vt.Ctx, t c19tally, g http.Handler, in c19input) {
	ex := c19reference(in)
	what := in.String()
	status, body, ok := c19do(c, t, g, in.request(), what)
	if !ok {
		return
	}
	switch status {
	case 400:
		if !ex.mayErr {
			c.Failf("Getter answered %s with 400 %s; the query is parsable by the documented rules: %s", what, body, c19want(ex))
			return
		}
		c19errorBody(c, body, status, what)
		c.Distinct("G:400:query")
	case 200:
		if ex.mustErr {
			c.Failf("Getter answered %s with 200 %s; the URL cannot be parsed (%s), want 400", what, body, c19want(ex))
			return
		}
		dec := json.NewDecoder(bytes.NewReader(body))
		dec.UseNumber()
		var back any
		if err := dec.Decode(&back); err != nil {
			c.Failf("Getter answered %s with 200 and undecodable body %q", what, body)
			return
		}
		m, _ := back.(map[string]any)
		if back != nil && m == nil || len(m) != len(ex.keys) {
			c.Failf("Getter answered %s with 200 %s; the echoed parameters should have keys %q", what, body, ex.keys)
			return
		}
		for _, k := range ex.keys {
			jv, present := m[k]
			match := false
			for _, o := range ex.outs[k] {
				if o.kind != c19Err && c19matchJSON(jv, present, o) {
					match = true
				}
			}
			if !match {
				c.Failf("Getter answered %s with 200 %s; parameter %q should be %s", what, body, k, c19outs(ex.outs[k]))
			}
		}
		c.Distinct("G:200:" + c19outKinds(ex))
	default:
		c.Failf("Getter answered %s with %d %s; an echo method can only give 200 or (unparsable URL) 400", what, status, body)
	}
}

type c19target struct {
	name   string
	basic  bool // use the default parser (ParseBasic)
	method string
	url    string
	ctx    func() context.Context
	status []int  // acceptable statuses
	code   *int64 // required error code, if any
	result string // required JSON result (compared as JSON values), if any
}

func c19code(v int64) *int64 { return &v }

func c19targets() []c19target {
	u := "http://h.invalid"
	cancelled := func() context.Context {
		ctx, cancel := context.WithCancel(context.Background())
		cancel()
		return ctx
	}
	return []c19target{
		{name: "ok/echo", url: u + "/echo?x=1&y=abc&z=true&n=null&b='aGk='&s=%22q%22", status: []int{200}, result: `{"x":1,"y":"abc","z":true,"n":null,"b":"aGk=","s":"q"}`},
		{name: "ok/basic", basic: true, url: u + "/echo?x=1&y=abc&z=%22q%22", status: []int{200}, result: `{"x":"1","y":"abc","z":"\"q\""}`},
		{name: "ok/noquery", url: u + "/echo", status: []int{200}, result: `null`},
		{name: "ok/basic-noquery", basic: true, url: u + "/echo", status: []int{200}},
		{name: "ok/slashes", url: u + "//some/method//?x=1", status: []int{200}, result: `{"x":1}`},
		{name: "ok/value", url: u + "/value", status: []int{200}, result: `{"s":"<a&b> é","n":[1,2.5,null,true],"o":{}}`},
		{name: "ok/strict", url: u + "/strict?x=41", status: []int{200}, result: `42`},
		{name: "ok/post", method: "POST", url: u + "/echo?x=1", status: []int{200}, result: `{"x":1}`},
		{name: "ok/number-beyond-float64", url: u + "/echo?x=-" + strings.Repeat("7", 400) + "&y=1" + strings.Repeat("0", 310) + ".5", status: []int{200},
			result: `{"x":"-` + strings.Repeat("7", 400) + `","y":"1` + strings.Repeat("0", 310) + `.5"}`},
		{name: "ok/number-largest-float64", url: u + "/echo?x=1" + strings.Repeat("0", 308), status: []int{200}, result: `{"x":1e+308}`},
		{name: "400/missing-dquote", url: u + "/echo?x=%22abc", status: []int{400}},
		{name: "400/bad-json-string", url: u + "/echo?x=%22a%5Cxb%22", status: []int{400}},
		{name: "400/bad-base64", url: u + "/echo?x='a-b*'", status: []int{400}},
		{name: "400/empty-path", url: u + "/?x=1", status: []int{400}},
		{name: "400/empty-path-basic", basic: true, url: u + "/?x=1", status: []int{400}},
		{name: "400/no-path", url: u + "?x=1", status: []int{400}},
		{name: "400/slashes-only", url: u + "/%2F/?x=1", status: []int{400}},
		{name: "400/bad-escape", url: u + "/echo?x=%zz", status: []int{400}},
		{name: "400/bad-escape-basic", basic: true, url: u + "/echo?x=%zz", status: []int{400}},
		{name: "400/semicolon", url: u + "/echo?x=1;y=2", status: []int{400}},
		{name: "404/missing", url: u + "/missing?x=1", status: []int{404}, code: c19code(-32601)},
		{name: "404/missing-basic", basic: true, url: u + "/missing", status: []int{404}, code: c19code(-32601)},
		{name: "404/missing-noparams", url: u + "/missing", status: []int{404}, code: c19code(-32601)},
		{name: "500/fail", url: u + "/fail?x=1", status: []int{500}},
		{name: "500/rpcerr", url: u + "/rpcerr", status: []int{500}, code: c19code(7)},
		{name: "500/invalid-params-from-handler", url: u + "/inv?x=1", status: []int{500}, code: c19code(-32602)},
		{name: "500/invalid-params-type", url: u + "/strict?x=abc", status: []int{500}, code: c19code(-32602)},
		{name: "500/invalid-params-type-basic", basic: true, url: u + "/strict?x=1", status: []int{500}, code: c19code(-32602)},
		{name: "500/unmarshalable-result", url: u + "/unmarshalable", status: []int{500}},
		{name: "any/cancelled-context", url: u + "/echo?x=1", ctx: cancelled, status: []int{200, 500}},
	}
}

func c19newGetter(basic bool) jhttp.Getter {
	if basic {
		return jhttp.NewGetter(c19assigner{}, nil)
	}
	return jhttp.NewGetter(c19assigner{}, &jhttp.GetterOptions{ParseRequest: jhttp.ParseQuery})
}

func c19runTargets(c *vt.Ctx, t c19tally, gq, gb jhttp.Getter) {
	for _, tg := range c19targets() {
		g := gq
		if tg.basic {
			g = gb
		}
		m := tg.method
		if m == "" {
			m = "GET"
		}
		req := httptest.NewRequest(m, tg.url, nil)
		if tg.ctx != nil {
			req = req.WithContext(tg.ctx())
		}
		what := fmt.Sprintf("%s %s (%s)", m, tg.url, tg.name)
		status, body, ok := c19do(c, t, g, req, what)
		if !ok {
			continue
		}
		okStatus := false
		for _, s := range tg.status {
			okStatus = okStatus || s == status
		}
		if !okStatus {
			c.Failf("Getter answered %s with status %d %s; want %v", what, status, body, tg.status)
			continue
		}
		c.Distinct(fmt.Sprintf("G:%d:%s", status, tg.name))
		if status != 200 && len(tg.status) == 1 {
			eo, ok := c19errorBody(c, body, status, what)
			if ok && tg.code != nil && *eo.Code != *tg.code {
				c.Failf("Getter answered %s with status %d and error code %d, want code %d", what, status, *eo.Code, *tg.code)
			}
			if ok && status == 400 && (eo.Message == nil || *eo.Message == "") {
				c.Failf("Getter answered %s with 400 and an error object without a message: %s", what, body)
			}
		}
		if status == 200 && tg.result != "" && !c19jsonEqual(body, []byte(tg.result)) {
			c.Failf("Getter answered %s with 200 %s; want the result %s", what, body, tg.result)
		}
	}
}

// c19canon renders a JSON text canonically (object keys sorted, number text
// preserved, no HTML escaping differences).
func c19canon(b []byte) string {
	if len(bytes.TrimSpace(b)) == 0 {
		return ""
	}
	dec := json.NewDecoder(bytes.NewReader(b))
	dec.UseNumber()
	var v any
	if err := dec.Decode(&v); err != nil {
		return "!" + string(b)
	}
	var sb strings.Builder
	c19canonTo(&sb, v)
	return sb.String()
}

func c19canonTo(sb *strings.Builder, v any) {
	switch x := v.(type) {
	case map[string]any:
		keys := make([]string, 0, len(x))
		for k := range x {
			keys = append(keys, k)
		}
		sort.Strings(keys)
		sb.WriteByte('{')
		for i, k := range keys {
			if i > 0 {
				sb.WriteByte(',')
			}
			fmt.Fprintf(sb, "%q:", k)
			c19canonTo(sb, x[k])
		}
		sb.WriteByte('}')
	case []any:
		sb.WriteByte('[')
		for i, e := range x {
			if i > 0 {
				sb.WriteByte(',')
			}
			c19canonTo(sb, e)
		}
		sb.WriteByte(']')
	case string:
		fmt.Fprintf(sb, "%q", x)
	case json.Number:
		sb.WriteString(string(x))
	case nil:
		sb.WriteString("null")
	default:
		fmt.Fprint(sb, x)
	}
}

func c19jsonEqual(a, b []byte) bool { return c19canon(a) == c19canon(b) }

func c19casesG(e vt.Env, yield func(vt.Case) bool) bool {
	K := c19K(e)
	A := c19alphaX
	// G/s: every 97th input of the exhaustive Q enumeration, 14 prefix blocks
	// per case, plus a share of the seeded values.
	const group = 14
	nblocks := len(A) * len(A)
	for g0 := 0; g0 < nblocks; g0 += group {
		g0 := g0
		id := fmt.Sprintf("G/s/K%d/%d", K, g0/group)
		if !yield(vt.Case{ID: id, Run: func(c *vt.Ctx) {
			g := c19newGetter(false)
			t := c19tally{}
			for b := g0; b < g0+group && b < nblocks; b++ {
				i, j := b/len(A), b%len(A)
				n := (i+1)*len(A) + j
				c19block(K, i, j, func(syms []string) {
					if n%97 == 0 && !c.Failed() {
						c19getQ(c, t, g, c19mkInput(strings.Join(syms, ""), n))
					}
					n++
				})
			}
			rng := e.Rand("C19/" + id)
			for n := 0; n < 60 && !c.Failed(); n++ {
				_, v := c19grammar(rng)
				c19getQ(c, t, g, c19mkInput(v, n*13+g0))
			}
			rngH := e.Rand("C19/huge/" + id)
			for n := 0; n < 8 && !c.Failed(); n++ {
				_, v := c19huge(rngH)
				c19getQ(c, t, g, c19mkInput(v, n*7+g0))
				t["getter_huge_numbers"]++
			}
			if err := g.Close(); err != nil {
				c.Failf("Getter.Close: %v", err)
			}
			t.flush(c)
		}}) {
			return false
		}
	}
	// G/m: multi-key pool through the getter.
	if !yield(vt.Case{ID: "G/m", Run: func(c *vt.Ctx) {
		g := c19newGetter(false)
		t := c19tally{}
		pool := c19pool()
		n := 0
		for a, va := range pool {
			for b, vb := range pool {
				if (a+b)%3 != 0 {
					continue
				}
				for _, in := range c19multi(va, vb, n) {
					if !c.Failed() {
						c19getQ(c, t, g, in)
					}
					n++
				}
			}
		}
		for _, in := range c19malformed() {
			c19getQ(c, t, g, in)
		}
		for _, p := range c19pathList {
			c19getQ(c, t, g, c19input{path: p, query: []c19pair{{"x", "1"}}})
			c19getQ(c, t, g, c19input{path: p})
		}
		g.Close()
		t.flush(c)
	}}) {
		return false
	}
	// G/t: targeted requests, one cause each; once in real time and once in a
	// bubble, where closing the getter must leave no goroutine behind.
	if !yield(vt.Case{ID: "G/t/real", Run: func(c *vt.Ctx) {
		t := c19tally{}
		gq, gb := c19newGetter(false), c19newGetter(true)
		c19runTargets(c, t, gq, gb)
		if err := gq.Close(); err != nil {
			c.Failf("Getter.Close: %v", err)
		}
		if err := gb.Close(); err != nil {
			c.Failf("Getter.Close: %v", err)
		}
		t.flush(c)
	}}) {
		return false
	}
	if !yield(vt.Case{ID: "G/options", Run: c19getterOptions}) {
		return false
	}
	return yield(vt.Case{ID: "G/t/bubble", Run: func(c *vt.Ctx) {
		t := c19tally{}
		peer.Bubble(c, sched.New(), func() {
			gq, gb := c19newGetter(false), c19newGetter(true)
			c19runTargets(c, t, gq, gb)
			gq.Close()
			gb.Close()
		})
		t.flush(c)
	}})
}

// c19getterOptions: the server options handed to a Getter (and to a Bridge's GET side)
// are the options of the server it runs: with DisableBuiltin the rpc.* names are ordinary
// methods of the assigner, without it they are withheld; each GET is still one call.
func c19getterOptions(c *vt.Ctx) {
	asg := handler.Map{
		"rpc.status":     jrpc2.Handler(func(context.Context, *jrpc2.Request) (any, error) { return "mine:status", nil }),
		"rpc.serverInfo": jrpc2.Handler(func(context.Context, *jrpc2.Request) (any, error) { return "mine:serverInfo", nil }),
		"plain":          jrpc2.Handler(func(context.Context, *jrpc2.Request) (any, error) { return "mine:plain", nil }),
	}
	get := func(h http.Handler, path string) (int, string) {
		rec := httptest.NewRecorder()
		h.ServeHTTP(rec, httptest.NewRequest("GET", "http://h.invalid"+path, nil))
		return rec.Code, strings.TrimSpace(rec.Body.String())
	}
	type want struct {
		path   string
		status int
		body   string // "" = any valid JSON
	}
	run := func(what string, h http.Handler, wants []want) {
		for _, w := range wants {
			code, body := get(h, w.path)
			if code != w.status || !json.Valid([]byte(body)) || (w.body != "" && body != w.body) {
				c.Failf("G/options %s: GET %s answered %d %q, want %d %s", what, w.path, code, body, w.status, map[bool]string{true: "with valid JSON", false: w.body}[w.body == ""])
			}
			c.Eval(1)
			c.Count("getter_option_requests", 1)
		}
	}
	disabled := []want{{"/rpc.status", 200, `"mine:status"`}, {"/rpc.serverInfo", 200, `"mine:serverInfo"`}, {"/plain", 200, `"mine:plain"`}, {"/rpc.other", 404, ""}}
	enabled := []want{{"/rpc.status", 404, ""}, {"/plain", 200, `"mine:plain"`}, {"/rpc.other", 404, ""}}
	g1 := jhttp.NewGetter(asg, &jhttp.GetterOptions{Server: &jrpc2.ServerOptions{DisableBuiltin: true}})
	run("Getter with DisableBuiltin", g1, disabled)
	g1.Close()
	g2 := jhttp.NewGetter(asg, &jhttp.GetterOptions{Server: &jrpc2.ServerOptions{}})
	run("Getter with built-ins", g2, enabled)
	if code, body := get(g2, "/rpc.serverInfo"); code != 200 || !strings.HasPrefix(body, "{") {
		c.Failf("G/options Getter with built-ins: GET /rpc.serverInfo answered %d %q, want 200 with the built-in's object", code, body)
	}
	g2.Close()
	b1 := jhttp.NewBridge(asg, &jhttp.BridgeOptions{Server: &jrpc2.ServerOptions{DisableBuiltin: true}, ParseGETRequest: jhttp.ParseQuery})
	run("Bridge GET side with DisableBuiltin", b1, disabled)
	b1.Close()
	c.Distinct("G/options")
}
