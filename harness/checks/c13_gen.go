package checks

import (
	"encoding/json"
	"errors"
	"fmt"
	"math"
	"math/big"
	"math/rand/v2"
	"strconv"
	"strings"
	"unicode/utf8"

	"github.com/creachadair/jrpc2"
)

// C13 workload generator: method names, JSON value trees, their Go-side
// representations (what is handed to the library) and their raw pre-encoded
// renderings, plus the comparison of a generated tree with a value decoded
// from the wire. Nothing in this file looks at the code under test.

// c13val is a generated JSON value: the ground truth an emitted message must
// parse back to.
type c13val struct {
	k     byte      // 'o' object, 'a' array, 's' string, 'n' exact decimal number, 'f' float64, 'b' bool, 'z' null
	keys  []string  // 'o': distinct keys, parallel to elems
	elems []*c13val // 'o', 'a'
	s     string    // 's': the string; 'n': the decimal text (a valid JSON number)
	nat   any       // 'n': native Go form handed to the library (int64, uint64, *big.Int, json.Number)
	f     float64   // 'f'
	b     bool      // 'b'
	nasty bool      // contains something a plain ASCII test would not
}

// c13gen wraps the PRNG of one block.
type c13gen struct{ rng *rand.Rand }

var c13emoji = []rune{0x1F600, 0x1F4A9, 0x1F1E9, 0x1F468, 0x200D, 0x1D11E, 0x10000, 0x10FFFF, 0xE0001, 0xFFFFF}

// rune draws one code point from the nasty alphabet (never a surrogate).
func (g c13gen) rune() rune {
	r := g.rng
	switch r.IntN(20) {
	case 0, 1, 2, 3, 4:
		return rune("abcdefghijklmnopqrstuvwxyzABCDEFGHIJKLMNOPQRSTUVWXYZ0123456789._-/ "[r.IntN(67)])
	case 5:
		return []rune{'"', '\\', '/', '\'', '`'}[r.IntN(5)]
	case 6, 7:
		return rune(r.IntN(0x20)) // U+0000 - U+001F
	case 8:
		return []rune{0x7F, 0x80, 0x85, 0x9F, 0xA0, 0xAD}[r.IntN(6)]
	case 9:
		return rune("<>&=;%+#{}[]:,"[r.IntN(14)])
	case 10:
		return []rune{0x2028, 0x2029, 0xFEFF, 0xFFFD, 0xFFFE, 0xFFFF, 0x200B, 0x202E, 0x0301}[r.IntN(9)]
	case 11:
		return rune(0xA1 + r.IntN(0x5F)) // Latin-1
	case 12, 13:
		for {
			c := rune(0x100 + r.IntN(0xFFFF-0x100))
			if c < 0xD800 || c > 0xDFFF {
				return c
			}
		}
	case 14:
		return []rune{0xD7FF, 0xE000, 0x7FF, 0x800, 0x3042, 0x4E2D, 0x05D0, 0x0627}[r.IntN(8)]
	case 15, 16:
		return c13emoji[r.IntN(len(c13emoji))]
	case 17:
		return rune(0x10000 + r.IntN(0x100000))
	default:
		return rune(0x20 + r.IntN(0x5F)) // printable ASCII
	}
}

// str draws a valid-UTF-8 string. Most are short; some are long; a few are
// very long.
func (g c13gen) str(allowHuge bool) string {
	r := g.rng
	n := r.IntN(13)
	switch p := r.IntN(1000); {
	case p < 40:
		n = 100 + r.IntN(1900)
	case p < 41 && allowHuge:
		n = 20000 + r.IntN(50000)
	case p < 200:
		n = 1 + r.IntN(3)
	}
	var sb strings.Builder
	for i := 0; i < n; i++ {
		sb.WriteRune(g.rune())
	}
	return sb.String()
}

// method draws a non-empty method name that does not start with "rpc.".
func (g c13gen) method() string {
	for {
		s := g.str(true)
		if s != "" && !strings.HasPrefix(s, "rpc.") {
			return s
		}
	}
}

func c13nastyString(s string) bool {
	for _, c := range s {
		if !(c >= 'a' && c <= 'z' || c >= 'A' && c <= 'Z' || c >= '0' && c <= '9' || c == '.' || c == '_') {
			return true
		}
	}
	return false
}

// number draws an exact decimal number.
func (g c13gen) number() *c13val {
	r := g.rng
	v := &c13val{k: 'n'}
	switch r.IntN(10) {
	case 0, 1:
		n := int64(r.IntN(2001) - 1000)
		v.s, v.nat = strconv.FormatInt(n, 10), n
	case 2, 3:
		n := int64(r.Uint64()) // full int64 range, mostly beyond 2^53
		v.s, v.nat, v.nasty = strconv.FormatInt(n, 10), n, true
	case 4:
		n := r.Uint64() | 1<<63
		v.s, v.nat, v.nasty = strconv.FormatUint(n, 10), n, true
	case 5:
		b := new(big.Int).SetUint64(r.Uint64())
		for i := r.IntN(3); i >= 0; i-- {
			b.Lsh(b, 64).Or(b, new(big.Int).SetUint64(r.Uint64()))
		}
		if r.IntN(2) == 0 {
			b.Neg(b)
		}
		v.s, v.nat, v.nasty = b.String(), b, true
	case 6:
		// 2^53 neighbourhood
		n := int64(1)<<53 + int64(r.IntN(5)) - 2
		if r.IntN(2) == 0 {
			n = -n
		}
		v.s, v.nat, v.nasty = strconv.FormatInt(n, 10), json.Number(strconv.FormatInt(n, 10)), true
	case 7:
		// decimal fraction with more digits than a float64 holds
		s := strconv.FormatInt(int64(r.IntN(100000)), 10) + "." + strconv.FormatUint(r.Uint64(), 10) + strconv.FormatUint(r.Uint64(), 10)
		if r.IntN(2) == 0 {
			s = "-" + s
		}
		v.s, v.nat, v.nasty = s, json.Number(s), true
	case 8:
		// exponent forms, beyond the float64 range
		s := strconv.FormatInt(int64(1+r.IntN(99)), 10)
		if r.IntN(2) == 0 {
			s += "." + strconv.FormatInt(int64(r.IntN(1000)), 10)
		}
		s += []string{"e", "E", "e+", "E+", "e-", "E-"}[r.IntN(6)] + strconv.Itoa(r.IntN(400))
		v.s, v.nat, v.nasty = s, json.Number(s), true
	default:
		s := []string{"0", "-0", "0.0", "-0.0", "1.0", "0e0", "1E2", "100", "0.10", "-1e-0", "18446744073709551616", "9007199254740993", "-9223372036854775809", "0.1e1"}[r.IntN(14)]
		v.s, v.nat, v.nasty = s, json.Number(s), true
	}
	return v
}

func (g c13gen) float() *c13val {
	r := g.rng
	v := &c13val{k: 'f', nasty: true}
	switch r.IntN(4) {
	case 0:
		v.f = []float64{0, math.Copysign(0, -1), 1, -1, 0.1, 1e21, 1e20, 1e-6, 1e-7, math.MaxFloat64, math.SmallestNonzeroFloat64, -math.MaxFloat64, 9007199254740993, 1 << 63, math.Pi, 5e-324, 2.2250738585072014e-308, 123456789.125}[r.IntN(18)]
	case 1:
		v.f = r.NormFloat64() * math.Pow(10, float64(r.IntN(40)-20))
	default:
		for {
			v.f = math.Float64frombits(r.Uint64())
			if !math.IsNaN(v.f) && !math.IsInf(v.f, 0) {
				break
			}
		}
	}
	return v
}

// value draws a JSON value of nesting depth at most depth. If structured, the
// top level is an object or an array.
func (g c13gen) value(depth int, structured bool) *c13val {
	r := g.rng
	budget := 40
	var rec func(d int, structured bool) *c13val
	rec = func(d int, structured bool) *c13val {
		budget--
		k := r.IntN(10)
		if structured {
			k = r.IntN(2)
		} else if d <= 1 || budget <= 0 {
			k = 2 + r.IntN(8)
		}
		switch k {
		case 0: // object
			v := &c13val{k: 'o'}
			n := r.IntN(5)
			if d <= 1 {
				n = 0
			}
			seen := map[string]bool{}
			for i := 0; i < n && budget > 0; i++ {
				key := g.str(false)
				if seen[key] {
					key += "#" + strconv.Itoa(i)
				}
				if seen[key] {
					continue
				}
				seen[key] = true
				e := rec(d-1, false)
				v.keys = append(v.keys, key)
				v.elems = append(v.elems, e)
				v.nasty = v.nasty || e.nasty || c13nastyString(key)
			}
			return v
		case 1: // array
			v := &c13val{k: 'a'}
			n := r.IntN(5)
			if d <= 1 {
				n = 0
			}
			for i := 0; i < n && budget > 0; i++ {
				e := rec(d-1, false)
				v.elems = append(v.elems, e)
				v.nasty = v.nasty || e.nasty
			}
			return v
		case 2, 3, 4:
			s := g.str(d >= 5)
			return &c13val{k: 's', s: s, nasty: c13nastyString(s)}
		case 5, 6:
			return g.number()
		case 7:
			return g.float()
		case 8:
			return &c13val{k: 'b', b: r.IntN(2) == 0}
		default:
			return &c13val{k: 'z'}
		}
	}
	return rec(depth, structured)
}

// c13marshaler is a json.Marshaler whose output is pre-encoded text with
// arbitrary inner whitespace.
type c13marshaler struct{ text string }

func (m c13marshaler) MarshalJSON() ([]byte, error) { return []byte(m.text), nil }

// ws draws insignificant whitespace (often with line breaks).
func (g c13gen) ws() string {
	return []string{"", "", " ", "\n", "\t", "\r\n", "  ", "\n\n ", " \t\r\n "}[g.rng.IntN(9)]
}

// renderString encodes s as a JSON string, choosing per character between
// the raw form and the available escapes.
func (g c13gen) renderString(sb *strings.Builder, s string, plain bool) {
	r := g.rng
	sb.WriteByte('"')
	for _, c := range s {
		esc := !plain && r.IntN(6) == 0
		switch {
		case c == '"' || c == '\\':
			if esc {
				fmt.Fprintf(sb, `\u%04x`, c)
			} else {
				sb.WriteByte('\\')
				sb.WriteRune(c)
			}
		case c < 0x20:
			short := map[rune]string{'\n': `\n`, '\t': `\t`, '\r': `\r`, '\b': `\b`, '\f': `\f`}[c]
			if short != "" && !esc {
				sb.WriteString(short)
			} else if r.IntN(2) == 0 {
				fmt.Fprintf(sb, `\u%04x`, c)
			} else {
				fmt.Fprintf(sb, `\u%04X`, c)
			}
		case c == '/' && esc:
			sb.WriteString(`\/`)
		case esc && c < 0x10000:
			fmt.Fprintf(sb, `\u%04x`, c)
		case esc:
			c -= 0x10000
			fmt.Fprintf(sb, `\u%04x\u%04X`, 0xD800+(c>>10), 0xDC00+(c&0x3FF))
		default:
			sb.WriteRune(c)
		}
	}
	sb.WriteByte('"')
}

// render writes v as JSON text. With spaced it inserts arbitrary whitespace
// (including newlines) between tokens and uses escape variants in strings.
func (g c13gen) render(sb *strings.Builder, v *c13val, spaced bool) {
	sp := func() {
		if spaced {
			sb.WriteString(g.ws())
		}
	}
	switch v.k {
	case 'o':
		sb.WriteByte('{')
		sp()
		for i, k := range v.keys {
			if i > 0 {
				sb.WriteByte(',')
				sp()
			}
			g.renderString(sb, k, !spaced)
			sp()
			sb.WriteByte(':')
			sp()
			g.render(sb, v.elems[i], spaced)
			sp()
		}
		sb.WriteByte('}')
	case 'a':
		sb.WriteByte('[')
		sp()
		for i, e := range v.elems {
			if i > 0 {
				sb.WriteByte(',')
				sp()
			}
			g.render(sb, e, spaced)
			sp()
		}
		sb.WriteByte(']')
	case 's':
		g.renderString(sb, v.s, !spaced)
	case 'n':
		sb.WriteString(v.s)
	case 'f':
		if spaced && g.rng.IntN(2) == 0 {
			sb.WriteString(strconv.FormatFloat(v.f, 'e', -1, 64))
		} else {
			sb.WriteString(strconv.FormatFloat(v.f, 'g', -1, 64))
		}
	case 'b':
		sb.WriteString(strconv.FormatBool(v.b))
	default:
		sb.WriteString("null")
	}
}

// raw renders v as pre-encoded JSON with inner whitespace; structured values
// always get at least one line break inside.
func (g c13gen) raw(v *c13val) string {
	var sb strings.Builder
	g.render(&sb, v, true)
	s := sb.String()
	if (v.k == 'o' || v.k == 'a') && !strings.ContainsAny(s, "\n") {
		s = s[:1] + "\n" + s[1:]
	}
	return s
}

// plain renders v compactly (what the harness's raw peer puts into a request).
func (g c13gen) plain(v *c13val) string {
	var sb strings.Builder
	g.render(&sb, v, false)
	return sb.String()
}

// goValue converts v into a Go value for the library, choosing among native
// containers, pre-encoded json.RawMessage and a json.Marshaler per node.
// usedRaw is set if some node was handed over pre-encoded.
func (g c13gen) goValue(v *c13val, top bool, usedRaw *bool) any {
	r := g.rng
	if v == nil {
		return nil
	}
	p := r.IntN(100)
	if top && (v.k == 'o' || v.k == 'a') {
		p = r.IntN(40) // top-level containers are pre-encoded more often
	}
	switch {
	case p < 10 && v.k != 'z' || p < 3:
		*usedRaw = true
		return json.RawMessage(g.raw(v))
	case p < 14 && v.k != 'z':
		*usedRaw = true
		return c13marshaler{g.raw(v)}
	case p < 16 && v.k != 'z':
		*usedRaw = true
		m := json.RawMessage(g.raw(v))
		return &m
	}
	switch v.k {
	case 'o':
		if r.IntN(8) == 0 {
			m := map[string]json.RawMessage{}
			for i, k := range v.keys {
				m[k] = json.RawMessage(g.raw(v.elems[i]))
			}
			*usedRaw = *usedRaw || len(m) > 0
			return m
		}
		m := make(map[string]any, len(v.keys))
		for i, k := range v.keys {
			m[k] = g.goValue(v.elems[i], false, usedRaw)
		}
		return m
	case 'a':
		a := make([]any, len(v.elems))
		for i, e := range v.elems {
			a[i] = g.goValue(e, false, usedRaw)
		}
		return a
	case 's':
		return v.s
	case 'n':
		return v.nat
	case 'f':
		return v.f
	case 'b':
		return v.b
	}
	return nil
}

// c13decode decodes raw JSON with the generic decoder (numbers kept as text).
func c13decode(raw []byte) (any, error) {
	dec := json.NewDecoder(strings.NewReader(string(raw)))
	dec.UseNumber()
	var v any
	if err := dec.Decode(&v); err != nil {
		return nil, err
	}
	if dec.More() {
		return nil, errors.New("trailing data after the JSON value")
	}
	return v, nil
}

func c13rat(s string) (*big.Rat, bool) {
	return new(big.Rat).SetString(s)
}

func c13short(s string) string {
	if len(s) > 120 {
		return fmt.Sprintf("%q...(%d bytes)", s[:120], len(s))
	}
	return strconv.Quote(s)
}

// c13match compares a decoded value with the generated tree. It returns ""
// if they are JSON-equal, else a description of the first difference.
func c13match(v *c13val, got any, path string) string {
	switch v.k {
	case 'o':
		m, ok := got.(map[string]any)
		if !ok {
			return fmt.Sprintf("%s: want an object, got %T", path, got)
		}
		if len(m) != len(v.keys) {
			return fmt.Sprintf("%s: want an object with %d keys, got %d", path, len(v.keys), len(m))
		}
		for i, k := range v.keys {
			e, ok := m[k]
			if !ok {
				return fmt.Sprintf("%s: key %s missing", path, c13short(k))
			}
			if d := c13match(v.elems[i], e, path+"."+c13short(k)); d != "" {
				return d
			}
		}
	case 'a':
		a, ok := got.([]any)
		if !ok {
			return fmt.Sprintf("%s: want an array, got %T", path, got)
		}
		if len(a) != len(v.elems) {
			return fmt.Sprintf("%s: want an array of %d, got %d", path, len(v.elems), len(a))
		}
		for i, e := range v.elems {
			if d := c13match(e, a[i], fmt.Sprintf("%s[%d]", path, i)); d != "" {
				return d
			}
		}
	case 's':
		s, ok := got.(string)
		if !ok {
			return fmt.Sprintf("%s: want a string, got %T", path, got)
		}
		if s != v.s {
			return fmt.Sprintf("%s: want string %s, got %s", path, c13short(v.s), c13short(s))
		}
	case 'n':
		n, ok := got.(json.Number)
		if !ok {
			return fmt.Sprintf("%s: want number %s, got %T", path, v.s, got)
		}
		if n.String() != v.s {
			a, ok1 := c13rat(v.s)
			b, ok2 := c13rat(n.String())
			if !ok1 || !ok2 || a.Cmp(b) != 0 {
				return fmt.Sprintf("%s: want number %s, got %s", path, v.s, n.String())
			}
		}
	case 'f':
		n, ok := got.(json.Number)
		if !ok {
			return fmt.Sprintf("%s: want number %v, got %T", path, v.f, got)
		}
		f, err := strconv.ParseFloat(n.String(), 64)
		if err != nil || f != v.f {
			return fmt.Sprintf("%s: want float64 %v, got %s", path, strconv.FormatFloat(v.f, 'g', -1, 64), n.String())
		}
	case 'b':
		b, ok := got.(bool)
		if !ok || b != v.b {
			return fmt.Sprintf("%s: want %v, got %v", path, v.b, got)
		}
	default:
		if got != nil {
			return fmt.Sprintf("%s: want null, got %v", path, got)
		}
	}
	return ""
}

// c13matchRaw decodes raw and compares it with v.
func c13matchRaw(v *c13val, raw []byte, path string) string {
	got, err := c13decode(raw)
	if err != nil {
		return fmt.Sprintf("%s: cannot decode %s: %v", path, c13short(string(raw)), err)
	}
	return c13match(v, got, path)
}

// c13errSpec is a generated error object.
type c13errSpec struct {
	kind byte // 'E' *jrpc2.Error literal, 'W' Errorf(...).WithData(v), 'P' plain error
	code int32
	msg  string
	data *c13val // nil: no data
}

func (g c13gen) errSpec() *c13errSpec {
	r := g.rng
	e := &c13errSpec{kind: "EEWP"[r.IntN(4)]}
	switch r.IntN(5) {
	case 0:
		e.code = []int32{0, 1, -1, 7, math.MaxInt32, math.MinInt32, -32700, -32600, -32601, -32602, -32603, -32000, -32099, -32098, -32097, -32096, -32768, 32767}[r.IntN(18)]
	default:
		e.code = int32(r.Uint32())
	}
	e.msg = g.str(true)
	if r.IntN(12) == 0 {
		e.msg = ""
	}
	if e.kind != 'P' && r.IntN(4) != 0 {
		e.data = g.value(4, false)
	}
	if e.kind == 'P' {
		if e.msg == "" {
			e.msg = "x"
		}
	}
	return e
}

// goError builds the error value a handler returns for e.
func (g c13gen) goError(e *c13errSpec, usedRaw *bool) error {
	switch e.kind {
	case 'P':
		return errors.New(e.msg)
	case 'W':
		je := &jrpc2.Error{Code: jrpc2.Code(e.code), Message: e.msg}
		if e.data != nil && e.data.k != 'z' {
			return je.WithData(g.goValue(e.data, true, usedRaw))
		}
		if e.data != nil {
			je.Data = json.RawMessage("null")
		}
		return je
	default:
		je := &jrpc2.Error{Code: jrpc2.Code(e.code), Message: e.msg}
		if e.data != nil {
			*usedRaw = true
			je.Data = json.RawMessage(g.raw(e.data))
		}
		return je
	}
}

// c13item is one generated workload value: a method name with parameters and
// the outcome its handler produces.
type c13item struct {
	n       int
	method  string
	params  *c13val // nil: no parameters
	result  *c13val // outcome if err == nil
	err     *c13errSpec
	unknown bool // the method is not registered (the server answers -32601)
	broken  bool // the raw peer adds an unknown member (the server answers -32600)
}

func (it *c13item) nontrivial() bool {
	return c13nastyString(it.method) || it.params != nil && it.params.nasty ||
		it.result != nil && it.result.nasty || it.err != nil && (c13nastyString(it.err.msg) || it.err.data != nil)
}

// items draws n workload values with pairwise distinct method names.
func (g c13gen) items(n int) []*c13item {
	seen := map[string]bool{}
	out := make([]*c13item, 0, n)
	for i := 0; i < n; i++ {
		it := &c13item{n: i}
		it.method = g.method()
		for tries := 0; seen[it.method]; tries++ {
			if tries < 3 {
				it.method = g.method()
			} else {
				it.method += "#" + strconv.Itoa(i)
			}
		}
		seen[it.method] = true
		if g.rng.IntN(8) != 0 {
			it.params = g.value(6, true)
		}
		switch p := g.rng.IntN(20); {
		case p < 6:
			it.err = g.errSpec()
		case p == 6:
			it.unknown = true
		case p == 7:
			it.broken = true
			it.result = g.value(6, false) // what the handler returns where the extra member is not sent
		default:
			it.result = g.value(6, false)
		}
		out = append(out, it)
	}
	return out
}

// rawID draws the text of a JSON id for the harness's raw peer; ids with
// different n denote different values.
func (g c13gen) rawID(n int) string {
	r := g.rng
	d := strconv.Itoa(n + 1)
	switch r.IntN(8) {
	case 0, 1:
		return d
	case 2:
		return "-" + d
	case 3:
		return d + ".25"
	case 4:
		return d + ".5e0"
	case 5:
		return "9007199254740993" + fmt.Sprintf("%07d", n)
	default:
		var sb strings.Builder
		g.renderString(&sb, g.str(false)+"#"+d, r.IntN(2) == 0)
		return sb.String()
	}
}

func c13validUTF8(ss ...string) bool {
	for _, s := range ss {
		if !utf8.ValidString(s) {
			return false
		}
	}
	return true
}
