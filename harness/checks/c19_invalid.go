package checks

import (
	"fmt"
	"sort"
	"strings"

	"github.com/creachadair/jrpc2"
	"github.com/creachadair/jrpc2/jhttp"

	"verif/harness/peer"
	"verif/harness/sched"
	"verif/harness/vt"
)

// H/inv (C19): batches that contain statically invalid members. A request
// with an empty method name is what an ordinary jrpc2.Client can send that a
// receiver rejects without running anything (Client.Batch with
// Spec{Method: ""}); as a call it carries an id and must be answered under
// that id, as a notification it carries none. The Bridge answers such members
// itself and forwards only the others, so the ids of the forwarded calls have
// to be mapped back past the members that were filtered out. Every batch shape
// over
//
//	I  call with an empty method (invalid, has an id; odd slots carry params)
//	J  notification with an empty method (invalid, no id)
//	c  echo call with parameters that name its slot
//	n  notification
//	e  call whose handler fails with a coded error
//	m  call of a method that does not exist
//
// of up to L members with at least one invalid member is run over a direct
// connection and over jhttp.Channel + Bridge, alone and in the middle of other
// traffic, and the responses are compared slot by slot (id, result or error).
// c19applyBounded reports a batch that never comes back.

var c19invKinds = []byte{'I', 'J', 'c', 'n', 'e', 'm'}

func c19invSpec(kind byte, slot int) jrpc2.Spec {
	switch kind {
	case 'I':
		if slot%2 == 1 {
			return jrpc2.Spec{Method: "", Params: map[string]int{"slot": slot}}
		}
		return jrpc2.Spec{Method: ""}
	case 'J':
		return jrpc2.Spec{Method: "", Notify: true, Params: []int{slot}}
	case 'c':
		return jrpc2.Spec{Method: "echo", Params: map[string]any{"slot": slot, "s": "<&>"}}
	case 'n':
		return jrpc2.Spec{Method: "note", Notify: true, Params: []int{slot}}
	case 'e':
		return jrpc2.Spec{Method: "rpcerr"}
	}
	return jrpc2.Spec{Method: "missing", Params: []int{slot}}
}

func c19invOp(shape []byte) c19op {
	op := c19op{name: "batch-" + string(shape), kind: 'b'}
	for i, k := range shape {
		op.specs = append(op.specs, c19invSpec(k, i))
	}
	return op
}

func c19opNamed(name string) c19op {
	for _, op := range c19ops {
		if op.name == name {
			return op
		}
	}
	panic("c19: no op " + name)
}

// c19invSingles are the invalid members sent on their own (not in a batch).
var c19invSingles = []c19op{
	{"call-empty-method", 'c', []jrpc2.Spec{{Method: ""}}},
	{"call-empty-method-params", 'c', []jrpc2.Spec{{Method: "", Params: []int{1}}}},
	{"notify-empty-method", 'n', []jrpc2.Spec{{Method: "", Notify: true}}},
}

func c19casesInv(e vt.Env, yield func(vt.Case) bool) bool {
	maxLen := e.Pick(3, 4)
	for _, first := range c19invKinds {
		first := first
		id := fmt.Sprintf("H/inv/L%d/%c", maxLen, first)
		if !yield(vt.Case{ID: id, Run: func(c *vt.Ctx) {
			seqs(len(c19invKinds), 0, maxLen-1, func(idx []int) bool {
				shape := []byte{first}
				for _, k := range idx {
					shape = append(shape, c19invKinds[k])
				}
				withID, invalid, calls := 0, 0, 0
				for _, k := range shape {
					switch k {
					case 'I':
						withID++
						invalid++
					case 'J':
						invalid++
					case 'c', 'e', 'm':
						calls++
					}
				}
				if invalid == 0 {
					return true
				}
				op := c19invOp(shape)
				// alone (followed by a call: the ids go on from where the batch
				// left off), and surrounded by other traffic
				c19eqRun(c, []c19op{op, c19opNamed("call-echo-array")})
				c19eqRun(c, []c19op{c19opNamed("call-value"), op, c19opNamed("batch-mixed"), op})
				c.Count("h_invalid_members_compared", 3*invalid)
				c.Count("h_invalid_with_id_compared", 3*withID)
				if withID > 0 && calls > 0 {
					c.Count("h_batches_invalid_id_and_calls", 3)
				}
				c.Distinct("Hinv:" + string(shape))
				if c.WantSample() && withID > 0 && calls > 1 {
					c.Sample(map[string]any{"batch": c19specString(op.specs), "compared": "direct connection vs jhttp.Channel+Bridge, slot by slot"})
				}
				return !c.Failed()
			})
		}}) {
			return false
		}
	}
	return yield(vt.Case{ID: "H/inv/single", Run: func(c *vt.Ctx) {
		for _, a := range c19invSingles {
			c19eqRun(c, []c19op{a})
			for _, b := range c19ops {
				c19eqRun(c, []c19op{a, b})
				c19eqRun(c, []c19op{b, a, b})
				if c.Failed() {
					return
				}
			}
			c.Count("h_invalid_members_compared", 1+2*len(c19ops))
			c.Distinct("Hinv1:" + a.name)
		}
	}})
}

// ---------------------------------------------------------------------------
// H/rawinv: the kinds of statically invalid member that jrpc2.Client refuses
// to build (wrong version marker, scalar parameters, extra fields, no method)
// can still be posted through a jhttp.Channel by anything that speaks the
// channel interface. The same record is given to a jrpc2.Server over a direct
// channel and to a Bridge through jhttp.Channel; each side's replies are
// reduced to the multiset of (id, result | error) and compared: every id is
// answered once, under its own id, with the same result or an error.
// ---------------------------------------------------------------------------

var c19rawKinds = []byte{'V', 'S', 'X', 'M', 'E', 'c', 'n'}

func c19rawMember(kind byte, slot int) string {
	id := 11 * (slot + 1)
	switch kind {
	case 'V':
		return fmt.Sprintf(`{"jsonrpc":"1.0","id":%d,"method":"echo","params":[%d]}`, id, slot)
	case 'S':
		return fmt.Sprintf(`{"jsonrpc":"2.0","id":%d,"method":"echo","params":%d}`, id, slot)
	case 'X':
		return fmt.Sprintf(`{"jsonrpc":"2.0","id":%d,"method":"echo","bogus":true}`, id)
	case 'M':
		return fmt.Sprintf(`{"jsonrpc":"2.0","id":%d,"params":[%d]}`, id, slot)
	case 'E':
		return fmt.Sprintf(`{"jsonrpc":"2.0","id":%d,"method":""}`, id)
	case 'c':
		return fmt.Sprintf(`{"jsonrpc":"2.0","id":%d,"method":"echo","params":{"slot":%d}}`, id, slot)
	}
	return fmt.Sprintf(`{"jsonrpc":"2.0","method":"note","params":[%d]}`, slot)
}

// c19outcomes reduces reply records to sorted "id=<id> <outcome>" lines.
func c19outcomes(recs [][]byte) ([]string, error) {
	var out []string
	for _, rec := range recs {
		ms, _, err := peer.Decode(rec)
		if err != nil {
			return nil, fmt.Errorf("undecodable reply %q: %v", rec, err)
		}
		for _, m := range ms {
			switch {
			case m.Error != nil:
				out = append(out, fmt.Sprintf("id=%s error", m.ID))
			case m.Method != "":
				out = append(out, fmt.Sprintf("id=%s request %q", m.ID, m.Method))
			default:
				out = append(out, fmt.Sprintf("id=%s result=%s", m.ID, c19canon(m.Result)))
			}
		}
	}
	sort.Strings(out)
	return out, nil
}

func c19rawInvRun(c *vt.Ctx, shape []byte, single bool) {
	var members []string
	for i, k := range shape {
		members = append(members, c19rawMember(k, i))
	}
	raw := "[" + strings.Join(members, ",") + "]"
	if single {
		raw = members[0]
	}
	ctrl := sched.New()
	peer.Bubble(c, ctrl, func() {
		rig := peer.NewServerRig(c, ctrl, peer.ServerOpts{Assigner: c19assigner{}})
		rig.Send(raw)
		rig.Settle()
		direct, err := c19outcomes(rig.Outbound())
		if err != nil {
			c.Failf("record %s over a direct channel: %v", raw, err)
		}
		rig.Finish()

		bridge := jhttp.NewBridge(c19assigner{}, nil)
		inp := &c19inproc{h: bridge}
		ch := jhttp.NewChannel("http://bridge.invalid/rpc", &jhttp.ChannelOptions{Client: inp})
		if err := ch.Send([]byte(raw)); err != nil {
			c.Failf("record %s: jhttp.Channel.Send: %v", raw, err)
		}
		ctrl.Settle()
		var recs [][]byte
		if inp.total.Load() != 1 {
			c.Failf("record %s: %d POSTs for one Send", raw, inp.total.Load())
		} else if inp.status204.Load() == 0 {
			data, err := ch.Recv()
			if err != nil {
				c.Failf("record %s: jhttp.Channel.Recv: %v", raw, err)
			} else {
				recs = append(recs, data)
			}
		}
		ch.Close()
		bridge.Close()
		ctrl.Settle()
		viaHTTP, err := c19outcomes(recs)
		if err != nil {
			c.Failf("record %s through jhttp.Channel and Bridge: %v", raw, err)
		}
		if strings.Join(direct, "\n") != strings.Join(viaHTTP, "\n") {
			c.Failf("record %s is answered differently:\n direct: %q\n http:   %q", raw, direct, viaHTTP)
		}
		if n := inp.open.Load(); n != 0 {
			c.Failf("record %s: %d HTTP response bodies were never closed", raw, n)
		}
		inp.count(c)
		c.Count("h_raw_records_compared", 1)
		c.Count("h_raw_replies_compared", len(direct))
	})
	c.Eval(1)
}

func c19casesRawInv(e vt.Env, yield func(vt.Case) bool) bool {
	maxLen := e.Pick(3, 4)
	for _, first := range c19rawKinds {
		first := first
		id := fmt.Sprintf("H/rawinv/L%d/%c", maxLen, first)
		if !yield(vt.Case{ID: id, Run: func(c *vt.Ctx) {
			seqs(len(c19rawKinds), 0, maxLen-1, func(idx []int) bool {
				shape := []byte{first}
				for _, k := range idx {
					shape = append(shape, c19rawKinds[k])
				}
				invalid := 0
				for _, k := range shape {
					if k != 'c' && k != 'n' {
						invalid++
					}
				}
				if invalid == 0 {
					return true
				}
				c19rawInvRun(c, shape, false)
				if len(shape) == 1 {
					c19rawInvRun(c, shape, true)
				}
				c.Count("h_invalid_with_id_compared", invalid)
				c.Distinct("Hrawinv:" + string(shape))
				return !c.Failed()
			})
		}}) {
			return false
		}
	}
	return true
}
