package checks

import (
	"context"
	"encoding/json"
	"fmt"
	"strings"
	"sync"

	"github.com/creachadair/jrpc2"

	"verif/harness/peer"
	"verif/harness/vchan"
	"verif/harness/vt"
)

// C17, block B — requests that arrive in batches.
//
// The trees of block R are installed behind a root assigner whose choice
// depends on the inbound request (c17dyn): it resolves the name through the
// recording tree and returns a handler bound to what InboundRequest(ctx)
// showed in that Assign call (params tag, params variant, id, notification
// flag). A real Client.Batch sends batches of 1..8 specs in which method
// names repeat (one name k times, ABAB, draws with replacement from a small
// pool), mixed with other names (found, not found, reserved) and with
// notifications. Every request of every batch must
//
//   - have been shown to the assigners itself: the recording nodes saw an
//     InboundRequest with this request's tag, method, id and notification
//     flag along exactly the reference path (never for withheld names);
//   - be dispatched to the handler its own name selects, run exactly once,
//     with its own request as InboundRequest(ctx) in the handler;
//   - have run the handler the root assigner built for THIS request (bound
//     tag, variant, id equal to its own), visible in the result for calls
//     and in the harness record for notifications.
//
// Responses are matched to specs by position (Client.Batch returns them in
// spec order without notifications) and cross-checked by id with what the
// handler saw.

// c17bound is what the request-dependent assigner saw when it built a handler.
type c17bound struct {
	inNil   bool
	tag     string
	variant int
	id      string
	note    bool
}

type c17dynResult struct {
	H   string `json:"h"`   // identity tag of the leaf handler that ran
	For string `json:"for"` // params tag of the request the handler was built for
	ID  string `json:"id"`  // id of the request the handler was built for
	V   int    `json:"v"`   // params variant of the request the handler was built for
}

func c17tagVar(req *jrpc2.Request) (string, int) {
	if req == nil || !req.HasParams() {
		return "", -1
	}
	p := struct {
		T string `json:"t"`
		V int    `json:"v"`
	}{V: -1}
	json.Unmarshal([]byte(req.ParamString()), &p)
	return p.T, p.V
}

// c17dyn is an assigner whose result depends on the inbound request. It never
// blocks (Assign runs under the server's lock).
type c17dyn struct {
	st    *c17state
	inner *c17rec
}

func (d *c17dyn) Assign(ctx context.Context, method string) jrpc2.Handler {
	h := d.inner.Assign(ctx, method)
	if h == nil {
		return nil
	}
	in := jrpc2.InboundRequest(ctx)
	b := c17bound{inNil: in == nil, variant: -1}
	if in != nil {
		b.tag, b.variant = c17tagVar(in)
		b.id, b.note = in.ID(), in.IsNotification()
	}
	return func(ctx context.Context, req *jrpc2.Request) (any, error) {
		res, err := h(ctx, req)
		qt := c17tagOf(req)
		d.st.mu.Lock()
		d.st.bounds[qt] = append(d.st.bounds[qt], b)
		d.st.mu.Unlock()
		leaf, _ := res.(string)
		return c17dynResult{H: leaf, For: b.tag, ID: b.id, V: b.variant}, err
	}
}

func (d *c17dyn) Names() []string { return d.inner.Names() }

type c17spec struct {
	name    string
	note    bool
	variant int
}

// c17execBatches installs tree behind the request-dependent root assigner in
// a live server and sends the batches.
func c17execBatches(c *vt.Ctx, cfg string, tree *c17asg, disableBuiltin bool, batches [][]c17spec) {
	st := &c17state{assigns: map[string][]c17assignRec{}, runs: map[string][]c17runRec{}, bounds: map[string][]c17bound{}}
	root := &c17dyn{st: st, inner: tree.build(st)}
	desc := fmt.Sprintf("config %s DisableBuiltin=%v", cfg, disableBuiltin)

	mon := &peer.Mon{C: c, Log: peer.NewLog()}
	cliEnd, srvEnd := vchan.NewPair("cli", "srv", mon)
	st.srv = jrpc2.NewServer(root, &jrpc2.ServerOptions{DisableBuiltin: disableBuiltin})
	st.srv.Start(srvEnd)
	cli := jrpc2.NewClient(cliEnd, nil)

	// request tags: "b<k>.<j>"
	type outcome struct {
		rsps []*jrpc2.Response
		err  error
	}
	out := make([]outcome, len(batches))
	const callers = 4
	bg := context.Background()
	var wg sync.WaitGroup
	for g := 0; g < callers; g++ {
		wg.Add(1)
		go func() {
			defer wg.Done()
			for k := g; k < len(batches); k += callers {
				specs := make([]jrpc2.Spec, len(batches[k]))
				for j, sp := range batches[k] {
					specs[j] = jrpc2.Spec{Method: sp.name, Notify: sp.note,
						Params: map[string]any{"t": fmt.Sprintf("b%d.%d", k, j), "v": sp.variant}}
				}
				rsps, err := cli.Batch(bg, specs)
				out[k] = outcome{rsps, err}
			}
		}()
	}
	wg.Wait()
	// Batch returns without waiting for notifications; a call sent after
	// them is answered only after their handlers have returned.
	cli.Call(bg, "barrier", map[string]string{"t": "barrier"})
	cli.Close()
	st.srv.WaitStatus()
	c.Count("channel_ops", int(mon.Ops.Load()))

	if len(st.orphans) > 0 {
		o := st.orphans[0]
		c.Failf("%s: %d Assign call(s) whose context carried no attributable InboundRequest; first: node %q method %q InboundRequest(ctx)==nil:%v",
			desc, len(st.orphans), o.node, o.method, o.inNil)
		return
	}

	for k, batch := range batches {
		var names []string
		ncalls := 0
		for _, sp := range batch {
			if sp.note {
				names = append(names, "~"+sp.name)
			} else {
				names = append(names, sp.name)
				ncalls++
			}
		}
		bdesc := fmt.Sprintf("%s batch %d %q (~ = notification)", desc, k, names)
		if out[k].err != nil {
			c.Failf("%s: Client.Batch failed: %v", bdesc, out[k].err)
			continue
		}
		if len(out[k].rsps) != ncalls {
			c.Failf("%s: %d responses for %d calls", bdesc, len(out[k].rsps), ncalls)
			continue
		}
		c.Count("batches_checked", 1)
		firstAt := map[string]int{}
		repeatedInBatch := false
		next := 0
		for j, sp := range batch {
			c.Eval(1)
			qt := fmt.Sprintf("b%d.%d", k, j)
			where := fmt.Sprintf("%s position %d (tag %s, variant %d)", bdesc, j, qt, sp.variant)
			name := sp.name
			first, repeated := firstAt[name]
			if !repeated {
				firstAt[name] = j
			} else {
				repeatedInBatch = true
				where += fmt.Sprintf(" [same method as position %d]", first)
			}
			var rsp *jrpc2.Response
			var rerr *jrpc2.Error
			wantID := "" // a notification has no id
			if !sp.note {
				rsp = out[k].rsps[next]
				next++
				rerr = rsp.Error()
				wantID = rsp.ID()
			}
			assigns, runs, bounds := st.assigns[qt], st.runs[qt], st.bounds[qt]
			class := ""

			if !disableBuiltin && strings.HasPrefix(name, "rpc.") {
				if len(assigns) != 0 {
					c.Failf("%s: reserved name was shown to the assigner (node %q, method %q)", where, assigns[0].node, assigns[0].method)
				}
				if len(runs) != 0 {
					c.Failf("%s: reserved name ran harness handler %q", where, runs[0].tag)
				}
				switch {
				case sp.note:
				case name == "rpc.serverInfo":
					var raw map[string]json.RawMessage
					if rerr != nil {
						c.Failf("%s: rpc.serverInfo failed: %v", where, rerr)
					} else if uerr := rsp.UnmarshalResult(&raw); uerr != nil || raw["startTime"] == nil {
						c.Failf("%s: rpc.serverInfo result %s is not a server info object", where, c17result(rsp))
					}
				case rerr == nil || rerr.Code != jrpc2.MethodNotFound:
					c.Failf("%s: reserved name: got result %s err %v, want method-not-found (-32601)", where, c17result(rsp), rerr)
				}
				class = "reserved"
				c.Count("batch_reserved_names_withheld", 1)
			} else {
				ref := tree.resolve(name)
				// what the assigners saw for THIS request
				if len(assigns) == 0 {
					c.Failf("%s: no assigner was consulted with this request as InboundRequest(ctx)", where)
				}
				want, seen := map[c17step]bool{}, map[c17step]bool{}
				for _, s := range ref.path {
					want[s] = true
				}
				for _, a := range assigns {
					if a.inNil || a.inMethod != name || a.inID != wantID || a.inNote != sp.note {
						c.Failf("%s: Assign(node %q, %q) saw InboundRequest(ctx) nil:%v method %q id %q notification:%v, want this request (id %q, notification:%v)",
							where, a.node, a.method, a.inNil, a.inMethod, a.inID, a.inNote, wantID, sp.note)
					}
					s := c17step{a.node, a.method}
					seen[s] = true
					if !want[s] {
						c.Failf("%s: assigner node %q was asked for %q; the reference path is %v", where, a.node, a.method, ref.path)
					}
				}
				for _, s := range ref.path {
					if !seen[s] {
						c.Failf("%s: assigner node %q was never asked for %q on behalf of this request (reference path %v, seen %v)", where, s.node, s.method, ref.path, assigns)
					}
				}
				c.Count("batch_assign_calls_checked", len(assigns))

				if ref.tag == "" {
					if !sp.note && (rerr == nil || rerr.Code != jrpc2.MethodNotFound) {
						c.Failf("%s: no handler is mapped (%s); got result %s err %v, want method-not-found (-32601)", where, ref.why, c17result(rsp), rerr)
					}
					if len(runs) != 0 {
						c.Failf("%s: no handler is mapped (%s) but handler %q ran", where, ref.why, runs[0].tag)
					}
					class = ref.why
					c.Count("batch_not_found", 1)
				} else {
					class = fmt.Sprintf("found@%d", ref.level)
					if !sp.note {
						var got c17dynResult
						wantRes := c17dynResult{H: ref.tag, For: qt, ID: wantID, V: sp.variant}
						if rerr != nil {
							c.Failf("%s: mapped to handler %q but the call failed: %v", where, ref.tag, rerr)
						} else if uerr := rsp.UnmarshalResult(&got); uerr != nil || got != wantRes {
							c.Failf("%s: result %s, want %+v: leaf handler %q, built by the root assigner for this request (tag, id, variant)", where, c17result(rsp), wantRes, ref.tag)
						}
					}
					if len(runs) != 1 {
						c.Failf("%s: %d handler runs recorded (%v), want exactly one of %q", where, len(runs), runs, ref.tag)
					} else {
						h := runs[0]
						switch {
						case h.tag != ref.tag:
							c.Failf("%s: handler %q ran, want %q", where, h.tag, ref.tag)
						case h.panicked != "":
							c.Failf("%s: InboundRequest/ServerFromContext panicked in the handler: %s", where, h.panicked)
						case h.reqMethod != name || h.reqID != wantID:
							c.Failf("%s: handler's request has method %q id %q, want %q %q", where, h.reqMethod, h.reqID, name, wantID)
						case h.inNil:
							c.Failf("%s: InboundRequest(ctx) is nil in the handler", where)
						case h.inMethod != name || h.inID != h.reqID || h.inParams != h.reqParams:
							c.Failf("%s: InboundRequest(ctx) in the handler is (method %q id %s params %s), the request is (%q, %s, %s)", where, h.inMethod, h.inID, h.inParams, h.reqMethod, h.reqID, h.reqParams)
						case !h.srvOK:
							c.Failf("%s: ServerFromContext(ctx) is not the server running the handler", where)
						}
						c.Count("batch_handler_runs_checked", 1)
					}
					if len(bounds) != 1 {
						c.Failf("%s: %d runs of handlers built by the root assigner recorded, want 1", where, len(bounds))
					} else if b := bounds[0]; b.inNil || b.tag != qt || b.variant != sp.variant || b.id != wantID || b.note != sp.note {
						c.Failf("%s: the handler that ran was built by the root assigner for another request: InboundRequest nil:%v tag %q variant %d id %q notification:%v; this request has id %q notification:%v",
							where, b.inNil, b.tag, b.variant, b.id, b.note, wantID, sp.note)
					}
					if sp.note {
						c.Count("batch_notifications_run_checked", 1)
					}
					if repeated {
						c.Count("batch_repeated_name_runs_checked", 1)
					}
				}
			}
			c.Count("batch_requests_checked", 1)
			if repeated {
				c.Count("batch_repeated_name_requests_checked", 1)
			}
			c.Distinct(fmt.Sprintf("B|%v|%s|%s|note=%v|repeated=%v", disableBuiltin, name, class, sp.note, repeated))
			if c.WantSample() && repeated && strings.HasPrefix(class, "found@") && class != "found@0" {
				c.Sample(map[string]any{"config": cfg, "DisableBuiltin": disableBuiltin, "batch": names, "position": j, "method": name, "class": class})
			}
		}
		if repeatedInBatch {
			c.Count("batches_with_repeated_method_names", 1)
		}
	}
}

// c17batchCases adds block B to the case list.
func c17batchCases(e vt.Env, u []string, both func(id string, run func(c *vt.Ctx, disable bool))) {
	n := e.Pick(24, 400)
	for i := 0; i < n; i++ {
		id := fmt.Sprintf("B/%d", i)
		both(id, func(c *vt.Ctx, dis bool) {
			r := c.Env.Rand(id) // same tree and batches for both settings
			tree := c17randTree(r, "R", r.IntN(4))
			found := tree.names()
			var others []string
			for _, nm := range found {
				others = append(others, c17neighbours(nm)...)
			}
			for k := 0; k < 40; k++ {
				others = append(others, u[r.IntN(len(u))])
			}
			others = append(others, c17hotKeys...)
			var pool, fpool []string
			for _, nm := range c17dedupe(others) {
				if nm != "" { // the client cannot express the empty name
					pool = append(pool, nm)
				}
			}
			for _, nm := range found {
				if nm != "" {
					fpool = append(fpool, nm)
				}
			}
			pick := func() string {
				if len(fpool) > 0 && r.IntN(5) < 3 {
					return fpool[r.IntN(len(fpool))]
				}
				return pool[r.IntN(len(pool))]
			}
			var batches [][]c17spec
			for k := 0; k < 160; k++ {
				var names []string
				switch r.IntN(4) {
				case 0: // one name, k times
					nm := pick()
					for j, m := 0, 2+r.IntN(4); j < m; j++ {
						names = append(names, nm)
					}
				case 1: // A B A B ...
					a, b := pick(), pick()
					for j, m := 0, 3+r.IntN(5); j < m; j++ {
						names = append(names, []string{a, b}[j%2])
					}
				case 2: // draws with replacement from a pool of three
					sub := []string{pick(), pick(), pick()}
					for j, m := 0, 2+r.IntN(7); j < m; j++ {
						names = append(names, sub[r.IntN(3)])
					}
				default: // independent names; also batches of one
					for j, m := 0, 1+r.IntN(6); j < m; j++ {
						names = append(names, pick())
					}
				}
				batch := make([]c17spec, len(names))
				for j, nm := range names {
					batch[j] = c17spec{name: nm, note: r.IntN(4) == 0, variant: r.IntN(5)}
				}
				batches = append(batches, batch)
			}
			c17execBatches(c, fmt.Sprintf("random tree %s depth %d: %v behind a request-dependent root assigner", id, tree.depth(), c17clip(found)), tree, dis, batches)
		})
	}
}
