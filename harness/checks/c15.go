package checks

import (
	"bytes"
	"context"
	"encoding/json"
	"fmt"
	"math/rand/v2"
	"reflect"
	"strings"
	"time"

	"github.com/creachadair/jrpc2"
	"github.com/creachadair/jrpc2/handler"

	"verif/harness/vt"
)

// C15 — handler.New / Check / FuncInfo.Wrap: the function gets exactly the
// decoded params or is not called.
//
// Oracle (written from the documentation of Check, SetStrict, AllowArray and
// Request.UnmarshalParams, on top of encoding/json used directly):
//
//	X = declared parameter type, E = X (or X's element type if X is a pointer).
//	absent / null params              -> call with the zero E (pointer X: pointer to it)
//	E struct (X = E or *E), array support on, params is an array:
//	    names = exported fields in declaration order, minus `json:"-"`, minus
//	            untagged anonymous fields, each under its JSON key
//	    no names: `[]` may be accepted (decoded like `{}`) or refused, longer arrays are refused
//	    len != len(names) -> refuse; else params := {names[i]: element i}
//	decode params into a fresh E with encoding/json; DisallowUnknownFields iff
//	    SetStrict(true) or X / *X has a DisallowUnknownFields method
//	error -> the function is not called and the handler reports InvalidParams
//	ok    -> the function is called exactly once with that value (never a nil
//	         pointer), and the handler returns the function's result and error
//	         unchanged (result not judged when the function reports an error)
//	no parameter:   absent params -> called once; present -> called once or InvalidParams
//	*jrpc2.Request: always called once with the very request
//	any panic out of the handler is a violation.
//
// Check: accepted iff the value is a non-nil function with 1 or 2 parameters,
// the first exactly context.Context, not variadic, 1 or 2 results, the second
// (if any) exactly error; FuncInfo.{Type,Argument,Result,ReportsError} must
// describe the signature; New panics iff Check reports an error.

type c15tok struct{ k int }
type c15errTok struct{ k int }

func (e *c15errTok) Error() string { return fmt.Sprintf("c15 error token %d", e.k) }

type c15ctxKey struct{}

// c15MyCtx and c15MyErr are distinct named interface types: not context.Context / error.
type c15MyCtx interface{ context.Context }
type c15MyErr interface{ Error() string }

var (
	c15ctxType    = reflect.TypeOf((*context.Context)(nil)).Elem()
	c15reqType    = reflect.TypeOf((*jrpc2.Request)(nil))
	c15strictType = reflect.TypeOf((*interface{ DisallowUnknownFields() })(nil)).Elem()
	c15ctxToken   = &c15tok{k: -1}
	c15ctx        = context.WithValue(context.Background(), c15ctxKey{}, c15ctxToken)
	c15ctxs       = c15contexts()
)

// c15contexts returns the contexts handlers are invoked with: live, already
// cancelled, and past its deadline (a request cancelled or expired while queued
// reaches its handler like that). What the adapter owes the function does not
// depend on the state of the context: that is the function's business.
func c15contexts() [3]context.Context {
	cancelled, cancel := context.WithCancel(c15ctx)
	cancel()
	expired, cancel2 := context.WithDeadline(c15ctx, time.Unix(1, 0))
	_ = cancel2
	return [3]context.Context{c15ctx, cancelled, expired}
}

// c15pickCtx chooses one of them as a function of the evaluation.
func c15pickCtx(k int, params string) context.Context {
	n := len(c15ctxs)
	return c15ctxs[((k+len(params))%n+n)%n]
}

// c15rec is what the function under test captured and what it will return.
type c15rec struct {
	calls int
	ctx   reflect.Value
	arg   reflect.Value
	ret   []reflect.Value
}

func (r *c15rec) reset() { r.calls, r.ctx, r.arg = 0, reflect.Value{}, reflect.Value{} }

type c15sig struct {
	X          reflect.Type // nil: no parameter
	outs       []reflect.Type
	fn         any
	rec        *c15rec
	reportsErr bool
	hasResult  bool
	name       string
}

func c15newSig(X reflect.Type, outs []reflect.Type, fn any, rec *c15rec) *c15sig {
	s := &c15sig{X: X, outs: outs, fn: fn, rec: rec}
	last := outs[len(outs)-1]
	s.reportsErr = last == c15errorType
	s.hasResult = len(outs) == 2 || !s.reportsErr
	xs := "-"
	if X != nil {
		xs = X.String()
	}
	var os []string
	for _, o := range outs {
		os = append(os, o.String())
	}
	s.name = "func(ctx," + xs + ")(" + strings.Join(os, ",") + ")"
	return s
}

// c15makeSig builds the function with reflect.MakeFunc; it records its
// arguments and returns whatever rec.ret holds.
func c15makeSig(X reflect.Type, outs []reflect.Type) *c15sig {
	ins := []reflect.Type{c15ctxType}
	if X != nil {
		ins = append(ins, X)
	}
	rec := &c15rec{}
	fv := reflect.MakeFunc(reflect.FuncOf(ins, outs, false), func(args []reflect.Value) []reflect.Value {
		rec.calls++
		rec.ctx = args[0]
		if len(args) > 1 {
			rec.arg = args[1]
			// A function may do what it likes with its argument: keep a copy of what a pointer
			// argument pointed to and then overwrite the original - whatever storage the adapter
			// used for this call must not show up in another call.
			if a := args[1]; a.Kind() == reflect.Pointer && !a.IsNil() && a.Type() != c15reqType && a.Elem().CanSet() {
				cp := reflect.New(a.Type().Elem())
				cp.Elem().Set(a.Elem())
				rec.arg = cp
				c15scribble(a.Elem(), 0)
			}
		}
		return rec.ret
	})
	return c15newSig(X, outs, fv.Interface(), rec)
}

// c15scribble overwrites v with values no params text of the workload produces.
func c15scribble(v reflect.Value, depth int) {
	if !v.CanSet() || depth > 2 {
		return
	}
	switch v.Kind() {
	case reflect.Int, reflect.Int8, reflect.Int16, reflect.Int32, reflect.Int64:
		v.SetInt(0x5c)
	case reflect.Uint, reflect.Uint8, reflect.Uint16, reflect.Uint32, reflect.Uint64:
		v.SetUint(0x5c)
	case reflect.Float32, reflect.Float64:
		v.SetFloat(92.5)
	case reflect.Bool:
		v.SetBool(true)
	case reflect.String:
		v.SetString("scribbled")
	case reflect.Slice:
		v.Set(reflect.MakeSlice(v.Type(), 1, 1))
	case reflect.Map:
		v.Set(reflect.MakeMap(v.Type()))
	case reflect.Struct:
		for i := 0; i < v.NumField(); i++ {
			c15scribble(v.Field(i), depth+1)
		}
	case reflect.Pointer, reflect.Interface:
		// what it points to is shared with the copy the harness kept: drop the pointer instead
		v.Set(reflect.Zero(v.Type()))
	}
}

// c15retFor prepares the return values for evaluation k; errMode selects a
// non-nil error where the signature has one.
func c15retFor(s *c15sig, k int, errMode bool) (want any, wantErr error) {
	s.rec.ret = s.rec.ret[:0]
	if s.hasResult {
		Y := s.outs[0]
		var y any
		switch Y.Kind() {
		case reflect.Int:
			y = 1000 + k
		case reflect.String:
			y = fmt.Sprintf("tok-%d", k)
		case reflect.Bool:
			y = k%2 == 0
		case reflect.Pointer, reflect.Interface:
			switch {
			case k%7 == 3:
				y = nil
			case Y == reflect.TypeOf((*jrpc2.Error)(nil)):
				y = &jrpc2.Error{Code: jrpc2.Code(k), Message: "as result"}
			case Y.Kind() == reflect.Interface && Y.NumMethod() > 0:
				y = &c15errTok{k: -k} // error-like interfaces used as a result type
			default:
				y = &c15tok{k: k}
			}
		case reflect.Slice:
			y = []int{k, k + 1}
		case reflect.Struct:
			y = c15S2{A: k, B: "r"}
		}
		rv := reflect.New(Y).Elem()
		if y != nil {
			rv.Set(reflect.ValueOf(y))
		}
		s.rec.ret = append(s.rec.ret, rv)
		want = rv.Interface()
	}
	if s.reportsErr {
		ev := reflect.New(c15errorType).Elem()
		if errMode {
			if k%2 == 0 {
				wantErr = &c15errTok{k: k}
			} else {
				wantErr = &jrpc2.Error{Code: jrpc2.Code(-29000 - k%100), Message: "handler error"}
			}
			ev.Set(reflect.ValueOf(wantErr))
		}
		s.rec.ret = append(s.rec.ret, ev)
	}
	return want, wantErr
}

// ---- options -------------------------------------------------------------------

type c15opt struct {
	strict, array int    // 0 unset, 1 true, 2 false
	note          string // what happened to the FuncInfo after Wrap (c15_rewrap.go)
}

func (o c15opt) String() string { return fmt.Sprintf("strict%d/array%d", o.strict, o.array) + o.note }

func c15allOpts() []c15opt {
	var out []c15opt
	for s := 0; s < 3; s++ {
		for a := 0; a < 3; a++ {
			out = append(out, c15opt{strict: s, array: a})
		}
	}
	return out
}

// c15wrap builds the handler under test. With all options unset it goes
// through handler.New, otherwise through Check + setters + Wrap.
func c15wrap(fn any, o c15opt) (h jrpc2.Handler, err error) {
	defer func() {
		if p := recover(); p != nil {
			err = fmt.Errorf("panic building the handler: %v", p)
		}
	}()
	if o.strict == 0 && o.array == 0 {
		return handler.New(fn), nil
	}
	fi, err := handler.Check(fn)
	if err != nil {
		return nil, err
	}
	switch o.strict {
	case 1:
		fi.SetStrict(true)
	case 2:
		fi.SetStrict(true).SetStrict(false)
	}
	switch o.array {
	case 1:
		fi.AllowArray(false).AllowArray(true)
	case 2:
		fi.AllowArray(false)
	}
	return fi.Wrap(), nil
}

// ---- requests ------------------------------------------------------------------

// c15request builds the request carrying the params text ("" = no params
// member). Arrays, objects, null and absent go through jrpc2.ParseRequests;
// other JSON values (which ParseRequests refuses as a message) are put into a
// ParsedRequest directly, as ToRequest documents.
func c15request(text string) *jrpc2.Request {
	if text != "" && text != "null" && text[0] != '[' && text[0] != '{' {
		return (&jrpc2.ParsedRequest{ID: "1", Method: "m", Params: json.RawMessage(text)}).ToRequest()
	}
	msg := `{"jsonrpc":"2.0","id":1,"method":"m"`
	if text != "" {
		msg += `,"params":` + text
	}
	msg += "}"
	prs, err := jrpc2.ParseRequests([]byte(msg))
	if err != nil || len(prs) != 1 || prs[0].Error != nil {
		panic(fmt.Sprintf("c15request(%q): %v %+v", text, err, prs))
	}
	return prs[0].ToRequest()
}

// ---- oracle --------------------------------------------------------------------

// c15eligible lists the array-eligible fields of struct type t per the
// documentation of handler.Check.
func c15eligible(t reflect.Type) []c15jf {
	var out []c15jf
	for i := 0; i < t.NumField(); i++ {
		f := t.Field(i)
		if f.PkgPath != "" {
			continue // unexported fields are skipped
		}
		tag, has := f.Tag.Lookup("json")
		if has && tag == "-" {
			continue // json:"-" is skipped
		}
		name, opts := "", ""
		if has {
			name, opts, _ = strings.Cut(tag, ",")
			if !c15validTagName(name) {
				name = ""
			}
		}
		if f.Anonymous && name == "" {
			continue // anonymous fields are skipped unless tagged
		}
		if name == "" {
			name = f.Name
		}
		out = append(out, c15jf{name: name, typ: f.Type, quoted: strings.Contains(opts, "string")})
	}
	return out
}

func c15structOf(X reflect.Type) (reflect.Type, bool) {
	if X == nil {
		return nil, false
	}
	if X.Kind() == reflect.Pointer {
		X = X.Elem()
	}
	return X, X.Kind() == reflect.Struct
}

type c15verdict int

const (
	c15call c15verdict = iota
	c15refuse
	c15either
)

type c15want struct {
	v         c15verdict
	val       reflect.Value // E value expected if called
	rawExact  bool
	arrayForm bool  // the array-to-field mapping was applied
	strictHit bool  // refused only because of an unknown field
	why       error // the oracle's decode error
}

func c15first(b []byte) byte {
	b = bytes.TrimLeft(b, " \t\r\n")
	if len(b) == 0 {
		return 0
	}
	return b[0]
}

func c15decode(E reflect.Type, text []byte, strict bool) (reflect.Value, error) {
	p := reflect.New(E)
	if !strict {
		return p.Elem(), json.Unmarshal(text, p.Interface())
	}
	dec := json.NewDecoder(bytes.NewReader(text))
	dec.DisallowUnknownFields()
	return p.Elem(), dec.Decode(p.Interface())
}

// c15oracle predicts the outcome for parameter type X (not nil, not
// *jrpc2.Request).
func c15oracle(X reflect.Type, strictReq, allowArray bool, params string) c15want {
	E := X
	if X.Kind() == reflect.Pointer {
		E = X.Elem()
	}
	w := c15want{rawExact: true}
	if params == "" || params == "null" {
		w.val = reflect.New(E).Elem()
		return w
	}
	strict := strictReq || X.Implements(c15strictType) || reflect.PointerTo(X).Implements(c15strictType)
	text := []byte(params)
	if S, ok := c15structOf(X); ok && allowArray && c15first(text) == '[' {
		var arr []json.RawMessage
		if err := json.Unmarshal(text, &arr); err != nil {
			panic("c15oracle: workload produced an invalid array: " + params)
		}
		names := c15eligible(S)
		switch {
		case len(names) == 0 && len(arr) == 0:
			w.v = c15either // documentation is silent (DESIGN.md leniency)
			w.val, _ = c15decode(E, []byte(`{}`), strict)
			return w
		case len(arr) != len(names):
			w.v, w.why = c15refuse, fmt.Errorf("array of %d for %d fields", len(arr), len(names))
			return w
		}
		var sb strings.Builder
		sb.WriteByte('{')
		for i, n := range names {
			if i > 0 {
				sb.WriteByte(',')
			}
			sb.WriteString(c15q(n.name))
			sb.WriteByte(':')
			sb.Write(arr[i])
		}
		sb.WriteByte('}')
		text = []byte(sb.String())
		w.rawExact, w.arrayForm = false, true
	}
	val, err := c15decode(E, text, strict)
	if err != nil {
		w.v, w.why = c15refuse, err
		if strict {
			if _, err2 := c15decode(E, text, false); err2 == nil {
				w.strictHit = true
			}
		}
		return w
	}
	w.val = val
	return w
}

// ---- one evaluation ------------------------------------------------------------

type c15stats struct {
	called, refused, either, arrayCalls, strictRefusals int
}

// c15eval invokes h once and judges the outcome. It returns false after
// recording a violation.
func c15eval(c *vt.Ctx, s *c15sig, o c15opt, h jrpc2.Handler, params string, w c15want, k int, errMode bool, st *c15stats) (ok bool) {
	req := c15request(params)
	s.rec.reset()
	wantRes, wantErr := c15retFor(s, k, errMode)
	where := func() string { return fmt.Sprintf("%s %s params=%s", s.name, o, c15paramShow(params)) }
	defer func() {
		if p := recover(); p != nil {
			c.Failf("%s: handler panicked: %v", where(), p)
			ok = false
		}
	}()
	ctx := c15pickCtx(k, params)
	res, err := h(ctx, req)
	c.Eval(1)
	if ctx.Err() != nil {
		c.Count("invocations_with_ended_context", 1)
	}

	rec := s.rec
	if rec.calls > 1 {
		c.Failf("%s: function called %d times", where(), rec.calls)
		return false
	}
	if rec.calls == 0 {
		if w.v == c15call {
			c.Failf("%s: function not called (handler returned %v, %v); encoding/json decodes these params into %s",
				where(), res, err, c15show(w.val))
			return false
		}
		if err == nil {
			c.Failf("%s: function not called and no error reported (result %v)", where(), res)
			return false
		}
		if code := jrpc2.ErrorCode(err); code != jrpc2.InvalidParams {
			c.Failf("%s: function not called, error code %d (%v), want InvalidParams", where(), code, err)
			return false
		}
		if w.v == c15either {
			st.either++
		}
		st.refused++
		if w.strictHit {
			st.strictRefusals++
		}
		return true
	}
	// called exactly once
	if w.v == c15refuse {
		c.Failf("%s: function called with %s, but the params must be refused: %v", where(), c15show(rec.arg), w.why)
		return false
	}
	if w.v == c15either {
		st.either++
	}
	if tok, _ := rec.ctx.Interface().(context.Context); tok == nil || tok.Value(c15ctxKey{}) != any(c15ctxToken) {
		c.Failf("%s: function did not receive the caller's context", where())
		return false
	}
	switch {
	case s.X == nil:
	case s.X == c15reqType:
		if got, _ := rec.arg.Interface().(*jrpc2.Request); got != req {
			c.Failf("%s: function received request %p, want the inbound request %p", where(), got, req)
			return false
		}
	case s.X.Kind() == reflect.Pointer:
		if rec.arg.IsNil() {
			c.Failf("%s: function received a nil %s, want a pointer to %s", where(), s.X, c15show(w.val))
			return false
		}
		if !c15equal(rec.arg.Elem(), w.val, w.rawExact) {
			c.Failf("%s: function received &%s, want &%s", where(), c15show(rec.arg.Elem()), c15show(w.val))
			return false
		}
	default:
		if !c15equal(rec.arg, w.val, w.rawExact) {
			c.Failf("%s: function received %s, want %s", where(), c15show(rec.arg), c15show(w.val))
			return false
		}
	}
	// result and error unchanged
	if wantErr != nil {
		if err != wantErr {
			c.Failf("%s: function returned error %#v, handler returned error %#v", where(), wantErr, err)
			return false
		}
	} else {
		if err != nil {
			c.Failf("%s: function returned a nil error, handler returned %v", where(), err)
			return false
		}
		if !c15sameResult(res, wantRes) {
			c.Failf("%s: function returned %#v, handler returned %#v", where(), wantRes, res)
			return false
		}
	}
	st.called++
	if w.arrayForm {
		st.arrayCalls++
	}
	return true
}

func c15sameResult(got, want any) bool {
	if want == nil || got == nil {
		return got == want
	}
	if reflect.TypeOf(got) != reflect.TypeOf(want) {
		return false
	}
	if reflect.TypeOf(want).Comparable() {
		return got == want // pointers: identity
	}
	return reflect.DeepEqual(got, want)
}

func c15paramShow(p string) string {
	if p == "" {
		return "<absent>"
	}
	return p
}

func (st *c15stats) flush(c *vt.Ctx) {
	c.Count("functions_called", st.called)
	c.Count("rejected_invalid_params", st.refused)
	c.Count("unspecified_outcomes", st.either)
	c.Count("array_form_calls", st.arrayCalls)
	c.Count("unknown_field_rejections", st.strictRefusals)
}

// ---- params workload -----------------------------------------------------------

var c15generic = []string{
	"", "null", `{}`, `[]`, `[null]`, `{"A":1}`, `{"A":"x"}`, `{"a":1}`, `{"A":1,"Zzz":2}`, `{"A":1,"A":2}`,
	`{"A":"x","A":2}`, `[1]`, `[1,2]`, `[1,"x"]`, `["x",1]`, `[1,2,3]`, `[[1]]`, `{"A":{"B":1}}`, `{"A":null}`,
	`[1.5]`, `[true]`, `{"":1}`, `[1e400]`, `[99999999999999999999]`, `{"A":-0}`, `{"é":1}`, `[ 1 , 2 ]`,
	`{ "A" : 1 }`, `[{"X":1,"Y":"y"}]`, `{"X":1,"Y":"y","Z":3}`, `[1,"s",true,1.5,[1],{"k":1}]`, `["<&>"]`,
	`{"k":"<&>"}`, `[null,null]`, `{"alpha":1,"beta":"b","D":2.5}`, `{"inner":{"X":1},"Z":2}`, `[{"X":1},2]`,
	`{"A":1,"B":2}`, `{"A":1,"B":"b","C":3}`, `["s"]`, `[[],{}]`, `{"k":1,"j":2}`,
	`[9007199254740993]`, `[2.0]`, `[-0]`, `[1e3,"s"]`, `[9223372036854775807,"s"]`, `{"A":9007199254740993}`, `{"A":2.0}`,
	`[18446744073709551615]`, `{"k":9007199254740993}`,
	// not arrays or objects (built directly, see c15request)
	`5`, `"s"`, `true`, `1.5`, `-0`, `1e400`, `"2024-01-02T03:04:05Z"`, `9007199254740993`, `2.0`, `1e3`,
}

func c15obj(pairs ...string) string { return "{" + strings.Join(pairs, ",") + "}" }
func c15kv(k, v string) string      { return c15q(k) + ":" + v }

func c15flipCase(s string) string {
	if u := strings.ToUpper(s); u != s {
		return u
	}
	return strings.ToLower(s)
}

// c15paramsFor returns the params texts tried against parameter type X:
// the generic list plus texts derived from the shape of X.
func c15paramsFor(X reflect.Type, r *rand.Rand) []string {
	out := append([]string(nil), c15generic...)
	if X == nil || X == c15reqType {
		return out
	}
	S, isStruct := c15structOf(X)
	nums := c15numTexts(r)
	if !isStruct {
		for i := 0; i < 5; i++ {
			out = append(out, c15good(X, r, 0))
		}
		for _, num := range nums {
			if v, ok := c15numInto(X, num, 0); ok && r.IntN(3) == 0 {
				out = append(out, v)
			}
		}
		for i := 0; i < 3; i++ {
			if b, ok := c15bad(X, r); ok {
				out = append(out, b)
			}
		}
		return out
	}
	fields := c15jsonFields(S)
	full := func(mod int, with string) string {
		var ps []string
		for i, f := range fields {
			v := c15goodField(f, r, 1)
			if i == mod {
				v = with
			}
			ps = append(ps, c15kv(f.name, v))
		}
		return c15obj(ps...)
	}
	out = append(out, full(-1, ""), full(-1, ""), c15good(S, r, 0), c15good(S, r, 0))
	for i, f := range fields {
		out = append(out, c15obj(c15kv(f.name, c15goodField(f, r, 1))))
		out = append(out, full(i, "null"))
		if b, ok := c15bad(f.typ, r); ok {
			out = append(out, full(i, b))
		}
		ft := f.typ
		if ft.Kind() == reflect.Pointer {
			ft = ft.Elem()
		}
		if ft.Kind() == reflect.Struct && ft != c15timeType {
			out = append(out, c15obj(c15kv(f.name, `{"zz_nested":1}`)))
		}
	}
	withUnknown := strings.TrimSuffix(full(-1, ""), "}")
	if withUnknown != "{" {
		withUnknown += ","
	}
	out = append(out, withUnknown+`"zz_unknown":1}`, `{"zz_unknown":1}`, `{"zz_unknown":null}`)
	if len(fields) > 0 {
		f := fields[0]
		g1, g2 := c15goodField(f, r, 1), c15goodField(f, r, 1)
		out = append(out, c15obj(c15kv(c15flipCase(f.name), g1)), c15obj(c15kv(f.name, g1), c15kv(f.name, g2)))
		if b, ok := c15bad(f.typ, r); ok {
			out = append(out, c15obj(c15kv(f.name, b), c15kv(f.name, g1)))
		}
	}
	// array forms over the eligible fields
	el := c15eligible(S)
	n := len(el)
	arr := func(l, mod int, with string) string {
		ps := make([]string, l)
		for i := range ps {
			if i < n {
				ps[i] = c15goodField(el[i], r, 1)
			} else {
				ps[i] = c15anyTexts[r.IntN(len(c15anyTexts))]
			}
			if i == mod {
				ps[i] = with
			}
		}
		return "[" + strings.Join(ps, ",") + "]"
	}
	for l := 0; l <= n+2; l++ {
		out = append(out, arr(l, -1, ""))
	}
	out = append(out, arr(n, -1, ""))
	for i, f := range el {
		out = append(out, arr(n, i, "null"))
		if b, ok := c15bad(f.typ, r); ok {
			out = append(out, arr(n, i, b))
		}
		ft := f.typ
		if ft.Kind() == reflect.Pointer {
			ft = ft.Elem()
		}
		if ft.Kind() == reflect.Struct && ft != c15timeType {
			out = append(out, arr(n, i, `{"zz_nested":1}`))
		}
	}
	// numbers that are more than their float64 value (c15numTexts), at every
	// field that has a numeric leaf: all of them in array form, some as objects
	for i, f := range el {
		for _, num := range nums {
			if v, ok := c15numField(f, num, 1); ok {
				out = append(out, arr(n, i, v))
			}
		}
	}
	for _, f := range fields {
		for _, num := range nums {
			if v, ok := c15numField(f, num, 1); ok && r.IntN(5) == 0 {
				out = append(out, c15obj(c15kv(f.name, v)))
			}
		}
	}
	if n > 0 {
		nulls := make([]string, n)
		for i := range nulls {
			nulls[i] = "null"
		}
		out = append(out, "["+strings.Join(nulls, ",")+"]", "[ "+strings.TrimPrefix(arr(n, -1, ""), "[")+" ")
	}
	return out
}

// ---- result shapes -------------------------------------------------------------

func c15shapes() [][]reflect.Type {
	e := c15errorType
	return [][]reflect.Type{
		{e},
		{c15T[int]()}, {c15T[string]()}, {c15T[*c15tok]()}, {c15T[any]()}, {c15T[[]int]()}, {c15T[c15S2]()}, {c15T[*jrpc2.Error]()},
		{c15T[int](), e}, {c15T[string](), e}, {c15T[*c15tok](), e}, {c15T[any](), e}, {c15T[[]int](), e}, {c15T[c15S2](), e},
	}
}

// c15runType evaluates every (option, params, shape, error mode) for one
// parameter type.
func c15runType(c *vt.Ctx, X reflect.Type, idx int, r *rand.Rand, nshapes int) {
	shapes := c15shapes()
	var sigs []*c15sig
	for j := 0; j < nshapes; j++ {
		var outs []reflect.Type
		switch j {
		case 0:
			outs = shapes[0]
		case 1:
			outs = shapes[1+(idx%7)]
		default:
			outs = shapes[8+((idx+j)%6)]
		}
		sigs = append(sigs, c15makeSig(X, outs))
	}
	c15runSigs(c, X, sigs, r)
}

func c15runSigs(c *vt.Ctx, X reflect.Type, sigs []*c15sig, r *rand.Rand) {
	params := c15paramsFor(X, r)
	var st c15stats
	defer st.flush(c)
	k := 0
	for _, o := range c15allOpts() {
		hs := make([]jrpc2.Handler, len(sigs))
		for i, s := range sigs {
			h, err := c15wrap(s.fn, o)
			if err != nil {
				c.Failf("%s %s: a documented signature was refused: %v", s.name, o, err)
				return
			}
			hs[i] = h
		}
		for _, p := range params {
			var w c15want
			trivial := p == "" || p == "null"
			switch {
			case X == nil:
				trivial = true
				if !(p == "" || p == "null") {
					w.v = c15either
				}
			case X == c15reqType:
				trivial = true
			default:
				w = c15oracle(X, o.strict == 1, o.array != 2, p)
			}
			for i, s := range sigs {
				modes := []bool{false}
				if s.reportsErr {
					modes = []bool{false, true}
				}
				for _, em := range modes {
					k++
					if !c15eval(c, s, o, hs[i], p, w, k, em, &st) {
						return
					}
				}
				if !trivial {
					c.Distinct(s.name + "|" + o.String() + "|" + p)
				}
				if !trivial && (w.arrayForm || w.strictHit || k%11 == 0) && k%13 == 0 && c.WantSample() {
					c.Sample(map[string]any{"signature": s.name, "options": o.String(), "params": p,
						"oracle": []string{"call", "refuse", "unspecified"}[w.v], "array_form": w.arrayForm,
						"refused_for_unknown_field": w.strictHit, "decoded": c15show(w.val)})
				}
			}
		}
	}
}

// ---- hand-written functions ------------------------------------------------------

type c15svc struct{ rec *c15rec }

func (s *c15svc) Method(ctx context.Context, p c15Emb) (any, error) {
	s.rec.calls++
	s.rec.ctx, s.rec.arg = reflect.ValueOf(&ctx).Elem(), reflect.ValueOf(p)
	return s.rec.ret[0].Interface(), c15asErr(s.rec.ret[1])
}

func c15asErr(v reflect.Value) error {
	e, _ := v.Interface().(error)
	return e
}

func c15handwritten() []*c15sig {
	e := c15errorType
	var out []*c15sig
	add := func(X reflect.Type, outs []reflect.Type, mk func(rec *c15rec) any) {
		rec := &c15rec{}
		out = append(out, c15newSig(X, outs, mk(rec), rec))
	}
	note := func(rec *c15rec, ctx *context.Context, arg any) {
		rec.calls++
		rec.ctx = reflect.ValueOf(ctx).Elem()
		if arg != nil {
			rec.arg = reflect.ValueOf(arg).Elem()
		}
	}
	add(c15T[c15S2](), []reflect.Type{c15T[c15S2](), e}, func(rec *c15rec) any {
		return func(ctx context.Context, p c15S2) (c15S2, error) {
			note(rec, &ctx, &p)
			return rec.ret[0].Interface().(c15S2), c15asErr(rec.ret[1])
		}
	})
	add(c15T[*c15Tag](), []reflect.Type{e}, func(rec *c15rec) any {
		return func(ctx context.Context, p *c15Tag) error {
			note(rec, &ctx, &p)
			return c15asErr(rec.ret[0])
		}
	})
	add(c15T[[]int](), []reflect.Type{c15T[int]()}, func(rec *c15rec) any {
		return func(ctx context.Context, p []int) int {
			note(rec, &ctx, &p)
			return rec.ret[0].Interface().(int)
		}
	})
	add(c15T[c15Emb](), []reflect.Type{c15T[any](), e}, func(rec *c15rec) any {
		return (&c15svc{rec: rec}).Method
	})
	add(nil, []reflect.Type{c15T[string](), e}, func(rec *c15rec) any {
		return func(ctx context.Context) (string, error) {
			note(rec, &ctx, nil)
			return rec.ret[0].Interface().(string), c15asErr(rec.ret[1])
		}
	})
	add(c15reqType, []reflect.Type{c15T[any](), e}, func(rec *c15rec) any {
		return func(ctx context.Context, p *jrpc2.Request) (any, error) {
			note(rec, &ctx, &p)
			return rec.ret[0].Interface(), c15asErr(rec.ret[1])
		}
	})
	add(c15reqType, []reflect.Type{e}, func(rec *c15rec) any {
		return func(ctx context.Context, p *jrpc2.Request) error {
			note(rec, &ctx, &p)
			return c15asErr(rec.ret[0])
		}
	})
	add(c15T[c15StrictP](), []reflect.Type{c15T[string]()}, func(rec *c15rec) any {
		return func(ctx context.Context, p c15StrictP) string {
			note(rec, &ctx, &p)
			return rec.ret[0].Interface().(string)
		}
	})
	add(c15T[*c15StrictV](), []reflect.Type{c15T[int](), e}, func(rec *c15rec) any {
		return func(ctx context.Context, p *c15StrictV) (int, error) {
			note(rec, &ctx, &p)
			return rec.ret[0].Interface().(int), c15asErr(rec.ret[1])
		}
	})
	add(c15T[[1]string](), []reflect.Type{e}, func(rec *c15rec) any {
		return func(ctx context.Context, p [1]string) error {
			note(rec, &ctx, &p)
			return c15asErr(rec.ret[0])
		}
	})
	return out
}

// ---- Check grammar ---------------------------------------------------------------

func c15checkIns() []reflect.Type {
	return []reflect.Type{c15ctxType, c15T[c15MyCtx](), c15T[int](), c15reqType, c15T[c15S2](), c15T[[]int](), c15T[any]()}
}
func c15checkOuts() []reflect.Type {
	return []reflect.Type{c15errorType, c15T[int](), c15T[*jrpc2.Error](), c15T[any](), c15T[c15MyErr]()}
}

type c15gsig struct {
	ins, outs []int
	variadic  bool
}

func c15grammar(yield func(g c15gsig) bool) {
	ins, outs := c15checkIns(), c15checkOuts()
	seqs(len(ins), 0, 3, func(ii []int) bool {
		vs := []bool{false}
		if len(ii) > 0 && ins[ii[len(ii)-1]].Kind() == reflect.Slice {
			vs = []bool{false, true}
		}
		cont := true
		seqs(len(outs), 0, 3, func(oi []int) bool {
			for _, v := range vs {
				if !yield(c15gsig{ins: append([]int(nil), ii...), outs: append([]int(nil), oi...), variadic: v}) {
					cont = false
					return false
				}
			}
			return true
		})
		return cont
	})
}

// c15checkOne judges Check and New on one function value whose type is known.
func c15checkOne(c *vt.Ctx, ft reflect.Type, fn any, invoke bool) bool {
	want := ft.NumIn() >= 1 && ft.NumIn() <= 2 && ft.In(0) == c15ctxType && !ft.IsVariadic() &&
		ft.NumOut() >= 1 && ft.NumOut() <= 2 && (ft.NumOut() == 1 || ft.Out(1) == c15errorType)
	var fi *handler.FuncInfo
	var err error
	func() {
		defer func() {
			if p := recover(); p != nil {
				err = nil
				fi = nil
				c.Failf("Check(%s) panicked: %v", ft, p)
			}
		}()
		fi, err = handler.Check(fn)
	}()
	if c.Failed() {
		return false
	}
	c.Eval(1)
	newPanicked := func() (p bool) {
		defer func() { p = recover() != nil }()
		handler.New(fn)
		return false
	}()
	if !want {
		if err == nil {
			c.Failf("Check(%s) accepted a signature outside the documented schemes", ft)
			return false
		}
		if !newPanicked {
			c.Failf("New(%s) did not panic although Check reports %v", ft, err)
			return false
		}
		c.Count("check_rejections", 1)
		return true
	}
	if err != nil || fi == nil {
		c.Failf("Check(%s) refused a documented signature: %v", ft, err)
		return false
	}
	if newPanicked {
		c.Failf("New(%s) panicked although Check accepts the signature", ft)
		return false
	}
	var wantArg, wantRes reflect.Type
	if ft.NumIn() == 2 {
		wantArg = ft.In(1)
	}
	reports := ft.Out(ft.NumOut()-1) == c15errorType
	if ft.NumOut() == 2 || !reports {
		wantRes = ft.Out(0)
	}
	if fi.Type != ft || fi.Argument != wantArg || fi.Result != wantRes || fi.ReportsError != reports {
		c.Failf("Check(%s): FuncInfo{Type:%v Argument:%v Result:%v ReportsError:%v}, want {%v %v %v %v}",
			ft, fi.Type, fi.Argument, fi.Result, fi.ReportsError, ft, wantArg, wantRes, reports)
		return false
	}
	c.Count("check_accepts", 1)
	return true
}

func c15runGrammarBlock(c *vt.Ctx, lo, hi int) {
	ins, outs := c15checkIns(), c15checkOuts()
	i := -1
	var st c15stats
	defer st.flush(c)
	c15grammar(func(g c15gsig) bool {
		i++
		if i < lo {
			return true
		}
		if i >= hi {
			return false
		}
		var it, ot []reflect.Type
		for _, k := range g.ins {
			it = append(it, ins[k])
		}
		for _, k := range g.outs {
			ot = append(ot, outs[k])
		}
		ft := reflect.FuncOf(it, ot, g.variadic)
		stub := reflect.MakeFunc(ft, func([]reflect.Value) []reflect.Value { panic("c15: grammar stub called") })
		if !c15checkOne(c, ft, stub.Interface(), false) {
			return false
		}
		// an accepted signature must also work as a handler
		if fi, err := handler.Check(stub.Interface()); err == nil && fi != nil {
			var X reflect.Type
			if len(it) == 2 {
				X = it[1]
			}
			s := c15makeSig(X, ot)
			for _, o := range []c15opt{{strict: 0, array: 0}, {strict: 1, array: 2}} {
				h, err := c15wrap(s.fn, o)
				if err != nil {
					c.Failf("%s %s: %v", s.name, o, err)
					return false
				}
				for k, p := range []string{"", `[1]`, `{"A":1,"B":"b"}`, `{"A":1,"Q":2}`} {
					var w c15want
					switch {
					case X == nil:
						if p != "" {
							w.v = c15either
						}
					case X == c15reqType:
					default:
						w = c15oracle(X, o.strict == 1, o.array != 2, p)
					}
					for _, em := range []bool{false, true}[:1+btoi(s.reportsErr)] {
						if !c15eval(c, s, o, h, p, w, i*8+k, em, &st) {
							return false
						}
					}
					if X != nil && X != c15reqType && p != "" {
						c.Distinct(s.name + "|" + o.String() + "|" + p)
					}
				}
			}
		}
		return true
	})
}

func btoi(b bool) int {
	if b {
		return 1
	}
	return 0
}

type c15notFunc struct{ F func(context.Context) error }

func (c15notFunc) Handle(context.Context, *jrpc2.Request) (any, error) { return nil, nil }

// c15runValues: nil, non-functions and ordinary Go function values.
func c15runValues(c *vt.Ctx) {
	good := func(context.Context) error { return nil }
	bad := []any{
		nil, 0, "func(context.Context) error", 1.5, true, struct{}{}, c15notFunc{F: good}, &good, []any{good},
		map[string]any{"f": good}, make(chan func(context.Context) error), (*int)(nil), fmt.Errorf("x"),
		context.Background(), reflect.ValueOf(good), reflect.TypeOf(good), [1]func(context.Context) error{good},
		&c15notFunc{},
	}
	for _, v := range bad {
		fi, err := func() (fi *handler.FuncInfo, err error) {
			defer func() {
				if p := recover(); p != nil {
					c.Failf("Check(%T) panicked: %v", v, p)
				}
			}()
			return handler.Check(v)
		}()
		c.Eval(1)
		if c.Failed() {
			return
		}
		if err == nil {
			c.Failf("Check(%T %v) accepted a value that is not a function (FuncInfo %+v)", v, v, fi)
			return
		}
		panicked := func() (p bool) {
			defer func() { p = recover() != nil }()
			handler.New(v)
			return false
		}()
		if !panicked {
			c.Failf("New(%T) did not panic although Check reports %v", v, err)
			return
		}
		c.Count("check_rejections", 1)
	}
	fns := []any{
		good,
		func(context.Context) int { return 0 },
		func(context.Context) (int, error) { return 0, nil },
		func(context.Context, int) error { return nil },
		func(context.Context, *jrpc2.Request) (any, error) { return nil, nil },
		jrpc2.Handler(func(context.Context, *jrpc2.Request) (any, error) { return nil, nil }),
		c15notFunc{}.Handle,
		(&c15svc{}).Method,
		func() error { return nil },
		func(context.Context, int, int) error { return nil },
		func(context.Context, ...int) error { return nil },
		func(...context.Context) error { return nil },
		func(int) error { return nil },
		func(*context.Context) error { return nil },
		func(c15MyCtx) error { return nil },
		func(context.Context) {},
		func(context.Context) (int, int) { return 0, 0 },
		func(context.Context) (error, int) { return nil, 0 },
		func(context.Context) (int, *jrpc2.Error) { return 0, nil },
		func(context.Context) (int, c15MyErr) { return 0, nil },
		func(context.Context) (int, error, error) { return 0, nil, nil },
		func(context.Context, int) (int, any) { return 0, nil },
	}
	for _, f := range fns {
		if !c15checkOne(c, reflect.TypeOf(f), f, false) {
			return
		}
	}
}

// ---- registration -----------------------------------------------------------------

func init() {
	vt.Register(&vt.Check{
		Prop:  "C15",
		Level: "exploration",
		Rule: "parameter types X = 35 non-struct types + 36 hand-written struct types (tagged/untagged/embedded/unexported/strict/custom-decoder fields, every integer/float width, json.Number, json.RawMessage) as T, *T (and **T for some) + seeded reflect.StructOf types, " +
			"each as 3 reflect.MakeFunc functions func(ctx,X) error | Y | (Y,error) that capture their arguments (plus 10 hand-written functions, no-parameter and *jrpc2.Request signatures), " +
			"x SetStrict {unset,true,false} x AllowArray {unset,true,false} (unset/unset through handler.New) x ~50 generic params texts + texts derived from X " +
			"(objects: full, single field, wrong type, null, unknown/nested-unknown/duplicate/case-folded keys; arrays of every length 0..n+2, wrong element, nulls; " +
			"number texts that are more than their float64 value - integers beyond 2^53, the limits of every integer width and their neighbours, 2^64 and beyond, spellings with fraction or exponent (2.0, 1e3, -0, 0.0), float32/float64 edges, plus seeded members of these classes - " +
			"placed at every numeric leaf (field, slice/array/map element, nested struct field, any, json.Number, json.RawMessage) of every array-eligible field in array form and of seeded fields in object form) x error mode; " +
			"each handler invocation judged against encoding/json applied directly (evaluations = handler invocations + Check calls judged). " +
			"Check: every signature with <=3 parameters over 7 types (+variadic) and <=3 results over 5 types, plus nil/non-function values. " +
			"One FuncInfo, several handlers (W, WG): Check once, then 6 seeded SetStrict/AllowArray settings covering all four pairs (seeded setter order, only-the-changed-flag, via the opposite value, or the untouched defaults), Wrap after each; " +
			"then every handler is run on all params texts while the FuncInfo holds the last setting (phase A), after the FuncInfo was set to the exact opposite of the handler's setting (phase B), and with the FuncInfo flipped between any two calls (phase C); " +
			"each handler is judged by the oracle with the settings in force when Wrap produced it (struct zoo as T and *T, 7 non-struct types, seeded generated structs). " +
			"distinct_nontrivial = distinct (signature, options, params text) where a declared parameter type had present params to decode or refuse " +
			"(absent/null params and signatures without parameter or with *jrpc2.Request are evaluated but not counted)",
		Assumptions: []string{
			"Go 1.26.8 encoding/json and reflect are the trusted base of the oracle",
			"function values are non-nil (a typed nil func is accepted by Check and can only panic when called)",
			"struct parameter types have distinct JSON keys and no anonymous field tagged without a name; params are valid JSON without surrounding white space",
			"for a struct without array-eligible field the array form [] may be accepted or refused (documentation silent); for a function without parameter present params may be refused or ignored",
			"json.RawMessage values that went through the array-to-field mapping are compared as JSON values (numbers by their text, as json.Number), elsewhere byte for byte",
			"a handler has the SetStrict/AllowArray settings in force when Wrap returned it (documentation of SetStrict/AllowArray: the flag determines the wrapper fi generates); the FuncInfo is not modified while a handler built from it is running",
		},
		Require: map[string]int64{
			"functions_called": 5000, "rejected_invalid_params": 5000, "check_rejections": 500, "check_accepts": 50,
			"array_form_calls": 500, "unknown_field_rejections": 200, "calls_after_funcinfo_changed": 20000,
		},
		Cases: c15cases,
	})
}

func c15paramTypes() []reflect.Type {
	var out []reflect.Type
	out = append(out, c15plainZoo()...)
	for i, t := range c15structZoo() {
		out = append(out, t, reflect.PointerTo(t))
		if i%6 == 0 {
			out = append(out, reflect.PointerTo(reflect.PointerTo(t)))
		}
	}
	return out
}

func c15cases(e vt.Env, yield func(vt.Case) bool) {
	// K: Check grammar in blocks.
	total := 0
	c15grammar(func(c15gsig) bool { total++; return true })
	const block = 3000
	for lo := 0; lo < total; lo += block {
		lo, hi := lo, min(lo+block, total)
		if !yield(vt.Case{ID: fmt.Sprintf("K/%d-%d", lo, hi), Run: func(c *vt.Ctx) { c15runGrammarBlock(c, lo, hi) }}) {
			return
		}
	}
	if !yield(vt.Case{ID: "V/values", Run: c15runValues}) {
		return
	}
	// N: no parameter and *jrpc2.Request with every result shape.
	for i, X := range []reflect.Type{nil, c15reqType} {
		X := X
		id := []string{"N/noparam", "N/request"}[i]
		if !yield(vt.Case{ID: id, Run: func(c *vt.Ctx) {
			var sigs []*c15sig
			for _, outs := range c15shapes() {
				sigs = append(sigs, c15makeSig(X, outs))
			}
			c15runSigs(c, X, sigs, e.Rand(id))
		}}) {
			return
		}
	}
	// H: hand-written functions.
	for i := range c15handwritten() {
		i := i
		id := fmt.Sprintf("H/%d", i)
		if !yield(vt.Case{ID: id, Run: func(c *vt.Ctx) {
			s := c15handwritten()[i]
			c15runSigs(c, s.X, []*c15sig{s}, e.Rand(id))
		}}) {
			return
		}
	}
	// T: the type zoo.
	for i, X := range c15paramTypes() {
		i, X := i, X
		id := strings.ReplaceAll(fmt.Sprintf("T/%d/%s", i, X), " ", "")
		if len(id) > 80 {
			id = id[:80]
		}
		if !yield(vt.Case{ID: id, Run: func(c *vt.Ctx) { c15runType(c, X, i, e.Rand(id), 3) }}) {
			return
		}
	}
	// G: seeded generated struct types (value and pointer).
	n := e.Pick(150, 4000)
	for i := 0; i < n; i++ {
		i := i
		id := fmt.Sprintf("G/%d", i)
		if !yield(vt.Case{ID: id, Run: func(c *vt.Ctx) {
			r := e.Rand(id)
			S := c15genStruct(r)
			X := S
			if r.IntN(2) == 0 {
				X = reflect.PointerTo(S)
			}
			c15runType(c, X, i, r, 2)
		}}) {
			return
		}
	}
	// W, WG: several handlers built from one FuncInfo that is modified afterwards.
	c15rewrapCases(e, yield)
}
