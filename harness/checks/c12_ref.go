package checks

import (
	"bytes"
	"strings"
	"unicode"
)

// Reference decoders for C12, written from the package documentation of
// channel (hdr.go, split.go, json.go doc comments), the statement of C12 and
// RFC 8259; not from the code. Each answers, for a stream and a position, what
// the next Recv is allowed to return.
//
//	c12Record  exactly this record (nil error, or the content-type verdict)
//	c12Error   a non-nil error is required
//	c12Either  this record or an error (documented leniency, e.g. "+3")
//	c12Tail    a final record cut off by end of stream: an error is required
//	           and the data returned with it is either empty or the whole tail
//	c12Free    the documentation does not determine the outcome; from here on
//	           only containment is checked
//
// After the first c12Error / c12Tail / c12Free the checker stops following
// the reference (the documentation does not say how a desynchronised stream
// resynchronises) and only checks containment and termination.

const (
	c12Record = iota
	c12Error
	c12Either
	c12Tail
	c12Free
)

const (
	c12ctNone   = iota // no content-type error allowed
	c12ctMust          // *ContentTypeMismatchError required, with the record
	c12ctEither        // documentation open
)

type c12exp struct {
	kind      int
	rec       []byte
	next      int  // stream position after this record (c12Record / c12Either)
	ct        int  // content-type verdict for header framings
	nullOK    bool // RawJSON: the value null may be returned as an empty record
	exhausted bool // with c12Error / c12Tail: the stream is used up, every later Recv must fail
	partial   bool // with c12Error: a payload or JSON value was begun and is cut off by end of stream
	why       string
}

type c12ref interface {
	next(s []byte, pos int) c12exp
}

// ---------------------------------------------------------------- split ----

// "each message is terminated by the specified byte value": records are the
// runs between split bytes; a run not followed by a split byte at end of
// stream is a record cut off by end of stream.
type c12splitRef struct{ split byte }

func (r c12splitRef) next(s []byte, pos int) c12exp {
	if pos >= len(s) {
		return c12exp{kind: c12Error, exhausted: true, why: "end of stream"}
	}
	i := bytes.IndexByte(s[pos:], r.split)
	if i < 0 {
		return c12exp{kind: c12Tail, rec: s[pos:], exhausted: true, why: "final record without terminator"}
	}
	return c12exp{kind: c12Record, rec: s[pos : pos+i], next: pos + i + 1}
}

// --------------------------------------------------------------- header ----

// Format (StrictHeader doc): zero or more "Name: value" lines, each ended by
// CRLF (a bare LF is accepted as a line end too, see Assumptions), a blank
// line, then exactly Content-Length payload bytes. C12: names match
// case-insensitively, unknown fields are ignored, Content-Length must be a
// non-negative decimal number, Content-Type: StrictHeader must match
// (mismatch or absence = record together with *ContentTypeMismatchError),
// Header/LSP may omit it.
type c12hdrRef struct {
	mime   string
	strict bool
}

func c12asciiLower(b []byte) string {
	out := make([]byte, len(b))
	for i, c := range b {
		if 'A' <= c && c <= 'Z' {
			c += 'a' - 'A'
		}
		out[i] = c
	}
	return string(out)
}

func c12onlyCR(b []byte) bool {
	for _, c := range b {
		if c != '\r' {
			return false
		}
	}
	return true
}

func c12allDigits(s string) bool {
	if s == "" {
		return false
	}
	for i := 0; i < len(s); i++ {
		if s[i] < '0' || s[i] > '9' {
			return false
		}
	}
	return true
}

// c12parseDecimal returns the value of a digit string, ok=false on overflow of
// a signed 64-bit integer.
func c12parseDecimal(d string) (int64, bool) {
	d = strings.TrimLeft(d, "0")
	if len(d) > 19 {
		return 0, false
	}
	var v uint64
	for i := 0; i < len(d); i++ {
		v = v*10 + uint64(d[i]-'0')
	}
	if v > 1<<63-1 {
		return 0, false
	}
	return int64(v), true
}

func (r c12hdrRef) next(s []byte, pos int) c12exp {
	if pos >= len(s) {
		return c12exp{kind: c12Error, exhausted: true, why: "end of stream"}
	}
	var clVals, ctVals []string
	ambiguous := ""
	p := pos
	for {
		if p >= len(s) {
			return c12exp{kind: c12Error, exhausted: true, why: "end of stream inside the header block"}
		}
		var line []byte
		nl := bytes.IndexByte(s[p:], '\n')
		if nl < 0 {
			// a last line without line end
			if c12onlyCR(s[p:]) {
				return c12exp{kind: c12Free, why: "stream ends in a bare CR where a blank line could be"}
			}
			return c12exp{kind: c12Error, exhausted: true, why: "end of stream inside a header line"}
		}
		line = s[p : p+nl]
		p += nl + 1
		if n := len(line); n > 0 && line[n-1] == '\r' {
			line = line[:n-1]
		}
		if len(line) == 0 {
			break // blank line: end of the header block
		}
		if c12onlyCR(line) {
			return c12exp{kind: c12Free, why: "line of several CR: blank or not is not documented"}
		}
		colon := bytes.IndexByte(line, ':')
		if colon < 0 {
			return c12exp{kind: c12Error, why: "header line without a colon"}
		}
		name := c12asciiLower(line[:colon])
		val := strings.Trim(string(line[colon+1:]), " \t")
		tname := strings.TrimFunc(name, unicode.IsSpace)
		if tname != "content-length" && tname != "content-type" {
			continue // unknown field, ignored
		}
		if tname != name {
			ambiguous = "white space around a known field name"
			continue
		}
		if strings.TrimFunc(val, unicode.IsSpace) != val {
			ambiguous = "unusual white space around a field value"
			continue
		}
		if name == "content-length" {
			clVals = append(clVals, val)
		} else {
			ctVals = append(ctVals, val)
		}
	}
	if ambiguous != "" {
		return c12exp{kind: c12Free, why: ambiguous}
	}
	if len(clVals) == 0 {
		return c12exp{kind: c12Error, why: "no Content-Length field"}
	}
	for _, v := range clVals[1:] {
		if v != clVals[0] {
			return c12exp{kind: c12Free, why: "several differing Content-Length fields"}
		}
	}
	v := clVals[0]
	kind := c12Record
	var n int64
	switch {
	case c12allDigits(v):
		var ok bool
		if n, ok = c12parseDecimal(v); !ok {
			return c12exp{kind: c12Error, why: "Content-Length overflows"}
		}
	case len(v) > 1 && v[0] == '+' && c12allDigits(v[1:]):
		// deliberate leniency: an explicit plus sign may be accepted or refused
		var ok bool
		if n, ok = c12parseDecimal(v[1:]); !ok {
			return c12exp{kind: c12Error, why: "Content-Length overflows"}
		}
		kind = c12Either
	case len(v) > 1 && v[0] == '-' && c12allDigits(v[1:]):
		if strings.Trim(v[1:], "0") != "" {
			return c12exp{kind: c12Error, why: "negative Content-Length"}
		}
		kind = c12Either // "-0": not negative, not plain decimal digits either
	default:
		return c12exp{kind: c12Error, why: "Content-Length is not a decimal number"}
	}
	if n > int64(len(s)-p) {
		if kind == c12Either {
			return c12exp{kind: c12Error, why: "signed Content-Length larger than the rest of the stream"}
		}
		return c12exp{kind: c12Error, exhausted: true, partial: true, why: "payload cut off by end of stream"}
	}
	e := c12exp{kind: kind, rec: s[p : p+int(n)], next: p + int(n)}
	// content type
	switch {
	case len(ctVals) == 0:
		if r.strict && r.mime != "" {
			e.ct = c12ctMust
		}
	default:
		for _, c := range ctVals[1:] {
			if c != ctVals[0] {
				e.ct = c12ctEither
			}
		}
		if e.ct == c12ctEither {
			break
		}
		c := ctVals[0]
		switch {
		case c == r.mime:
			e.ct = c12ctNone
		case r.mime == "":
			// no content type is expected and one is present: "an error will still be
			// reported if a content-type is set but does not match" (Header), "does not
			// match the expected value" (StrictHeader) - no non-empty type matches ""
			e.ct = c12ctMust
		case c == "":
			// present but empty: for Header/LSP it is open whether this counts as omitted
			e.ct = c12ctEither
			if r.strict {
				e.ct = c12ctMust
			}
		case strings.EqualFold(c, r.mime) || strings.Join(strings.Fields(c), "") == strings.Join(strings.Fields(r.mime), ""):
			e.ct = c12ctEither // media types are case-insensitive elsewhere; the doc says "match"
		default:
			e.ct = c12ctMust
		}
	}
	return e
}

// -------------------------------------------------------------- RawJSON ----

// "each record is defined by being a complete JSON value. No padding or other
// separation is added." Recv "reports an error if the message is not a
// structurally valid JSON value". Grammar: RFC 8259. White space between
// values is skipped. A number or literal is ended by the first byte that
// cannot continue it.
type c12jsonRef struct{}

const (
	c12jsOK = iota
	c12jsIncomplete
	c12jsInvalid
	c12jsAmbiguous
	c12jsDeep
)

func c12jsSpace(c byte) bool { return c == ' ' || c == '\t' || c == '\r' || c == '\n' }

func c12jsSkip(s []byte, p int) int {
	for p < len(s) && c12jsSpace(s[p]) {
		p++
	}
	return p
}

func c12jsString(s []byte, p int) (int, int) {
	p++ // opening quote
	for {
		if p >= len(s) {
			return p, c12jsIncomplete
		}
		c := s[p]
		switch {
		case c == '"':
			return p + 1, c12jsOK
		case c < 0x20:
			return p, c12jsInvalid
		case c == '\\':
			p++
			if p >= len(s) {
				return p, c12jsIncomplete
			}
			switch s[p] {
			case '"', '\\', '/', 'b', 'f', 'n', 'r', 't':
			case 'u':
				for k := 0; k < 4; k++ {
					p++
					if p >= len(s) {
						return p, c12jsIncomplete
					}
					h := s[p]
					if !('0' <= h && h <= '9' || 'a' <= h && h <= 'f' || 'A' <= h && h <= 'F') {
						return p, c12jsInvalid
					}
				}
			default:
				return p, c12jsInvalid
			}
		}
		p++
	}
}

func c12isDigit(c byte) bool { return '0' <= c && c <= '9' }

// c12jsNumber scans a number. c12jsAmbiguous: the integer part is a complete number
// but a fraction or exponent that was begun is malformed (a decoder may
// report "1" and then fail, or fail at once).
func c12jsNumber(s []byte, p int) (int, int) {
	if s[p] == '-' {
		p++
		if p >= len(s) {
			return p, c12jsIncomplete
		}
	}
	switch {
	case s[p] == '0':
		p++
	case '1' <= s[p] && s[p] <= '9':
		for p < len(s) && c12isDigit(s[p]) {
			p++
		}
	default:
		return p, c12jsInvalid
	}
	if p < len(s) && s[p] == '.' {
		p++
		if p >= len(s) {
			return p, c12jsIncomplete
		}
		if !c12isDigit(s[p]) {
			return p, c12jsAmbiguous
		}
		for p < len(s) && c12isDigit(s[p]) {
			p++
		}
	}
	if p < len(s) && (s[p] == 'e' || s[p] == 'E') {
		p++
		if p < len(s) && (s[p] == '+' || s[p] == '-') {
			p++
		}
		if p >= len(s) {
			return p, c12jsIncomplete
		}
		if !c12isDigit(s[p]) {
			return p, c12jsAmbiguous
		}
		for p < len(s) && c12isDigit(s[p]) {
			p++
		}
	}
	return p, c12jsOK
}

func c12jsLiteral(s []byte, p int, lit string) (int, int) {
	for i := 0; i < len(lit); i++ {
		if p+i >= len(s) {
			return p + i, c12jsIncomplete
		}
		if s[p+i] != lit[i] {
			return p + i, c12jsInvalid
		}
	}
	return p + len(lit), c12jsOK
}

// c12jsValue scans one value at s[p] (p < len(s), no leading white space).
func c12jsValue(s []byte, p int, depth int) (int, int) {
	if depth > 5000 {
		return p, c12jsDeep // nesting limits are implementation defined
	}
	switch c := s[p]; {
	case c == '"':
		return c12jsString(s, p)
	case c == '-' || c12isDigit(c):
		return c12jsNumber(s, p)
	case c == 't':
		return c12jsLiteral(s, p, "true")
	case c == 'f':
		return c12jsLiteral(s, p, "false")
	case c == 'n':
		return c12jsLiteral(s, p, "null")
	case c == '[':
		p = c12jsSkip(s, p+1)
		if p >= len(s) {
			return p, c12jsIncomplete
		}
		if s[p] == ']' {
			return p + 1, c12jsOK
		}
		for {
			e, st := c12jsValue(s, p, depth+1)
			if st != c12jsOK {
				if st == c12jsAmbiguous {
					st = c12jsInvalid // inside a container nothing can follow the integer part but , ] }
				}
				return e, st
			}
			p = c12jsSkip(s, e)
			if p >= len(s) {
				return p, c12jsIncomplete
			}
			if s[p] == ']' {
				return p + 1, c12jsOK
			}
			if s[p] != ',' {
				return p, c12jsInvalid
			}
			p = c12jsSkip(s, p+1)
			if p >= len(s) {
				return p, c12jsIncomplete
			}
		}
	case c == '{':
		p = c12jsSkip(s, p+1)
		if p >= len(s) {
			return p, c12jsIncomplete
		}
		if s[p] == '}' {
			return p + 1, c12jsOK
		}
		for {
			if s[p] != '"' {
				return p, c12jsInvalid
			}
			e, st := c12jsString(s, p)
			if st != c12jsOK {
				return e, st
			}
			p = c12jsSkip(s, e)
			if p >= len(s) {
				return p, c12jsIncomplete
			}
			if s[p] != ':' {
				return p, c12jsInvalid
			}
			p = c12jsSkip(s, p+1)
			if p >= len(s) {
				return p, c12jsIncomplete
			}
			e, st = c12jsValue(s, p, depth+1)
			if st != c12jsOK {
				if st == c12jsAmbiguous {
					st = c12jsInvalid // inside a container nothing can follow the integer part but , ] }
				}
				return e, st
			}
			p = c12jsSkip(s, e)
			if p >= len(s) {
				return p, c12jsIncomplete
			}
			if s[p] == '}' {
				return p + 1, c12jsOK
			}
			if s[p] != ',' {
				return p, c12jsInvalid
			}
			p = c12jsSkip(s, p+1)
			if p >= len(s) {
				return p, c12jsIncomplete
			}
		}
	}
	return p, c12jsInvalid
}

func (c12jsonRef) next(s []byte, pos int) c12exp {
	p := c12jsSkip(s, pos)
	if p >= len(s) {
		return c12exp{kind: c12Error, exhausted: true, why: "end of stream"}
	}
	e, st := c12jsValue(s, p, 0)
	switch st {
	case c12jsIncomplete:
		return c12exp{kind: c12Error, exhausted: true, partial: true, why: "JSON value cut off by end of stream"}
	case c12jsInvalid:
		return c12exp{kind: c12Error, why: "not a JSON value"}
	case c12jsAmbiguous, c12jsDeep:
		return c12exp{kind: c12Free, why: "number with a malformed fraction/exponent, or very deep nesting"}
	}
	x := c12exp{kind: c12Record, rec: s[p:e], next: e}
	if string(x.rec) == "null" {
		x.nullOK = true
	}
	if e == len(s) && (s[p] == '-' || c12isDigit(s[p])) {
		// a number ended only by the end of the stream may have been cut off
		x.kind = c12Either
	}
	return x
}
