package checks

import (
	"context"
	"encoding/json"
	"fmt"
	"net/http/httptest"
	"strings"
	"sync"

	"verif/harness/peer"
	"verif/harness/sched"
	"verif/harness/vt"
)

// C18, phase E5 — a caller that hangs up.
//
// k callers each post one gated call (handlers that honour their context) with a
// string id; one more caller A posts calls whose id *texts* are the small numbers
// 1..n — the very numbers the bridge's shared client hands out as its own ids for
// the requests of the other callers — and then abandons its HTTP request (its
// request context ends). Whatever the bridge does about A's own calls, every other
// caller must still get exactly its own handler's result once that handler is
// released: nothing done on behalf of A may reach a request of somebody else.

func c18e5(e vt.Env, yield func(vt.Case) bool) bool {
	for k := 1; k <= 3; k++ {
		for _, ashape := range []string{"single", "batch", "strings"} {
			for _, afirst := range []bool{false, true} {
				k, ashape, afirst := k, ashape, afirst
				id := fmt.Sprintf("E5/k%d/%s/afirst=%v", k, ashape, afirst)
				if !yield(vt.Case{ID: id, Run: func(c *vt.Ctx) {
					// delays are processor yields, not virtual-time parks (see c18obs)
					prof := c18newObs(nil)
					c18abandon(c, id, k, ashape, afirst, prof)
					c.Distinct(id)
					keys := prof.keys()
					step := max(1, len(keys)/e.Pick(6, 40))
					for i := 0; i < len(keys) && !c.Failed(); i += step {
						c18abandon(c, id+" delayed at "+keys[i], k, ashape, afirst, c18newObs(keys[i:i+1]))
						c.Distinct(id + "/" + keys[i])
					}
				}}) {
					return false
				}
			}
		}
	}
	return true
}

func c18abandon(c *vt.Ctx, what string, k int, ashape string, afirst bool, obs *c18obs) {
	ctrl := sched.New().OnVisit(obs.visit)
	peer.Bubble(c, ctrl, func() {
		log := peer.NewLog()
		H := peer.NewHandlers(log)
		bridge := c18bridge(H)
		c.Attach(func() any { return map[string]any{"scenario": what, "handler_log": log.Dump()} })
		var wg sync.WaitGroup
		post := func(ctx context.Context, body string) *httptest.ResponseRecorder {
			rec := httptest.NewRecorder()
			req := httptest.NewRequest("POST", "/", strings.NewReader(body)).WithContext(ctx)
			req.Header.Set("Content-Type", "application/json")
			wg.Add(1)
			go func() { defer wg.Done(); bridge.ServeHTTP(rec, req) }()
			return rec
		}
		actx, acancel := context.WithCancel(context.Background())
		defer acancel()
		var abody string
		n := 2 * k
		switch ashape {
		case "single":
			abody = peer.Req("1", "g", "a0")
			n = 1
		case "batch":
			var ms []string
			for j := 0; j < n; j++ {
				ms = append(ms, peer.Req(fmt.Sprint(j+1), "g", fmt.Sprintf("a%d", j)))
			}
			abody = "[" + strings.Join(ms, ",") + "]"
		case "strings":
			var ms []string
			for j := 0; j < n; j++ {
				ms = append(ms, peer.Req(fmt.Sprintf(`"%d"`, j+1), "g", fmt.Sprintf("a%d", j)))
			}
			abody = "[" + strings.Join(ms, ",") + "]"
		}
		var arec *httptest.ResponseRecorder
		if afirst {
			arec = post(actx, abody)
			ctrl.Settle()
		}
		brecs := make([]*httptest.ResponseRecorder, k)
		for i := 0; i < k; i++ {
			brecs[i] = post(context.Background(), peer.Req(fmt.Sprintf(`"b%d"`, i), "g", fmt.Sprintf("b%d", i)))
			ctrl.Settle()
		}
		if !afirst {
			arec = post(actx, abody)
			ctrl.Settle()
		}
		if got := log.Count("h.enter", "*"); got != k+n {
			c.Failf("%s: %d handlers running before the caller hangs up, want %d", what, got, k+n)
		}
		acancel() // A hangs up
		ctrl.Settle()
		for i := 0; i < k; i++ {
			if log.Count("h.exit", fmt.Sprintf("b%d", i)) != 0 {
				c.Failf("%s: after caller A (ids %s) hung up, the handler of caller B%d's call (id \"b%d\") has returned although nobody released or cancelled it", what, ashape, i, i)
			}
		}
		for i := 0; i < k; i++ {
			H.Release(fmt.Sprintf("b%d", i))
		}
		ctrl.Settle()
		for i := 0; i < k; i++ {
			var rsp struct {
				ID     string          `json:"id"`
				Result string          `json:"result"`
				Error  json.RawMessage `json:"error"`
			}
			body := brecs[i].Body.Bytes()
			if err := json.Unmarshal(body, &rsp); err != nil || brecs[i].Code != 200 || rsp.ID != fmt.Sprintf("b%d", i) || !strings.HasPrefix(rsp.Result, fmt.Sprintf("b%d/", i)) || rsp.Error != nil {
				c.Failf("%s: caller B%d got status %d body %q; want 200 with the result of its own handler under id \"b%d\" (caller A, who used the id texts 1..%d, had hung up meanwhile)",
					what, i, brecs[i].Code, body, i, n)
			}
			c.Count("bystander_calls_checked", 1)
		}
		H.ReleaseAll()
		ctrl.Settle()
		wg.Wait()
		_ = arec // what A is told after hanging up is its own business
		for tag, cnt := range c18runCounts(log) {
			if cnt != 1 {
				c.Failf("%s: handler of %s ran %d times", what, tag, cnt)
			}
		}
		c.Count("handler_runs", int(H.Invocations()))
		bridge.Close()
	})
	c.Eval(k + 1)
	c.Count("abandoned_posts", 1)
}
