package checks

import (
	"context"
	"errors"
	"fmt"
	"io"
	"net"
	"strings"
	"sync"

	"github.com/creachadair/jrpc2"
	"github.com/creachadair/jrpc2/channel"
	"github.com/creachadair/jrpc2/server"

	"verif/harness/peer"
	"verif/harness/sched"
	"verif/harness/vchan"
	"verif/harness/vt"
)

// ---------------------------------------------------------------------------
// The scripted in-memory accepter.

type c20accepter struct {
	w *c20world

	mu       sync.Mutex
	wake     chan struct{} // closed and replaced whenever the state changes
	queue    []*vchan.End
	err      error // scripted failure, sticky
	killed   bool  // end of scenario: every Accept returns a closing error
	calls    int
	failed   int // number of Accept calls that returned an error
	accepted int
}

func (a *c20accepter) signalLocked() {
	close(a.wake)
	a.wake = make(chan struct{})
}

func (a *c20accepter) offer(e *vchan.End) {
	a.mu.Lock()
	a.queue = append(a.queue, e)
	a.signalLocked()
	a.mu.Unlock()
}

func (a *c20accepter) fail(err error) {
	a.mu.Lock()
	if a.err == nil {
		a.err = err
	}
	a.signalLocked()
	a.mu.Unlock()
}

func (a *c20accepter) kill() {
	a.mu.Lock()
	a.killed = true
	a.signalLocked()
	a.mu.Unlock()
}

// unaccepted removes and returns the connections still waiting in the queue.
func (a *c20accepter) unaccepted() []*vchan.End {
	a.mu.Lock()
	defer a.mu.Unlock()
	q := a.queue
	a.queue = nil
	return q
}

func (a *c20accepter) closingErr(what string) error {
	if a.w.v.NetErr {
		return fmt.Errorf("c20 accepter: %s: %w", what, net.ErrClosed)
	}
	return fmt.Errorf("c20 accepter: %s: %w", what, channel.ErrClosed)
}

// Accept implements server.Accepter.
func (a *c20accepter) Accept(ctx context.Context) (channel.Channel, error) {
	w := a.w
	a.mu.Lock()
	a.calls++
	if a.failed > 0 && !a.killed {
		a.mu.Unlock()
		w.c.Failf("%s: Loop called Accept again after Accept had reported an error", w.where())
		a.mu.Lock()
	}
	a.mu.Unlock()
	w.log.Add("accept.enter", "", "")
	for {
		a.mu.Lock()
		ctxDone := w.v.CtxMode != c20CtxIgnore && ctx.Err() != nil
		var ch *vchan.End
		var err error
		switch {
		case a.killed:
			err = a.closingErr("scenario over")
		case ctxDone && w.v.PrioCtx:
			err = a.ctxErrLocked(ctx)
		case len(a.queue) > 0:
			ch = a.queue[0]
			a.queue = a.queue[1:]
		case a.err != nil:
			err = a.err
		case ctxDone:
			err = a.ctxErrLocked(ctx)
		}
		if ch != nil {
			a.accepted++
			a.mu.Unlock()
			w.log.Add("accept.ret", ch.Name, "")
			return ch, nil
		}
		if err != nil {
			a.failed++
			a.mu.Unlock()
			w.noteAcceptErr(err)
			return nil, err
		}
		wake := a.wake
		a.mu.Unlock()
		if w.v.CtxMode == c20CtxIgnore {
			<-wake
		} else {
			select {
			case <-wake:
			case <-ctx.Done():
			}
		}
	}
}

func (a *c20accepter) ctxErrLocked(ctx context.Context) error {
	if a.w.v.CtxMode == c20CtxClosing {
		return a.closingErr("context ended")
	}
	return ctx.Err()
}

// ---------------------------------------------------------------------------
// Instrumented services.

type c20assigner struct {
	k int
	h *peer.Handlers
}

// Assign implements jrpc2.Assigner. It is called under the server's mutex and
// never blocks.
func (a *c20assigner) Assign(ctx context.Context, method string) jrpc2.Handler {
	return a.h.Assign(ctx, method)
}

type c20finish struct {
	t    int64
	same bool
	st   jrpc2.ServerStatus
}

type c20service struct {
	w             *c20world
	k             int
	asg           *c20assigner
	failed        bool
	assignerCalls int
	finishes      []c20finish
}

var errC20Init = errors.New("c20: scripted service initialisation failure")

// Assigner implements server.Service.
func (s *c20service) Assigner() (jrpc2.Assigner, error) {
	w := s.w
	w.mu.Lock()
	s.assignerCalls++
	fail := w.failNext
	w.failNext = false
	if fail {
		s.failed = true
		w.mu.Unlock()
		w.log.Add("assigner", fmt.Sprint(s.k), "error")
		return nil, errC20Init
	}
	if s.asg == nil {
		h := peer.NewHandlers(w.log)
		k := s.k
		h.OnEnter = func(ctx context.Context, tag string, req *jrpc2.Request) { w.noteHandler(k, tag, ctx) }
		s.asg = &c20assigner{k: s.k, h: h}
	}
	asg := s.asg
	w.mu.Unlock()
	w.log.Add("assigner", fmt.Sprint(s.k), "ok")
	return asg, nil
}

// Finish implements server.Service.
func (s *c20service) Finish(a jrpc2.Assigner, st jrpc2.ServerStatus) {
	w := s.w
	w.mu.Lock()
	same := s.asg != nil && a == jrpc2.Assigner(s.asg)
	w.mu.Unlock()
	t := w.log.Add("finish", fmt.Sprint(s.k), fmt.Sprintf("same_assigner=%v status=%+v", same, st))
	w.mu.Lock()
	s.finishes = append(s.finishes, c20finish{t: t, same: same, st: st})
	w.mu.Unlock()
}

// ---------------------------------------------------------------------------
// The world: one execution of a script against the real server.Loop.

type c20hrec struct {
	svc int
	ctx context.Context
}

type c20wconn struct {
	cli, srv *vchan.End
	nextID   int
	replies  map[string]string // request id -> result token
}

type c20world struct {
	c    *vt.Ctx
	ctrl *sched.Controller
	log  *peer.Log
	mon  *peer.Mon
	v    c20var
	m    *c20model
	acc  *c20accepter

	ctx    context.Context
	cancel context.CancelFunc

	errOther error
	// failClose: "client close" events end the connection with a transport error instead of EOF
	failClose bool

	mu         sync.Mutex
	svcs       []*c20service
	failNext   bool
	hrec       map[string]c20hrec
	conns      []*c20wconn
	acceptErrs []error
	loopRets   int
	loopErr    error
	loopT      int64

	script c20script
	whenMu sync.Mutex
	when   string
	checks int
}

func (w *c20world) where() string {
	w.whenMu.Lock()
	defer w.whenMu.Unlock()
	return fmt.Sprintf("script %s variant %s, %s", w.script, w.v, w.when)
}

// handlers returns the handler sets of the services created so far (nil for
// a service that has no assigner).
func (w *c20world) handlers() []*peer.Handlers {
	w.mu.Lock()
	defer w.mu.Unlock()
	out := make([]*peer.Handlers, len(w.svcs))
	for i, s := range w.svcs {
		if s.asg != nil {
			out[i] = s.asg.h
		}
	}
	return out
}

func (w *c20world) setWhen(s string) {
	w.whenMu.Lock()
	w.when = s
	w.whenMu.Unlock()
}

func (w *c20world) newService() server.Service {
	w.mu.Lock()
	s := &c20service{w: w, k: len(w.svcs)}
	w.svcs = append(w.svcs, s)
	w.mu.Unlock()
	w.log.Add("newService", fmt.Sprint(s.k), "")
	return s
}

func (w *c20world) noteHandler(svc int, tag string, ctx context.Context) {
	w.mu.Lock()
	w.hrec[tag] = c20hrec{svc: svc, ctx: ctx}
	w.mu.Unlock()
}

func (w *c20world) noteAcceptErr(err error) {
	w.log.Add("accept.err", "", fmt.Sprint(err))
	w.mu.Lock()
	w.acceptErrs = append(w.acceptErrs, err)
	w.mu.Unlock()
}

func (w *c20world) gatedMethod() string {
	if w.v.Stubborn {
		return "G"
	}
	return "g"
}

// do performs one script event (no waiting).
func (w *c20world) do(e c20ev) {
	w.log.Add("script", e.String(), "")
	switch e.Op {
	case 'K', 'F':
		k := len(w.conns)
		cli, srv := vchan.NewPair(fmt.Sprintf("cli%d", k), fmt.Sprintf("srv%d", k), w.mon)
		srv.PipeLike = w.v.Pipe
		w.conns = append(w.conns, &c20wconn{cli: cli, srv: srv, replies: map[string]string{}})
		if e.Op == 'F' {
			w.mu.Lock()
			w.failNext = true
			w.mu.Unlock()
		}
		w.acc.offer(srv)
	case 'g', 'i':
		wc := w.conns[e.K]
		wc.nextID++
		method := "i"
		if e.Op == 'g' {
			method = w.gatedMethod()
		}
		wc.cli.Inject([]byte(peer.Req(fmt.Sprint(wc.nextID), method, e.Tag)))
	case 'c':
		if w.failClose {
			// the connection does not end cleanly: the server's Recv reports an error that is
			// neither EOF nor a closing error, so its status carries that error
			w.conns[e.K].cli.InjectFail(errC20Reset)
		} else {
			w.conns[e.K].cli.CloseQuiet()
		}
	case 'r':
		// the gate lives in the handlers of the service of the tag's connection
		if hs := w.handlers(); e.K < len(hs) && hs[e.K] != nil {
			hs[e.K].Release(e.Tag)
		}
	case 'X':
		w.cancel()
	case 'A':
		w.acc.fail(w.acc.closingErr("scripted closing failure"))
	case 'E':
		w.acc.fail(w.errOther)
	}
}

// collect reads the replies that reached the clients.
func (w *c20world) collect() {
	for _, wc := range w.conns {
		for _, rec := range wc.cli.Pending() {
			ms, _, err := peer.Decode(rec)
			if err != nil {
				continue
			}
			for _, m := range ms {
				wc.replies[string(m.ID)] = m.ResultToken()
			}
		}
	}
}

func c20statusString(st jrpc2.ServerStatus) string {
	return fmt.Sprintf("{Err:%v Stopped:%v Closed:%v}", st.Err, st.Stopped, st.Closed)
}

// check evaluates the oracle at a quiescent point against the model.
func (w *c20world) check() {
	c, m := w.c, w.m
	w.checks++
	w.collect()
	evs := w.log.Events()

	w.mu.Lock()
	svcs := append([]*c20service(nil), w.svcs...)
	hrec := make(map[string]c20hrec, len(w.hrec))
	for k, v := range w.hrec {
		hrec[k] = v
	}
	acceptErrs := append([]error(nil), w.acceptErrs...)
	loopRets, loopErr, loopT := w.loopRets, w.loopErr, w.loopT
	type svcView struct {
		assignerCalls int
		failed        bool
		fin           []c20finish
	}
	views := make([]svcView, len(svcs))
	for i, s := range svcs {
		views[i] = svcView{s.assignerCalls, s.failed, append([]c20finish(nil), s.finishes...)}
	}
	w.mu.Unlock()

	// per-connection handler and channel history
	enter := map[string]int64{}
	exit := map[string]int64{}
	closeExit := map[string]int64{}
	for _, e := range evs {
		switch {
		case e.Kind == "h.enter":
			if _, dup := enter[e.Tag]; dup {
				c.Failf("%s: handler for call %s ran twice", w.where(), e.Tag)
			}
			enter[e.Tag] = e.T
		case e.Kind == "h.exit":
			exit[e.Tag] = e.T
		case strings.HasPrefix(e.Kind, "wire.srv") && e.Tag == "close.exit":
			closeExit[strings.TrimPrefix(e.Kind, "wire.")] = e.T
		}
	}

	// one fresh service per accepted connection
	accepted := 0
	for _, mc := range m.conns {
		if !mc.absent {
			accepted++
		}
	}
	if len(svcs) != accepted {
		c.Failf("%s: newService has been called %d times for %d accepted connections (want one fresh service per connection)",
			w.where(), len(svcs), accepted)
	}

	var lastFinish int64
	for k, mc := range m.conns {
		if mc.absent {
			continue
		}
		if k >= len(svcs) {
			continue // already reported
		}
		sv := views[k]
		wc := w.conns[k]
		if sv.assignerCalls != 1 {
			c.Failf("%s: connection %d: Assigner of its service called %d times, want 1", w.where(), k, sv.assignerCalls)
		}
		if sv.failed != mc.fail {
			c.Failf("%s: connection %d: service initialisation failed=%v, script says %v (service/connection pairing broken)", w.where(), k, sv.failed, mc.fail)
		}
		sends, recvs, closes := wc.srv.Counts()
		if mc.fail {
			if len(sv.fin) != 0 {
				c.Failf("%s: connection %d: its Assigner failed, yet Finish was called %d time(s)", w.where(), k, len(sv.fin))
			}
			if closes != 1 {
				c.Failf("%s: connection %d: its Assigner failed; Close was called %d times on its channel, want exactly 1 (connection left dangling or closed twice)", w.where(), k, closes)
			}
			if sends != 0 || recvs != 0 {
				c.Failf("%s: connection %d: its Assigner failed, yet its channel was used (%d Send, %d Recv): a server was started", w.where(), k, sends, recvs)
			}
			continue
		}
		// handlers of this connection
		prefix := fmt.Sprintf("%d.", k)
		running := map[string]bool{}
		var lastExit int64
		for tag := range enter {
			if !strings.HasPrefix(tag, prefix) {
				continue
			}
			if hr, ok := hrec[tag]; ok && hr.svc != k {
				c.Failf("%s: call %s of connection %d was handled by the assigner of service %d", w.where(), tag, k, hr.svc)
			}
			if x, ok := exit[tag]; ok {
				lastExit = max(lastExit, x)
			} else {
				running[tag] = true
			}
		}
		if m.cancelled || mc.cause != "" {
			for tag := range running {
				if hr, ok := hrec[tag]; ok && hr.ctx.Err() == nil {
					c.Failf("%s: the server of connection %d has been stopped (context ended=%v), but the context of its running handler %s is not cancelled",
						w.where(), k, m.cancelled, tag)
				}
			}
		}
		for _, tag := range mc.running {
			if !running[tag] {
				if _, ok := enter[tag]; !ok {
					c.Failf("%s: gated call %s was sent to a running server but its handler never started", w.where(), tag)
				} else {
					c.Failf("%s: handler of gated call %s returned although neither its gate was released nor its server stopped", w.where(), tag)
				}
			}
			delete(running, tag)
		}
		for tag := range running {
			why := "its server has been stopped"
			if m.cancelled {
				why = "the context given to Loop has ended (Loop must stop every running server)"
			}
			c.Failf("%s: handler of call %s on connection %d is still running although %s", w.where(), tag, k, why)
		}

		want := 0
		if mc.exited() {
			want = 1
		}
		if len(sv.fin) != want {
			if want == 1 {
				c.Failf("%s: connection %d: its server must have exited (cause %s, no handler running) but Finish was called %d times, want exactly 1",
					w.where(), k, mc.cause, len(sv.fin))
			} else {
				c.Failf("%s: connection %d: Finish was called %d time(s) although its server cannot have exited yet (stop cause %q, handlers still running %v, reader gone %v)",
					w.where(), k, len(sv.fin), mc.cause, mc.running, mc.readerDone)
			}
		}
		for _, f := range sv.fin {
			lastFinish = max(lastFinish, f.t)
			if !f.same {
				c.Failf("%s: connection %d: Finish was given a different assigner than the one its service returned", w.where(), k)
			}
			okStatus := false
			switch mc.cause {
			case c20Closed:
				okStatus = f.st.Err == nil && f.st.Closed && !f.st.Stopped
			case c20Stopped:
				okStatus = f.st.Err == nil && f.st.Stopped && !f.st.Closed
			case c20Either:
				okStatus = f.st.Err == nil && f.st.Stopped != f.st.Closed
			}
			if w.failClose && mc.cause != c20Stopped && f.st.Err == errC20Reset && !f.st.Closed && !f.st.Stopped {
				okStatus = true // the connection failed with the scripted error
				c.Count("servers_ended_by_a_failing_connection", 1)
			}
			if closes != 1 {
				c.Failf("%s: connection %d: its server has exited; Close was called %d times on its channel, want exactly 1", w.where(), k, closes)
			}
			if !okStatus {
				c.Failf("%s: connection %d: Finish got status %s, but the server exited because: %s", w.where(), k, c20statusString(f.st), mc.cause)
			}
			if f.t < lastExit {
				c.Failf("%s: connection %d: Finish (t=%d) was called before the server's last handler returned (t=%d)", w.where(), k, f.t, lastExit)
			}
			for tag := range enter {
				if strings.HasPrefix(tag, prefix) {
					if x, ok := exit[tag]; !ok || x > f.t {
						c.Failf("%s: connection %d: Finish (t=%d) was called while handler %s had not returned", w.where(), k, f.t, tag)
					}
				}
			}
			ct, ok := closeExit[wc.srv.Name]
			if !ok {
				c.Failf("%s: connection %d: Finish (t=%d) was called but the server never closed its channel (server not exited)", w.where(), k, f.t)
			} else if ct > f.t {
				c.Failf("%s: connection %d: Finish (t=%d) was called before the server closed its channel (t=%d): server had not exited", w.where(), k, f.t, ct)
			}
		}
		if mc.cause == "" && closes != 0 {
			c.Failf("%s: connection %d: the channel of a running server was closed (%d Close calls) though nothing stopped the server", w.where(), k, closes)
		}
	}

	// Accept failures and Loop's return
	if m.accFailed() {
		if len(acceptErrs) != 1 {
			c.Failf("%s: the accepter should have reported exactly one error to Loop by now, it reported %d", w.where(), len(acceptErrs))
		}
	} else if len(acceptErrs) != 0 {
		c.Failf("%s: harness: accepter reported %v without being told to", w.where(), acceptErrs)
	}
	wantRet := m.loopReturned()
	switch {
	case loopRets > 1:
		c.Failf("%s: harness: Loop returned %d times", w.where(), loopRets)
	case loopRets == 1 && !wantRet:
		if !m.accFailed() {
			c.Failf("%s: Loop returned (%v) although the accepter has not failed", w.where(), loopErr)
		} else {
			c.Failf("%s: Loop returned (%v) before every started server had exited and been finished (model: %s)", w.where(), loopErr, w.modelState())
		}
	case loopRets == 0 && wantRet:
		c.Failf("%s: Loop has not returned although the accepter failed and every server has exited (model: %s)", w.where(), w.modelState())
	}
	if loopRets == 1 {
		if lastFinish > loopT {
			c.Failf("%s: a service was finished (t=%d) after Loop had returned (t=%d)", w.where(), lastFinish, loopT)
		}
		if len(acceptErrs) == 1 {
			aerr := acceptErrs[0]
			if c20isClosing(aerr) {
				if loopErr != nil {
					c.Failf("%s: accepter failed with the closing error %q; Loop returned %q, want nil", w.where(), aerr, loopErr)
				}
			} else if loopErr != aerr {
				c.Failf("%s: accepter failed with %q; Loop returned %v, want that error", w.where(), aerr, loopErr)
			}
			// the error Accept reported must be one the script allows
			okKind := false
			for _, kind := range m.accDead {
				switch kind {
				case 'A':
					okKind = okKind || (c20isClosing(aerr) && strings.Contains(aerr.Error(), "scripted"))
				case 'E':
					okKind = okKind || aerr == w.errOther
				case 'X':
					okKind = okKind || (w.v.CtxMode == c20CtxClosing && c20isClosing(aerr)) ||
						(w.v.CtxMode == c20CtxErr && errors.Is(aerr, context.Canceled))
				}
			}
			if !okKind {
				c.Failf("%s: harness: accepter reported %q, which the script does not explain (%q)", w.where(), aerr, string(m.accDead))
			}
		}
	}
}

func (w *c20world) modelState() string {
	var p []string
	for k, mc := range w.m.conns {
		p = append(p, fmt.Sprintf("conn%d{fail=%v absent=%v cause=%q running=%v readerGone=%v exited=%v}", k, mc.fail, mc.absent, mc.cause, mc.running, mc.readerDone, mc.exited()))
	}
	return fmt.Sprintf("cancelled=%v accepter=%q %s", w.m.cancelled, string(w.m.accDead), strings.Join(p, " "))
}

// checkReplies verifies, after an instant call or a release on a live server,
// that the reply carrying the invocation token reached the right client.
func (w *c20world) checkReply(e c20ev, live bool) {
	if !live {
		return
	}
	wc := w.conns[e.K]
	// the id of the call is its ordinal on the connection + 1
	var n int
	fmt.Sscanf(e.Tag[strings.IndexByte(e.Tag, '.')+1:], "%d", &n)
	tok, ok := wc.replies[fmt.Sprint(n+1)]
	if !ok {
		w.c.Failf("%s: call %s on connection %d of a running server got no reply", w.where(), e.Tag, e.K)
	} else if !strings.HasPrefix(tok, e.Tag+"/") {
		w.c.Failf("%s: call %s on connection %d got the reply %q", w.where(), e.Tag, e.K, tok)
	}
}

// step applies one step, settles, resolves what only observation can tell
// (was a racing connection accepted at all) and checks the oracle.
func (w *c20world) step(st c20step, label string) {
	m := w.m
	w.setWhen(label)
	type live struct {
		e  c20ev
		ok bool
	}
	var replies []live
	racingConn := -1
	fresh := map[int]bool{}
	for k, mc := range m.conns {
		fresh[k] = !mc.fail && !mc.absent && mc.cause == ""
	}
	accAlive := !m.accFailed()
	for _, e := range st {
		if (e.Op == 'g' || e.Op == 'i' || e.Op == 'c' || e.Op == 'r') && e.K < len(m.conns) && m.conns[e.K].absent {
			continue // the connection of this event was never accepted
		}
		if e.Op == 'K' && len(st) > 1 {
			racingConn = len(m.conns)
		}
		w.do(e)
		m.apply(e)
		if e.Op == 'i' || e.Op == 'r' {
			replies = append(replies, live{e, len(st) == 1 && m.conns[e.K].cause == ""})
		}
	}
	if len(st) == 2 {
		w.raceFix(st, fresh, accAlive)
	}
	w.ctrl.Settle()
	if racingConn >= 0 {
		if left := w.acc.unaccepted(); len(left) > 0 {
			m.conns[racingConn].absent = true
			w.log.Add("script", "unaccepted", left[0].Name)
			w.c.Count("racing_connections_not_accepted", 1)
		} else {
			w.c.Count("racing_connections_accepted", 1)
		}
	}
	w.check()
	for _, r := range replies {
		w.checkReply(r.e, r.ok)
	}
}

// raceFix widens the model's expectation after a racing pair of events.
func (w *c20world) raceFix(st c20step, fresh map[int]bool, accAlive bool) {
	m := w.m
	has := func(op byte) (c20ev, bool) {
		for _, e := range st {
			if e.Op == op {
				return e, true
			}
		}
		return c20ev{}, false
	}
	_, x := has('X')
	if ce, ok := has('c'); ok && x {
		// the client closed and the context ended in the same step: whichever
		// the server notices first decides its status, unless it had stopped before.
		if mc := m.conns[ce.K]; !mc.fail && fresh[ce.K] {
			mc.cause = c20Either
		}
	}
	if x && w.v.CtxMode != c20CtxIgnore {
		for _, op := range []byte{'A', 'E'} {
			if _, ok := has(op); ok && accAlive {
				m.accDead = []byte{'X', op}
			}
		}
	}
}

// c20isClosing is the documented meaning of "a closed-listener error", spelt out here
// rather than borrowed from the library: the error is or wraps channel.ErrClosed or net.ErrClosed.
func c20isClosing(err error) bool {
	return err != nil && (errors.Is(err, channel.ErrClosed) || errors.Is(err, net.ErrClosed))
}

var errC20Reset = errors.New("c20 connection: reset by peer")

// c20timeoutErr is an accept error of the kind a listener with a deadline reports.
type c20timeoutErr struct{}

func (c20timeoutErr) Error() string   { return "c20 accepter: i/o timeout" }
func (c20timeoutErr) Timeout() bool   { return true }
func (c20timeoutErr) Temporary() bool { return true }

// c20acceptErrors are the non-closing failures the scripted accepter reports (one per
// script, chosen by its hash): whatever its flavour, Loop must return that very error.
var c20acceptErrors = []error{
	errors.New("c20 accepter: scripted non-closing failure"),
	c20timeoutErr{},
	&net.OpError{Op: "accept", Net: "tcp", Err: c20timeoutErr{}},
	context.DeadlineExceeded,
	io.ErrUnexpectedEOF,
	io.EOF, // "no more connections" of a one-shot or queue-fed accepter: not a closed-listener error
	fmt.Errorf("c20 accepter: queue drained: %w", io.EOF),
}

// c20exec runs one script in a bubble.
func c20exec(c *vt.Ctx, v c20var, script c20script, ctrl *sched.Controller) {
	var w *c20world
	c.Attach(func() any {
		if w == nil {
			return nil
		}
		return map[string]any{"script": script.String(), "variant": v.String(), "log": w.log.Dump()}
	})
	peer.Bubble(c, ctrl, func() {
		log := peer.NewLog()
		w = &c20world{c: c, ctrl: ctrl, log: log, v: v, m: &c20model{v: v}, hrec: map[string]c20hrec{},
			script: script, failClose: vt.Hash64("failclose/"+script.String()+v.String())%3 == 0, errOther: c20acceptErrors[int(vt.Hash64(script.String()+v.String())%uint64(len(c20acceptErrors)))]}
		w.mon = &peer.Mon{C: c, Log: log}
		w.acc = &c20accepter{w: w, wake: make(chan struct{})}
		w.ctx, w.cancel = context.WithCancel(context.Background())
		opts := &server.LoopOptions{ServerOptions: &jrpc2.ServerOptions{Concurrency: 8}}
		go func() {
			err := server.Loop(w.ctx, w.acc, w.newService, opts)
			t := log.Add("loop.ret", "", fmt.Sprint(err))
			w.mu.Lock()
			w.loopRets++
			w.loopErr, w.loopT = err, t
			w.mu.Unlock()
		}()
		w.setWhen("at start")
		ctrl.Settle()
		w.check()
		for i, st := range script {
			if c.Failed() {
				break
			}
			w.step(st, fmt.Sprintf("after step %d (%s)", i+1, st))
		}
		if !c.Failed() {
			// orderly end; the model is advanced event by event inside step
			for i, e := range w.m.clone().teardown() {
				if c.Failed() {
					break
				}
				w.step(c20step{e}, fmt.Sprintf("after teardown step %d (%s)", i+1, e))
			}
			if !c.Failed() && !w.m.loopReturned() {
				c.Failf("%s: harness: model does not expect Loop to have returned after the teardown (%s)", w.where(), w.modelState())
			}
		}
		// best-effort cleanup so that a violation does not also leave goroutines behind
		for _, h := range w.handlers() {
			if h != nil {
				h.ReleaseAll()
			}
		}
		for _, wc := range w.conns {
			wc.cli.CloseQuiet()
		}
		w.cancel()
		w.acc.kill()
		ctrl.Settle()

		w.mu.Lock()
		defer w.mu.Unlock()
		c.Count("quiescent_oracle_checks", w.checks)
		c.Count("events", log.Len())
		c.Count("connections_accepted", len(w.svcs))
		for _, s := range w.svcs {
			c.Count("finish_calls", len(s.finishes))
			if s.failed {
				c.Count("assigner_failures", 1)
			}
			if s.asg != nil {
				c.Count("handler_runs", int(s.asg.h.Invocations()))
			}
			for _, f := range s.finishes {
				if f.st.Stopped {
					c.Count("finish_status_stopped", 1)
				}
				if f.st.Closed {
					c.Count("finish_status_closed", 1)
				}
			}
		}
		if w.loopRets == 1 {
			if w.loopErr == nil {
				c.Count("loop_returned_nil", 1)
			} else {
				c.Count("loop_returned_error", 1)
			}
		}
	})
	c.Eval(1)
}
