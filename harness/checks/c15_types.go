package checks

import (
	"bytes"
	"encoding/json"
	"fmt"
	"math/rand/v2"
	"reflect"
	"sort"
	"strings"
	"time"
	"unicode"
)

// Parameter-type zoo, JSON text generators and the value comparison shared by
// the C15 and C16 checks. Nothing in this file looks at the handler package.

// ---- hand-written types (shapes reflect.StructOf cannot build) -------------

type C15Inner struct {
	X int
	Y string
}
type c15hidden struct {
	X int
	Y string
}
type C15Int int

type c15S0 struct{}
type c15SU struct {
	a int
	b string
}
type c15S1 struct{ A int }
type c15S2 struct {
	A int
	B string
}
type c15Tag struct {
	A int     `json:"alpha"`
	B string  `json:"beta,omitempty"`
	C bool    `json:"-"`
	D float64 `json:",omitempty"`
}
type c15Mix struct {
	A int
	b int
	C string
	d string
	E []int
}
type c15Emb struct {
	C15Inner
	Z int
}
type c15EmbTag struct {
	C15Inner `json:"inner"`
	Z        int
}
type c15EmbPtr struct {
	*C15Inner
	Z int
}
type c15EmbHid struct {
	c15hidden
	Z int
}
type c15EmbInt struct {
	C15Int
	B int
}
type c15EmbShadow struct {
	C15Inner
	X string
}
type c15Nested struct {
	P C15Inner
	Q *C15Inner
	R []C15Inner
	M map[string]C15Inner
}
type c15StrictV struct{ A, B int }

func (c15StrictV) DisallowUnknownFields() {}

type c15StrictP struct{ A, B int }

func (*c15StrictP) DisallowUnknownFields() {}

type c15StrictNest struct {
	A int
	P C15Inner
}

func (*c15StrictNest) DisallowUnknownFields() {}

// c15Custom has its own decoder whose outcome does not depend on the
// formatting or key order of the object text it is given.
type c15Custom struct {
	Keys []string
	Sum  float64
}

func (c *c15Custom) UnmarshalJSON(b []byte) error {
	var m map[string]float64
	if err := json.Unmarshal(b, &m); err != nil {
		return err
	}
	c.Keys, c.Sum = nil, 0
	for k, v := range m {
		c.Keys = append(c.Keys, k)
		c.Sum += v
	}
	sort.Strings(c.Keys)
	return nil
}

type c15Dash struct {
	A int `json:"-,"`
	B int
}
type c15Str struct {
	N int `json:"n,string"`
	S string
}
type c15Any struct {
	V any
	R json.RawMessage
	P *int
}
type c15Case struct {
	A int `json:"a"`
	B int `json:"A"`
}
type c15Time struct {
	T time.Time
	D time.Duration
}
type c15Ptrs struct {
	A *int
	B **string
	C *C15Inner
}
type c15Arr struct {
	A [2]int
	B []string
	C map[string]int
}
type c15OnlyDash struct {
	A int `json:"-"`
	b int
}
type c15OnlyEmb struct{ C15Inner }
type c15Iface struct {
	E error
	S fmt.Stringer
	A int
}
type c15Chan struct {
	C chan int
	A int
}
type c15Uni struct {
	É int `json:"é"`
	B int `json:"b c"`
	C int `json:"$x.y-z"`
}
type c15Six struct {
	A int
	B string
	C bool
	D float64
	E []int
	F map[string]int
}

// c15Nums: every numeric width, so that number texts which do not survive a
// trip through float64 (or through a generic JSON value) have somewhere to land.
type c15Nums struct {
	I64 int64
	U64 uint64
	I32 int32
	U8  uint8
	F32 float32
	F64 float64
	P   *int64
	N   json.Number
	A   any
	R   json.RawMessage
	L   []int64
	M   map[string]uint64
}
type c15NumsTag struct {
	ID    int64           `json:"id"`
	Count uint64          `json:"count,omitempty"`
	Skip  int64           `json:"-"`
	Q     int64           `json:"q,string"`
	In    C15Inner        `json:"in"`
	Raw   json.RawMessage `json:"raw"`
}

var (
	c15rawType    = reflect.TypeOf(json.RawMessage(nil))
	c15timeType   = reflect.TypeOf(time.Time{})
	c15customType = reflect.TypeOf(c15Custom{})
	c15errorType  = reflect.TypeOf((*error)(nil)).Elem()
	c15innerType  = reflect.TypeOf(C15Inner{})
	c15numberType = reflect.TypeOf(json.Number(""))
)

func c15T[T any]() reflect.Type { return reflect.TypeOf((*T)(nil)).Elem() }

// c15structZoo are the struct types tried as X, *X (and **X for a few).
func c15structZoo() []reflect.Type {
	return []reflect.Type{
		c15T[c15S0](), c15T[c15SU](), c15T[c15S1](), c15T[c15S2](), c15T[c15Tag](), c15T[c15Mix](),
		c15T[c15Emb](), c15T[c15EmbTag](), c15T[c15EmbPtr](), c15T[c15EmbHid](), c15T[c15EmbInt](),
		c15T[c15EmbShadow](), c15T[c15Nested](), c15T[c15StrictV](), c15T[c15StrictP](), c15T[c15StrictNest](),
		c15T[c15Custom](), c15T[c15Dash](), c15T[c15Str](), c15T[c15Any](), c15T[c15Case](), c15T[c15Time](),
		c15T[c15Ptrs](), c15T[c15Arr](), c15T[c15OnlyDash](), c15T[c15OnlyEmb](), c15T[c15Iface](),
		c15T[c15Chan](), c15T[c15Uni](), c15T[c15Six](), c15T[C15Inner](), c15T[time.Time](),
		c15T[struct {
			A int
			B string
		}](),
		c15T[struct{}](),
		c15T[c15Nums](), c15T[c15NumsTag](),
	}
}

// c15plainZoo are the non-struct parameter types.
func c15plainZoo() []reflect.Type {
	return []reflect.Type{
		c15T[int](), c15T[int8](), c15T[uint16](), c15T[float64](), c15T[string](), c15T[bool](),
		c15T[[]int](), c15T[[]string](), c15T[[]any](), c15T[[2]int](), c15T[[1]string](), c15T[[0]int](),
		c15T[map[string]int](), c15T[map[string]any](), c15T[any](), c15T[json.RawMessage](),
		c15T[*int](), c15T[*string](), c15T[*[]int](), c15T[**int](), c15T[*map[string]int](),
		c15T[*json.RawMessage](), c15T[*any](), c15T[error](), c15T[fmt.Stringer](), c15T[chan int](),
		c15T[C15Int](), c15T[[]C15Inner](), c15T[map[string]C15Inner](), c15T[[]*c15S2](),
		c15T[**c15S2](), c15T[**c15StrictP](), c15T[[]c15StrictV](), c15T[[1]c15S2](), c15T[time.Duration](),
	}
}

// ---- generated struct types -------------------------------------------------

var c15fieldTypes = []reflect.Type{
	c15T[int](), c15T[string](), c15T[bool](), c15T[float64](), c15T[[]int](), c15T[map[string]int](),
	c15T[*int](), c15T[any](), c15T[json.RawMessage](), c15T[C15Inner](), c15T[*C15Inner](),
	c15T[[]C15Inner](), c15T[[2]int](), c15T[int8](), c15T[*string](), c15T[[]string](),
	c15T[int64](), c15T[uint64](), c15T[*int64](), c15T[[]int64](), c15T[json.Number](),
}

// c15genStruct builds a struct type with 0..5 exported fields F0..; tags are
// absent, named, named+omitempty, "-", ",omitempty" or (integers) named+string;
// optionally one embedded C15Inner (tagged or not). JSON names are distinct.
func c15genStruct(r *rand.Rand) reflect.Type {
	n := r.IntN(6)
	var fs []reflect.StructField
	emb := r.IntN(5) == 0
	embAt := 0
	if emb {
		embAt = r.IntN(n + 1)
	}
	for i := 0; i <= n; i++ {
		if emb && i == embAt {
			f := reflect.StructField{Name: "C15Inner", Type: c15innerType, Anonymous: true}
			if r.IntN(2) == 0 {
				f.Tag = `json:"emb"`
			}
			fs = append(fs, f)
		}
		if i == n {
			break
		}
		ft := c15fieldTypes[r.IntN(len(c15fieldTypes))]
		f := reflect.StructField{Name: fmt.Sprintf("F%d", i), Type: ft}
		switch r.IntN(8) {
		case 0, 1, 2:
		case 3:
			f.Tag = reflect.StructTag(fmt.Sprintf(`json:"t%d"`, i))
		case 4:
			f.Tag = reflect.StructTag(fmt.Sprintf(`json:"t%d,omitempty"`, i))
		case 5:
			f.Tag = `json:"-"`
		case 6:
			f.Tag = `json:",omitempty"`
		case 7:
			if ft.Kind() == reflect.Int || ft.Kind() == reflect.Int8 {
				f.Tag = reflect.StructTag(fmt.Sprintf(`json:"t%d,string"`, i))
			}
		}
		fs = append(fs, f)
	}
	return reflect.StructOf(fs)
}

// ---- JSON view of a struct type (workload generation only) ------------------

type c15jf struct {
	name   string
	typ    reflect.Type
	quoted bool // `,string` option
}

// c15validTagName follows the encoding/json documentation: a key name is used
// if it is non-empty and consists only of Unicode letters, digits and ASCII
// punctuation except quotation marks, backslash and comma.
func c15validTagName(s string) bool {
	if s == "" {
		return false
	}
	for _, c := range s {
		switch {
		case strings.ContainsRune("!#$%&()*+-./:;<=>?@[]^_{|}~ ", c):
		case unicode.IsLetter(c) || unicode.IsDigit(c):
		default:
			return false
		}
	}
	return true
}

// c15fieldJSONName returns the key encoding/json uses for a (non-embedded or
// tagged) field, and whether the field takes part in JSON at all.
func c15fieldJSONName(f reflect.StructField) (name string, opts string, ok bool) {
	tag, has := f.Tag.Lookup("json")
	if has && tag == "-" {
		return "", "", false
	}
	if has {
		name, opts, _ = strings.Cut(tag, ",")
		if !c15validTagName(name) {
			name = ""
		}
	}
	return name, opts, true
}

// c15jsonFields lists the keys an object may use for struct type t (embedded
// untagged structs are inlined; outer names shadow inner ones).
func c15jsonFields(t reflect.Type) []c15jf {
	var out []c15jf
	seen := map[string]bool{}
	var inner []reflect.Type
	for i := 0; i < t.NumField(); i++ {
		f := t.Field(i)
		name, opts, ok := c15fieldJSONName(f)
		if !ok {
			continue
		}
		if f.Anonymous && name == "" {
			ft := f.Type
			if ft.Kind() == reflect.Pointer {
				ft = ft.Elem()
			}
			if ft.Kind() == reflect.Struct {
				inner = append(inner, ft)
				continue
			}
		}
		if !f.IsExported() {
			continue
		}
		if name == "" {
			name = f.Name
		}
		seen[name] = true
		out = append(out, c15jf{name: name, typ: f.Type, quoted: strings.Contains(opts, "string")})
	}
	for _, it := range inner {
		for _, f := range c15jsonFields(it) {
			if !seen[f.name] {
				seen[f.name] = true
				out = append(out, f)
			}
		}
	}
	return out
}

// ---- JSON text generators ----------------------------------------------------

func c15q(s string) string { b, _ := json.Marshal(s); return string(b) }

var c15anyTexts = []string{`1`, `-2.5`, `"s"`, `true`, `null`, `[1,"a"]`, `{"k":[1,{"z":null}]}`, `"<&>"`, `[]`, `{}`}

// c15good returns a JSON text that encoding/json decodes without error into t.
func c15good(t reflect.Type, r *rand.Rand, depth int) string {
	switch t {
	case c15rawType:
		return c15anyTexts[r.IntN(len(c15anyTexts))]
	case c15timeType:
		return []string{`"2024-01-02T03:04:05Z"`, `"1999-12-31T23:59:59.5Z"`}[r.IntN(2)]
	case c15customType:
		return []string{`{"k":1,"j":2.5}`, `{}`, `{"z":-1}`}[r.IntN(3)]
	case c15numberType:
		return []string{`12`, `-1.50`, `"7"`, `1e2`}[r.IntN(4)]
	}
	switch t.Kind() {
	case reflect.Bool:
		return []string{"true", "false"}[r.IntN(2)]
	case reflect.Int8:
		return fmt.Sprint(r.IntN(256) - 128)
	case reflect.Int, reflect.Int16, reflect.Int32, reflect.Int64:
		return []string{"0", "-7", "42", "123456789", "-0"}[r.IntN(5)]
	case reflect.Uint, reflect.Uint8, reflect.Uint16, reflect.Uint32, reflect.Uint64:
		return fmt.Sprint(r.IntN(200))
	case reflect.Float32, reflect.Float64:
		return []string{"1.5", "-2e3", "0", "7", "1E-2"}[r.IntN(5)]
	case reflect.String:
		return []string{`"s"`, `""`, `"<a&b>"`, `"éé\n"`, `"x y"`}[r.IntN(5)]
	case reflect.Slice:
		if depth > 3 {
			return "[]"
		}
		n := r.IntN(3)
		parts := make([]string, n)
		for i := range parts {
			parts[i] = c15good(t.Elem(), r, depth+1)
		}
		return "[" + strings.Join(parts, ",") + "]"
	case reflect.Array:
		parts := make([]string, t.Len())
		for i := range parts {
			parts[i] = c15good(t.Elem(), r, depth+1)
		}
		return "[" + strings.Join(parts, ",") + "]"
	case reflect.Map:
		if depth > 3 || t.Key().Kind() != reflect.String {
			return "{}"
		}
		n := r.IntN(3)
		parts := make([]string, n)
		for i := range parts {
			parts[i] = c15q(fmt.Sprintf("k%d", i)) + ":" + c15good(t.Elem(), r, depth+1)
		}
		return "{" + strings.Join(parts, ",") + "}"
	case reflect.Pointer:
		if r.IntN(5) == 0 {
			return "null"
		}
		return c15good(t.Elem(), r, depth+1)
	case reflect.Interface:
		if t.NumMethod() == 0 {
			return c15anyTexts[r.IntN(len(c15anyTexts))]
		}
		return "null"
	case reflect.Struct:
		if depth > 3 {
			return "{}"
		}
		var parts []string
		for _, f := range c15jsonFields(t) {
			if r.IntN(4) == 0 {
				continue
			}
			parts = append(parts, c15q(f.name)+":"+c15goodField(f, r, depth+1))
		}
		return "{" + strings.Join(parts, ",") + "}"
	}
	return "null" // chan, func: only null decodes
}

func c15goodField(f c15jf, r *rand.Rand, depth int) string {
	v := c15good(f.typ, r, depth)
	if f.quoted {
		switch f.typ.Kind() {
		case reflect.Int, reflect.Int8, reflect.Int16, reflect.Int32, reflect.Int64, reflect.Float64, reflect.Bool:
			return c15q(v)
		}
	}
	return v
}

// c15bad returns a JSON text that encoding/json refuses to decode into t, if
// there is one.
func c15bad(t reflect.Type, r *rand.Rand) (string, bool) {
	switch t {
	case c15rawType:
		return "", false
	case c15timeType:
		return `"not a time"`, true
	case c15customType:
		return `{"k":"v"}`, true
	case c15numberType:
		return []string{`"x"`, `true`, `{}`, `[1]`}[r.IntN(4)], true
	}
	switch t.Kind() {
	case reflect.Bool:
		return []string{`"x"`, `1`, `{}`}[r.IntN(3)], true
	case reflect.Int8:
		return []string{`300`, `"x"`, `1.5`, `[]`}[r.IntN(4)], true
	case reflect.Int, reflect.Int16, reflect.Int32, reflect.Int64:
		return []string{`"x"`, `1.5`, `1e99`, `true`, `{}`, `99999999999999999999`}[r.IntN(6)], true
	case reflect.Uint, reflect.Uint8, reflect.Uint16, reflect.Uint32, reflect.Uint64:
		return []string{`-1`, `"x"`, `1.5`, `99999999999999999999`}[r.IntN(4)], true
	case reflect.Float32, reflect.Float64:
		return []string{`"x"`, `1e999`, `true`, `[]`}[r.IntN(4)], true
	case reflect.String:
		return []string{`5`, `true`, `{}`, `[]`}[r.IntN(4)], true
	case reflect.Slice, reflect.Array:
		return []string{`{}`, `5`, `"x"`}[r.IntN(3)], true
	case reflect.Map:
		return []string{`[]`, `5`, `"x"`}[r.IntN(3)], true
	case reflect.Pointer:
		return c15bad(t.Elem(), r)
	case reflect.Interface:
		if t.NumMethod() == 0 {
			return "", false
		}
		return []string{`1`, `{}`, `"x"`}[r.IntN(3)], true
	case reflect.Struct:
		return []string{`5`, `"x"`, `true`}[r.IntN(3)], true
	}
	return `1`, true // chan, func
}

// ---- number texts ---------------------------------------------------------------

// c15numFixed are JSON number texts whose meaning depends on more than their
// float64 value: integers that need more than 53 bits, the limits of the
// integer widths and their neighbours, and spellings with a fraction or an
// exponent (which encoding/json refuses for integer targets although the value
// is integral), negative zero, and values at the edge of float32 / float64.
var c15numFixed = []string{
	"9007199254740993", "-9007199254740993", "9007199254740992", "1234567890123456789", "-1234567890123456789",
	"9223372036854775807", "-9223372036854775808", "-9223372036854775807", "9223372036854775808", "-9223372036854775809",
	"18446744073709551615", "18446744073709551616", "100000000000000000000", "123456789012345678901234567890",
	"2.0", "1e3", "-0", "0.0", "-0.0", "1E2", "-1e0", "1.0e0", "2e-0", "0.1", "1e-1", "0.30000000000000004",
	"2147483647", "2147483648", "-2147483649", "4294967296", "127", "128", "-129", "255", "256",
	"16777217", "3.4028235e38", "3.5e38", "1.7976931348623157e308", "5e-324", "1e-400",
}

// c15numTexts returns the fixed list plus seeded members of the same classes.
func c15numTexts(r *rand.Rand) []string {
	out := append([]string(nil), c15numFixed...)
	for i := 0; i < 3; i++ {
		out = append(out, fmt.Sprint(uint64(1)<<53+uint64(r.IntN(1<<20))*2+1)) // odd, > 2^53
		out = append(out, fmt.Sprint(int64(r.Uint64()|1<<62)), fmt.Sprint(-int64(r.Uint64()>>1|1<<61)))
		out = append(out, fmt.Sprint(r.Uint64()|1<<63))
		small := r.IntN(2000) - 1000
		out = append(out, fmt.Sprint(small)+[]string{".0", "e0", "E+0", ".000", "e-0"}[r.IntN(5)])
	}
	return out
}

// c15numInto returns a JSON text shaped for type t that carries the number
// text num at its numeric leaves (t itself, the elements of a slice / array /
// map, the first numeric field of a struct), if t has one.
func c15numInto(t reflect.Type, num string, depth int) (string, bool) {
	switch t {
	case c15rawType, c15numberType:
		return num, true
	case c15timeType, c15customType:
		return "", false
	}
	if depth > 4 {
		return "", false
	}
	switch t.Kind() {
	case reflect.Int, reflect.Int8, reflect.Int16, reflect.Int32, reflect.Int64,
		reflect.Uint, reflect.Uint8, reflect.Uint16, reflect.Uint32, reflect.Uint64,
		reflect.Float32, reflect.Float64:
		return num, true
	case reflect.Interface:
		if t.NumMethod() == 0 {
			return num, true
		}
	case reflect.Pointer:
		return c15numInto(t.Elem(), num, depth+1)
	case reflect.Slice:
		if e, ok := c15numInto(t.Elem(), num, depth+1); ok {
			return "[" + e + "]", true
		}
	case reflect.Array:
		if e, ok := c15numInto(t.Elem(), num, depth+1); ok && t.Len() > 0 {
			return "[" + strings.TrimSuffix(strings.Repeat(e+",", t.Len()), ",") + "]", true
		}
	case reflect.Map:
		if t.Key().Kind() == reflect.String {
			if e, ok := c15numInto(t.Elem(), num, depth+1); ok {
				return `{"k":` + e + "}", true
			}
		}
	case reflect.Struct:
		for _, f := range c15jsonFields(t) {
			if e, ok := c15numField(f, num, depth+1); ok {
				return "{" + c15q(f.name) + ":" + e + "}", true
			}
		}
	}
	return "", false
}

// c15numField is c15numInto for a struct field (a `,string` field gets the
// number quoted).
func c15numField(f c15jf, num string, depth int) (string, bool) {
	e, ok := c15numInto(f.typ, num, depth)
	if ok && f.quoted && e == num {
		switch f.typ.Kind() {
		case reflect.Interface, reflect.Slice: // the option does not apply
		default:
			return c15q(e), true
		}
	}
	return e, ok
}

// ---- comparison ----------------------------------------------------------------

// c15jsonEqual reports whether two JSON texts denote the same value.
func c15jsonEqual(a, b []byte) bool {
	dec := func(x []byte) (any, bool) {
		d := json.NewDecoder(bytes.NewReader(x))
		d.UseNumber()
		var v any
		if err := d.Decode(&v); err != nil {
			return nil, false
		}
		return v, true
	}
	va, ok1 := dec(a)
	vb, ok2 := dec(b)
	return ok1 && ok2 && reflect.DeepEqual(va, vb)
}

// c15equal is reflect.DeepEqual except that, when rawExact is false, values of
// type json.RawMessage are compared as JSON values rather than byte for byte
// (the documented array form is re-encoded on its way to the struct, so the
// bytes a RawMessage field receives are unspecified; their JSON value is not).
func c15equal(a, b reflect.Value, rawExact bool) bool {
	if !a.IsValid() || !b.IsValid() {
		return a.IsValid() == b.IsValid()
	}
	if a.Type() != b.Type() {
		return false
	}
	if a.Type() == c15rawType {
		if a.IsNil() != b.IsNil() {
			return false
		}
		if a.IsNil() {
			return true
		}
		if rawExact {
			return bytes.Equal(a.Bytes(), b.Bytes())
		}
		return c15jsonEqual(a.Bytes(), b.Bytes())
	}
	switch a.Kind() {
	case reflect.Pointer:
		if a.IsNil() || b.IsNil() {
			return a.IsNil() == b.IsNil()
		}
		if a.Pointer() == b.Pointer() {
			return true
		}
		return c15equal(a.Elem(), b.Elem(), rawExact)
	case reflect.Interface:
		if a.IsNil() || b.IsNil() {
			return a.IsNil() == b.IsNil()
		}
		return c15equal(a.Elem(), b.Elem(), rawExact)
	case reflect.Struct:
		for i := 0; i < a.NumField(); i++ {
			if !c15equal(a.Field(i), b.Field(i), rawExact) {
				return false
			}
		}
		return true
	case reflect.Slice:
		if a.IsNil() != b.IsNil() || a.Len() != b.Len() {
			return false
		}
		for i := 0; i < a.Len(); i++ {
			if !c15equal(a.Index(i), b.Index(i), rawExact) {
				return false
			}
		}
		return true
	case reflect.Array:
		for i := 0; i < a.Len(); i++ {
			if !c15equal(a.Index(i), b.Index(i), rawExact) {
				return false
			}
		}
		return true
	case reflect.Map:
		if a.IsNil() != b.IsNil() || a.Len() != b.Len() {
			return false
		}
		it := a.MapRange()
		for it.Next() {
			bv := b.MapIndex(it.Key())
			if !bv.IsValid() || !c15equal(it.Value(), bv, rawExact) {
				return false
			}
		}
		return true
	case reflect.Bool:
		return a.Bool() == b.Bool()
	case reflect.Int, reflect.Int8, reflect.Int16, reflect.Int32, reflect.Int64:
		return a.Int() == b.Int()
	case reflect.Uint, reflect.Uint8, reflect.Uint16, reflect.Uint32, reflect.Uint64, reflect.Uintptr:
		return a.Uint() == b.Uint()
	case reflect.Float32, reflect.Float64:
		return a.Float() == b.Float()
	case reflect.Complex64, reflect.Complex128:
		return a.Complex() == b.Complex()
	case reflect.String:
		return a.String() == b.String()
	case reflect.Chan, reflect.Func, reflect.UnsafePointer:
		return a.Pointer() == b.Pointer()
	}
	return false
}

// c15show renders a value for messages and samples.
func c15show(v reflect.Value) string {
	if !v.IsValid() {
		return "<invalid>"
	}
	s := fmt.Sprintf("%+v", c15printable(v))
	if len(s) > 300 {
		s = s[:300] + "..."
	}
	return s
}

func c15printable(v reflect.Value) any {
	if v.Kind() == reflect.Pointer && !v.IsNil() {
		return fmt.Sprintf("&%+v", c15printable(v.Elem()))
	}
	if v.CanInterface() {
		if v.Type() == c15rawType {
			return "raw:" + string(v.Bytes())
		}
		return v.Interface()
	}
	return v.String()
}
