package checks

import (
	"context"
	"encoding/json"
	"fmt"
	"strings"
	"sync"

	"github.com/creachadair/jrpc2"
	"github.com/creachadair/jrpc2/handler"

	"verif/harness/peer"
	"verif/harness/vchan"
	"verif/harness/vt"
)

// Concurrent emission (C13): the statement is about EVERY message the library
// emits, and one Client / Server is shared by many goroutines. Here batches
// are encoded and sent by many goroutines at once; every record that reaches
// the channel (both directions) must be valid one-line JSON whose members are
// self-consistent (each carries a number k and a payload derived from k), and
// every Batch must get back exactly its own payloads.

type c13cPayload struct {
	K   int    `json:"k"`
	Pad string `json:"pad"`
	Arr []int  `json:"arr"`
}

func c13cMake(k int) c13cPayload {
	return c13cPayload{K: k, Pad: strings.Repeat(string(rune('a'+k%26)), k%97), Arr: []int{k, k + 1}}
}

func (p c13cPayload) ok() bool {
	w := c13cMake(p.K)
	return p.Pad == w.Pad && len(p.Arr) == 2 && p.Arr[0] == p.K && p.Arr[1] == p.K+1
}

func c13cCheckRecord(c *vt.Ctx, dir string, rec []byte) {
	for _, b := range rec {
		if b < 0x20 {
			c.Failf("concurrent %s record contains control byte %#x: %.200q", dir, b, rec)
			return
		}
	}
	if !json.Valid(rec) {
		c.Failf("concurrent %s record is not valid JSON: %.300q", dir, rec)
		return
	}
	ms, _, err := peer.Decode(rec)
	if err != nil {
		c.Failf("concurrent %s record does not decode: %v: %.300q", dir, err, rec)
		return
	}
	for _, m := range ms {
		if m.V != "2.0" {
			c.Failf("concurrent %s record member without version: %.300q", dir, rec)
		}
		raw := m.Params
		if m.Method == "" {
			raw = m.Result
		}
		var p c13cPayload
		if len(raw) == 0 || json.Unmarshal(raw, &p) != nil || !p.ok() {
			c.Failf("concurrent %s record carries a payload that is not what any caller sent (mixed or truncated): %.300q", dir, rec)
			return
		}
	}
}

func c13cRun(c *vt.Ctx, goroutines, perG int) {
	log := peer.NewLog()
	mon := &peer.Mon{C: c, Log: log, Quiet: true}
	cliEnd, srvEnd := vchan.NewPair("cli", "srv", mon)
	cliEnd.PipeLike, srvEnd.PipeLike = true, true
	echo := func(ctx context.Context, req *jrpc2.Request) (any, error) {
		var p c13cPayload
		if err := req.UnmarshalParams(&p); err != nil {
			return nil, err
		}
		return p, nil
	}
	srv := jrpc2.NewServer(handler.Map{"m": echo}, &jrpc2.ServerOptions{Concurrency: 8}).Start(srvEnd)
	cli := jrpc2.NewClient(cliEnd, nil)
	var wg sync.WaitGroup
	for g := 0; g < goroutines; g++ {
		wg.Add(1)
		go func(g int) {
			defer wg.Done()
			for i := 0; i < perG; i++ {
				base := (g*perG + i) * 4
				specs := []jrpc2.Spec{
					{Method: "m", Params: c13cMake(base)},
					{Method: "m", Params: c13cMake(base + 1), Notify: i%3 == 0},
					{Method: "m", Params: c13cMake(base + 2)},
				}
				rsps, err := cli.Batch(context.Background(), specs)
				if err != nil {
					c.Failf("concurrent Batch failed: %v", err)
					return
				}
				want := []int{base, base + 1, base + 2}
				if i%3 == 0 {
					want = []int{base, base + 2}
				}
				if len(rsps) != len(want) {
					c.Failf("concurrent Batch returned %d responses, want %d", len(rsps), len(want))
					return
				}
				for j, rsp := range rsps {
					var p c13cPayload
					if err := rsp.UnmarshalResult(&p); err != nil || p.K != want[j] || !p.ok() {
						c.Failf("concurrent Batch slot %d: got %+v (err %v), want payload %d", j, p, err, want[j])
						return
					}
				}
			}
		}(g)
	}
	wg.Wait()
	cli.Close()
	srv.Stop()
	srv.WaitStatus()
	for _, rec := range cliEnd.Sent() {
		c13cCheckRecord(c, "client->server", rec)
	}
	for _, rec := range srvEnd.Sent() {
		c13cCheckRecord(c, "server->client", rec)
	}
	c.Count("concurrent_records", len(cliEnd.Sent())+len(srvEnd.Sent()))
	c.Eval(len(cliEnd.Sent()) + len(srvEnd.Sent()))
}

func init() {
	chk := vt.Lookup("C13")
	if chk == nil {
		panic("c13_conc.go must be initialised after c13.go")
	}
	old := chk.Cases
	chk.Cases = func(e vt.Env, yield func(vt.Case) bool) {
		ok := true
		old(e, func(cs vt.Case) bool { ok = yield(cs); return ok })
		if !ok {
			return
		}
		for r := 0; r < e.Pick(16, 200); r++ {
			id := fmt.Sprintf("WC/%d", r)
			if !yield(vt.Case{ID: id, Run: func(c *vt.Ctx) {
				c13cRun(c, 8, e.Pick(120, 300))
				c.Distinct(id)
			}}) {
				return
			}
		}
	}
	chk.Rule += "; plus (WC) batches encoded and sent by 8 goroutines at once through one client and answered by one server: every record on the wire must be valid and carry only payloads some caller sent"
	if chk.Require == nil {
		chk.Require = map[string]int64{}
	}
	chk.Require["concurrent_records"] = 10000
}
