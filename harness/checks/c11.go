package checks

import (
	"bytes"
	"fmt"
	"io"
	"math/rand/v2"
	"runtime/debug"
	"sort"

	"github.com/creachadair/jrpc2/channel"

	"verif/harness/vt"
)

// C11 — framing round trip.
//
// The sender writes a whole record sequence through the real framing's Send
// into a buffer (pipelined) and closes; the receiver is a fresh channel of the
// same framing reading that byte stream through a chunk-controlled reader.
//
// Oracle: the successive Recv results, each compared at once (= copied
// immediately), equal the sent records byte for byte and in order; the next
// two Recv calls return no data and io.EOF. A record containing the split
// byte is refused by Send with an error and nothing is written.

type c11fr struct {
	name  string
	f     channel.Framing
	kind  byte // 's' split, 'h' header, 'j' RawJSON
	split byte
}

func c11framings() []c11fr {
	return []c11fr{
		{"Line", channel.Line, 's', '\n'},
		{"Split(NUL)", channel.Split(0), 's', 0},
		{"Split(|)", channel.Split('|'), 's', '|'},
		// split bytes that are not ASCII: as a code point each is spelt with two
		// bytes in UTF-8 (0x80 -> C2 80, which contains the split byte; 0xC3 ->
		// C3 83, whose lead byte is the split byte; 0xFF -> C3 BF, which does
		// not contain it), so byte and rune/string handling differ for them
		{"Split(0x80)", channel.Split(0x80), 's', 0x80},
		{"Split(0xC3)", channel.Split(0xC3), 's', 0xC3},
		{"Split(0xFF)", channel.Split(0xFF), 's', 0xFF},
		{"StrictHeader(application/json)", channel.StrictHeader("application/json"), 'h', 0},
		{"StrictHeader()", channel.StrictHeader(""), 'h', 0},
		{"Header(text/x)", channel.Header("text/x"), 'h', 0},
		{"LSP", channel.LSP, 'h', 0},
		// media types that are not in any canonical spelling (no blank after ';', upper case,
		// quoted parameter, parameters out of order): a framing must recognise its own output
		{"StrictHeader(application/json;charset=utf-8)", channel.StrictHeader("application/json;charset=utf-8"), 'h', 0},
		{"Header(Text/Plain; Charset=\"UTF-8\"; b=1;a=2)", channel.Header(`Text/Plain; Charset="UTF-8"; b=1;a=2`), 'h', 0},
		{"RawJSON", channel.RawJSON, 'j', 0},
	}
}

// c11encode sends recs through a fresh channel of the framing and returns the
// bytes written. Every record is handed over in a slice with cap == len, so
// that nothing Send does to its argument can reach the reference copy.
func c11encode(c *vt.Ctx, fr c11fr, recs [][]byte) (stream []byte, ok bool) {
	defer func() {
		if p := recover(); p != nil {
			c.Failf("%s: panic in Send/Close: %v; records %s", fr.name, p, c11showRecs(recs))
			ok = false
		}
	}()
	sink := &c11sinkWC{}
	ch := fr.f(bytes.NewReader(nil), sink)
	for i, r := range recs {
		cp := make([]byte, len(r))
		copy(cp, r)
		if err := ch.Send(cp); err != nil {
			c.Failf("%s: Send of legal record #%d %s failed: %v", fr.name, i, c11showBytes(r), err)
			return nil, false
		}
	}
	if err := ch.Close(); err != nil {
		c.Failf("%s: Close failed: %v", fr.name, err)
		return nil, false
	}
	if !sink.closed {
		c.Failf("%s: Close did not close the writer (the peer would never see end of stream)", fr.name)
		return nil, false
	}
	return sink.buf.Bytes(), true
}

// c11decode reads the stream through rd and applies the oracle.
func c11decode(c *vt.Ctx, fr c11fr, rd *c11cutReader, want [][]byte) (ok bool) {
	where := func() string {
		mode := "EOF on a separate read"
		if rd.eofWithLast {
			mode = "EOF together with the last bytes"
		}
		return fmt.Sprintf("%s: records %s, stream %s, cuts %s, max read %d, %s",
			fr.name, c11showRecs(want), c11showBytes(rd.data), c11showCuts(rd.cuts), rd.max, mode)
	}
	defer func() {
		if p := recover(); p != nil {
			c.Failf("panic in Recv: %v; %s", p, where())
			ok = false
		}
	}()
	ch := fr.f(rd, c11nopWC{})
	for i, w := range want {
		got, err := ch.Recv()
		if err != nil {
			c.Failf("Recv #%d returned error %q (and %d bytes), want record %s; %s", i, err.Error(), len(got), c11showBytes(w), where())
			return false
		}
		if !bytes.Equal(got, w) {
			d := c11firstDiff(got, w)
			c.Failf("Recv #%d returned %d bytes %s, want %d bytes %s (first difference at offset %d); %s",
				i, len(got), c11showBytes(got), len(w), c11showBytes(w), d, where())
			return false
		}
	}
	for k := 0; k < 2; k++ {
		got, err := ch.Recv()
		if err != io.EOF || len(got) != 0 {
			c.Failf("Recv #%d after the last record returned (%s, %v), want (empty, io.EOF); %s", len(want)+k, c11showBytes(got), err, where())
			return false
		}
	}
	return true
}

type c11acct struct {
	decodes, records, bytes, cutsets int
}

func (a *c11acct) add(want [][]byte, stream []byte) {
	a.decodes++
	a.records += len(want)
	a.bytes += len(stream)
}

func (a *c11acct) flush(c *vt.Ctx) {
	c.Eval(a.decodes)
	c.Count("stream_decodes", a.decodes)
	c.Count("records_received", a.records)
	c.Count("bytes_received", a.bytes)
	c.Count("cut_sets", a.cutsets)
}

// ---- record material ----

// c11smallRecs returns the record alphabet of the exhaustive small-stream
// block for a framing: lengths 0..3, containing the delimiters of the *other*
// framings and CR, never the framing's own split byte.
func c11smallRecs(fr c11fr) [][]byte {
	switch fr.kind {
	case 's':
		if fr.split >= 0x80 {
			// the two bytes that spell U+00<split> in UTF-8 (where one of them is
			// the split byte itself, its neighbour), alone and together, and the
			// byte values next to the split byte
			sp := c11splitSpelling(fr.split)
			return [][]byte{{}, {sp[0]}, {sp[0], sp[1]}, {fr.split - 1, fr.split ^ 0x80, sp[1]}}
		}
		pool := []byte{}
		for _, b := range []byte{'\n', 0, '|', '\r', 'a', 0xff} {
			if b != fr.split {
				pool = append(pool, b)
			}
		}
		return [][]byte{{}, {pool[0]}, {pool[1], pool[2]}, {pool[3], pool[4], pool[0]}}
	case 'j':
		return [][]byte{{}, []byte(`{}`), []byte(`[]`), []byte(`""`), []byte(`"a"`), []byte(`[1]`), []byte(`{"a":1}`), []byte(`"\""`), []byte("[1, 2]"), []byte("{\"a\" :\n1}")}
	}
	// header framings: payloads that look like framing themselves
	return [][]byte{{}, []byte("a"), []byte("\r\n"), []byte("Content-Length: 1\r\n\r\nX"), []byte("\n\nab")}
}

// c11legalBytes fills a record of n bytes legal for the framing.
func c11legal(fr c11fr, n int, rng *rand.Rand) []byte {
	switch fr.kind {
	case 'j':
		return c11json(n, rng)
	case 's':
		b := make([]byte, n)
		for i := range b {
			v := byte(rng.UintN(256))
			if v == fr.split {
				v ^= 0x55
			}
			b[i] = v
		}
		if fr.split >= 0x80 {
			// text-like content: the UTF-8 spelling of the code point that has
			// the split byte's number, and the bytes around the split byte
			sp := c11splitSpelling(fr.split)
			for k := 0; k < 3 && n >= 2; k++ {
				copy(b[rng.IntN(n-1):], sp)
			}
			if n > 0 {
				b[n-1] = sp[rng.IntN(2)]
				b[0] = []byte{sp[0], sp[1], fr.split - 1, fr.split ^ 0x80}[rng.IntN(4)]
			}
		}
		return b
	}
	b := make([]byte, n)
	for i := range b {
		b[i] = byte(rng.UintN(256))
	}
	// sprinkle things a header parser might trip over
	for _, s := range []string{"\r\n\r\n", "Content-Length: 7\r\n\r\n", "\n"} {
		if n > len(s)+8 && rng.IntN(2) == 0 {
			copy(b[rng.IntN(n-len(s)):], s)
		}
	}
	return b
}

// c11utf8 returns the UTF-8 encoding of the code point U+00<b> (one byte for
// b < 0x80, else two: C2 b for b < 0xC0, C3 b-0x40 above), spelt out here
// rather than through a string conversion.
func c11utf8(b byte) []byte {
	switch {
	case b < 0x80:
		return []byte{b}
	case b < 0xC0:
		return []byte{0xC2, b}
	}
	return []byte{0xC3, b - 0x40}
}

// c11splitSpelling returns, for a split byte >= 0x80, two bytes legal for
// Split(b) that are as close as possible to the UTF-8 encoding of U+00<b>:
// the encoding itself where it does not contain b (0xC0..0xFF except 0xC3),
// otherwise with the offending byte replaced by its neighbour b^1.
func c11splitSpelling(b byte) []byte {
	sp := c11utf8(b)
	for i := range sp {
		if sp[i] == b {
			sp[i] = b ^ 1
		}
	}
	return sp
}

// c11json returns a self-delimiting JSON value (object, array or string)
// without surrounding whitespace of about n bytes (exactly n when n >= 9);
// n == 0 gives the empty record.
func c11json(n int, rng *rand.Rand) []byte {
	if n == 0 {
		return []byte{}
	}
	if n < 9 {
		return [][]byte{[]byte(`{}`), []byte(`[]`), []byte(`""`), []byte(`"x"`), []byte(`[7]`), []byte(`[[]]`), []byte(`{"":1}`)}[rng.IntN(7)]
	}
	const letters = "abcdefghijklmnopqrstuvwxyz0123456789 {}[]:,<>&'/"
	switch rng.IntN(3) {
	case 0: // a string, with some escapes
		b := make([]byte, n)
		b[0], b[n-1] = '"', '"'
		for i := 1; i < n-1; i++ {
			b[i] = letters[rng.IntN(len(letters))]
		}
		for i := 1; i+2 < n-1; i += 97 {
			b[i], b[i+1] = '\\', '"'
		}
		return b
	case 1: // an array of numbers and nested arrays: [1,1,...,[[]]]
		b := make([]byte, 0, n)
		b = append(b, '[')
		for len(b)+2 <= n-2 {
			if len(b)%7 == 3 && len(b)+3 <= n-2 {
				b = append(b, ' ') // insignificant whitespace inside the value is part of the record
			}
			b = append(b, '1', ',')
		}
		for len(b) < n-1 {
			b = append(b, '1')
		}
		return append(b, ']')
	}
	// an object wrapping a string
	if n < 16 {
		return c11jsonString(n)
	}
	b := make([]byte, 0, n)
	b = append(b, `{"k":[{"v":`...)
	b = append(b, c11jsonString(n-len(`{"k":[{"v":`)-len(`}]}`))...)
	b = append(b, `}]}`...)
	return b
}

func c11jsonString(n int) []byte {
	b := bytes.Repeat([]byte{'s'}, n)
	b[0], b[n-1] = '"', '"'
	return b
}

// ---- chunkings of longer streams ----

type c11chunking struct {
	name string
	cuts []int
	max  int
}

// c11interesting returns the stream offsets at which the framing changes
// state: the boundaries of every record's wire image, +-1.
func c11boundaries(fr c11fr, c *vt.Ctx, recs [][]byte) []int {
	var out []int
	off := 0
	for _, r := range recs {
		one, ok := c11encode(c, fr, [][]byte{r})
		if !ok {
			return nil
		}
		body := len(one) - len(r)
		if fr.kind != 'h' {
			body = 0
		}
		for _, p := range []int{off, off + body, off + len(one)} {
			out = append(out, p-1, p, p+1)
		}
		off += len(one)
	}
	return out
}

func c11normCuts(cuts []int, n int) []int {
	sort.Ints(cuts)
	out := cuts[:0]
	last := 0
	for _, x := range cuts {
		if x > last && x < n {
			out = append(out, x)
			last = x
		}
	}
	return out
}

func c11randomCuts(n int, rng *rand.Rand) []int {
	var cuts []int
	pos := 0
	style := rng.IntN(4)
	for pos < n {
		var step int
		switch style {
		case 0:
			step = 1 + rng.IntN(16)
		case 1:
			step = 4090 + rng.IntN(12)
		case 2:
			step = 1 + rng.IntN(1<<uint(1+rng.IntN(20)))
		default:
			step = []int{1, 2, 3, 4095, 4096, 4097, 65536, 1 << 20}[rng.IntN(8)]
		}
		pos += step
		if pos < n {
			cuts = append(cuts, pos)
		}
		if len(cuts) > 200000 {
			style = 2
		}
	}
	return cuts
}

// ---- the cases ----

func init() {
	vt.Register(&vt.Check{
		Prop:  "C11",
		Level: "exploration",
		Rule: "record sequences sent pipelined through the real Send of Line, Split(NUL), Split(|), Split(0x80), Split(0xC3), Split(0xFF) (non-ASCII split bytes: records hold the bytes that spell U+00<split> in UTF-8, alone and together, and the byte values next to the split byte), StrictHeader(mime), StrictHeader(\"\"), Header(mime), LSP, RawJSON (and Direct), " +
			"then decoded by a fresh channel through a chunk-controlled reader, each with EOF on a separate read and EOF together with the last bytes: " +
			"(small) all sequences over a 4-8 record alphabet whose wire image is <= B bytes (B = 11 quick, 13 thorough; split and RawJSON framings) x every cut set; " +
			"(hdr) all sequences of <= 2 (quick) / 3 (thorough) payloads over 5 framing-like payloads x {no cut, every single cut, every pair of cuts, 1- and 2-byte reads}; " +
			"(edge) sizes 0..72 growing and shrinking by one byte and around 4096/8192/16388; (large) sizes {0,1,2,4095,4096,4097,65536,1MiB+1,3MiB,10,5MiB,1} in 4 orders plus a buffer-threshold sequence (600000, 300000, 299999, ..., 4MiB, 4MiB+1) x {whole, 1-byte reads (<=64KiB prefix sizes only in quick), cuts at every record/header boundary +-1, seeded random cuts}; " +
			"(rand) seeded random sequences and cuts; (refuse) records containing the split byte (for the non-ASCII split bytes also next to / inside the UTF-8 spelling of U+00<split>); " +
			"(splitbyte) Split(b) for every byte value b = 0x00..0xFF: legal records {all 255 other byte values, b+1 b-1 b^0x80, empty, the UTF-8 encoding of U+00<b> alone / as prefix / as suffix / inside text / repeated across the read buffer where it does not contain b (0xC0..0xFF except 0xC3), each byte of that encoding alone, 4097 and <300 random legal bytes} " +
			"interleaved on one sending channel with unrepresentable records {b at the start, middle, end; b next to the UTF-8 spelling; C2 b, C3 b, b 80, b BF; the encoding itself where it contains b; 4096/4097 bytes with one b}, each of which must be refused with nothing written, x {whole, 1-byte, 3-byte reads, record boundaries +-1, 2 random cut sets}. " +
			"(X) one operation suspended inside its transport call (Write of a Send after k bytes / Read of a Recv at offset k, k in {0,1,middle,end of the first record}) while complete operations run elsewhere: two sends or two receives on a sibling channel made by the same Framing value, or on the same channel in the other direction; record sizes {3,5000,70000,5MiB+3} x {2,6000,5MiB+17} (more in thorough), every framing; both sides judged by the usual oracle. " +
			"(W) seeded sequences of 2-11 records sent over a writer that refuses every Write (0 bytes, error) issued during seeded Sends while the sender carries on: the stream, read whole and through random cuts, holds exactly the records whose Send returned nil, in order (a record whose Send failed is not delivered later, one whose Send succeeded is not lost; a framing that fails every Send after the first failure is admitted). " +
			"evaluations = stream decodes (one per stream x cut set x EOF mode). distinct_nontrivial = distinct (framing, record sequence, chunking family, EOF mode) with >= 2 records " +
			"or >= 1 interior cut; the number of individual cut sets is the counter cut_sets",
		Assumptions: []string{
			"Recv results are compared before the next Recv (the interface lets a channel reuse its buffer)",
			"RawJSON records are JSON objects, arrays and strings without surrounding whitespace, and the empty record (numbers and literals are not self-delimiting; null is the wire form of the empty record)",
			"the io.Reader returns at least one byte or an error per Read (no (0, nil) reads)",
			"Direct passes slices by reference (documented); checked for order and EOF only",
			"the split byte is a byte value, not a character: a record is representable by Split(b) exactly when it does not contain the byte b; the UTF-8 encoding of the code point U+00<b> is ordinary payload unless it contains that byte",
		},
		Require: map[string]int64{
			"records_received": 100000, "stream_decodes": 50000, "cut_sets": 50000,
			"refusals_checked": 30, "split_bytes_covered": 256, "split_bytes_non_ascii": 128, "refusals_non_ascii_split": 1000, "legal_records_with_utf8_of_split": 300, "records_ge_1MiB": 20, "eof_with_last_bytes": 1000, "interleavings_reached": 1000,
			"w_sends_over_failing_writer": 100, "w_records_delivered_after_a_failure": 100,
		},
		Cases: c11cases,
	})
}

func c11cases(e vt.Env, yield func(vt.Case) bool) {
	frs := c11framings()

	// (small) exhaustive cut sets
	bound := e.Pick(11, 13)
	for _, fr := range frs {
		if fr.kind == 'h' {
			continue
		}
		fr := fr
		alpha := c11smallRecs(fr)
		wire := make([]int, len(alpha))
		for i, r := range alpha {
			switch {
			case fr.kind == 's':
				wire[i] = len(r) + 1
			case len(r) == 0:
				wire[i] = 5 // null\n
			default:
				wire[i] = len(r)
			}
		}
		ok := true
		var rec func(seq []int, total int) bool
		rec = func(seq []int, total int) bool {
			if len(seq) > 0 {
				seq := append([]int(nil), seq...)
				id := fmt.Sprintf("small/%s/%v", fr.name, seq)
				if !yield(vt.Case{ID: id, Run: func(c *vt.Ctx) { c11small(c, fr, alpha, seq, id) }}) {
					return false
				}
			}
			for i := range alpha {
				if total+wire[i] <= bound {
					if !rec(append(seq, i), total+wire[i]) {
						return false
					}
				}
			}
			return true
		}
		if ok = rec(nil, 0); !ok {
			return
		}
	}

	// (hdr) header framings, short sequences, all single cuts and pairs
	for _, fr := range frs {
		if fr.kind != 'h' {
			continue
		}
		fr := fr
		alpha := c11smallRecs(fr)
		stop := false
		seqs(len(alpha), 1, e.Pick(2, 3), func(idx []int) bool {
			seq := append([]int(nil), idx...)
			id := fmt.Sprintf("hdr/%s/%v", fr.name, seq)
			if !yield(vt.Case{ID: id, Run: func(c *vt.Ctx) { c11hdr(c, fr, alpha, seq, id) }}) {
				stop = true
				return false
			}
			return true
		})
		if stop {
			return
		}
	}

	// (hdr-edge) record sizes growing by one byte (every buffer-growth boundary)
	// and jumping around small buffer sizes
	for _, fr := range frs {
		fr := fr
		for k, sz := range c11edgeSeqs() {
			sz := sz
			id := fmt.Sprintf("edge/%s/%d", fr.name, k)
			if !yield(vt.Case{ID: id, Run: func(c *vt.Ctx) { c11edge(c, e, fr, sz, id) }}) {
				return
			}
		}
	}

	// (large) growing and shrinking sizes
	sizes := []int{0, 1, 2, 4095, 4096, 4097, 65536, 1<<20 + 1, 3 << 20, 10, 5 << 20, 1}
	asc := append([]int(nil), sizes...)
	sort.Ints(asc)
	desc := make([]int, len(asc))
	for i, v := range asc {
		desc[len(asc)-1-i] = v
	}
	rev := make([]int, len(sizes))
	for i, v := range sizes {
		rev[len(sizes)-1-i] = v
	}
	orders := []struct {
		name  string
		sizes []int
	}{{"listed", sizes}, {"reversed", rev}, {"ascending", asc}, {"descending", desc},
		// sizes that sit exactly on, one below and one above the thresholds of a
		// doubling / quarter-shrinking receive buffer and of the 4 MiB pre-allocation limit
		{"edges", []int{600000, 300000, 299999, 599998, 599999, 10, 20, 21, 43, 0, 4 << 20, 4<<20 + 1, 1, 2}}}
	nRandom := e.Pick(3, 24)
	for _, fr := range frs {
		for _, o := range orders {
			fr, o := fr, o
			for k := 0; k < 3+nRandom; k++ {
				k := k
				id := fmt.Sprintf("large/%s/%s/%d", fr.name, o.name, k)
				if !yield(vt.Case{ID: id, Run: func(c *vt.Ctx) { c11large(c, e, fr, o.sizes, k, id) }}) {
					return
				}
			}
		}
	}

	// (rand) seeded random sequences and cuts
	nRand := e.Pick(40, 600)
	for _, fr := range frs {
		fr := fr
		for k := 0; k < nRand; k++ {
			id := fmt.Sprintf("rand/%s/%d", fr.name, k)
			if !yield(vt.Case{ID: id, Run: func(c *vt.Ctx) { c11rand(c, e, fr, id) }}) {
				return
			}
		}
	}

	// (refuse) split-byte guard
	for _, fr := range frs {
		if fr.kind != 's' {
			continue
		}
		fr := fr
		id := "refuse/" + fr.name
		if !yield(vt.Case{ID: id, Run: func(c *vt.Ctx) { c11refuse(c, e, fr, id) }}) {
			return
		}
	}

	// (splitbyte) every byte value as the delimiter
	for b := 0; b < 256; b++ {
		b := byte(b)
		id := fmt.Sprintf("splitbyte/0x%02X", b)
		if !yield(vt.Case{ID: id, Run: func(c *vt.Ctx) { c11splitByte(c, e, b, id) }}) {
			return
		}
	}

	// (direct)
	if !yield(vt.Case{ID: "direct", Run: func(c *vt.Ctx) { c11direct(c, e) }}) {
		return
	}

	// (X) a channel in company: siblings of one Framing value, both directions at once
	if !c11xCases(e, yield) {
		return
	}

	// (W) a writer that fails, writing nothing, during some Sends
	c11wCases(e, yield)
}

func c11pick(alpha [][]byte, seq []int) [][]byte {
	out := make([][]byte, len(seq))
	for i, k := range seq {
		out[i] = alpha[k]
	}
	return out
}

func c11small(c *vt.Ctx, fr c11fr, alpha [][]byte, seq []int, id string) {
	recs := c11pick(alpha, seq)
	stream, ok := c11encode(c, fr, recs)
	if !ok {
		return
	}
	n := len(stream)
	if n > 20 {
		c.Failf("%s: wire image of %s is %d bytes, larger than the enumeration bound (harness expectation)", fr.name, c11showRecs(recs), n)
		return
	}
	var acct c11acct
	defer acct.flush(c)
	// each decode allocates the framing's fixed read buffer; with a tiny live
	// heap the collector would otherwise run every few hundred decodes
	defer debug.SetGCPercent(debug.SetGCPercent(2000))
	var buf []int
	masks := uint32(1)
	if n > 1 {
		masks = 1 << uint(n-1)
	}
	for mask := uint32(0); mask < masks; mask++ {
		buf = c11maskCuts(mask, n, buf)
		for _, with := range []bool{false, true} {
			rd := &c11cutReader{data: stream, cuts: buf, eofWithLast: with}
			acct.add(recs, stream)
			acct.cutsets++
			if !c11decode(c, fr, rd, recs) {
				return
			}
		}
	}
	c.Count("eof_with_last_bytes", int(masks))
	if len(recs) >= 2 || n >= 2 {
		c.Distinct(id + "/allcuts/sep")
		c.Distinct(id + "/allcuts/with")
	}
	if c.WantSample() && len(recs) >= 3 {
		c.Sample(map[string]any{"framing": fr.name, "records": c11showRecs(recs), "stream": c11showBytes(stream), "cut_sets": int(masks), "eof_modes": 2})
	}
}

func c11hdr(c *vt.Ctx, fr c11fr, alpha [][]byte, seq []int, id string) {
	recs := c11pick(alpha, seq)
	stream, ok := c11encode(c, fr, recs)
	if !ok {
		return
	}
	n := len(stream)
	var acct c11acct
	defer acct.flush(c)
	run := func(cuts []int, max int) bool {
		for _, with := range []bool{false, true} {
			rd := &c11cutReader{data: stream, cuts: cuts, max: max, eofWithLast: with}
			acct.add(recs, stream)
			acct.cutsets++
			if with {
				c.Count("eof_with_last_bytes", 1)
			}
			if !c11decode(c, fr, rd, recs) {
				return false
			}
		}
		return true
	}
	if !run(nil, 0) || !run(nil, 1) || !run(nil, 2) {
		return
	}
	for i := 1; i < n; i++ {
		if !run([]int{i}, 0) {
			return
		}
	}
	for i := 1; i < n; i++ {
		for j := i + 1; j < n; j++ {
			if !run([]int{i, j}, 0) {
				return
			}
		}
	}
	for _, fam := range []string{"whole", "1byte", "2byte", "cut1", "cut2"} {
		if fam == "whole" && len(recs) < 2 {
			continue
		}
		c.Distinct(id + "/" + fam + "/sep")
		c.Distinct(id + "/" + fam + "/with")
	}
	if c.WantSample() && len(recs) >= 2 {
		c.Sample(map[string]any{"framing": fr.name, "records": c11showRecs(recs), "stream": c11showBytes(stream), "chunkings": "whole, 1-byte, 2-byte, every single cut, every pair of cuts", "eof_modes": 2})
	}
}

func c11edgeSeqs() [][]int {
	up := make([]int, 0, 80)
	for i := 0; i <= 72; i++ {
		up = append(up, i)
	}
	down := make([]int, len(up))
	for i, v := range up {
		down[len(up)-1-i] = v
	}
	return [][]int{up, down,
		{3, 5, 6, 7, 13, 14, 15, 2, 1, 0, 31, 30, 29, 63, 62, 127, 1, 255},
		{4094, 4095, 4096, 4097, 8191, 8192, 8193, 8194, 16387, 16388, 16389, 1, 0}}
}

func c11edge(c *vt.Ctx, e vt.Env, fr c11fr, sizes []int, id string) {
	rng := e.Rand("C11/" + id)
	recs := make([][]byte, len(sizes))
	for i, n := range sizes {
		recs[i] = c11legal(fr, n, rng)
	}
	stream, ok := c11encode(c, fr, recs)
	if !ok {
		return
	}
	var acct c11acct
	defer acct.flush(c)
	chunkings := []c11chunking{{name: "whole"}, {name: "1-byte", max: 1}, {name: "7-byte", max: 7},
		{name: "boundaries", cuts: c11normCuts(c11boundaries(fr, c, recs), len(stream))}}
	for r := 0; r < 4; r++ {
		chunkings = append(chunkings, c11chunking{name: "random", cuts: c11randomCuts(len(stream), rng)})
	}
	for k, ch := range chunkings {
		for _, with := range []bool{false, true} {
			rd := &c11cutReader{data: stream, cuts: ch.cuts, max: ch.max, eofWithLast: with}
			acct.add(recs, stream)
			acct.cutsets++
			if with {
				c.Count("eof_with_last_bytes", 1)
			}
			if !c11decode(c, fr, rd, recs) {
				return
			}
			c.Distinct(fmt.Sprintf("%s/%d/%v", id, k, with))
		}
	}
}

func c11large(c *vt.Ctx, e vt.Env, fr c11fr, sizes []int, k int, id string) {
	rng := e.Rand("C11/" + id)
	recs := make([][]byte, len(sizes))
	big := 0
	for i, n := range sizes {
		recs[i] = c11legal(fr, n, rng)
		if len(recs[i]) >= 1<<20 {
			big++
		}
	}
	stream, ok := c11encode(c, fr, recs)
	if !ok {
		return
	}
	var ch c11chunking
	switch k {
	case 0:
		ch = c11chunking{name: "whole"}
	case 1:
		ch = c11chunking{name: "boundaries+-1", cuts: c11normCuts(c11boundaries(fr, c, recs), len(stream))}
	case 2:
		// 1-byte reads are linear in the stream; in the quick tier they are
		// applied to a prefix of the sequence without the multi-megabyte records
		if !e.Thorough() {
			var small [][]byte
			for _, r := range recs {
				if len(r) <= 65536 {
					small = append(small, r)
				}
			}
			recs, big = small, 0
			if stream, ok = c11encode(c, fr, recs); !ok {
				return
			}
		}
		ch = c11chunking{name: "1-byte reads", max: 1}
	default:
		ch = c11chunking{name: fmt.Sprintf("random#%d", k-3), cuts: c11randomCuts(len(stream), rng)}
	}
	var acct c11acct
	defer acct.flush(c)
	for _, with := range []bool{false, true} {
		rd := &c11cutReader{data: stream, cuts: ch.cuts, max: ch.max, eofWithLast: with}
		acct.add(recs, stream)
		acct.cutsets++
		c.Count("records_ge_1MiB", big)
		if with {
			c.Count("eof_with_last_bytes", 1)
		}
		if !c11decode(c, fr, rd, recs) {
			return
		}
		c.Distinct(fmt.Sprintf("%s/%v", id, with))
	}
	if c.WantSample() && k == 1 {
		lens := make([]int, len(recs))
		for i, r := range recs {
			lens[i] = len(r)
		}
		c.Sample(map[string]any{"framing": fr.name, "record_sizes": lens, "stream_bytes": len(stream), "chunking": ch.name, "cuts": c11showCuts(ch.cuts)})
	}
}

func c11rand(c *vt.Ctx, e vt.Env, fr c11fr, id string) {
	rng := e.Rand("C11/" + id)
	nrec := 1 + rng.IntN(24)
	recs := make([][]byte, nrec)
	for i := range recs {
		var n int
		switch rng.IntN(6) {
		case 0:
			n = 0
		case 1:
			n = rng.IntN(4)
		case 2:
			n = 4090 + rng.IntN(12)
		case 3:
			n = rng.IntN(70000)
		default:
			n = rng.IntN(200)
		}
		recs[i] = c11legal(fr, n, rng)
	}
	stream, ok := c11encode(c, fr, recs)
	if !ok {
		return
	}
	var acct c11acct
	defer acct.flush(c)
	for r := 0; r < 4; r++ {
		cuts := c11randomCuts(len(stream), rng)
		with := rng.IntN(2) == 0
		rd := &c11cutReader{data: stream, cuts: cuts, eofWithLast: with}
		acct.add(recs, stream)
		acct.cutsets++
		if with {
			c.Count("eof_with_last_bytes", 1)
		}
		if !c11decode(c, fr, rd, recs) {
			return
		}
		c.Distinct(fmt.Sprintf("%s/%d", id, r))
	}
}

func c11refuse(c *vt.Ctx, e vt.Env, fr c11fr, id string) {
	rng := e.Rand("C11/" + id)
	b := fr.split
	var bad [][]byte
	bad = append(bad, []byte{b}, []byte{b, b}, []byte{'a', b}, []byte{b, 'a'}, []byte{'a', b, 'c'})
	if b >= 0x80 {
		// the raw byte among the bytes that spell U+00<split> in UTF-8
		sp := c11splitSpelling(b)
		bad = append(bad, []byte{sp[0], sp[1], b}, []byte{b, sp[0], sp[1]}, []byte{sp[0], b, sp[1]}, []byte{0xC2, b}, []byte{0xC3, b}, []byte{b, 0xBF})
	}
	for _, n := range []int{100, 4095, 4096, 4097, 70000} {
		for _, at := range []int{0, n / 2, n - 1} {
			r := c11legal(fr, n, rng)
			r[at] = b
			bad = append(bad, r)
		}
	}
	legalBefore, legalAfter := c11legal(fr, 5, rng), c11legal(fr, 3, rng)
	var acct c11acct
	defer acct.flush(c)
	for i, r := range bad {
		func() {
			defer func() {
				if p := recover(); p != nil {
					c.Failf("%s: panic in Send of %s: %v", fr.name, c11showBytes(r), p)
				}
			}()
			sink := &c11sinkWC{}
			ch := fr.f(bytes.NewReader(nil), sink)
			if err := ch.Send(append([]byte(nil), legalBefore...)); err != nil {
				c.Failf("%s: Send of legal record failed: %v", fr.name, err)
				return
			}
			before := sink.buf.Len()
			cp := make([]byte, len(r))
			copy(cp, r)
			err := ch.Send(cp)
			if err == nil {
				c.Failf("%s: Send accepted a record containing the split byte %q: %s (wrote %d bytes)", fr.name, b, c11showBytes(r), sink.buf.Len()-before)
				return
			}
			if sink.buf.Len() != before {
				c.Failf("%s: Send refused %s with %q but wrote %d bytes", fr.name, c11showBytes(r), err.Error(), sink.buf.Len()-before)
				return
			}
			c.Count("refusals_checked", 1)
			// the channel stays usable and the receiver sees only the legal records
			if err := ch.Send(append([]byte(nil), legalAfter...)); err != nil {
				c.Failf("%s: Send of a legal record after a refusal failed: %v", fr.name, err)
				return
			}
			ch.Close()
			want := [][]byte{legalBefore, legalAfter}
			stream := sink.buf.Bytes()
			acct.add(want, stream)
			acct.cutsets++
			c11decode(c, fr, &c11cutReader{data: stream, max: 1 + i%3}, want)
			c.Distinct(fmt.Sprintf("%s/%d", id, i))
		}()
		if c.Failed() {
			return
		}
	}
	if c.WantSample() {
		c.Sample(map[string]any{"framing": fr.name, "refused": c11showRecs(bad[:5]), "refused_total": len(bad)})
	}
}

// c11direct: Direct is synchronous and unframed; a goroutine sends the
// sequence and closes, the receiver must see the same slices in order, then
// io.EOF twice.
func c11direct(c *vt.Ctx, e vt.Env) {
	rng := e.Rand("C11/direct")
	var acct c11acct
	defer acct.flush(c)
	for round := 0; round < e.Pick(50, 500); round++ {
		n := 1 + rng.IntN(20)
		recs := make([][]byte, n)
		for i := range recs {
			recs[i] = make([]byte, []int{0, 1, 2, 100, 4096, 70000}[rng.IntN(6)])
			for j := range recs[i] {
				recs[i][j] = byte(rng.UintN(256))
			}
			if len(recs[i]) == 0 && rng.IntN(2) == 0 {
				recs[i] = nil // the empty record, spelt as a nil slice
			}
		}
		want := make([][]byte, n)
		for i, r := range recs {
			want[i] = append([]byte{}, r...)
		}
		cli, srv := channel.Direct()
		done := make(chan error, 1)
		go func() {
			for _, r := range recs {
				if err := cli.Send(r); err != nil {
					done <- err
					return
				}
			}
			done <- cli.Close()
		}()
		for i, w := range want {
			got, err := srv.Recv()
			if err != nil || !bytes.Equal(got, w) {
				c.Failf("Direct: Recv #%d returned (%s, %v), want %s", i, c11showBytes(got), err, c11showBytes(w))
				return
			}
		}
		for k := 0; k < 2; k++ {
			if got, err := srv.Recv(); err != io.EOF || len(got) != 0 {
				c.Failf("Direct: Recv after close returned (%s, %v), want (empty, io.EOF)", c11showBytes(got), err)
				return
			}
		}
		if err := <-done; err != nil {
			c.Failf("Direct: sender failed: %v", err)
			return
		}
		acct.add(want, nil)
		if n >= 2 {
			c.Distinct(fmt.Sprintf("direct/%d", round))
		}
	}
}
