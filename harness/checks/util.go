// Package checks contains one check per property (c01.go ... c20.go). Each
// registers a vt.Check whose cases run the real jrpc2 code from /repo under a
// monitor; see /verif/DESIGN.md.
package checks

import (
	"math/rand/v2"
	"strings"
)

// perms calls yield with every permutation of xs (in place; copy to keep).
func perms[T any](xs []T, yield func([]T) bool) bool {
	var rec func(k int) bool
	rec = func(k int) bool {
		if k == len(xs) {
			return yield(xs)
		}
		for i := k; i < len(xs); i++ {
			xs[k], xs[i] = xs[i], xs[k]
			if !rec(k + 1) {
				return false
			}
			xs[k], xs[i] = xs[i], xs[k]
		}
		return true
	}
	return rec(0)
}

// orders returns release orders of tags: every permutation when there are at
// most maxExh tags, otherwise identity, reverse and n seeded shuffles.
func orders(tags []string, maxExh, n int, rng *rand.Rand) [][]string {
	var out [][]string
	if len(tags) <= maxExh {
		cp := append([]string(nil), tags...)
		perms(cp, func(p []string) bool {
			out = append(out, append([]string(nil), p...))
			return true
		})
		return out
	}
	out = append(out, append([]string(nil), tags...))
	rev := append([]string(nil), tags...)
	for i, j := 0, len(rev)-1; i < j; i, j = i+1, j-1 {
		rev[i], rev[j] = rev[j], rev[i]
	}
	out = append(out, rev)
	for i := 0; i < n; i++ {
		cp := append([]string(nil), tags...)
		rng.Shuffle(len(cp), func(a, b int) { cp[a], cp[b] = cp[b], cp[a] })
		out = append(out, cp)
	}
	return out
}

func join(ss []string) string { return strings.Join(ss, ",") }

// seqs enumerates all sequences over an alphabet of k symbols with length in
// [minLen, maxLen], as index slices.
func seqs(k, minLen, maxLen int, yield func([]int) bool) {
	for n := minLen; n <= maxLen; n++ {
		idx := make([]int, n)
		for {
			if !yield(idx) {
				return
			}
			i := n - 1
			for i >= 0 {
				idx[i]++
				if idx[i] < k {
					break
				}
				idx[i] = 0
				i--
			}
			if i < 0 {
				break
			}
		}
	}
}
