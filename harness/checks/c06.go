package checks

import (
	"fmt"
	"strings"
	"sync/atomic"

	"verif/harness/peer"
	"verif/harness/sched"
	"verif/harness/vt"
)

// C06 — handler concurrency stays within the Concurrency option (built-ins
// included) and is work-conserving; a call cancelled while waiting for a slot
// is answered with a cancellation error and its handler never runs.
//
// Monitors:
//   - online: a counter maintained at the library's own hook sites
//     srv.invoke.afterAcquire (+1) / srv.invoke.afterHandler (-1) — it covers
//     built-in handlers the harness cannot gate — must never exceed the limit;
//   - at every quiescent point: counter == min(limit, calls dispatched and
//     neither finished nor cancelled), and it equals the number of harness
//     handlers entered and not exited;
//   - final: every cancelled waiter got error code -32097 (Cancelled) and has
//     no handler entry; every other call got its own invocation's token.
//
// Only instant notifications are used (also failing ones), so at a quiescent
// point every arrived call has been dispatched unless all slots are held.

type c06script struct {
	limit   int
	batches [][]string // member kinds per message: "g" gated, "i" instant, "b" builtin rpc.serverInfo
}

func (s c06script) String() string {
	var p []string
	for _, b := range s.batches {
		p = append(p, strings.Join(b, ""))
	}
	return fmt.Sprintf("L%d:%s", s.limit, strings.Join(p, "|"))
}

type c06call struct {
	tag, id, kind string
}

func c06build(s c06script) (wires []string, calls []c06call) {
	n := 0
	for i, b := range s.batches {
		var parts []string
		for j, k := range b {
			n++
			cl := c06call{tag: fmt.Sprintf("m%d.%d", i, j), id: fmt.Sprint(n), kind: k}
			switch k {
			case "g":
				parts = append(parts, peer.Req(cl.id, "g", cl.tag))
			case "i":
				parts = append(parts, peer.Req(cl.id, "i", cl.tag))
			case "e": // call whose handler returns an error
				parts = append(parts, peer.Req(cl.id, "e", cl.tag))
			case "b":
				parts = append(parts, peer.Req(cl.id, "rpc.serverInfo", ""))
			case "E": // notification whose handler returns an error
				parts = append(parts, peer.Req("", "e", cl.tag))
				cl.id = ""
			case "n": // instant notification
				parts = append(parts, peer.Req("", "i", cl.tag))
				cl.id = ""
			case "u": // call whose result cannot be marshalled
				parts = append(parts, peer.Req(cl.id, "u", cl.tag))
			}
			calls = append(calls, cl)
		}
		wires = append(wires, "["+strings.Join(parts, ",")+"]")
	}
	return
}

// an action is "r:<tag>" (release the gate) or "c:<id>:<tag>" (CancelRequest)
type c06run struct {
	s       c06script
	actions []string
	ctrl    *sched.Controller
}

func c06exec(c *vt.Ctx, r c06run) {
	wires, calls := c06build(r.s)
	var running, peak atomic.Int32
	limit := int32(r.s.limit)
	r.ctrl.OnVisit(func(site string) {
		switch site {
		case "srv.invoke.afterAcquire":
			n := running.Add(1)
			for {
				p := peak.Load()
				if n <= p || peak.CompareAndSwap(p, n) {
					break
				}
			}
			if n > limit {
				c.Failf("%d handler invocations hold a slot at once; Concurrency is %d", n, limit)
			}
		case "srv.invoke.afterHandler":
			running.Add(-1)
		}
	})
	peer.Bubble(c, r.ctrl, func() {
		rig := peer.NewServerRig(c, r.ctrl, peer.ServerOpts{Concurrency: r.s.limit})
		cancelled := map[string]bool{} // tags cancelled while waiting
		check := func(when string) {
			entered, exited := map[string]bool{}, map[string]bool{}
			for _, e := range rig.Log.Events() {
				switch e.Kind {
				case "h.enter":
					entered[e.Tag] = true
				case "h.exit":
					exited[e.Tag] = true
				}
			}
			// At quiescence only gated harness handlers can hold a slot: instant and
			// built-in handlers have either finished or are waiting because every
			// slot is held (then run == limit and the formula below is unaffected).
			run, wait := 0, 0
			for _, cl := range calls {
				switch {
				case cl.kind == "b":
				case entered[cl.tag] && !exited[cl.tag]:
					run++
				case !entered[cl.tag] && !cancelled[cl.tag]:
					wait++
				}
			}
			got := int(running.Load())
			if want := min(r.s.limit, run+wait); got != want {
				c.Failf("%s: %d invocations hold a slot, want min(limit %d, %d running + %d waiting) = %d", when, got, r.s.limit, run, wait, want)
			}
			if got != run {
				c.Failf("%s: %d slots are held but %d harness handlers are running", when, got, run)
			}
		}
		for _, w := range wires {
			rig.Send(w)
		}
		rig.Settle()
		check("after arrival")
		for k, a := range r.actions {
			f := strings.Split(a, ":")
			if f[0] == "r" {
				rig.H.Release(f[1])
			} else {
				// cancel only takes effect as "cancelled while waiting" if not entered
				if rig.Log.Count("h.enter", f[2]) == 0 {
					cancelled[f[2]] = true
				}
				rig.Srv.CancelRequest(f[1])
			}
			rig.Settle()
			check(fmt.Sprintf("after action %d (%s)", k, a))
		}
		rig.H.ReleaseAll()
		rig.Settle()
		check("after releasing everything")
		// final replies
		replies := map[string]peer.Msg{}
		for _, rec := range rig.Outbound() {
			ms, _, err := peer.Decode(rec)
			if err != nil {
				c.Failf("undecodable outbound record %q", rec)
				continue
			}
			for _, m := range ms {
				if _, dup := replies[string(m.ID)]; dup {
					c.Failf("two responses for id %s", m.ID)
				}
				replies[string(m.ID)] = m
			}
		}
		for _, cl := range calls {
			if cl.id == "" {
				if rig.Log.Count("h.exit", cl.tag) != 1 {
					c.Failf("notification %s did not run exactly once", cl.tag)
				}
				continue
			}
			m, ok := replies[cl.id]
			if !ok {
				c.Failf("no response for call %s (id %s)", cl.tag, cl.id)
				continue
			}
			switch {
			case cancelled[cl.tag]:
				if m.Error == nil || m.Error.Code != -32097 {
					c.Failf("call %s was cancelled while waiting for a slot; want error -32097, got %+v result=%s", cl.tag, m.Error, m.Result)
				}
				if rig.Log.Count("h.enter", cl.tag) != 0 {
					c.Failf("handler of %s ran although the call was cancelled while waiting for a slot", cl.tag)
				}
			case cl.kind == "b":
				if m.Error != nil {
					c.Failf("rpc.serverInfo failed: %+v", m.Error)
				}
			case cl.kind == "e":
				if m.Error == nil || m.Error.Code != 7 {
					c.Failf("call %s: want its handler's error (code 7), got result=%s error=%+v", cl.tag, m.Result, m.Error)
				}
			case cl.kind == "u":
				if m.Error == nil {
					c.Failf("call %s returned an unmarshalable value; want an error response, got result=%s", cl.tag, m.Result)
				}
			default:
				if m.Error != nil || !strings.HasPrefix(m.ResultToken(), cl.tag+"/") {
					c.Failf("call %s: want its own token, got result=%s error=%+v", cl.tag, m.Result, m.Error)
				}
			}
		}
		if _, ok := rig.Finish(); !ok {
			c.Failf("server did not exit after the peer closed")
		}
		c.Count("events", rig.Log.Len())
		c.Count("handler_runs", int(rig.H.Invocations()))
		c.Count("peak_slots_sum", int(peak.Load()))
		if int(peak.Load()) == r.s.limit {
			c.Count("runs_reaching_limit", 1)
		}
	})
	c.Eval(1)
}

func init() {
	vt.Register(&vt.Check{
		Prop:  "C06",
		Level: "exploration",
		Rule: "Concurrency L in {1,2,3,4,8} x total calls in {L-1,L,L+1,2L+1} split into 1-3 batches of gated calls (with instant and built-in rpc.serverInfo members mixed in) " +
			"x every release order (<=4 gates; seeded beyond) x CancelRequest of each waiting call; slot counter from the library's own hook sites checked online and at every quiescent point; " +
			"plus delay sets over the srv.invoke.* sites and seeded perturbation. distinct_nontrivial = distinct (script, action sequence, delay set) whose call count exceeds L (a waiter exists) or equals L",
		Assumptions: []string{"Go 1.26.8 runtime and testing/synctest quiescence", "only instant notifications in the scripts, so every arrived call is dispatched unless all slots are held"},
		Require:     map[string]int64{"handler_runs": 200, "runs_reaching_limit": 50},
		Cases:       c06cases,
	})
}

func c06splits(total int) [][]int {
	out := [][]int{{total}}
	if total >= 2 {
		out = append(out, []int{total / 2, total - total/2})
	}
	if total >= 3 {
		out = append(out, []int{1, total - 2, 1})
	}
	return out
}

func c06cases(e vt.Env, yield func(vt.Case) bool) {
	limits := []int{1, 2, 3, 4, 8}
	for _, L := range limits {
		for _, total := range []int{L - 1, L, L + 1, 2*L + 1} {
			if total < 1 {
				continue
			}
			for si, split := range c06splits(total) {
				for _, variant := range []string{"g", "gi", "gb", "gx"} {
					var s c06script
					s.limit = L
					k := 0
					if variant == "gx" {
						// handlers that fail in every way first: a leaked slot would starve what follows
						s.batches = append(s.batches, []string{"E", "e"}, []string{"n", "u", "E"})
					}
					for _, n := range split {
						var b []string
						for j := 0; j < n; j++ {
							kind := "g"
							if variant == "gi" && k%3 == 2 {
								kind = "i"
							}
							if variant == "gb" && k%3 == 1 {
								kind = "b"
							}
							b = append(b, kind)
							k++
						}
						s.batches = append(s.batches, b)
					}
					id := fmt.Sprintf("E1/%s/s%d", s.String(), si)
					if !yield(vt.Case{ID: id, Run: func(c *vt.Ctx) {
						_, calls := c06build(s)
						var gates []string
						for _, cl := range calls {
							if cl.kind == "g" {
								gates = append(gates, cl.tag)
							}
						}
						rng := e.Rand(id)
						nontrivial := total >= L
						for oi, ord := range orders(gates, 4, e.Pick(4, 12), rng) {
							// plain release order
							acts := make([]string, len(ord))
							for i, t := range ord {
								acts[i] = "r:" + t
							}
							c06exec(c, c06run{s: s, actions: acts, ctrl: sched.New()})
							if nontrivial {
								c.Distinct(fmt.Sprintf("%s/o%d", id, oi))
							}
							if c.Failed() {
								return
							}
							if oi >= 3 && !e.Thorough() {
								continue
							}
							// cancel each call first (it is "cancelled while waiting" iff it has not entered)
							for _, cl := range calls {
								if cl.kind != "g" {
									continue
								}
								acts2 := append([]string{"c:" + cl.id + ":" + cl.tag}, acts...)
								c06exec(c, c06run{s: s, actions: acts2, ctrl: sched.New()})
								if nontrivial {
									c.Distinct(fmt.Sprintf("%s/o%d/cancel-%s", id, oi, cl.tag))
								}
								if c.WantSample() && total > L {
									w, _ := c06build(s)
									c.Sample(map[string]any{"concurrency": L, "inbound": w, "actions": acts2})
								}
								if c.Failed() {
									return
								}
							}
						}
					}}) {
						return
					}
				}
			}
		}
	}
	// E2: park at every visit of the invoke sites (d=1; pairs in thorough)
	d := e.Pick(1, 2)
	for _, L := range []int{1, 2, 3} {
		for _, variant := range []string{"ggg", "gbgb", "gigbg"} {
			var s c06script
			s.limit = L
			var b []string
			for _, ch := range variant {
				b = append(b, string(ch))
			}
			s.batches = [][]string{b[:len(b)/2+1], b[len(b)/2+1:]}
			if len(s.batches[1]) == 0 {
				s.batches = s.batches[:1]
			}
			id := fmt.Sprintf("E2/%s/d%d", s.String(), d)
			if !yield(vt.Case{ID: id, Run: func(c *vt.Ctx) {
				_, calls := c06build(s)
				var acts []string
				for _, cl := range calls {
					if cl.kind == "g" {
						acts = append(acts, "r:"+cl.tag)
					}
				}
				prof := sched.New()
				c06exec(c, c06run{s: s, actions: acts, ctrl: prof})
				if c.Failed() {
					return
				}
				var keys []string
				for _, k := range prof.Keys() {
					if strings.HasPrefix(k, "srv.invoke.") || strings.HasPrefix(k, "srv.task.") || strings.HasPrefix(k, "srv.dispatch.") {
						keys = append(keys, k)
					}
				}
				sched.DelaySets(keys, d, func(ds []string) bool {
					c06exec(c, c06run{s: s, actions: acts, ctrl: sched.New().WithDelays(ds...)})
					c.Distinct(id + "/" + join(ds))
					return !c.Failed()
				})
			}}) {
				return
			}
		}
	}
	// E3: seeded perturbation, larger batches
	rng := e.Rand("C06/E3")
	for i := 0; i < e.Pick(80, 1500); i++ {
		L := limits[rng.IntN(len(limits))]
		total := L + rng.IntN(2*L+2)
		var s c06script
		s.limit = L
		nb := 1 + rng.IntN(3)
		s.batches = make([][]string, nb)
		for k := 0; k < total; k++ {
			kind := "g"
			switch rng.IntN(10) {
			case 0:
				kind = "i"
			case 1:
				kind = "b"
			case 2:
				kind = "E"
			case 3:
				kind = "e"
			case 4:
				kind = "u"
			}
			bi := rng.IntN(nb)
			s.batches[bi] = append(s.batches[bi], kind)
		}
		var nz [][]string
		for _, b := range s.batches {
			if len(b) > 0 {
				nz = append(nz, b)
			}
		}
		s.batches = nz
		p := []float64{0.02, 0.05, 0.1, 0.2}[rng.IntN(4)]
		id := fmt.Sprintf("E3/%d/%s/p%.2f", i, s.String(), p)
		if !yield(vt.Case{ID: id, Run: func(c *vt.Ctx) {
			_, calls := c06build(s)
			r := e.Rand(id)
			var acts []string
			for _, cl := range calls {
				if cl.kind == "g" {
					acts = append(acts, "r:"+cl.tag)
					if r.IntN(5) == 0 {
						acts = append(acts, "c:"+cl.id+":"+cl.tag)
					}
				}
			}
			r.Shuffle(len(acts), func(a, b int) { acts[a], acts[b] = acts[b], acts[a] })
			c06exec(c, c06run{s: s, actions: acts, ctrl: sched.New().WithPerturb(p, r)})
			c.Distinct(id)
		}}) {
			return
		}
	}
}
