package checks

import (
	"context"
	"fmt"
	"strings"

	"github.com/creachadair/jrpc2"

	"verif/harness/peer"
	"verif/harness/sched"
	"verif/harness/vchan"
	"verif/harness/vt"
)

// C09, family R — callbacks pending when the connection ends, server restarted at once.
//
// "A Callback pending when the connection ends returns an error" must hold for every
// timing of what follows, and the first thing an application may do when WaitStatus
// returns is Start the same Server on the next connection. The goroutines that
// complete the pending callbacks are not among those WaitStatus waits for, so they
// may run after the restart: each Callback must return all the same — exactly once,
// with an error, without disturbing the new session (whose own callbacks get fresh
// ids and their own replies).
//
// The harness issues k callbacks, ends the connection (Stop or peer close), and the
// moment WaitStatus has returned — at Quiesce, i.e. with goroutines parked at hook
// points still parked — restarts the server on a fresh channel, issues one more
// callback there and answers it. Delay sets park each visit of the server's
// callback sites in turn.

func c09restartCases(e vt.Env, yield func(vt.Case) bool) bool {
	for k := 1; k <= e.Pick(2, 4); k++ {
		for _, cause := range []string{"stop", "peerclose"} {
			for _, pipe := range []bool{true, false} {
				k, cause, pipe := k, cause, pipe
				id := fmt.Sprintf("R/k%d/%s/pipe=%v", k, cause, pipe)
				if !yield(vt.Case{ID: id, Run: func(c *vt.Ctx) {
					prof := sched.New()
					c09restart(c, id, k, cause, pipe, prof)
					c.Distinct(id)
					if c.Failed() {
						return
					}
					var keys []string
					for _, key := range prof.Keys() {
						if strings.HasPrefix(key, "srv.waitcb.") || strings.HasPrefix(key, "srv.callback.") || strings.HasPrefix(key, "srv.stop.") || strings.HasPrefix(key, "srv.waitstatus.") {
							keys = append(keys, key)
						}
					}
					sched.DelaySets(keys, e.Pick(1, 2), func(ds []string) bool {
						c09restart(c, id+" parked at "+join(ds), k, cause, pipe, sched.New().WithDelays(ds...))
						c.Distinct(id + "/" + join(ds))
						return !c.Failed()
					})
				}}) {
					return false
				}
			}
		}
	}
	return true
}

func c09restart(c *vt.Ctx, what string, k int, cause string, pipe bool, ctrl *sched.Controller) {
	peer.Bubble(c, ctrl, func() {
		rig := peer.NewServerRig(c, ctrl, peer.ServerOpts{AllowPush: true, Concurrency: 4, PipeLike: pipe})
		for i := 0; i < k; i++ {
			i := i
			go func() {
				rsp, err := rig.Srv.Callback(context.Background(), "cb", []int{i})
				rig.Log.Add("api.ret", fmt.Sprintf("old%d", i), c09describe(rsp, err))
			}()
			rig.Settle()
		}
		if n := len(rig.Outbound()); n != k {
			c.Failf("%s: %d callback requests on the wire, want %d", what, n, k)
			return
		}
		if cause == "stop" {
			rig.Srv.Stop()
		} else {
			rig.Peer.CloseQuiet()
		}
		statusCh := make(chan jrpc2.ServerStatus, 1)
		go func() { statusCh <- rig.Srv.WaitStatus() }()
		// up to the parked sites, no further
		ctrl.Quiesce()
		restartedEarly := false
		select {
		case <-statusCh:
			restartedEarly = true
		default:
			// WaitStatus is itself waiting for a parked goroutine: let everything run
			rig.Settle()
			select {
			case <-statusCh:
			default:
				oldPeer := rig.Peer
				oldPeer.CloseQuiet()
				rig.Settle()
				select {
				case <-statusCh:
				default:
					c.Failf("%s: WaitStatus has not returned at quiescence after the connection ended", what)
					rig.Srv.Stop()
					return
				}
			}
		}
		if restartedEarly {
			c.Count("restarts_with_goroutines_still_parked", 1)
		}
		oldPeer := rig.Peer
		rig.Peer, rig.End = vchan.NewPair("cli", "srv", rig.Mon)
		rig.End.PipeLike = pipe
		rig.Srv.Start(rig.End)
		n0 := len(rig.Outbound())
		go func() {
			rsp, err := rig.Srv.Callback(context.Background(), "cb", []string{"new"})
			rig.Log.Add("api.ret", "new", c09describe(rsp, err))
		}()
		rig.Settle()
		oldPeer.CloseQuiet()
		rig.Settle()
		// every callback of the old session has returned, once, with an error
		for i := 0; i < k; i++ {
			rets := rig.Log.Find("api.ret", fmt.Sprintf("old%d", i))
			switch {
			case len(rets) == 0:
				c.Failf("%s: Callback #%d, pending when the connection ended (%s), has not returned although the server was restarted and is quiescent", what, i, cause)
			case len(rets) > 1:
				c.Failf("%s: Callback #%d returned %d times", what, i, len(rets))
			case strings.HasPrefix(rets[0].Info, "ok:") || rets[0].Info == "nil":
				c.Failf("%s: Callback #%d, never answered, returned %q", what, i, rets[0].Info)
			}
		}
		// the new session's callback is on the new wire with an id none of the old ones had, and gets its reply
		var newID string
		for _, rec := range rig.OutboundFrom(n0) {
			if ms, _, err := peer.Decode(rec); err == nil && len(ms) == 1 && ms[0].Method == "cb" {
				newID = string(ms[0].ID)
			}
		}
		if newID == "" {
			c.Failf("%s: the callback issued after the restart is not on the new connection: %q", what, rig.OutboundFrom(n0))
		} else {
			if n, _ := fmt.Sscan(newID, new(int)); n == 1 {
				var v int
				fmt.Sscan(newID, &v)
				if v <= k {
					c.Failf("%s: the callback issued after the restart bears id %s, which a callback of the previous connection bore", what, newID)
				}
			}
			rig.Send(`{"jsonrpc":"2.0","id":` + newID + `,"result":"fresh"}`)
			rig.Settle()
			if rets := rig.Log.Find("api.ret", "new"); len(rets) != 1 || rets[0].Info != "ok:fresh" {
				c.Failf("%s: the callback issued after the restart, answered with \"fresh\", returned %v", what, rets)
			}
		}
		if _, ok := rig.Finish(); !ok {
			c.Failf("%s: restarted server did not exit after its peer closed", what)
			rig.Srv.Stop()
		}
		c.Count("callbacks_pending_at_restart", k)
	})
	c.Eval(1)
}
