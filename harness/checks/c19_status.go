package checks

import (
	"fmt"
	"net/http"
	"strings"
	"sync/atomic"

	"github.com/creachadair/jrpc2/jhttp"

	"verif/harness/peer"
	"verif/harness/sched"
	"verif/harness/vt"
)

// H/status (C19): the HTTP endpoint answers some POSTs with a status other
// than 200 / 204 (an error page with a body). Recv must report an error for
// those, the channel keeps working for the others, and after Close no
// response body may be left unclosed, whatever mixture of statuses occurred
// and however many of the responses were received before Close.

type c19statusHandler struct {
	next   http.Handler
	status []int // status for the i-th POST (0 = pass through)
	n      atomic.Int64
}

func (h *c19statusHandler) ServeHTTP(w http.ResponseWriter, r *http.Request) {
	i := int(h.n.Add(1)) - 1
	if i < len(h.status) && h.status[i] != 0 {
		w.Header().Set("Content-Type", "text/plain")
		w.WriteHeader(h.status[i])
		fmt.Fprintf(w, "error page %d with a body that nobody wants", h.status[i])
		return
	}
	h.next.ServeHTTP(w, r)
}

func c19statusRun(c *vt.Ctx, statuses []int, recvBeforeClose int) {
	ctrl := sched.New()
	what := fmt.Sprintf("statuses %v, %d responses received before Close", statuses, recvBeforeClose)
	peer.Bubble(c, ctrl, func() {
		log := peer.NewLog()
		H := peer.NewHandlers(log)
		bridge := jhttp.NewBridge(H, nil)
		inp := &c19inproc{h: &c19statusHandler{next: bridge, status: statuses}}
		ch := jhttp.NewChannel("http://bridge.invalid/rpc", &jhttp.ChannelOptions{Client: inp})
		for j := range statuses {
			if err := ch.Send([]byte(peer.Req(fmt.Sprint(j+1), "i", fmt.Sprintf("c%d", j)))); err != nil {
				c.Failf("%s: Send: %v", what, err)
			}
		}
		ctrl.Settle()
		okN, errN := 0, 0
		for j := 0; j < recvBeforeClose && j < len(statuses); j++ {
			data, err := ch.Recv()
			if err != nil {
				errN++
				if !strings.Contains(err.Error(), "status") && !strings.Contains(err.Error(), "HTTP") {
					c.Failf("%s: Recv error does not mention the HTTP failure: %v", what, err)
				}
			} else {
				okN++
				if ms, _, derr := peer.Decode(data); derr != nil || len(ms) != 1 || !strings.HasPrefix(ms[0].ResultToken(), "c") {
					c.Failf("%s: Recv returned %q", what, data)
				}
			}
		}
		ch.Close()
		ctrl.Settle()
		if open := inp.open.Load(); open != 0 {
			c.Failf("%s: %d HTTP response bodies were never closed (of %d handed out; Recv saw %d good, %d failed)", what, open, inp.total.Load(), okN, errN)
		}
		bridge.Close()
		inp.count(c)
		c.Count("h_status_responses", len(statuses))
		c.Count("h_status_errors_seen", errN)
	})
	c.Eval(1)
}

func init() {
	chk := vt.Lookup("C19")
	if chk == nil {
		panic("c19_status.go must be initialised after c19.go")
	}
	old := chk.Cases
	chk.Cases = func(e vt.Env, yield func(vt.Case) bool) {
		ok := true
		old(e, func(cs vt.Case) bool { ok = yield(cs); return ok })
		if !ok {
			return
		}
		codes := []int{0, 500, 404, 302, 201}
		maxLen := e.Pick(3, 4)
		if !yield(vt.Case{ID: "H/status", Run: func(c *vt.Ctx) {
			seqs(len(codes), 1, maxLen, func(idx []int) bool {
				st := make([]int, len(idx))
				bad := false
				for i, k := range idx {
					st[i] = codes[k]
					bad = bad || codes[k] != 0
				}
				for recv := 0; recv <= len(st); recv++ {
					c19statusRun(c, st, recv)
					if bad {
						c.Distinct(fmt.Sprintf("H/status/%v/%d", st, recv))
					}
					if c.Failed() {
						return false
					}
				}
				return true
			})
		}}) {
			return
		}
	}
	chk.Rule += "; plus (H/status) every sequence of up to 3 (4) endpoint answers over {pass through, 500, 404, 302, 201 with a body} x every number of responses received before Close: Recv errors for non-200, no body left unclosed"
	if chk.Require == nil {
		chk.Require = map[string]int64{}
	}
	chk.Require["h_status_errors_seen"] = 50
}
