// Package vchan provides the instrumented in-memory channel.Channel pair that
// the concurrency checks hand to a jrpc2 Server or Client.
//
// Properties of an End:
//   - Send never blocks (unbounded FIFO): with the synchronous channel.Direct a
//     peer that is not receiving blocks the library's Send under the library's
//     mutex, turning a harness scheduling choice into a fake deadlock.
//   - All waiting uses sync.Cond, which is a durable block inside a
//     testing/synctest bubble.
//   - Every Send / Recv / Close entry and exit updates per-end activity
//     counters; the C10 discipline (no Send||Send, Recv||Recv, Send||Close,
//     one Close) is asserted online, at the instant of the second entry.
//     A short Gosched spin inside each operation widens the window. The End
//     additionally touches plain (unsynchronised) fields on the sender side
//     and on the receiver side, so the race detector independently reports
//     any use outside the one-sender / one-receiver contract.
//   - Every record passed to Send is copied and handed to an optional
//     validator (C10 "whole message", C13 wire validity).
//   - A fault plan can make the k-th operation of a kind fail.
package vchan

import (
	"bytes"
	"errors"
	"fmt"
	"io"
	"runtime"
	"sync"
	"sync/atomic"

	"github.com/creachadair/jrpc2/channel"
)

// Op kinds for fault plans and events.
const (
	OpSend  = "send"
	OpRecv  = "recv"
	OpClose = "close"
)

// A Fault makes the N-th (1-based) operation of kind Op on an End fail.
type Fault struct {
	Op   string
	N    int
	Err  error  // the error returned (io.EOF is allowed for recv)
	Data []byte // for recv: data returned together with Err
	// Sticky makes every later operation of the same kind fail with Err too
	// (without data): the transport is dead from that point on.
	Sticky bool
}

// ErrInjected is the default injected error.
var ErrInjected = errors.New("vchan: injected channel failure")

// errLocalClosed is returned by a pipe-like End's Recv after its own Close.
var errLocalClosed = fmt.Errorf("vchan: %w", channel.ErrClosed)

type queue struct {
	mu     sync.Mutex
	cond   *sync.Cond
	items  [][]byte
	closed bool  // the sending side closed: readers get io.EOF after draining
	fail   error // if set, readers get this error after draining (transport failure)
	local  bool  // the receiving side closed itself (pipe-like): readers get errLocalClosed
}

func newQueue() *queue { q := &queue{}; q.cond = sync.NewCond(&q.mu); return q }

// Monitor receives discipline violations and observations from an End.
type Monitor interface {
	// Violation is called when the library breaks the Channel contract.
	Violation(end, kind, detail string)
	// Event is called at the entry and exit of every operation.
	Event(end, what string, data []byte)
}

// An End is one end of the pair.
type End struct {
	Name     string
	PipeLike bool // Close also unblocks this end's own Recv with a closing error
	RejectLF bool // like channel.Line: Send refuses (and drops) a record that contains a line feed
	// ReuseRecvBuf makes Recv hand out a slice of one buffer that the next Recv
	// overwrites (as the header and RawJSON framings do): a caller that keeps
	// using a record after asking for the next one reads garbage.
	ReuseRecvBuf bool
	rbuf         []byte
	Spin         int // Gosched iterations inside each operation
	// HoldSend, if set (before the end is handed to the library), makes every Send
	// receive one value from it before it delivers: a transport with back-pressure
	// whose reader the harness controls. Closing it lets everything through.
	HoldSend chan struct{}

	in, out *queue
	mon     Monitor
	check   func(rec []byte) error // validator for records passed to Send

	sendActive, recvActive, closeActive atomic.Int32
	sends, recvs, closes                atomic.Int64

	// Unsynchronised shadow fields for the race detector (see package doc).
	sendShadow int
	recvShadow int

	fmu    sync.Mutex
	faults []Fault
	sent   [][]byte // copies of everything passed to Send (successful or not)
	given  [][]byte // the very slices that were passed to Send (not copied), parallel to sent
}

// ByValue is an End handed to the library as a struct VALUE whose type is not
// comparable (it holds a slice), as channel.RawJSON's channel type is: a library
// that compares channel values with == panics on such a type at run time.
type ByValue struct {
	*End
	NotComparable []byte
}

// NewPair returns two connected ends. Records sent on a are received on b and
// vice versa.
func NewPair(aName, bName string, mon Monitor) (a, b *End) {
	q1, q2 := newQueue(), newQueue()
	a = &End{Name: aName, in: q1, out: q2, mon: mon, Spin: 2}
	b = &End{Name: bName, in: q2, out: q1, mon: mon, Spin: 2}
	return a, b
}

// SetValidator installs a check applied to every record passed to Send.
func (e *End) SetValidator(f func([]byte) error) { e.check = f }

// AddFault schedules a fault.
func (e *End) AddFault(f Fault) {
	e.fmu.Lock()
	e.faults = append(e.faults, f)
	e.fmu.Unlock()
}

func (e *End) fault(op string, n int64) *Fault {
	e.fmu.Lock()
	defer e.fmu.Unlock()
	for i := range e.faults {
		f := &e.faults[i]
		if f.Op == op && int64(f.N) == n {
			return f
		}
		if f.Op == op && f.Sticky && int64(f.N) < n {
			return &Fault{Op: op, N: int(n), Err: f.Err, Sticky: true}
		}
	}
	return nil
}

func (e *End) spin() {
	for i := 0; i < e.Spin; i++ {
		runtime.Gosched()
	}
}

func (e *End) viol(kind, detail string) {
	if e.mon != nil {
		e.mon.Violation(e.Name, kind, detail)
	}
}

func (e *End) event(what string, data []byte) {
	if e.mon != nil {
		e.mon.Event(e.Name, what, data)
	}
}

// Send implements channel.Channel.
func (e *End) Send(rec []byte) error {
	if n := e.sendActive.Add(1); n > 1 {
		e.viol("send||send", fmt.Sprintf("%d Send calls in progress", n))
	}
	if e.closeActive.Load() > 0 {
		e.viol("send||close", "Send entered while Close in progress")
	}
	defer e.sendActive.Add(-1)
	e.sendShadow++
	k := e.sends.Add(1)
	cp := append([]byte(nil), rec...)
	e.event("send.enter", cp)
	e.fmu.Lock()
	e.sent = append(e.sent, cp)
	e.given = append(e.given, rec)
	e.fmu.Unlock()
	if e.check != nil {
		if err := e.check(cp); err != nil {
			e.viol("record", fmt.Sprintf("record %q: %v", cp, err))
		}
	}
	e.spin()
	if e.HoldSend != nil {
		e.event("send.held", nil)
		<-e.HoldSend
	}
	var err error
	if f := e.fault(OpSend, k); f != nil {
		e.event("fault.send", nil)
		err = f.Err
		if err == nil {
			err = ErrInjected
		}
	} else if e.RejectLF && bytes.IndexByte(cp, '\n') >= 0 {
		err = errors.New("vchan: message contains split byte")
	} else {
		q := e.out
		q.mu.Lock()
		if q.closed {
			err = errors.New("vchan: send on closed channel")
		} else if q.local {
			// the peer closed its own receiving side; data is discarded like a
			// write to a socket whose peer is gone.
			err = errors.New("vchan: peer closed")
		} else {
			q.items = append(q.items, cp)
			q.cond.Broadcast()
		}
		q.mu.Unlock()
	}
	e.sendShadow++
	if e.closeActive.Load() > 0 {
		e.viol("send||close", "Close entered while Send in progress")
	}
	e.event("send.exit", nil)
	return err
}

// Recv implements channel.Channel.
func (e *End) Recv() ([]byte, error) {
	if n := e.recvActive.Add(1); n > 1 {
		e.viol("recv||recv", fmt.Sprintf("%d Recv calls in progress", n))
	}
	defer e.recvActive.Add(-1)
	e.recvShadow++
	k := e.recvs.Add(1)
	e.event("recv.enter", nil)
	e.spin()
	if f := e.fault(OpRecv, k); f != nil {
		e.event("fault.recv", f.Data)
		err := f.Err
		if err == nil {
			err = ErrInjected
		}
		e.recvShadow++
		e.event("recv.exit", f.Data)
		return append([]byte(nil), f.Data...), err
	}
	q := e.in
	q.mu.Lock()
	for len(q.items) == 0 && !q.closed && !q.local && q.fail == nil {
		q.cond.Wait()
	}
	var rec []byte
	var err error
	switch {
	case q.local:
		err = errLocalClosed
	case len(q.items) > 0:
		rec = q.items[0]
		q.items = q.items[1:]
	case q.fail != nil:
		err = q.fail
	default:
		err = io.EOF
	}
	q.mu.Unlock()
	e.recvShadow++
	e.event("recv.exit", rec)
	if e.ReuseRecvBuf && err == nil {
		// scribble over what the previous Recv returned, then reuse the buffer
		for i := range e.rbuf {
			e.rbuf[i] = '#'
		}
		if cap(e.rbuf) < len(rec) {
			e.rbuf = make([]byte, len(rec), 2*len(rec)+64)
		}
		e.rbuf = e.rbuf[:len(rec)]
		copy(e.rbuf, rec)
		return e.rbuf, nil
	}
	return rec, err
}

// Close implements channel.Channel.
func (e *End) Close() error {
	e.closeActive.Add(1)
	defer e.closeActive.Add(-1)
	if n := e.closes.Add(1); n > 1 {
		e.viol("close", fmt.Sprintf("Close called %d times", n))
	}
	if e.sendActive.Load() > 0 {
		e.viol("send||close", "Close entered while Send in progress")
	}
	e.sendShadow++ // Close is a sender-side operation
	e.event("close.enter", nil)
	e.spin()
	var err error
	if f := e.fault(OpClose, e.closes.Load()); f != nil {
		err = f.Err
	}
	q := e.out
	q.mu.Lock()
	q.closed = true
	q.cond.Broadcast()
	q.mu.Unlock()
	if e.PipeLike {
		q := e.in
		q.mu.Lock()
		q.local = true
		q.cond.Broadcast()
		q.mu.Unlock()
	}
	e.sendShadow++
	if e.sendActive.Load() > 0 {
		e.viol("send||close", "Send entered while Close in progress")
	}
	e.event("close.exit", nil)
	return err
}

// The methods below are for the harness side (the raw peer), not the library.

// Pending removes and returns, without blocking, every record waiting to be
// received on e.
func (e *End) Pending() [][]byte {
	q := e.in
	q.mu.Lock()
	out := q.items
	q.items = nil
	q.mu.Unlock()
	return out
}

// PeerClosed reports whether the other end has closed (EOF pending).
func (e *End) PeerClosed() bool {
	q := e.in
	q.mu.Lock()
	defer q.mu.Unlock()
	return q.closed
}

// Inject places rec directly into the peer's receive queue without going
// through Send (no discipline accounting): the raw peer's way to deliver
// arbitrary bytes.
func (e *End) Inject(rec []byte) {
	q := e.out
	q.mu.Lock()
	q.items = append(q.items, append([]byte(nil), rec...))
	q.cond.Broadcast()
	q.mu.Unlock()
}

// InjectFail makes the peer's Recv fail with err once it has drained what was
// sent before (a transport failure at a moment of the harness's choosing).
func (e *End) InjectFail(err error) {
	q := e.out
	q.mu.Lock()
	q.fail = err
	q.cond.Broadcast()
	q.mu.Unlock()
}

// ReusedAfterSend looks at the last n buffers that were passed to Send and reports the
// first whose bytes are no longer what they were when it was sent. A channel may hand
// the sender's buffer to the receiver without copying it (channel.Direct does, and says
// so), therefore a sender must not write to a buffer again once it has sent it.
func (e *End) ReusedAfterSend(n int) (idx int, was, now []byte, reused bool) {
	e.fmu.Lock()
	defer e.fmu.Unlock()
	for i := max(0, len(e.sent)-n); i < len(e.sent); i++ {
		if g := e.given[i]; !bytes.Equal(g[:len(e.sent[i]):len(e.sent[i])], e.sent[i]) {
			return i, e.sent[i], append([]byte(nil), g[:len(e.sent[i])]...), true
		}
	}
	return 0, nil, nil, false
}

// CloseQuiet closes e's sending direction (the peer reads EOF after draining)
// without discipline accounting; idempotent.
func (e *End) CloseQuiet() {
	q := e.out
	q.mu.Lock()
	q.closed = true
	q.cond.Broadcast()
	q.mu.Unlock()
}

// Counts returns the number of Send, Recv and Close calls made on e.
func (e *End) Counts() (sends, recvs, closes int64) {
	return e.sends.Load(), e.recvs.Load(), e.closes.Load()
}

// Sent returns copies of all records passed to Send so far.
func (e *End) Sent() [][]byte {
	e.fmu.Lock()
	defer e.fmu.Unlock()
	return append([][]byte(nil), e.sent...)
}

// Busy reports whether any operation is in progress on e.
func (e *End) Busy() (send, recv, cls int32) {
	return e.sendActive.Load(), e.recvActive.Load(), e.closeActive.Load()
}
