package peer

import (
	"context"
	"encoding/json"
	"fmt"
	"sort"
	"sync"
	"sync/atomic"

	"github.com/creachadair/jrpc2"
)

// Handlers is the assigner the rigs install on a server. The method name
// selects the behaviour, the request's params {"t":"<tag>"} name the request:
//
//	g  gated: returns when its gate is released or its context ends
//	G  stubborn gated: returns only when its gate is released
//	i  instant
//	e  instant, returns *jrpc2.Error{Code: 7}
//	u  instant, returns a value that cannot be marshalled
//	r  instant, returns *jrpc2.Error{Code: InvalidRequest}; p: code ParseError
//	c  instant, returns context.Canceled; d: *jrpc2.Error with code DeadlineExceeded
//
// Every invocation logs h.enter / h.exit with the logical clock, counts as
// running in between, and returns the unique token "<tag>/<seq>".
type Handlers struct {
	Log *Log

	seq        atomic.Int64
	running    atomic.Int32
	maxRunning atomic.Int32

	mu      sync.Mutex
	gates   map[string]chan struct{}
	opened  map[string]bool
	allOpen bool

	// OnEnter, if set, runs inside the handler after h.enter is logged and
	// before the gate (used to issue pushes and callbacks from handlers).
	OnEnter func(ctx context.Context, tag string, req *jrpc2.Request)
	// Extra methods, consulted before the built-in behaviours.
	Extra map[string]jrpc2.Handler
}

// NewHandlers returns an assigner logging to log.
func NewHandlers(log *Log) *Handlers {
	return &Handlers{Log: log, gates: map[string]chan struct{}{}, opened: map[string]bool{}}
}

// TagOf extracts the tag from a request's params.
func TagOf(req *jrpc2.Request) string {
	var p struct {
		T string `json:"t"`
	}
	if req.HasParams() {
		json.Unmarshal([]byte(req.ParamString()), &p)
	}
	if p.T == "" {
		return "-" + req.Method()
	}
	return p.T
}

func (h *Handlers) gate(tag string) chan struct{} {
	h.mu.Lock()
	defer h.mu.Unlock()
	g, ok := h.gates[tag]
	if !ok {
		g = make(chan struct{})
		h.gates[tag] = g
		if h.allOpen {
			h.opened[tag] = true
			close(g)
		}
	}
	return g
}

// Release opens the gate of tag (idempotent; may precede the handler).
func (h *Handlers) Release(tag string) {
	g := h.gate(tag)
	h.mu.Lock()
	if !h.opened[tag] {
		h.opened[tag] = true
		close(g)
	}
	h.mu.Unlock()
}

// ReleaseAll opens every gate created so far and makes future gates open.
func (h *Handlers) ReleaseAll() {
	h.mu.Lock()
	h.allOpen = true
	var tags []string
	for t := range h.gates {
		tags = append(tags, t)
	}
	h.mu.Unlock()
	for _, t := range tags {
		h.Release(t)
	}
}

// Rearm undoes ReleaseAll for gates created from now on (a new session of a
// restarted server starts with closed gates again).
func (h *Handlers) Rearm() {
	h.mu.Lock()
	h.allOpen = false
	h.mu.Unlock()
}

// Running returns the number of handler invocations in progress.
func (h *Handlers) Running() int { return int(h.running.Load()) }

// MaxRunning returns the high-water mark of Running.
func (h *Handlers) MaxRunning() int { return int(h.maxRunning.Load()) }

// Invocations returns the number of handler invocations started.
func (h *Handlers) Invocations() int64 { return h.seq.Load() }

// UnmarshalableResult is returned by method "u".
type UnmarshalableResult struct{ F func() }

// MarshalJSON always fails.
func (UnmarshalableResult) MarshalJSON() ([]byte, error) {
	return nil, fmt.Errorf("cannot marshal this")
}

func (h *Handlers) wrap(kind byte) jrpc2.Handler {
	return func(ctx context.Context, req *jrpc2.Request) (any, error) {
		tag := TagOf(req)
		seq := h.seq.Add(1)
		n := h.running.Add(1)
		for {
			m := h.maxRunning.Load()
			if n <= m || h.maxRunning.CompareAndSwap(m, n) {
				break
			}
		}
		h.Log.Add("h.enter", tag, fmt.Sprintf("seq=%d id=%s note=%v ctxerr=%v running=%d", seq, req.ID(), req.IsNotification(), ctx.Err(), n))
		if h.OnEnter != nil {
			h.OnEnter(ctx, tag, req)
		}
		switch kind {
		case 'g':
			select {
			case <-h.gate(tag):
			case <-ctx.Done():
			}
		case 'G':
			<-h.gate(tag)
		}
		h.running.Add(-1)
		h.Log.Add("h.exit", tag, fmt.Sprintf("seq=%d ctxerr=%v", seq, ctx.Err()))
		switch kind {
		case 'e':
			return nil, &jrpc2.Error{Code: 7, Message: "E:" + tag}
		case 'r': // application error that happens to use the InvalidRequest code
			return nil, &jrpc2.Error{Code: jrpc2.InvalidRequest, Message: "R:" + tag}
		case 'p': // application error that happens to use the ParseError code
			return nil, jrpc2.Errorf(jrpc2.ParseError, "P:%s", tag)
		case 'u':
			return UnmarshalableResult{}, nil
		case 'c': // the bare context sentinel (a handler giving up because some context of its own ended)
			return nil, context.Canceled
		case 'd': // an *Error carrying the DeadlineExceeded code
			return nil, jrpc2.Errorf(jrpc2.DeadlineExceeded, "D:%s", tag)
		case 'b': // an error whose Data is not valid JSON: it cannot be encoded as it is
			return nil, &jrpc2.Error{Code: 9, Message: "B:" + tag, Data: json.RawMessage("{bad")}
		case 'x': // a pre-encoded result, pretty-printed over several lines
			return json.RawMessage("{\n  \"t\": " + jstr(tag) + ",\n  \"a\": [ 1,\n 2 ]\n}"), nil
		}
		return Token(tag, seq), nil
	}
}

// Token is the result value of invocation seq of tag.
func Token(tag string, seq int64) string { return fmt.Sprintf("%s/%d", tag, seq) }

// Assign implements jrpc2.Assigner.
func (h *Handlers) Assign(ctx context.Context, method string) jrpc2.Handler {
	if f, ok := h.Extra[method]; ok {
		return f
	}
	switch method {
	case "g", "G", "i", "e", "u", "r", "p", "x", "b", "c", "d":
		return h.wrap(method[0])
	}
	return nil
}

// Names implements jrpc2.Namer.
func (h *Handlers) Names() []string {
	names := []string{"G", "b", "c", "d", "e", "g", "i", "p", "r", "u", "x"}
	for k := range h.Extra {
		names = append(names, k)
	}
	sort.Strings(names)
	return names
}
