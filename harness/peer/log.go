// Package peer holds the scenario-side tooling shared by the concurrency
// checks: the logical-clock event log, gated handlers with unique invocation
// tokens, the bubble runner with its goroutine leak scan, and rigs that put a
// real jrpc2.Server or jrpc2.Client on one end of an instrumented channel and
// a raw scripted peer on the other.
package peer

import (
	"fmt"
	"strings"
	"sync"
	"sync/atomic"
)

// An Event is one observation stamped with the scenario's logical clock.
type Event struct {
	T    int64  `json:"t"`
	Kind string `json:"k"`
	Tag  string `json:"tag,omitempty"`
	Info string `json:"info,omitempty"`
}

func (e Event) String() string { return fmt.Sprintf("%d %s %s %s", e.T, e.Kind, e.Tag, e.Info) }

// Log is a thread-safe event log with one monotonic logical clock.
type Log struct {
	clock atomic.Int64
	mu    sync.Mutex
	evs   []Event
}

// NewLog returns an empty log.
func NewLog() *Log { return &Log{} }

// Add appends an event and returns its timestamp.
func (l *Log) Add(kind, tag, info string) int64 {
	l.mu.Lock()
	t := l.clock.Add(1)
	l.evs = append(l.evs, Event{T: t, Kind: kind, Tag: tag, Info: info})
	l.mu.Unlock()
	return t
}

// Now returns the current clock value without adding an event.
func (l *Log) Now() int64 { return l.clock.Load() }

// Events returns a copy of the log.
func (l *Log) Events() []Event {
	l.mu.Lock()
	defer l.mu.Unlock()
	return append([]Event(nil), l.evs...)
}

// Len returns the number of events.
func (l *Log) Len() int {
	l.mu.Lock()
	defer l.mu.Unlock()
	return len(l.evs)
}

// Find returns the events of the given kind (and tag, unless tag == "*").
func (l *Log) Find(kind, tag string) []Event {
	l.mu.Lock()
	defer l.mu.Unlock()
	var out []Event
	for _, e := range l.evs {
		if e.Kind == kind && (tag == "*" || e.Tag == tag) {
			out = append(out, e)
		}
	}
	return out
}

// Count counts the events of the given kind and tag ("*" = any tag).
func (l *Log) Count(kind, tag string) int { return len(l.Find(kind, tag)) }

// Dump renders the log for violation files (bounded).
func (l *Log) Dump() []string {
	evs := l.Events()
	const max = 400
	var out []string
	if len(evs) > max {
		out = append(out, fmt.Sprintf("... %d earlier events omitted ...", len(evs)-max))
		evs = evs[len(evs)-max:]
	}
	for _, e := range evs {
		s := e.String()
		if len(s) > 300 {
			s = s[:300] + "..."
		}
		out = append(out, strings.TrimSpace(s))
	}
	return out
}
