package peer

import (
	"fmt"
	"regexp"
	"runtime"
	"strings"
	"testing"
	"testing/synctest"

	"verif/harness/sched"
	"verif/harness/vt"
)

var bubbleRE = regexp.MustCompile(`synctest bubble (\d+)`)

// LeakScan returns the stacks of goroutines of the current synctest bubble
// other than the caller and the two infrastructure goroutines. It must be
// called from the bubble's main goroutine after a final Settle.
func LeakScan() []string {
	buf := make([]byte, 1<<20)
	n := runtime.Stack(buf, true)
	blocks := strings.Split(string(buf[:n]), "\n\n")
	if len(blocks) == 0 {
		return nil
	}
	m := bubbleRE.FindStringSubmatch(firstLine(blocks[0]))
	if m == nil {
		return nil // not in a bubble
	}
	mine := "synctest bubble " + m[1] + "]"
	var leaks []string
	for _, b := range blocks[1:] {
		if !strings.Contains(firstLine(b), mine) {
			continue
		}
		if strings.Contains(b, "internal/synctest.Run(") || strings.Contains(b, "synctest.testingSynctestTest(") {
			continue
		}
		leaks = append(leaks, b)
	}
	return leaks
}

func firstLine(s string) string {
	if i := strings.IndexByte(s, '\n'); i >= 0 {
		return s[:i]
	}
	return s
}

// Bubble runs body inside a fresh synctest bubble with ctrl installed as the
// process-wide hook. After body returns it settles and scans for goroutines
// left behind; any is recorded as a violation (and flushed to disk at once,
// because the synctest runtime will then abort the process with its own
// "blocked goroutines remain" deadlock report).
func Bubble(c *vt.Ctx, ctrl *sched.Controller, body func()) {
	synctest.Test(c.T, func(t *testing.T) {
		ctrl.Install()
		defer sched.Uninstall()
		body()
		ctrl.Settle()
		if leaks := LeakScan(); len(leaks) > 0 {
			msg := fmt.Sprintf("%d goroutine(s) left behind at the end of the scenario", len(leaks))
			for i, l := range leaks {
				if i < 4 {
					msg += "\n" + l
				}
			}
			c.Failf("%s", msg)
			c.Flush()
		}
	})
	c.Schedule(ctrl.Signature())
	c.Sites(ctrl.Visits())
}
