package peer

import (
	"fmt"
	"os"
	"regexp"
	"runtime"
	"strings"
	"testing"
	"testing/synctest"

	"verif/harness/sched"
	"verif/harness/vt"
)

var bubbleRE = regexp.MustCompile(`synctest bubble (\d+)`)

// LeakScan returns the stacks of goroutines of the current synctest bubble
// other than the caller and the two infrastructure goroutines. It must be
// called from the bubble's main goroutine after a final Settle.
func LeakScan() []string {
	buf := make([]byte, 1<<20)
	n := runtime.Stack(buf, true)
	blocks := strings.Split(string(buf[:n]), "\n\n")
	if len(blocks) == 0 {
		return nil
	}
	m := bubbleRE.FindStringSubmatch(firstLine(blocks[0]))
	if m == nil {
		return nil // not in a bubble
	}
	mine := "synctest bubble " + m[1] + "]"
	var leaks []string
	for _, b := range blocks[1:] {
		if !strings.Contains(firstLine(b), mine) {
			continue
		}
		if strings.Contains(b, "internal/synctest.Run(") || strings.Contains(b, "synctest.testingSynctestTest(") {
			continue
		}
		leaks = append(leaks, b)
	}
	return leaks
}

func firstLine(s string) string {
	if i := strings.IndexByte(s, '\n'); i >= 0 {
		return s[:i]
	}
	return s
}

// Bubble runs body inside a fresh synctest bubble with ctrl installed as the
// process-wide hook. After body returns it settles and scans for goroutines
// left behind; any is recorded as a violation (and flushed to disk at once,
// because the synctest runtime will then abort the process with its own
// "blocked goroutines remain" deadlock report).
func Bubble(c *vt.Ctx, ctrl *sched.Controller, body func()) {
	synctest.Test(c.T, func(t *testing.T) {
		ctrl.Install()
		defer sched.Uninstall()
		body()
		ctrl.Settle()
		if leaks := LeakScan(); len(leaks) > 0 {
			msg := fmt.Sprintf("%d goroutine(s) left behind at the end of the scenario", len(leaks))
			for i, l := range leaks {
				if i < 4 {
					msg += "\n" + l
				}
			}
			c.Failf("%s", msg)
			c.Flush()
		}
	})
	c.Schedule(ctrl.Signature())
	c.Sites(ctrl.Visits())
}

// SettleOrStuck is Controller.Settle for scenarios in which the library may block on
// one of its own mutexes for good (a writer held inside Send keeps the server's or the
// client's mutex): a goroutine waiting for a mutex is not durably blocked, so
// synctest.Wait would never return and the case would end at the watchdog, undecided.
//
// It polls stop-the-world stack snapshots of the bubble. As soon as every other
// goroutine of the bubble is blocked, the bubble cannot make progress by itself (its
// clock does not advance while a goroutine waits for a mutex, and nothing outside
// touches it): if all of them are durably blocked this is ordinary quiescence and
// Settle is called; if some wait for a mutex, the mutex's holder is among the blocked
// ones - a deadlock - and the stacks of the mutex waiters are returned.
func SettleOrStuck(ctrl interface{ Settle() }) (stuck []string) {
	confirmations := 0
	for {
		for i := 0; i < 200; i++ {
			runtime.Gosched()
		}
		buf := make([]byte, 4<<20)
		n := runtime.Stack(buf, true)
		blocks := strings.Split(string(buf[:n]), "\n\n")
		m := bubbleRE.FindStringSubmatch(firstLine(blocks[0]))
		if m == nil {
			panic("SettleOrStuck outside a bubble")
		}
		mine := "synctest bubble " + m[1] + "]"
		allBlocked, mutexWaiters := true, []string(nil)
		for _, b := range blocks[1:] {
			h := firstLine(b)
			if !strings.Contains(h, mine) {
				// a runnable goroutine is listed without its bubble: anything that is not
				// waiting for something may be one of ours and may still move
				idle := false
				for _, w := range []string{"[chan receive", "[chan send", "[select", "[IO wait", "[GC worker (idle)", "[GC sweep wait", "[GC scavenge wait", "[finalizer wait", "[force gc (idle)", "[sleep", "[semacquire", "[sync.Cond.Wait", "[sync.WaitGroup.Wait", "[cleanup wait", "[trace reader", "[sync.Mutex.Lock", "[sync.RWMutex."} {
					idle = idle || strings.Contains(h, w)
				}
				if !idle {
					allBlocked = false
				}
				continue
			}
			if strings.Contains(b, "internal/synctest.Run(") || strings.Contains(b, "synctest.testingSynctestTest(") {
				continue
			}
			switch {
			case strings.Contains(h, "(durable)"):
			case strings.Contains(h, "[sync.Mutex.Lock") || strings.Contains(h, "[sync.RWMutex."):
				mutexWaiters = append(mutexWaiters, b)
			default: // running, runnable, syscall, a non-durable wait of another kind: may still move
				allBlocked = false
			}
		}
		if !allBlocked {
			confirmations = 0
			continue
		}
		if len(mutexWaiters) == 0 {
			ctrl.Settle()
			return nil
		}
		// a deadlock stays; ask for it three times in a row before believing it
		if confirmations++; confirmations < 3 {
			continue
		}
		if os.Getenv("VERIF_DEBUG_STUCK") != "" {
			fmt.Fprintf(os.Stderr, "=== SettleOrStuck snapshot ===\n%s\n=== end ===\n", buf[:n])
		}
		return mutexWaiters
	}
}
