package peer

import (
	"context"
	"encoding/json"
	"fmt"
	"sync"
	"sync/atomic"

	"github.com/creachadair/jrpc2"
	"github.com/creachadair/jrpc2/channel"

	"verif/harness/sched"
	"verif/harness/vchan"
	"verif/harness/vt"
)

// Mon adapts the scenario log and case context to vchan.Monitor.
type Mon struct {
	C   *vt.Ctx
	Log *Log
	// FailOnDiscipline makes Channel-contract violations fail the case (the
	// C10 check); otherwise they are only logged and counted.
	FailOnDiscipline bool
	Discipline       atomic.Int64
	Ops              atomic.Int64
	Quiet            bool // count operations but do not log them (long stress runs)
}

// Violation implements vchan.Monitor.
func (m *Mon) Violation(end, kind, detail string) {
	m.Discipline.Add(1)
	m.Log.Add("chan.violation", end, kind+": "+detail)
	if m.FailOnDiscipline {
		m.C.Failf("channel discipline (%s) on %s: %s", kind, end, detail)
		m.C.Flush() // the run may not survive the misuse; keep the evidence
	}
}

// Event implements vchan.Monitor.
func (m *Mon) Event(end, what string, data []byte) {
	m.Ops.Add(1)
	if m.Quiet {
		return
	}
	switch what {
	case "send.enter":
		m.Log.Add("wire."+end, "send", string(data))
	case "recv.exit", "close.enter", "close.exit", "fault.send", "fault.recv":
		m.Log.Add("wire."+end, what, string(data))
	}
}

// ServerOpts configures a ServerRig.
type ServerOpts struct {
	Concurrency      int
	AllowPush        bool
	DisableBuiltin   bool
	PipeLike         bool // the server end's Close unblocks its own Recv
	FailOnDiscipline bool
	BaseContext      func() context.Context
	Assigner         jrpc2.Assigner // default: the rig's Handlers
	Faults           []vchan.Fault  // installed on the server's end before Start
	Spin             int            // Gosched iterations inside each channel operation (default 2)
	RejectLF         bool           // the server's end refuses records containing a line feed (like channel.Line)
	FreshRecvBuf     bool           // hand out a fresh slice per Recv (default: one reused, scribbled buffer)
	Validator        func([]byte) error
	RPCLog           jrpc2.RPCLogger
	HoldSend         chan struct{} // see vchan.End.HoldSend (server's end)
	// ChannelByValue hands the server its channel as a non-comparable struct value
	// (vchan.ByValue) instead of a pointer.
	ChannelByValue bool
}

// ServerRig is a real jrpc2.Server on one end of a vchan pair, a raw scripted
// client peer on the other.
type ServerRig struct {
	C    *vt.Ctx
	Log  *Log
	Ctrl *sched.Controller
	Mon  *Mon
	H    *Handlers
	Srv  *jrpc2.Server
	Peer *vchan.End // the harness's end ("cli")
	End  *vchan.End // the server's end ("srv")

	byValue bool

	omu sync.Mutex
	out [][]byte
}

// NewServerRig builds and starts the rig. Call inside a bubble (or not, for
// real-time stress).
func NewServerRig(c *vt.Ctx, ctrl *sched.Controller, o ServerOpts) *ServerRig {
	log := NewLog()
	r := &ServerRig{C: c, Log: log, Ctrl: ctrl, H: NewHandlers(log)}
	r.Mon = &Mon{C: c, Log: log, FailOnDiscipline: o.FailOnDiscipline}
	r.Peer, r.End = vchan.NewPair("cli", "srv", r.Mon)
	r.End.PipeLike = o.PipeLike
	r.End.RejectLF = o.RejectLF
	r.End.ReuseRecvBuf = !o.FreshRecvBuf
	r.End.HoldSend = o.HoldSend
	for _, f := range o.Faults {
		r.End.AddFault(f)
	}
	if o.Spin > 0 {
		r.End.Spin = o.Spin
	}
	if o.Validator != nil {
		r.End.SetValidator(o.Validator)
	}
	var asg jrpc2.Assigner = r.H
	if o.Assigner != nil {
		asg = o.Assigner
	}
	r.Srv = jrpc2.NewServer(asg, &jrpc2.ServerOptions{
		Concurrency: o.Concurrency, AllowPush: o.AllowPush, DisableBuiltin: o.DisableBuiltin,
		NewContext: o.BaseContext, RPCLog: o.RPCLog,
	})
	r.byValue = o.ChannelByValue
	r.Srv.Start(r.Chan())
	c.Attach(func() any { return r.Log.Dump() })
	return r
}

// Chan returns the server's end in the form it is handed to Server.Start.
func (r *ServerRig) Chan() channel.Channel {
	if r.byValue {
		return vchan.ByValue{End: r.End}
	}
	return r.End
}

// Send delivers one raw record to the server.
func (r *ServerRig) Send(rec string) {
	r.Log.Add("in", "", rec)
	r.Peer.Inject([]byte(rec))
}

// Settle waits for quiescence and collects what the server has sent.
func (r *ServerRig) Settle() {
	r.Ctrl.Settle()
	r.Collect()
	checkReuse(r.C, "server", r.End)
}

// checkReuse fails the case if the library wrote again to one of the last buffers it had
// passed to Send (quiescent: nobody is sending now).
func checkReuse(c *vt.Ctx, who string, e *vchan.End) {
	if i, was, now, reused := e.ReusedAfterSend(8); reused {
		c.Failf("the %s wrote to a buffer after passing it to Channel.Send (a channel such as channel.Direct hands that buffer to the peer uncopied): record #%d was sent as %.200q and now reads %.200q", who, i, was, now)
	}
}

// Collect moves records waiting on the peer end into the rig's outbound list.
func (r *ServerRig) Collect() {
	recs := r.Peer.Pending()
	r.omu.Lock()
	r.out = append(r.out, recs...)
	r.omu.Unlock()
}

// Outbound returns every record the server has sent so far, in order.
func (r *ServerRig) Outbound() [][]byte {
	r.Collect()
	r.omu.Lock()
	defer r.omu.Unlock()
	return append([][]byte(nil), r.out...)
}

// OutboundFrom returns the records sent after the first n.
func (r *ServerRig) OutboundFrom(n int) [][]byte {
	all := r.Outbound()
	if n > len(all) {
		n = len(all)
	}
	return all[n:]
}

// Finish ends the scenario in an orderly way: opens all gates, closes the
// peer's sending direction (the server reads EOF), waits for WaitStatus, and
// returns the status. ok is false if WaitStatus had not returned at
// quiescence.
func (r *ServerRig) Finish() (st jrpc2.ServerStatus, ok bool) {
	r.H.ReleaseAll()
	r.Peer.CloseQuiet()
	return r.AwaitStatus()
}

// AwaitStatus runs WaitStatus in a goroutine, settles, and reports whether it
// returned.
func (r *ServerRig) AwaitStatus() (st jrpc2.ServerStatus, ok bool) {
	done := make(chan jrpc2.ServerStatus, 1)
	go func() {
		s := r.Srv.WaitStatus()
		r.Log.Add("waitstatus.ret", "", fmt.Sprintf("%+v", s))
		done <- s
	}()
	r.Settle()
	select {
	case st = <-done:
		return st, true
	default:
		return st, false
	}
}

// Req builds a JSON-RPC request record. id == "" makes a notification; id is
// raw JSON (e.g. `1`, `"a"`).
func Req(id, method, tag string) string {
	s := `{"jsonrpc":"2.0"`
	if id != "" {
		s += `,"id":` + id
	}
	s += `,"method":` + jstr(method)
	if tag != "" {
		s += `,"params":{"t":` + jstr(tag) + `}`
	}
	return s + `}`
}

func jstr(s string) string { b, _ := json.Marshal(s); return string(b) }

// Msg is a decoded outbound JSON-RPC message member.
type Msg struct {
	V      string          `json:"jsonrpc"`
	ID     json.RawMessage `json:"id"`
	Method string          `json:"method"`
	Params json.RawMessage `json:"params"`
	Result json.RawMessage `json:"result"`
	Error  *struct {
		Code    int             `json:"code"`
		Message string          `json:"message"`
		Data    json.RawMessage `json:"data"`
	} `json:"error"`
}

// Decode parses a record into its members and reports whether it was an array.
func Decode(rec []byte) (members []Msg, isArray bool, err error) {
	t := firstNonSpace(rec)
	if t == '[' {
		err = json.Unmarshal(rec, &members)
		return members, true, err
	}
	var m Msg
	err = json.Unmarshal(rec, &m)
	return []Msg{m}, false, err
}

func firstNonSpace(b []byte) byte {
	for _, c := range b {
		if c != ' ' && c != '\t' && c != '\n' && c != '\r' {
			return c
		}
	}
	return 0
}

// ResultToken returns the string result of m, or "".
func (m Msg) ResultToken() string {
	var s string
	if len(m.Result) > 0 && json.Unmarshal(m.Result, &s) == nil {
		return s
	}
	return ""
}
