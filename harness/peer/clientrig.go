package peer

import (
	"context"
	"encoding/json"
	"errors"
	"fmt"
	"io"
	"strings"
	"sync"

	"github.com/creachadair/jrpc2"

	"verif/harness/sched"
	"verif/harness/vchan"
	"verif/harness/vt"
)

// ClientOpts configures a ClientRig.
type ClientOpts struct {
	PipeLike         bool
	FailOnDiscipline bool
	Faults           []vchan.Fault // installed on the client's end before NewClient
	NoCallback       bool          // do not install OnCallback
	NoNotify         bool          // do not install OnNotify
	Spin             int
	Validator        func([]byte) error
	FreshRecvBuf     bool // hand out a fresh slice per Recv (default: one reused, scribbled buffer)
}

// ClientRig is a real jrpc2.Client on one end of a vchan pair and a raw
// scripted server peer on the other.
type ClientRig struct {
	C    *vt.Ctx
	Log  *Log
	Ctrl *sched.Controller
	Mon  *Mon
	Cli  *jrpc2.Client
	Peer *vchan.End // the harness's end ("srv")
	End  *vchan.End // the client's end ("cli")
	H    *Handlers  // gates for the callback handler (methods g, G, i, e as on the server side)

	mu  sync.Mutex
	out [][]byte

	// Relabel, if set, is applied to every response a Call returns:
	// rsp.SetID(Relabel(tag)) — what a proxy such as jhttp.Bridge does.
	Relabel func(tag string) string
}

// NewClientRig builds the rig and starts the client.
func NewClientRig(c *vt.Ctx, ctrl *sched.Controller, o ClientOpts) *ClientRig {
	log := NewLog()
	r := &ClientRig{C: c, Log: log, Ctrl: ctrl, H: NewHandlers(log)}
	r.Mon = &Mon{C: c, Log: log, FailOnDiscipline: o.FailOnDiscipline}
	r.End, r.Peer = vchan.NewPair("cli", "srv", r.Mon)
	r.End.PipeLike = o.PipeLike
	r.End.ReuseRecvBuf = !o.FreshRecvBuf
	for _, f := range o.Faults {
		r.End.AddFault(f)
	}
	if o.Spin > 0 {
		r.End.Spin = o.Spin
	}
	if o.Validator != nil {
		r.End.SetValidator(o.Validator)
	}
	opts := &jrpc2.ClientOptions{
		OnCancel: func(cli *jrpc2.Client, rsp *jrpc2.Response) {
			log.Add("oncancel", rsp.ID(), fmt.Sprint(rsp.Error()))
		},
		OnStop: func(cli *jrpc2.Client, err error) {
			log.Add("onstop", "", DescribeErr(err))
		},
	}
	if !o.NoNotify {
		opts.OnNotify = func(req *jrpc2.Request) {
			log.Add("onnotify", req.Method(), req.ParamString()) // must not block: called under the client's lock
		}
	}
	if !o.NoCallback {
		opts.OnCallback = func(ctx context.Context, req *jrpc2.Request) (any, error) {
			h := r.H.Assign(ctx, req.Method())
			if h == nil {
				return nil, jrpc2.Errorf(jrpc2.MethodNotFound, "no such callback %q", req.Method())
			}
			return h(ctx, req)
		}
	}
	r.Cli = jrpc2.NewClient(r.End, opts)
	c.Attach(func() any { return r.Log.Dump() })
	return r
}

// ErrRigFault is the error injected by client-side fault plans.
var ErrRigFault = errors.New("rig: injected transport failure")

// DescribeErr renders an error for the log so that oracles can compare it.
func DescribeErr(err error) string {
	var je *jrpc2.Error
	switch {
	case err == nil:
		return "nil"
	case err == context.Canceled:
		return "ctx:canceled"
	case err == context.DeadlineExceeded:
		return "ctx:deadline"
	case err == io.EOF:
		return "eof"
	case errors.Is(err, ErrRigFault):
		return "fault"
	case errors.As(err, &je):
		return fmt.Sprintf("jerr:%d:%s", je.Code, je.Message)
	default:
		return "err:" + err.Error()
	}
}

// DescribeResp renders a Call outcome: "ok:<result string>" or the error.
func DescribeResp(rsp *jrpc2.Response, err error) string {
	if err != nil {
		return DescribeErr(err)
	}
	if rsp == nil {
		return "nilresponse"
	}
	if e := rsp.Error(); e != nil {
		// a failed call carries an error and nothing else: no stray result, and its JSON form is an error response
		extra := ""
		if rs := rsp.ResultString(); rs != "" {
			extra += "+stray-result=" + rs
		}
		if bits, merr := rsp.MarshalJSON(); merr == nil {
			var obj map[string]json.RawMessage
			if json.Unmarshal(bits, &obj) == nil {
				if _, ok := obj["result"]; ok {
					extra += "+marshals-with-result"
				}
				if _, ok := obj["error"]; !ok {
					extra += "+marshals-without-error"
				}
			}
		}
		return fmt.Sprintf("rsperr:%d:%s%s", e.Code, e.Message, extra)
	}
	var s string
	if json.Unmarshal([]byte(rsp.ResultString()), &s) == nil {
		return "ok:" + s
	}
	return "okraw:" + rsp.ResultString()
}

// GoCall issues Client.Call in its own goroutine, logging api.call / api.ret.
func (r *ClientRig) GoCall(tag string, ctx context.Context, method string, params any) {
	r.Log.Add("api.call", tag, method)
	go func() {
		rsp, err := r.Cli.Call(ctx, method, params)
		if rsp != nil && r.Relabel != nil {
			rsp.SetID(r.Relabel(tag))
		}
		r.Log.Add("api.ret", tag, DescribeResp(rsp, err))
	}()
}

// GoBatch issues Client.Batch in its own goroutine; the return is logged as
// the list of per-response descriptions joined by " | ".
func (r *ClientRig) GoBatch(tag string, ctx context.Context, specs []jrpc2.Spec) {
	r.Log.Add("api.call", tag, fmt.Sprintf("batch(%d)", len(specs)))
	go func() {
		rsps, err := r.Cli.Batch(ctx, specs)
		if err != nil {
			r.Log.Add("api.ret", tag, "batcherr:"+DescribeErr(err))
			return
		}
		var parts []string
		for _, rsp := range rsps {
			parts = append(parts, rsp.ID()+"="+DescribeResp(rsp, nil))
		}
		r.Log.Add("api.ret", tag, strings.Join(parts, " | "))
	}()
}

// GoNotify issues Client.Notify in its own goroutine.
func (r *ClientRig) GoNotify(tag string, ctx context.Context, method string, params any) {
	r.Log.Add("api.call", tag, "notify "+method)
	go func() {
		err := r.Cli.Notify(ctx, method, params)
		r.Log.Add("api.ret", tag, DescribeErr(err))
	}()
}

// GoClose calls Client.Close in its own goroutine.
func (r *ClientRig) GoClose() {
	r.Log.Add("api.call", "close", "")
	go func() {
		err := r.Cli.Close()
		r.Log.Add("api.ret", "close", DescribeErr(err))
	}()
}

// Settle waits for quiescence and collects what the client has sent.
func (r *ClientRig) Settle() {
	r.Ctrl.Settle()
	r.Collect()
	checkReuse(r.C, "client", r.End)
}

// Collect moves records the client sent into the rig's list.
func (r *ClientRig) Collect() {
	recs := r.Peer.Pending()
	r.mu.Lock()
	r.out = append(r.out, recs...)
	r.mu.Unlock()
}

// Sent returns every record the client has transmitted so far.
func (r *ClientRig) Sent() [][]byte {
	r.Collect()
	r.mu.Lock()
	defer r.mu.Unlock()
	return append([][]byte(nil), r.out...)
}

// Reply delivers one raw record to the client.
func (r *ClientRig) Reply(rec string) {
	r.Log.Add("in", "", rec)
	r.Peer.Inject([]byte(rec))
}

// Returned reports the logged return of an API call, if any.
func (r *ClientRig) Returned(tag string) (info string, n int) {
	evs := r.Log.Find("api.ret", tag)
	if len(evs) > 0 {
		info = evs[0].Info
	}
	return info, len(evs)
}
