module verif/harness

go 1.26

replace github.com/creachadair/jrpc2 => /repo

require github.com/creachadair/jrpc2 v0.0.0-00010101000000-000000000000

require (
	github.com/creachadair/mds v0.24.2 // indirect
	golang.org/x/sync v0.13.0 // indirect
)
