// Package vt is the worker-side framework shared by all checks: case
// enumeration and sharding, the case journal (so a process-fatal outcome is
// attributed to the case that caused it), violation files, and the evidence
// accumulator whose totals the driver merges into /verif/evidence/<id>.json.
//
// A worker process runs the cases of one property whose index i satisfies
// i%N == shard and i >= start. Before each case it appends "BEGIN i id" to its
// journal and fsyncs nothing (the file is written unbuffered, which survives
// a panic of this process); after it, "END i ok|viol". A case reports a
// violation with Ctx.Failf; that writes viol-<shard>-<i>.json at once.
package vt

import (
	"encoding/json"
	"fmt"
	"hash/fnv"
	"math/rand/v2"
	"os"
	"path/filepath"
	"sort"
	"strconv"
	"strings"
	"sync"
	"sync/atomic"
	"testing"
	"time"
)

// Env is the configuration of a worker, taken from the environment.
type Env struct {
	Prop   string // property id, e.g. C03
	Tier   string // quick | thorough
	Seed   int64
	Shard  int
	Shards int
	Start  int    // skip cases with index < Start (restart after a crash)
	Only   string // if set, run only the case with exactly this id (replay)
	Out    string // directory for journal / parts / violations
}

// LoadEnv reads the worker configuration.
func LoadEnv() Env {
	e := Env{
		Prop: os.Getenv("VERIF_PROP"),
		Tier: os.Getenv("VERIF_TIER"),
		Only: os.Getenv("VERIF_ONLY"),
		Out:  os.Getenv("VERIF_OUT"),
	}
	if e.Tier == "" {
		e.Tier = "quick"
	}
	e.Seed = atoi(os.Getenv("VERIF_SEED"), 1)
	e.Shard = int(atoi(os.Getenv("VERIF_SHARD"), 0))
	e.Shards = int(atoi(os.Getenv("VERIF_SHARDS"), 1))
	e.Start = int(atoi(os.Getenv("VERIF_START"), 0))
	if e.Out == "" {
		e.Out = "."
	}
	return e
}

func atoi(s string, def int64) int64 {
	if v, err := strconv.ParseInt(strings.TrimSpace(s), 10, 64); err == nil {
		return v
	}
	return def
}

// Thorough reports whether the thorough tier was requested.
func (e Env) Thorough() bool { return e.Tier == "thorough" }

// Pick returns q for the quick tier and t for the thorough tier.
func (e Env) Pick(q, t int) int {
	if e.Thorough() {
		return t
	}
	return q
}

// Rand returns a PRNG determined by the seed and a stream label.
func (e Env) Rand(label string) *rand.Rand {
	h := fnv.New64a()
	h.Write([]byte(label))
	return rand.New(rand.NewPCG(uint64(e.Seed), h.Sum64()))
}

// A Case is one unit of work attributed in the journal. It may contain many
// evaluations (inputs, bubble executions); it reports them through Ctx.
type Case struct {
	ID  string
	Run func(c *Ctx)
}

// A Check enumerates the cases of one property for a tier and seed. The
// enumeration must be deterministic in (tier, seed): every worker of a run
// enumerates the same list and executes its own residue class.
type Check struct {
	Prop  string
	Level string // exploration | fault_enumeration
	Rule  string // how cases are generated and what makes one distinct & non-trivial
	Cases func(e Env, yield func(Case) bool)
	// Assumptions and trusted base reported in the evidence.
	Assumptions []string
	// Require lists counters that must reach a minimum over the whole run,
	// else the run is inconclusive (observation floor).
	Require map[string]int64
	// Exhaustive is reported in the evidence (finite space enumerated fully).
	Exhaustive func(e Env) bool
}

var registry = map[string]*Check{}

// Register adds a check to the registry.
func Register(c *Check) { registry[c.Prop] = c }

// Lookup finds a registered check.
func Lookup(prop string) *Check { return registry[prop] }

// Props lists registered property ids.
func Props() []string {
	var out []string
	for k := range registry {
		out = append(out, k)
	}
	sort.Strings(out)
	return out
}

// Acc accumulates what a worker observed.
type Acc struct {
	mu       sync.Mutex
	evals    int64
	distinct map[uint64]struct{}
	sigs     map[uint64]struct{} // distinct schedule / trace signatures
	sites    map[string]int64
	counters map[string]int64
	samples  []any
	maxSamp  int
	viols    int64
}

func newAcc() *Acc {
	return &Acc{
		distinct: map[uint64]struct{}{}, sigs: map[uint64]struct{}{},
		sites: map[string]int64{}, counters: map[string]int64{}, maxSamp: 6,
	}
}

// Hash64 hashes a string (FNV-1a).
func Hash64(s string) uint64 {
	h := fnv.New64a()
	h.Write([]byte(s))
	return h.Sum64()
}

// Ctx is the per-case context handed to Case.Run.
type Ctx struct {
	T      *testing.T
	Env    Env
	Case   string
	Index  int
	acc    *Acc
	failed atomic.Int64
	fmu    sync.Mutex
	fails  []string
	attach func() any // extra data (event log) attached to violation files
}

// Eval counts n evaluations (inputs tried / executions run).
func (c *Ctx) Eval(n int) {
	c.acc.mu.Lock()
	c.acc.evals += int64(n)
	c.acc.mu.Unlock()
}

// Distinct records a distinct non-trivial case by its signature.
func (c *Ctx) Distinct(sig string) { c.DistinctHash(Hash64(sig)) }

// DistinctHash is Distinct for a precomputed hash.
func (c *Ctx) DistinctHash(h uint64) {
	c.acc.mu.Lock()
	c.acc.distinct[h] = struct{}{}
	c.acc.mu.Unlock()
}

// Schedule records a distinct schedule / trace signature.
func (c *Ctx) Schedule(sig uint64) {
	c.acc.mu.Lock()
	c.acc.sigs[sig] = struct{}{}
	c.acc.mu.Unlock()
}

// Sites merges hook-site visit counts.
func (c *Ctx) Sites(m map[string]int) {
	c.acc.mu.Lock()
	for k, v := range m {
		c.acc.sites[k] += int64(v)
	}
	c.acc.mu.Unlock()
}

// Count adds n to a named counter (events observed, handler runs, ...).
func (c *Ctx) Count(name string, n int) {
	c.acc.mu.Lock()
	c.acc.counters[name] += int64(n)
	c.acc.mu.Unlock()
}

// Sample offers a sample case for the evidence file (the first few are kept).
func (c *Ctx) Sample(v any) {
	c.acc.mu.Lock()
	if len(c.acc.samples) < c.acc.maxSamp {
		c.acc.samples = append(c.acc.samples, v)
	}
	c.acc.mu.Unlock()
}

// WantSample reports whether more samples are wanted (avoids building them).
func (c *Ctx) WantSample() bool {
	c.acc.mu.Lock()
	defer c.acc.mu.Unlock()
	return len(c.acc.samples) < c.acc.maxSamp
}

// Attach registers a function producing data (e.g. the event log) that is
// stored in the violation file if the case fails.
func (c *Ctx) Attach(f func() any) { c.fmu.Lock(); c.attach = f; c.fmu.Unlock() }

// Failf records a violation of the property in the current case. It is safe
// for concurrent use. The first few messages are kept.
func (c *Ctx) Failf(format string, args ...any) {
	c.failed.Add(1)
	c.fmu.Lock()
	if len(c.fails) < 20 {
		c.fails = append(c.fails, fmt.Sprintf(format, args...))
	}
	c.fmu.Unlock()
}

// Failed reports whether the case has recorded a violation.
func (c *Ctx) Failed() bool { return c.failed.Load() > 0 }

// Flush writes the violation file of the case now. Use it when the process
// is about to die (a leaked bubble goroutine makes the synctest runtime abort).
func (c *Ctx) Flush() {
	if c.Failed() {
		c.writeViolation()
	}
}

type violFile struct {
	Property string   `json:"property"`
	Case     string   `json:"case"`
	Index    int      `json:"index"`
	Tier     string   `json:"tier"`
	Seed     int64    `json:"seed"`
	Messages []string `json:"messages"`
	Data     any      `json:"data,omitempty"`
}

func (c *Ctx) writeViolation() {
	c.fmu.Lock()
	v := violFile{Property: c.Env.Prop, Case: c.Case, Index: c.Index, Tier: c.Env.Tier,
		Seed: c.Env.Seed, Messages: append([]string(nil), c.fails...)}
	at := c.attach
	c.fmu.Unlock()
	if at != nil {
		v.Data = at()
	}
	b, err := json.MarshalIndent(v, "", " ")
	if err != nil {
		v.Data = fmt.Sprintf("unmarshalable attachment: %v", err)
		b, _ = json.MarshalIndent(v, "", " ")
	}
	name := filepath.Join(c.Env.Out, fmt.Sprintf("viol-%d-%d.json", c.Env.Shard, c.Index))
	os.WriteFile(name, b, 0o644)
}

type partFile struct {
	Property   string           `json:"property"`
	Level      string           `json:"level"`
	Rule       string           `json:"rule"`
	Shard      int              `json:"shard"`
	Start      int              `json:"start"`
	CasesRun   int              `json:"cases_run"`
	CasesTotal int              `json:"cases_total"`
	Evals      int64            `json:"evaluations"`
	Distinct   []string         `json:"distinct"`
	Sigs       []string         `json:"schedule_signatures"`
	Sites      map[string]int64 `json:"sites"`
	Counters   map[string]int64 `json:"counters"`
	Samples    []any            `json:"samples"`
	Violations int64            `json:"violations"`
	Require    map[string]int64 `json:"require"`
	Assume     []string         `json:"assumptions"`
	Exhaustive bool             `json:"exhaustive"`
	WallS      float64          `json:"wall_s"`
}

func hexes(m map[uint64]struct{}) []string {
	out := make([]string, 0, len(m))
	for k := range m {
		out = append(out, strconv.FormatUint(k, 36))
	}
	return out
}

// RunWorker is the body of the single worker test function.
func RunWorker(t *testing.T) {
	env := LoadEnv()
	if env.Prop == "" {
		t.Skip("VERIF_PROP not set (this binary is driven by /verif/vcheck)")
	}
	chk := Lookup(env.Prop)
	if chk == nil {
		t.Fatalf("unknown property %q (have %v)", env.Prop, Props())
	}
	os.MkdirAll(env.Out, 0o755)
	jname := filepath.Join(env.Out, fmt.Sprintf("journal-%d.txt", env.Shard))
	jf, err := os.OpenFile(jname, os.O_CREATE|os.O_WRONLY|os.O_APPEND, 0o644)
	if err != nil {
		t.Fatal(err)
	}
	defer jf.Close()
	fmt.Fprintf(jf, "START shard=%d/%d start=%d tier=%s seed=%d\n", env.Shard, env.Shards, env.Start, env.Tier, env.Seed)

	acc := newAcc()
	begin := time.Now()
	idx, run := -1, 0
	chk.Cases(env, func(cs Case) bool {
		idx++
		if env.Only != "" {
			if cs.ID != env.Only {
				return true
			}
		} else if idx%env.Shards != env.Shard || idx < env.Start {
			return true
		}
		fmt.Fprintf(jf, "BEGIN %d %s\n", idx, cs.ID)
		c := &Ctx{T: t, Env: env, Case: cs.ID, Index: idx, acc: acc}
		t0 := time.Now()
		cs.Run(c)
		ms := time.Since(t0).Milliseconds()
		run++
		if c.Failed() {
			acc.mu.Lock()
			acc.viols++
			acc.mu.Unlock()
			c.writeViolation()
			fmt.Fprintf(jf, "END %d viol %dms\n", idx, ms)
		} else {
			fmt.Fprintf(jf, "END %d ok %dms\n", idx, ms)
		}
		return true
	})
	fmt.Fprintf(jf, "DONE total=%d run=%d\n", idx+1, run)

	acc.mu.Lock()
	p := partFile{
		Property: env.Prop, Level: chk.Level, Rule: chk.Rule, Shard: env.Shard, Start: env.Start,
		CasesRun: run, CasesTotal: idx + 1, Evals: acc.evals,
		Distinct: hexes(acc.distinct), Sigs: hexes(acc.sigs), Sites: acc.sites,
		Counters: acc.counters, Samples: acc.samples, Violations: acc.viols,
		Require: chk.Require, Assume: chk.Assumptions, WallS: time.Since(begin).Seconds(),
	}
	if chk.Exhaustive != nil {
		p.Exhaustive = chk.Exhaustive(env)
	}
	acc.mu.Unlock()
	b, err := json.Marshal(p)
	if err != nil {
		t.Fatalf("marshal part: %v", err)
	}
	name := filepath.Join(env.Out, fmt.Sprintf("part-%d-%d.json", env.Shard, env.Start))
	if err := os.WriteFile(name, b, 0o644); err != nil {
		t.Fatal(err)
	}
}
