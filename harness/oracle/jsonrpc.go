// Package oracle holds independent reference implementations used as oracles:
// written from the JSON-RPC 2.0 specification, the jrpc2 README and package
// documentation — not from the code under test.
package oracle

import (
	"bytes"
	"encoding/json"
	"fmt"
	"math/big"
	"strings"
	"unicode/utf8"
)

// MemberKind classifies one member of an inbound record.
type MemberKind int

const (
	Invalid MemberKind = iota // structurally invalid: answered with -32700/-32600
	Call                      // valid request with an id
	Note                      // valid notification
)

func (k MemberKind) String() string { return [...]string{"invalid", "call", "notification"}[k] }

// Member is the reference classification of one member under one reading of
// its (possibly duplicated) keys.
type Member struct {
	Kind        MemberKind
	ID          json.RawMessage // id to echo: the member's id if it is a string or number, else nil (= null)
	Method      string          // decoded method name (Call / Note)
	Params      json.RawMessage // nil if absent or null
	ReplyShaped bool            // no usable method, and a result or error key is present
	Why         string          // first defect found (Invalid)
}

// kv is one key/value pair of an object in source order.
type kv struct {
	k string
	v json.RawMessage
}

// objectPairs decodes a JSON object into its key/value pairs in source order,
// keeping duplicates. ok is false if raw is not an object.
func objectPairs(raw []byte) (pairs []kv, ok bool) {
	dec := json.NewDecoder(bytes.NewReader(raw))
	tok, err := dec.Token()
	if err != nil {
		return nil, false
	}
	if d, isDelim := tok.(json.Delim); !isDelim || d != '{' {
		return nil, false
	}
	for dec.More() {
		kt, err := dec.Token()
		if err != nil {
			return nil, false
		}
		key, isStr := kt.(string)
		if !isStr {
			return nil, false
		}
		var v json.RawMessage
		if err := dec.Decode(&v); err != nil {
			return nil, false
		}
		pairs = append(pairs, kv{key, v})
	}
	return pairs, true
}

func isNullRaw(v []byte) bool { return string(bytes.TrimSpace(v)) == "null" }

func first(v []byte) byte {
	v = bytes.TrimSpace(v)
	if len(v) == 0 {
		return 0
	}
	return v[0]
}

func classifyMap(obj map[string]json.RawMessage) Member {
	var m Member
	why := func(s string) {
		if m.Why == "" {
			m.Why = s
		}
	}
	// id: echo it iff it is a string or a number; null counts as absent
	idv, hasID := obj["id"]
	idOK := true
	if hasID && !isNullRaw(idv) {
		switch c := first(idv); {
		case c == '"', c == '-', c >= '0' && c <= '9':
			m.ID = bytes.TrimSpace(idv)
		default:
			idOK = false
			why("id is not a string, number or null")
		}
	}
	// version
	var ver string
	if v, ok := obj["jsonrpc"]; !ok {
		why("missing version")
	} else if first(v) != '"' || json.Unmarshal(v, &ver) != nil || ver != "2.0" {
		why("wrong version")
	}
	// method
	method, methodOK := "", false
	if v, ok := obj["method"]; ok {
		if first(v) == '"' && json.Unmarshal(v, &method) == nil && method != "" {
			methodOK = true
		} else {
			why("method is not a non-empty string")
		}
	}
	_, hasResult := obj["result"]
	_, hasError := obj["error"]
	if !methodOK {
		why("no method")
		m.ReplyShaped = hasResult || hasError
	} else if hasResult || hasError {
		why("mixed request and reply fields")
		m.ReplyShaped = true // treated leniently: some readings see a reply here
	}
	// params
	if v, ok := obj["params"]; ok && !isNullRaw(v) {
		if c := first(v); c != '[' && c != '{' {
			why("params is not structured")
		} else {
			m.Params = v
		}
	}
	for k := range obj {
		switch k {
		case "jsonrpc", "id", "method", "params", "result", "error":
		default:
			why("unknown field " + k)
		}
	}
	if m.Why != "" || !idOK {
		m.Kind = Invalid
		return m
	}
	m.Method = method
	if m.ID != nil {
		m.Kind = Call
	} else {
		m.Kind = Note
	}
	return m
}

// ClassifyMember classifies one member. If the member is an object with
// duplicate keys it returns the classification under last-key-wins (what
// encoding/json does) and under first-key-wins; otherwise one element.
func ClassifyMember(raw []byte) []Member {
	pairs, ok := objectPairs(raw)
	if !ok {
		return []Member{{Kind: Invalid, Why: "not an object"}}
	}
	last, firstm := map[string]json.RawMessage{}, map[string]json.RawMessage{}
	dup := false
	for _, p := range pairs {
		if _, seen := firstm[p.k]; seen {
			dup = true
		} else {
			firstm[p.k] = p.v
		}
		last[p.k] = p.v
	}
	out := []Member{classifyMap(last)}
	if dup {
		out = append(out, classifyMap(firstm))
	}
	return out
}

// Record is the reference reading of one inbound record.
type Record struct {
	ValidJSON bool
	IsArray   bool
	Members   [][]Member // per member: admissible classifications
	Raw       []json.RawMessage
}

// ClassifyRecord reads a whole inbound record.
func ClassifyRecord(rec []byte) Record {
	var r Record
	if !json.Valid(rec) {
		return r
	}
	r.ValidJSON = true
	if first(rec) == '[' {
		r.IsArray = true
		json.Unmarshal(rec, &r.Raw)
	} else {
		r.Raw = []json.RawMessage{bytes.TrimSpace(rec)}
	}
	for _, raw := range r.Raw {
		r.Members = append(r.Members, ClassifyMember(raw))
	}
	return r
}

// IDEqual reports whether two raw JSON ids denote the same value. nil = null.
func IDEqual(a, b json.RawMessage) bool {
	a, b = bytes.TrimSpace(a), bytes.TrimSpace(b)
	if len(a) == 0 {
		a = []byte("null")
	}
	if len(b) == 0 {
		b = []byte("null")
	}
	if bytes.Equal(a, b) {
		return true
	}
	if a[0] == '"' && b[0] == '"' {
		var x, y string
		return json.Unmarshal(a, &x) == nil && json.Unmarshal(b, &y) == nil && x == y
	}
	if a[0] != '"' && b[0] != '"' && a[0] != 'n' && b[0] != 'n' {
		x, _, e1 := big.ParseFloat(string(a), 10, 2000, big.ToNearestEven)
		y, _, e2 := big.ParseFloat(string(b), 10, 2000, big.ToNearestEven)
		return e1 == nil && e2 == nil && x.Cmp(y) == 0
	}
	return false
}

// Resp is one decoded response object emitted by the library.
type Resp struct {
	ID     json.RawMessage
	Result json.RawMessage // nil if error
	Code   int
	Msg    string
	Data   json.RawMessage
	IsErr  bool
}

// ParseResponses validates an emitted record as JSON-RPC 2.0 response(s):
// valid UTF-8 JSON, version "2.0", an id member, exactly one of result or
// error{integer code, string message}, no other members. It returns the
// decoded responses and whether the record was an array.
func ParseResponses(rec []byte) (out []Resp, isArray bool, err error) {
	return parseResponses(rec, true)
}

// ParseResponsesLoose is ParseResponses without insisting on the error
// message member (an application error with an empty message is encoded
// without one) and on UTF-8 validity (an echoed id taken from an input that
// was not UTF-8 itself).
func ParseResponsesLoose(rec []byte) (out []Resp, isArray bool, err error) {
	return parseResponses(rec, false)
}

func parseResponses(rec []byte, needMsg bool) (out []Resp, isArray bool, err error) {
	if needMsg && !utf8.Valid(rec) {
		return nil, false, fmt.Errorf("not valid UTF-8")
	}
	if !json.Valid(rec) {
		return nil, false, fmt.Errorf("not valid JSON")
	}
	var raws []json.RawMessage
	if first(rec) == '[' {
		isArray = true
		if err := json.Unmarshal(rec, &raws); err != nil {
			return nil, true, err
		}
		if len(raws) == 0 {
			return nil, true, fmt.Errorf("empty array")
		}
	} else {
		raws = []json.RawMessage{rec}
	}
	for _, raw := range raws {
		pairs, ok := objectPairs(raw)
		if !ok {
			return nil, isArray, fmt.Errorf("member is not an object: %s", raw)
		}
		seen := map[string]json.RawMessage{}
		for _, p := range pairs {
			if _, dup := seen[p.k]; dup {
				return nil, isArray, fmt.Errorf("duplicate key %q in %s", p.k, raw)
			}
			seen[p.k] = p.v
		}
		for k := range seen {
			switch k {
			case "jsonrpc", "id", "result", "error":
			default:
				return nil, isArray, fmt.Errorf("unexpected member %q in response %s", k, raw)
			}
		}
		if string(seen["jsonrpc"]) != `"2.0"` {
			return nil, isArray, fmt.Errorf("version is not \"2.0\" in %s", raw)
		}
		id, hasID := seen["id"]
		if !hasID {
			return nil, isArray, fmt.Errorf("response without id: %s", raw)
		}
		if c := first(id); !(c == '"' || c == '-' || (c >= '0' && c <= '9') || isNullRaw(id)) {
			return nil, isArray, fmt.Errorf("response id is not a string, number or null: %s", raw)
		}
		res, hasRes := seen["result"]
		e, hasErr := seen["error"]
		if hasRes == hasErr {
			return nil, isArray, fmt.Errorf("response must have exactly one of result and error: %s", raw)
		}
		r := Resp{ID: id}
		if hasRes {
			r.Result = res
		} else {
			r.IsErr = true
			ep, ok := objectPairs(e)
			if !ok {
				return nil, isArray, fmt.Errorf("error is not an object: %s", raw)
			}
			var haveCode, haveMsg bool
			for _, p := range ep {
				switch p.k {
				case "code":
					var n json.Number
					if json.Unmarshal(p.v, &n) != nil || strings.ContainsAny(n.String(), ".eE") {
						return nil, isArray, fmt.Errorf("error code is not an integer: %s", raw)
					}
					fmt.Sscan(n.String(), &r.Code)
					haveCode = true
				case "message":
					if first(p.v) != '"' || json.Unmarshal(p.v, &r.Msg) != nil {
						return nil, isArray, fmt.Errorf("error message is not a string: %s", raw)
					}
					haveMsg = true
				case "data":
					r.Data = p.v
				default:
					return nil, isArray, fmt.Errorf("unexpected member %q in error object %s", p.k, raw)
				}
			}
			if !haveCode {
				return nil, isArray, fmt.Errorf("error without code: %s", raw)
			}
			if !haveMsg && needMsg {
				return nil, isArray, fmt.Errorf("error without message: %s", raw)
			}
		}
		out = append(out, r)
	}
	return out, isArray, nil
}
