// Package sched controls and records goroutine interleavings of the library
// through the build-tagged hook points (jrpc2.VerifSetHook).
//
// Inside a testing/synctest bubble, a "delay" at a hook visit parks the
// visiting goroutine with time.Sleep(1ns) of virtual time: it resumes only
// when every other goroutine of the bubble is durably blocked, i.e. it loses
// every race it is part of at that point. Policies:
//
//   - profile: no delays; learn the visit keys site#k of a scenario;
//   - delay set: park exactly at the given visit keys (delay-bounded
//     enumeration, d = |set|);
//   - perturb: park each visit with probability p from a seeded PRNG;
//   - stress (outside a bubble): runtime.Gosched at each visit.
//
// Every visit is appended to a trace; the hash of the trace is the schedule
// signature reported in the evidence.
package sched

import (
	"fmt"
	"hash/fnv"
	"math/rand/v2"
	"runtime"
	"sort"
	"sync"
	"sync/atomic"
	"testing/synctest"
	"time"

	"github.com/creachadair/jrpc2"
)

// Controller is the hook controller for one scenario execution.
type Controller struct {
	mu      sync.Mutex
	visits  map[string]int
	trace   []string
	delays  map[string]bool
	prob    float64
	rng     *rand.Rand
	gosched bool
	parked  atomic.Int32
	parks   atomic.Int64
	onVisit func(site string) // optional observer, called outside the lock
	counter func(site string) // optional online monitor
}

// New returns a controller with no delays.
func New() *Controller {
	return &Controller{visits: map[string]int{}, delays: map[string]bool{}}
}

// WithDelays parks at exactly the given visit keys ("site#k").
func (c *Controller) WithDelays(keys ...string) *Controller {
	for _, k := range keys {
		c.delays[k] = true
	}
	return c
}

// WithPerturb parks each visit with probability p.
func (c *Controller) WithPerturb(p float64, rng *rand.Rand) *Controller {
	c.prob, c.rng = p, rng
	return c
}

// WithGosched yields the processor at every visit (stress outside a bubble).
func (c *Controller) WithGosched() *Controller { c.gosched = true; return c }

// OnVisit registers an observer called at every hook visit, outside the
// controller's lock and before any park.
func (c *Controller) OnVisit(f func(site string)) *Controller { c.onVisit = f; return c }

// Install makes c the process-wide hook. Only one scenario may run at a time
// in a process.
func (c *Controller) Install() { jrpc2.VerifSetHook(c.Hook) }

// Uninstall removes the process-wide hook.
func Uninstall() { jrpc2.VerifSetHook(nil) }

// Hook is the function installed with jrpc2.VerifSetHook.
func (c *Controller) Hook(site string) {
	if c.onVisit != nil {
		c.onVisit(site)
	}
	c.mu.Lock()
	k := c.visits[site]
	c.visits[site] = k + 1
	key := fmt.Sprintf("%s#%d", site, k)
	c.trace = append(c.trace, key)
	park := c.delays[key]
	if !park && c.rng != nil && c.prob > 0 {
		park = c.rng.Float64() < c.prob
	}
	c.mu.Unlock()
	if park {
		c.parks.Add(1)
		c.parked.Add(1)
		time.Sleep(time.Nanosecond)
		c.parked.Add(-1)
	} else if c.gosched {
		runtime.Gosched()
	}
}

// Settle blocks until the bubble is quiescent: every other goroutine is
// durably blocked and no goroutine is merely parked at a hook. It must be
// called from inside the bubble.
func (c *Controller) Settle() {
	for {
		synctest.Wait()
		if c.parked.Load() == 0 {
			return
		}
		time.Sleep(time.Nanosecond)
	}
}

// Keys returns the visit keys seen so far, in first-visit order.
func (c *Controller) Keys() []string {
	c.mu.Lock()
	defer c.mu.Unlock()
	return append([]string(nil), c.trace...)
}

// Visits returns per-site visit counts.
func (c *Controller) Visits() map[string]int {
	c.mu.Lock()
	defer c.mu.Unlock()
	out := make(map[string]int, len(c.visits))
	for k, v := range c.visits {
		out[k] = v
	}
	return out
}

// Parks returns how many times a goroutine was parked.
func (c *Controller) Parks() int64 { return c.parks.Load() }

// Signature hashes the ordered trace of visits.
func (c *Controller) Signature() uint64 {
	c.mu.Lock()
	defer c.mu.Unlock()
	h := fnv.New64a()
	for _, k := range c.trace {
		h.Write([]byte(k))
		h.Write([]byte{0})
	}
	return h.Sum64()
}

// DelaySets enumerates all delay sets of size 1..d over keys (deduplicated,
// sorted), calling yield for each; it stops if yield returns false.
func DelaySets(keys []string, d int, yield func([]string) bool) {
	uniq := map[string]bool{}
	var ks []string
	for _, k := range keys {
		if !uniq[k] {
			uniq[k] = true
			ks = append(ks, k)
		}
	}
	sort.Strings(ks)
	for i := range ks {
		if !yield([]string{ks[i]}) {
			return
		}
	}
	if d >= 2 {
		for i := range ks {
			for j := i + 1; j < len(ks); j++ {
				if !yield([]string{ks[i], ks[j]}) {
					return
				}
			}
		}
	}
}

// Yield yields the processor (busy-wait helper for real-time stress).
func Yield() { runtime.Gosched() }

// HasDelays reports whether the controller parks goroutines (delay set or
// perturbation), i.e. whether Quiesce can differ from Settle.
func (c *Controller) HasDelays() bool { return len(c.delays) > 0 || (c.rng != nil && c.prob > 0) }

// Quiesce blocks until every other goroutine of the bubble is durably blocked,
// WITHOUT releasing goroutines parked at a hook: the harness's next action then
// happens while they are still parked, i.e. they lose the race against it too.
// With no delays configured it is the same as Settle.
func (c *Controller) Quiesce() { synctest.Wait() }
