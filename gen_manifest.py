#!/usr/bin/env python3
"""Regenerates MANIFEST.json from the table below (kept in one place so the file stays valid)."""
import json, os, subprocess
ROOT = os.path.dirname(os.path.abspath(__file__))

def repo_commits(prefix):
    out = subprocess.run(["git", "-C", "/repo", "log", "--format=%h %s"], capture_output=True, text=True).stdout
    return [l.split()[0] for l in out.splitlines() if l.split(" ", 1)[1].startswith(prefix)]

# property -> (level, technique, level text, level note, design ref)
BUBBLE = "trusts Go 1.26.8 runtime and testing/synctest quiescence (all goroutines durably blocked), the harness channel vchan and the hook controller; schedules between hook points are the Go scheduler's; holds on the executions explored only"
INPUT = "trusts Go 1.26.8 runtime, encoding/json and the independent reference oracle written from the documentation; holds on the inputs enumerated/sampled only"
# property -> (level, technique, level text, level note)
CHECKS = {
 "C01": ("exploration", "runtime monitor: reference response calculator vs bytes emitted by a real server at synctest quiescent points, enumerated scripts x gate-release orders x delay-bounded schedules, race detector",
         "Every execution of the real server on enumerated message scripts is compared at each quiescent point with an exact per-message response prediction (unique ids/tags/tokens): nothing early, nothing lost or duplicated, array flag and order, handlers exactly once.", BUBBLE),
 "C02": ("exploration", "runtime monitor: independent JSON-RPC member classifier vs live server output + handler-invocation log + liveness probe, product of field variants and seeded byte mutations",
         "Each input record is sent to a live server; emitted bytes, handler invocation counts and a follow-up probe are judged by a reference classifier written from the spec/README; the variant product is exhaustive in the thorough tier, sampled in quick.", INPUT),
 "C03": ("exploration", "runtime monitor: handler enter/exit event log checked at synctest quiescent points over enumerated scripts x release orders x delay-bounded schedules, race detector; built-in call over a slow assigner under a mutex-deadlock detector, and behind a running notification whose effect must be in its answer",
         "Ordering oracle (notification exit before later enter) and work-conservation oracle at every quiescent point of every execution; each hook visit parked in turn.", BUBBLE),
 "C04": ("exploration", "runtime monitor: raw scripted peer with unique reply tokens vs values returned by real Client.Call/Batch, enumerated reply permutations/partitions/extras, pending-set snapshot, delay-bounded schedules; rendezvous transport with a single-threaded peer under a mutex-deadlock detector (stop-the-world stack snapshots)",
         "All permutations and groupings of replies (plus duplicates, malformed, unknown ids, server requests) for small operation sets; each slot must return the first token sent for its id.", BUBBLE),
 "C05": ("fault_enumeration", "runtime monitor: state-set reference model filtered by observed API returns / hooks / transmissions after every event; k-th Send and k-th Recv failure enumerated for every history; rendezvous transport with a single-threaded peer under a mutex-deadlock detector",
         "Histories of replies, cancellations, deadlines, Close, EOF, transport failures and races are executed against the real client with a failure injected at every channel operation; exactly-once return, OnCancel/OnStop accounting and leak-freedom are decided at quiescent points.", BUBBLE),
 "C06": ("exploration", "runtime monitor: slot counter at the library's own invoke hook sites, checked online and at quiescent points; enumerated batch shapes, release orders, CancelRequest of waiters, cancellation racing a release; back-pressure (held Send) with a mutex-deadlock detector; limits above NumCPU; deadlines with causes in virtual time",
         "The number of invocations holding a semaphore slot is bounded online and equals min(limit, runnable) at every quiescent point; cancelled waiters never run.", BUBBLE),
 "C07": ("exploration", "runtime monitor: sequential reservation reference model (state set) vs reserved-id snapshot, replies and handler contexts after every operation of enumerated histories; reply held inside Send / bookkeeping parked at hook points for the two edges of the reservation window",
         "All short histories of calls with reused ids, batches, CancelRequest, gate releases and parked dispatch; the observed reserved-id set, replies and handler contexts must be admissible under the model at every step.", BUBBLE),
 "C08": ("fault_enumeration", "runtime monitor + crash attribution: scenarios x stop cause injected at every Recv/Send x channel flavour x post-stop traffic x restart (second session ended by Stop) x channels whose Close fails, channel handed over as a non-comparable value, judged at quiescent points; worker death = violation",
         "A failure is injected at every channel operation of each scenario (plus Stop and peer close) and the shutdown contract (status, handler completion, context cancellation, notification delivery, no leak, restart) is checked.", BUBBLE),
 "C09": ("exploration", "runtime monitor: push reference model vs Callback returns, emitted records and outstanding-callback snapshot after every operation of enumerated histories (virtual time for deadlines)",
         "All short histories of callbacks, replies (late, duplicate, unknown), cancellations, deadlines, colliding client calls and Stop; emitted records must be exactly those the pushes and calls account for.", BUBBLE),
 "C10": ("exploration", "runtime monitor: instrumented channel with online overlap counters + race-detector shadow fields + record validator under real-time stress and delay-bounded bubble scenarios",
         "The channel the library is given detects a second concurrent Send/Recv, Send||Close, a second Close and incomplete records at the instant they happen, under stress and under every single-hook delay.", "trusts the Go race detector and the harness channel; overlap is only detected when it actually occurs in an explored execution"),
 "C11": ("exploration", "runtime monitor: chunk-controlled reader under every cut set; received records compared byte for byte with sent records; deterministic two-thread schedules with one operation suspended inside its transport call while a sibling channel of the same Framing value or the other direction of the same channel runs; a writer that refuses every Write of seeded Sends (receiver sees exactly the records whose Send returned nil)",
         "Round trip of pipelined record sequences through every framing under exhaustive small cut sets and boundary sizes; channels used in company (siblings, duplex) must not disturb each other.", INPUT),
 "C12": ("fault_enumeration", "runtime monitor: three reference decoders vs Recv results on exhaustive token strings, absurd lengths, every truncation point, bodies around 4 MiB, channel lifecycles (exhausted / closed / successors); crash attribution by journal",
         "Every token string up to the bound, every truncation point of valid streams and absurd lengths are decoded by the real framings and compared with reference decoders; panics and fatal errors are violations.", INPUT),
 "C13": ("exploration", "runtime monitor: every record captured on the instrumented channel / bridge body validated and parsed back against the generated values; ParseRequests vs reference classifier and differentially vs a live server; concurrent emission stress; values that cannot be encoded (whatever is emitted must still be well formed)",
         "Generated method names, params, results and errors are driven through every emitting path of the real library; the bytes on the wire must be one-line valid UTF-8 JSON-RPC and parse back to what was generated; ParseRequests flags exactly the structurally invalid members.", INPUT),
 "C14": ("exploration", "runtime monitor: grammar of handler errors through a live server/client, reference ErrorCode classifier; all 2^32 codes in thorough",
         "Errors generated from a grammar cross the real wire; code, message, data and sentinel identity are compared; the pure code identity is exhaustive in thorough.", INPUT),
 "C15": ("exploration", "runtime monitor: reflect.MakeFunc functions capture arguments; encoding/json oracle on fresh values; Check accept/reject grammar",
         "Signatures x options x params are executed through the real wrapper and compared with an encoding/json oracle; no panics.", INPUT),
 "C16": ("exploration", "runtime monitor: captured arguments / decoded targets vs encoding/json oracle for Positional, Args, Obj",
         "Arities, names and params shapes are enumerated and compared with per-argument decode oracles; untouched targets checked with sentinels.", INPUT),
 "C17": ("exploration", "runtime monitor: reference resolver vs identity tags returned through a live server; recording assigners observe InboundRequest/ServerFromContext; method member re-spelt on the wire (escape variants); assigner modified while the server runs",
         "All method-name strings over the boundary alphabet, as names and map keys, nested ServiceMaps, both DisableBuiltin settings; every JSON spelling of a name dispatches alike; rpc.serverInfo follows a changing assigner.", INPUT),
 "C18": ("exploration", "runtime monitor: per-POST oracle (reference classifier, unique tags, handler log) on a real Bridge via httptest; concurrent POSTs with colliding ids gated inside synctest bubbles, delay-bounded schedules, real-time stress under the race detector",
         "Bodies from the request-variant product and concurrent POSTs sharing ids are answered by the real bridge; each caller must get exactly its own responses with its own id text, invalid members their own errors, refused requests no handler run.", BUBBLE),
 "C19": ("exploration", "runtime monitor: reference query-value typer vs ParseQuery; live Getter status mapping; HTTP-channel scenarios in synctest bubbles with body-close accounting and leak scan, incl. hundreds of operations over one long-lived channel compared op by op with a direct connection",
         "Exhaustive short query values plus grammar-directed ones; Getter status/body; jhttp.Channel equivalence with a direct connection and cleanup at Close.", BUBBLE),
 "C20": ("exploration", "runtime monitor: reference model of Loop vs logs of instrumented services/accepter at quiescent points; enumerated scripts, delay-bounded schedules, NetAccepter over in-memory listener (half-closable connections), accept errors of seven flavours, failing connections, exactly one Close per served channel",
         "All short scripts of connects, closes, cancels, accepter errors and Assigner failures; Finish exactly once after exit, Loop returns last.", BUBBLE),
}
PENDING = {}

def main():
    props = [json.loads(l) for l in open(os.path.join(ROOT, "properties.jsonl"))]
    checks, na = [], []
    for p in props:
        pid = p["id"]
        if pid in CHECKS:
            level, tech, text, note = CHECKS[pid]
            ref = "DESIGN.md section 5 " + pid
            checks.append({
                "property_id": pid,
                "quick_cmd": "./vcheck %s quick" % pid,
                "thorough_cmd": "./vcheck %s thorough" % pid,
                "evidence_file": "/verif/evidence/%s.json" % pid,
                "replay_cmd_template": "./vcheck %s replay {path}" % pid,
                "engine": "vcheck",
                "level_claimed": {"category": level, "text": text, "design_ref": ref},
                "level_note": note,
                "technique": tech,
            })
        else:
            na.append({"property_id": pid, "reason": PENDING.get(pid, "check not built yet in this snapshot (runtime-monitoring check planned, see DESIGN.md section 5); not claimed until it exists")})
    m = {
        "version": 1,
        "setup_cmd": "./vcheck build",
        "hooks": {
            "guard": "verif",
            "enable": "go build tag: go1.26.8 test -c -tags verif (verifPoint sites call the hook installed with jrpc2.VerifSetHook; Server/Client.VerifSnapshot)",
            "baseline_off_cmd": "cd /repo && GOFLAGS=-mod=mod GOPROXY=off GOSUMDB=off go test -vet=off -count=1 ./...",
            "source_commits": repo_commits("verif:"),
            "add_only": True,
        },
        "engines": [{
            "name": "vcheck", "path": "/verif/vcheck",
            "serves_properties": sorted(CHECKS),
            "kind_free_text": "python driver + Go test binary (harness/) built against /repo with -tags verif and -race; worker processes run the real library under monitors (event-log oracles at synctest quiescent points, instrumented channel, reference decoders/classifiers)",
        }],
        "checks": checks,
        "not_applicable": na,
        "notes": "Runtime monitoring only. Exit codes: 0 held, 1 violation (VIOLATION property=<id> replay=<path>), 2 inconclusive. VERIF_SEED honoured. Fix commits in /repo: " + ", ".join(repo_commits("fix:")),
    }
    json.dump(m, open(os.path.join(ROOT, "MANIFEST.json"), "w"), indent=1)
    print("checks:", len(checks), "not_applicable:", len(na))

main()
