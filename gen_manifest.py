#!/usr/bin/env python3
"""Regenerates MANIFEST.json from the table below (kept in one place so the file stays valid)."""
import json, os, subprocess
ROOT = os.path.dirname(os.path.abspath(__file__))

def repo_commits(prefix):
    out = subprocess.run(["git", "-C", "/repo", "log", "--format=%h %s"], capture_output=True, text=True).stdout
    return [l.split()[0] for l in out.splitlines() if l.split(" ", 1)[1].startswith(prefix)]

# property -> (level, technique, level text, level note, design ref)
CHECKS = {
 "C03": ("exploration",
         "runtime monitor: handler enter/exit event log checked at synctest quiescent points over enumerated scripts x release orders x delay-bounded schedules, race detector on",
         "Every execution of the real server on enumerated gated scripts is judged at each quiescent point by an ordering oracle (notification exit before later enter) and a work-conservation oracle; schedules are widened by parking each hook visit. Holds on the executions explored, not beyond the script/delay bounds.",
         "trusts Go 1.26.8 runtime, testing/synctest quiescence, the harness channel; schedules between hook points are the Go scheduler's",
         "DESIGN.md section 5 C03"),
}
PENDING = {}

def main():
    props = [json.loads(l) for l in open(os.path.join(ROOT, "properties.jsonl"))]
    checks, na = [], []
    for p in props:
        pid = p["id"]
        if pid in CHECKS:
            level, tech, text, note, ref = CHECKS[pid]
            checks.append({
                "property_id": pid,
                "quick_cmd": "./vcheck %s quick" % pid,
                "thorough_cmd": "./vcheck %s thorough" % pid,
                "evidence_file": "/verif/evidence/%s.json" % pid,
                "replay_cmd_template": "./vcheck %s replay {path}" % pid,
                "engine": "vcheck",
                "level_claimed": {"category": level, "text": text, "design_ref": ref},
                "level_note": note,
                "technique": tech,
            })
        else:
            na.append({"property_id": pid, "reason": PENDING.get(pid, "check not built yet in this snapshot (runtime-monitoring check planned, see DESIGN.md section 5); not claimed until it exists")})
    m = {
        "version": 1,
        "setup_cmd": "./vcheck build",
        "hooks": {
            "guard": "verif",
            "enable": "go build tag: go1.26.8 test -c -tags verif (verifPoint sites call the hook installed with jrpc2.VerifSetHook; Server/Client.VerifSnapshot)",
            "baseline_off_cmd": "cd /repo && GOFLAGS=-mod=mod GOPROXY=off GOSUMDB=off go test -vet=off -count=1 ./...",
            "source_commits": repo_commits("verif:"),
            "add_only": True,
        },
        "engines": [{
            "name": "vcheck", "path": "/verif/vcheck",
            "serves_properties": sorted(CHECKS),
            "kind_free_text": "python driver + Go test binary (harness/) built against /repo with -tags verif and -race; worker processes run the real library under monitors (event-log oracles at synctest quiescent points, instrumented channel, reference decoders/classifiers)",
        }],
        "checks": checks,
        "not_applicable": na,
        "notes": "Runtime monitoring only. Exit codes: 0 held, 1 violation (VIOLATION property=<id> replay=<path>), 2 inconclusive. VERIF_SEED honoured. Fix commits in /repo: " + ", ".join(repo_commits("fix:")),
    }
    json.dump(m, open(os.path.join(ROOT, "MANIFEST.json"), "w"), indent=1)
    print("checks:", len(checks), "not_applicable:", len(na))

main()
